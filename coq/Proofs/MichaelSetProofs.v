(** * MichaelHashSet model (LV.Model.MichaelSet = product of Michael-list models): for every schedule every bucket satisfies
      C13's full-linearizability invariant on the trace it has seen (with the true timing of its operations inside the
      product execution), hence the history of every bucket is linearizable.  Lifted from C13's per-operation lemma
      [safe2_run_op] (Proofs/MichaelListFullProofs.v) by the generic product rule (Proofs/ProductProofs.v). *)
From Coq Require Import ZArith List Bool Arith PeanoNat Lia String.
From LV Require Import Base.Conc Base.Events Base.Lin Spec.Specs Proofs.LinProofs.
From LV Require Import Model.MichaelList Model.Product Model.MichaelSet Proofs.ProductProofs.
From LV Require Import Proofs.MichaelListBase Proofs.MichaelListInv Proofs.MichaelListSteps Proofs.MichaelListLin Proofs.MichaelListProofs
                       Proofs.MichaelListFullInv Proofs.MichaelListFullActs Proofs.MichaelListFullProofs.
Import ListNotations.

Section MSP.
  Variables (nb : nat) (hs : list Z).
  Hypothesis Hnb : 0 < nb.

  Notation safe2 := (@Conc.safe MichaelList.G MichaelList.V ev aux2 lview2 view2 Inv2).
  Notation safeP := (@Conc.safe (nat -> MichaelList.G) MichaelList.V (nat * ev) (AuxP aux2) (list lview2) (viewP view2 nb) (InvP Inv2 nb)).

  Lemma bucket_lt k : bucket nb hs k < nb.
  Proof. unfold bucket. destruct (Nat.ltb_spec (Z.to_nat (Z.land (hash hs k) (Z.of_nat nb - 1))) nb); [assumption|exact Hnb]. Qed.

  (** every bucket's view of the thread is idle *)
  Definition idleLv (Lv : list lview2) : Prop :=
    List.length Lv = nb /\ forall b, b < nb -> exists lv cd, nth_error Lv b = Some (lv, cd) /\ lv_st lv = @Idle SetSpec.

  Definition QopP : option (lsmap) -> list lview2 -> Prop := fun r Lv' => match r with Some _ => idleLv Lv' | None => True end.

  Lemma safeP_run_op fuel sf ic t o lsm Lv : idleLv Lv -> safeP t (run_opP nb hs fuel sf ic t o lsm) Lv QopP.
  Proof.
    intros [Hlen Hidle]. unfold run_opP. set (b := bucket nb hs (nth 1 o 0%Z)).
    assert (Hb : b < nb) by apply bucket_lt.
    destruct (Hidle b Hb) as (lv & cd & Hn & Hi).
    apply Conc.safe_bind.
    eapply Conc.safe_weaken; [|eapply (lift_safe view2 Inv2 t Hb) with (Q := fun r l' => match r with None => True | Some _ => exists F' own' cd', l' = (mkLV F' own' (@Idle SetSpec), cd') end); [|exact Hn|exact Hlen]].
    - intros r Lv' (K1 & (l' & K2 & K3) & K4). destruct r as [ls'|]; cbn; [|exact I].
      split; [exact K1|]. intros b0 Hb0. destruct (Nat.eq_dec b0 b) as [->|Hne].
      + destruct K3 as (F' & own' & cd' & ->). exists (mkLV F' own' (@Idle SetSpec)), cd'. split; [exact K2|reflexivity].
      + rewrite (K4 b0 Hne). apply Hidle; exact Hb0.
    - apply safe2_run_op; [exact Hi|intros; exact I|intros; eauto].
  Qed.

  Lemma safeP_run_ops fuel sf ic t : forall os lsm Lv, idleLv Lv -> safeP t (run_opsP nb hs fuel sf ic t os lsm) Lv (fun _ _ => True).
  Proof.
    induction os as [|o r IH]; intros lsm Lv H; cbn [run_opsP]; [exact I|].
    apply Conc.safe_bind. eapply Conc.safe_weaken; [|apply safeP_run_op; exact H].
    intros [lsm'|] Lv' H'; cbn in H'; [apply IH; exact H'|exact I].
  Qed.

  Lemma safeP_thread fuel sf ic t os Lv : idleLv Lv -> safeP t (thread_progP nb hs fuel sf ic t os) Lv (@Conc.QTrue (list lview2)).
  Proof.
    intros [Hlen Hidle]. unfold thread_progP.
    destruct (Hidle 0 Hnb) as (lv & cd & Hn & Hi).
    apply Conc.safe_bind.
    eapply Conc.safe_weaken; [|eapply (lift_safe view2 Inv2 t Hnb) with (Q := fun _ l' => l' = (lv, cd)); [|exact Hn|exact Hlen]].
    - intros r Lv' (K1 & (l' & K2 & ->) & K4).
      eapply Conc.safe_weaken; [|apply safeP_run_ops]. { intros; exact I. }
      split; [exact K1|]. intros b0 Hb0. destruct (Nat.eq_dec b0 0) as [->|Hne].
      + exists lv, cd. split; [exact K2|exact Hi].
      + rewrite (K4 b0 Hne). apply Hidle; exact Hb0.
    - apply safe2_neutral with (v := v0); [apply neutral_begin|]. reflexivity.
  Qed.

  Lemma nth_thread_progsP fuel sf ic : forall ths t0 t p,
    nth_error (thread_progsP nb hs fuel sf ic t0 ths) t = Some p -> exists os, p = thread_progP nb hs fuel sf ic (t0 + t) os.
  Proof.
    induction ths as [|os r IH]; intros t0 t p H; cbn [thread_progsP] in H.
    - destruct t; discriminate.
    - destruct t as [|t]; cbn in H.
      + inversion H; subst. exists os. rewrite Nat.add_0_r. reflexivity.
      + destruct (IH (S t0) t p H) as (os' & ->). exists os'. f_equal. lia.
  Qed.

  Lemma init_okP fuel sf ic ths : Conc.cfg_ok (viewP view2 nb) (InvP Inv2 nb) (init_cfgP nb hs fuel sf ic ths).
  Proof.
    exists (fun _ => aux20). split.
    - intros b Hb. cbn. exact Inv2_init.
    - intros t p Hp. cbn [init_cfgP Conc.threads] in Hp. destruct (nth_thread_progsP _ _ _ _ _ _ _ Hp) as (os & ->).
      apply safeP_thread. split; [apply viewP_length|]. intros b Hb.
      exists (view (b_base aux20) (0 + t)), (b_code aux20 (0 + t)). split; [rewrite viewP_nth by exact Hb; reflexivity|reflexivity].
  Qed.

  (** ** every bucket of the MichaelHashSet model is linearizable, every schedule *)
  Theorem michaelset_bucket_linearizable_lp fuel sf ic ths c :
    Conc.reach (init_cfgP nb hs fuel sf ic ths) c ->
    forall b, b < nb -> exists atr, lp_valid SetSpec atr /\ erase atr = full_hist (projb b (Conc.trace c)).
  Proof.
    intros Hr b Hb. destruct (Conc.reach_Inv (init_okP fuel sf ic ths) Hr) as (A & HI).
    destruct (HI b Hb) as (L & _ & [(S & st & H1 & _) (pend & H2 & _)]).
    exists (a_atr (b_base (A b))). split; [exists (S, st); exact H1|]. unfold full_hist. symmetry. exact (f_equal fst H2).
  Qed.

  Theorem michaelset_bucket_linearizable fuel sf ic ths c :
    Conc.reach (init_cfgP nb hs fuel sf ic ths) c ->
    forall b, b < nb -> linearizable SetSpec (full_hist (projb b (Conc.trace c))).
  Proof.
    intros Hr b Hb. destruct (michaelset_bucket_linearizable_lp fuel sf ic ths c Hr b Hb) as (atr & Hv & <-).
    apply lp_valid_linearizable. exact Hv.
  Qed.
End MSP.
