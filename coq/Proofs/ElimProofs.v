(** * Linearizability of the Treiber stack WITH elimination back-off (LV.Model.Elim) for every schedule.

    Same proof rule and the same invariant as LV.Proofs.TreiberProofs, extended by the elimination protocol:

    - Linearization points: successful CAS on m_Top (push, non-empty pop), validated null load (empty pop), and the
      ACTIVE COLLIDER'S STORE OF op_collided into the partner's descriptor, which linearizes BOTH operations in one
      step — the push first, the pop right after it — so the abstract stack is the same before and after.
    - The passive partner is helped: its view (phase) cannot be changed by the collider, so its linearization
      status is read off the CONCRETE state: a thread whose record is (or was) published and whose descriptor says
      op_collided is linearized ([status_of] looks at d_stat).
    - Slot invariant [SI]: a record found in a slot belongs to a thread that is waiting with status op_waiting
      and whose descriptor holds what it published.
    - Hand-over invariant [HI]: a node sitting in a pop descriptor is spent (its push is linearized), is not in the
      stack and sits in no other pop descriptor; it gives [elim_exactly_one_popper].

    MODELLING ASSUMPTIONS, stated once:
    (smr_safe) nodes are never reused (see LV.Model.Treiber / TreiberProofs): built into the model.
    (slot lock) the plain accesses the C++ code performs while it holds collisions[i].lock (slot.pRec, himOp->idOp,
      himOp->pVal / op.pVal) are part of the model step of the first atomic access after the acquisition
      ([a_after_lock], [a_withdraw]).  That these blocks are atomic in the real code is exactly what the slot
      spin-lock provides (C22: spin_lock mutual exclusion for every schedule).  The lock/unlock accesses themselves
      are modelled (they are scheduling points and are compared step by step with the real code), but the proof
      below does not need them: every critical section is a single model step. *)
From Coq Require Import ZArith List String Bool Lia PeanoNat.
From LV Require Import Base.Conc Base.Events Base.Lin Spec.Specs Proofs.LinProofs Model.Treiber Proofs.TreiberProofs Model.Elim.
Import ListNotations.
Local Open Scope Z_scope.
Local Open Scope string_scope.
Local Open Scope list_scope.

(** ** auxiliary state *)
Inductive ekind := KPush (v : Z) (q : ptr) | KPop.

Definition isp (ek : ekind) : bool := match ek with KPush _ _ => true | KPop => false end.
Definition pval (t k : nat) (ek : ekind) : ptr := match ek with KPush _ _ => Some (t, k) | KPop => None end.
Definition pend (ek : ekind) : status Stack :=
  match ek with KPush v _ => SPend (Push v) | KPop => SPend Pop end.

Inductive phase :=
| EIdle (k : nat)
| EPush (k : nat) (v : Z)                   (* push invoked, node (t,k) not yet initialised *)
| EPushL (k : nat) (v : Z) (p : ptr)        (* node (t,k) private, next = p, value = v *)
| EPushed (k : nat) (v : Z)                 (* linearized (by the CAS or by an elimination it knows about) *)
| EPop (k : nat)
| EPopH (k : nat) (p : ptr)
| EPopV (k : nat) (n : node)
| EPopR (k : nat) (n : node) (nx : ptr)
| EPopG (k : nat) (n : node) (v : Z)        (* linearized by the CAS, n is mine *)
| EPopE (k : nat)                           (* linearized as empty *)
| EEnt (k : nat) (ek : ekind)               (* in backoff(): status = op_waiting stored, record not published *)
| EPub (k : nat) (ek : ekind) (i : nat)     (* record published in slot i (it may have been overwritten or taken since) *)
| EFin (k : nat) (ek : ekind)               (* record withdrawn, final status not yet read *)
| EPopX (k : nat) (n : node) (v : Z).       (* pop linearized by elimination and aware of it: got node n *)

Definition lim (p : phase) : nat :=
  match p with
  | EPushed k _ => S k
  | EIdle k | EPush k _ | EPushL k _ _ | EPop k | EPopH k _ | EPopV k _ | EPopR k _ _ | EPopG k _ _ | EPopE k
  | EEnt k _ | EPub k _ _ | EFin k _ | EPopX k _ _ => k
  end.

(** number of nodes the thread has initialised *)
Definition ilim (p : phase) : nat :=
  match p with
  | EPushL k _ _ | EPushed k _ => S k
  | EEnt k ek | EPub k ek _ | EFin k ek => if isp ek then S k else k
  | EIdle k | EPush k _ | EPop k | EPopH k _ | EPopV k _ | EPopR k _ _ | EPopG k _ _ | EPopE k | EPopX k _ _ => k
  end.

Lemma lim_le_ilim p : (lim p <= ilim p)%nat.
Proof. destruct p as [| | | | | | | | | |k ek|k ek i|k ek|]; cbn; try lia; destruct ek; cbn; lia. Qed.

Definition lin_of (g : G) (t : nat) (ek : ekind) : status Stack :=
  match ek with
  | KPush v _ => SLin (Push v) (RBool true)
  | KPop => SLin Pop (RVal (match d_val g t with Some n => Some (val g n) | None => None end))
  end.

Definition status_of (g : G) (t : nat) (p : phase) : status Stack :=
  match p with
  | EIdle _ => SIdle
  | EPush _ v | EPushL _ v _ => SPend (Push v)
  | EPushed _ v => SLin (Push v) (RBool true)
  | EPop _ | EPopH _ _ | EPopV _ _ | EPopR _ _ _ => SPend Pop
  | EPopG _ _ v | EPopX _ _ v => SLin Pop (RVal (Some v))
  | EPopE _ => SLin Pop (RVal None)
  | EEnt _ ek => pend ek
  | EPub _ ek _ | EFin _ ek => if Nat.eqb (d_stat g t) 2 then lin_of g t ek else pend ek
  end.

Record Aux := mkA { stk : list node; atr : list (aev Stack); ph : nat -> phase }.
Definition view (a : Aux) (t : nat) : phase := ph a t.

Definition set_ph (f : nat -> phase) (t : nat) (p : phase) : nat -> phase :=
  fun x => if Nat.eqb x t then p else f x.
Lemma set_ph_same f t p : set_ph f t p t = p.
Proof. unfold set_ph. now rewrite Nat.eqb_refl. Qed.
Lemma set_ph_other f t p u : u <> t -> set_ph f t p u = f u.
Proof. unfold set_ph. intros H. destruct (Nat.eqb_spec u t); congruence. Qed.

Lemma updf_same {A} (f : nat -> A) t x : updf f t x t = x.
Proof. unfold updf. now rewrite Nat.eqb_refl. Qed.
Lemma updf_other {A} (f : nat -> A) t x u : u <> t -> updf f t x u = f u.
Proof. unfold updf. intros H. destruct (Nat.eqb_spec u t); congruence. Qed.

Definition published (a : Aux) (n : node) : Prop := (snd n < lim (ph a (fst n)))%nat.
Definition inited (a : Aux) (n : node) : Prop := (snd n < ilim (ph a (fst n)))%nat.

Lemma published_inited a n : published a n -> inited a n.
Proof. unfold published, inited. pose proof (lim_le_ilim (ph a (fst n))). lia. Qed.

Definition priv_ok (g : G) (t k : nat) (ek : ekind) : Prop :=
  match ek with KPush v q => next g (t, k) = q /\ val g (t, k) = v | KPop => True end.

Definition pub_ok (g : G) (a : Aux) (t k : nat) (ek : ekind) : Prop :=
  d_push g t = isp ek /\ priv_ok g t k ek /\
  ((d_stat g t = 1%nat /\ d_val g t = pval t k ek) \/
   (d_stat g t = 2%nat /\ match ek with KPop => exists n, d_val g t = Some n /\ inited a n | KPush _ _ => True end)).

Definition phase_ok (g : G) (a : Aux) (t : nat) (p : phase) : Prop :=
  match p with
  | EPushL k v q => next g (t, k) = q /\ val g (t, k) = v
  | EPopH k q => hp g t = q
  | EPopV k n => published a n /\ hp g t = Some n
  | EPopR k n nx => published a n /\ hp g t = Some n /\ (In n (stk a) -> next g n = nx)
  | EPopG k n v => published a n /\ ~ In n (stk a) /\ val g n = v
  | EPopX k n v => inited a n /\ val g n = v /\ d_val g t = Some n
  | EEnt k ek => d_push g t = isp ek /\ priv_ok g t k ek /\ d_stat g t = 1%nat /\ d_val g t = pval t k ek
  | EPub k ek _ | EFin k ek => pub_ok g a t k ek
  | _ => True
  end.

(** slot invariant *)
Definition SI (g : G) (a : Aux) : Prop :=
  forall i u ku, slot_rec g i = Some (u, ku) -> exists ek, ph a u = EPub ku ek i /\ d_stat g u = 1%nat.

(** hand-over invariant: a node sitting in a pop descriptor (op.pVal of an operation with idOp = op_pop) was handed
    over through a collision slot.  Its push is spent (linearized: published, or its passive owner still waits with
    op_collided in its descriptor), it is not in the stack, and no other pop descriptor holds it. *)
Definition is_wait_push (p : phase) (k : nat) : Prop :=
  match p with
  | EPub k' (KPush _ _) _ | EFin k' (KPush _ _) => k' = k
  | _ => False
  end.

Definition spent (g : G) (a : Aux) (n : node) : Prop :=
  published a n \/ (is_wait_push (ph a (fst n)) (snd n) /\ d_stat g (fst n) = 2%nat).

Definition holds_node (g : G) (u : nat) (n : node) : Prop := d_push g u = false /\ d_val g u = Some n.

Definition HI (g : G) (a : Aux) : Prop :=
  forall u n, holds_node g u n ->
    spent g a n /\ ~ In n (stk a) /\ (forall u', holds_node g u' n -> u' = u).

Definition Inv (g : G) (a : Aux) (tr : list (nat * ev)) : Prop :=
  chain (next g) (top g) (stk a) /\
  NoDup (stk a) /\
  (forall n, In n (stk a) -> published a n) /\
  (forall t, phase_ok g a t (ph a t)) /\
  SI g a /\
  (exists sts, @lp_run Stack lp_init (atr a) = Some (map (val g) (stk a), sts) /\
               forall t, sts t = status_of g t (ph a t)) /\
  erase (atr a) = hist tr /\
  HI g a.

Notation safe := (@Conc.safe G V ev Aux phase view Inv).

Ltac hd_same := right; right; split; reflexivity.
Ltac nw Hv := let k := fresh "k" in let W := fresh "W" in intros k W; rewrite Hv in W; cbn in W; contradiction.
Ltac split_inv := refine (conj _ (conj _ (conj _ (conj _ (conj _ (conj _ (conj _ _))))))).

Definition upd_a (a : Aux) (t : nat) (p : phase) (ae : list (aev Stack)) : Aux :=
  mkA (stk a) (atr a ++ ae) (set_ph (ph a) t p).

Lemma frame_upd_a a t p ae : Conc.frame view t a (upd_a a t p ae).
Proof. intros u H. unfold view, upd_a; cbn. now apply set_ph_other. Qed.
Lemma view_upd_a a t p ae : view (upd_a a t p ae) t = p.
Proof. unfold view, upd_a; cbn. apply set_ph_same. Qed.
Lemma frame_set_ph a t s x p : Conc.frame view t a (mkA s x (set_ph (ph a) t p)).
Proof. intros u H. unfold view; cbn. now apply set_ph_other. Qed.

(** [mono a t p']: replacing the phase of [t] by [p'] does not un-publish / un-initialise anything *)
Definition mono (a : Aux) (t : nat) (p' : phase) : Prop :=
  (lim (ph a t) <= lim p')%nat /\ (ilim (ph a t) <= ilim p')%nat.

Lemma published_mono a t p s x n :
  mono a t p -> published a n -> published (mkA s x (set_ph (ph a) t p)) n.
Proof.
  unfold published; cbn. intros [L _] H. destruct (Nat.eq_dec (fst n) t) as [E|E].
  - rewrite E in *. rewrite set_ph_same. lia.
  - now rewrite set_ph_other.
Qed.

Lemma inited_mono a t p s x n :
  mono a t p -> inited a n -> inited (mkA s x (set_ph (ph a) t p)) n.
Proof.
  unfold inited; cbn. intros [_ L] H. destruct (Nat.eq_dec (fst n) t) as [E|E].
  - rewrite E in *. rewrite set_ph_same. lia.
  - now rewrite set_ph_other.
Qed.

(** ** what a step of thread [t] may touch: the fields of one node [m], the hazard slot / retired array /
       descriptor / random position of [t], the slots and their locks *)
Definition touches (g g' : G) (t : nat) (m : node) : Prop :=
  top g' = top g /\
  (forall x, x <> m -> next g' x = next g x /\ val g' x = val g x) /\
  (forall u, u <> t -> hp g' u = hp g u /\ d_push g' u = d_push g u /\ d_val g' u = d_val g u /\ d_stat g' u = d_stat g u).

(** the node written is private to [t] or was popped by [t]; its value changes only if it is not yet initialised *)
Definition wr_ok (g g' : G) (a : Aux) (t : nat) (m : node) : Prop :=
  ((fst m = t /\ snd m = lim (ph a t)) \/ (published a m /\ ~ In m (stk a))) /\
  (val g' m = val g m \/ ~ inited a m).

Lemma wr_not_in g g' a t m :
  (forall n, In n (stk a) -> published a n) -> wr_ok g g' a t m -> ~ In m (stk a).
Proof.
  intros I3 [[[E1 E2]|[_ H]] _]; auto. intros Hin. apply I3 in Hin.
  unfold published in Hin. rewrite E1, E2 in Hin. lia.
Qed.

Lemma priv_ne a u m t :
  u <> t -> ((fst m = t /\ snd m = lim (ph a t)) \/ (published a m /\ ~ In m (stk a))) ->
  (u, lim (ph a u)) <> m.
Proof.
  intros Hu [[E _]|[P _]] E'; subst m; cbn in *; [congruence|].
  unfold published in P; cbn in P. lia.
Qed.

Lemma priv_ok_keep g g' a t m u k ek :
  touches g g' t m -> wr_ok g g' a t m -> u <> t -> lim (ph a u) = k ->
  priv_ok g u k ek -> priv_ok g' u k ek.
Proof.
  intros (_ & Hn & _) [Hm _] Hu Hk H. destruct ek as [v q|]; cbn in *; auto.
  destruct (Hn (u, k)) as [E1 E2]; [rewrite <- Hk; eapply priv_ne; eauto|]. now rewrite E1, E2.
Qed.

Lemma val_keep g g' a t m n : touches g g' t m -> wr_ok g g' a t m -> inited a n -> val g' n = val g n.
Proof.
  intros (_ & Hn & _) [_ Hv] Hi. destruct (node_eq_dec n m) as [->|Hne].
  - destruct Hv; [auto|contradiction].
  - apply Hn; auto.
Qed.

(** the other threads' facts survive *)
Lemma others_ok g g' a t m p' x :
  touches g g' t m -> wr_ok g g' a t m -> ~ In m (stk a) -> mono a t p' ->
  forall u, u <> t -> phase_ok g a u (ph a u) -> phase_ok g' (mkA (stk a) x (set_ph (ph a) t p')) u (ph a u).
Proof.
  intros Ht Hm Hnin L u Hu H.
  set (a' := mkA (stk a) x (set_ph (ph a) t p')).
  assert (Hpub : forall n, published a n -> published a' n) by (intros; now apply published_mono).
  assert (Hini : forall n, inited a n -> inited a' n) by (intros; now apply inited_mono).
  pose proof (fun k ek => priv_ok_keep g g' a t m u k ek Ht Hm Hu) as Hpriv.
  pose proof (fun n => val_keep g g' a t m n Ht Hm) as Hval.
  destruct Ht as (Ht1 & Hn & Hh). destruct (Hh u Hu) as (Hh1 & Hh2 & Hh3 & Hh4).
  destruct (ph a u) as [k|k v|k v q|k v|k|k q|k n|k n nx|k n v|k|k ek|k ek i|k ek|k n v] eqn:Ep; cbn in *; auto.
  - apply (Hpriv k (KPush v q) eq_refl H).
  - now rewrite Hh1.
  - destruct H as [H1 H2]. split; auto. now rewrite Hh1.
  - destruct H as (H1 & H2 & H3). repeat split; auto; [now rewrite Hh1|].
    intros Hin. destruct (Hn n) as [E1 _]; [intros ->; contradiction|]. rewrite E1. auto.
  - destruct H as (H1 & H2 & H3). repeat split; auto.
    all: try (rewrite Hval; auto; now apply published_inited).
  - destruct H as (H1 & H2 & H3 & H4). rewrite Hh2, Hh3, Hh4. repeat split; auto; try (apply (Hpriv k ek eq_refl H2)).
  - destruct H as (H1 & H2 & H3). unfold pub_ok. rewrite Hh2, Hh3, Hh4. repeat split; auto; try (apply (Hpriv k ek eq_refl H2)).
    destruct H3 as [H3|[H3 H4]]; [left; exact H3|right; split; auto].
    destruct ek; auto. destruct H4 as (n & E & Hi). exists n. auto.
  - destruct H as (H1 & H2 & H3). unfold pub_ok. rewrite Hh2, Hh3, Hh4. repeat split; auto; try (apply (Hpriv k ek eq_refl H2)).
    destruct H3 as [H3|[H3 H4]]; [left; exact H3|right; split; auto].
    destruct ek; auto. destruct H4 as (n & E & Hi). exists n. auto.
  - destruct H as (H1 & H2 & H3). rewrite Hh3. repeat split; auto. rewrite Hval; auto.
Qed.

(** ... and so does their linearization status *)
Lemma others_status g g' a t m u :
  touches g g' t m -> wr_ok g g' a t m -> u <> t -> phase_ok g a u (ph a u) ->
  status_of g' u (ph a u) = status_of g u (ph a u).
Proof.
  intros Ht Hm Hu H. pose proof (fun n => val_keep g g' a t m n Ht Hm) as Hval.
  destruct Ht as (_ & _ & Hh). destruct (Hh u Hu) as (_ & _ & Hh3 & Hh4).
  destruct (ph a u) as [k|k v|k v q|k v|k|k q|k n|k n nx|k n v|k|k ek|k ek i|k ek|k n v] eqn:Ep; cbn in *; auto.
  - rewrite Hh4. destruct (Nat.eqb_spec (d_stat g u) 2) as [E|E]; auto.
    destruct ek as [v q|]; cbn; auto. rewrite Hh3.
    destruct H as (_ & _ & [[H _]|[_ (n & En & Hi)]]); [congruence|]. rewrite En, Hval; auto.
  - rewrite Hh4. destruct (Nat.eqb_spec (d_stat g u) 2) as [E|E]; auto.
    destruct ek as [v q|]; cbn; auto. rewrite Hh3.
    destruct H as (_ & _ & [[H _]|[_ (n & En & Hi)]]); [congruence|]. rewrite En, Hval; auto.
Qed.

(** ** the general preservation lemma for steps that change neither the stack nor another thread's status *)
Lemma Inv_keep g g' a tr t m p' ae es :
  Inv g a tr ->
  touches g g' t m ->
  wr_ok g g' a t m ->
  mono a t p' ->
  phase_ok g' (upd_a a t p' ae) t p' ->
  SI g' (upd_a a t p' ae) ->
  lp_ok t (map (val g) (stk a)) (status_of g t (ph a t)) (status_of g' t p') ae ->
  erase ae = hist (Conc.tag t es) ->
  (d_push g' t = true \/ d_val g' t = None \/ (d_push g' t = d_push g t /\ d_val g' t = d_val g t)) ->
  (forall k, is_wait_push (ph a t) k -> d_stat g t = 2%nat ->
             (k < lim p')%nat \/ (is_wait_push p' k /\ d_stat g' t = 2%nat)) ->
  Inv g' (upd_a a t p' ae) (tr ++ Conc.tag t es).
Proof.
  intros (I1 & I2 & I3 & I4 & I5 & (sts & I6 & I6') & I7 & I8) Ht Hm L Hown Hsi Hlp Her Hd Hsp.
  pose proof (wr_not_in g g' a t m I3 Hm) as Hnin.
  pose proof Ht as (Ht1 & Ht2 & Ht3).
  assert (Hsame : forall n, In n (stk a) -> next g' n = next g n /\ val g' n = val g n).
  { intros n Hin. apply Ht2. intros ->. contradiction. }
  unfold Inv. cbn [stk atr ph upd_a]. split_inv.
  - rewrite Ht1. eapply chain_ext; [|exact I1]. intros n Hin. apply Hsame; auto.
  - exact I2.
  - intros n Hin. apply (published_mono a t p' (stk a) (atr a ++ ae) n L). auto.
  - intros u. destruct (Nat.eq_dec u t) as [->|Hu].
    + rewrite set_ph_same. exact Hown.
    + rewrite set_ph_other by exact Hu.
      exact (others_ok g g' a t m p' (atr a ++ ae) Ht Hm Hnin L u Hu (I4 u)).
  - exact Hsi.
  - destruct (Hlp sts (I6' t)) as (sts' & R1 & R2 & R3).
    exists sts'. split.
    + rewrite lp_run_app, I6.
      replace (map (val g') (stk a)) with (map (val g) (stk a)); [exact R1|].
      apply map_ext_in. intros n Hin. symmetry. apply Hsame; auto.
    + intros u. destruct (Nat.eq_dec u t) as [->|Hu].
      * now rewrite set_ph_same.
      * rewrite set_ph_other by exact Hu. rewrite R3 by exact Hu. rewrite I6'.
        symmetry. apply (others_status g g' a t m u Ht Hm Hu (I4 u)).
  - rewrite erase_app, hist_app, I7, Her. reflexivity.
  - (* hand-over invariant *)
    assert (Hold : forall u n, holds_node g' u n -> holds_node g u n).
    { intros u n [H1 H2]. destruct (Nat.eq_dec u t) as [->|Hu].
      - destruct Hd as [Hd|[Hd|[Hd1 Hd2]]]; [congruence|congruence|]. split; congruence.
      - destruct (Ht3 u Hu) as (_ & E1 & E2 & _). split; congruence. }
    intros u n Hh. destruct (I8 u n (Hold u n Hh)) as (Hs & Hn & Hun). split; [|split].
    + destruct Hs as [Hs|[W S2]].
      * left. apply (published_mono a t p' (stk a) (atr a ++ ae) n L Hs).
      * destruct (Nat.eq_dec (fst n) t) as [E|E].
        -- rewrite E in *. destruct (Hsp _ W S2) as [Hlt|[W' S']].
           ++ left. unfold published; cbn. rewrite E, set_ph_same. exact Hlt.
           ++ right. cbn. rewrite E, set_ph_same. auto.
        -- right. cbn. rewrite set_ph_other by exact E. destruct (Ht3 _ E) as (_ & _ & _ & E4). rewrite E4. auto.
    + exact Hn.
    + intros u' Hh'. apply Hun. apply Hold. exact Hh'.
Qed.

Lemma Inv_phase g a tr t : Inv g a tr -> phase_ok g a t (ph a t).
Proof. intros (_ & _ & _ & I4 & _). apply I4. Qed.

Lemma Inv_HI g a tr : Inv g a tr -> HI g a.
Proof. intros (_ & _ & _ & _ & _ & _ & _ & I8). exact I8. Qed.

Lemma Inv_SI g a tr : Inv g a tr -> SI g a.
Proof. intros (_ & _ & _ & _ & I5 & _). exact I5. Qed.

(** the slot invariant survives a step that leaves the slots alone *)
Lemma SI_keep g g' a t p' s x :
  SI g a ->
  (forall i, slot_rec g' i = slot_rec g i) ->
  (forall u, u <> t -> d_stat g' u = d_stat g u) ->
  (forall k ek i, ph a t = EPub k ek i -> p' = EPub k ek i /\ d_stat g' t = d_stat g t) ->
  SI g' (mkA s x (set_ph (ph a) t p')).
Proof.
  intros H Hs Hd Hp i u ku E. rewrite Hs in E. destruct (H i u ku E) as (ek & E1 & E2).
  exists ek. cbn. destruct (Nat.eq_dec u t) as [->|Hu].
  - rewrite set_ph_same. destruct (Hp _ _ _ E1) as [-> E3]. split; auto. congruence.
  - rewrite set_ph_other by exact Hu. split; auto. rewrite Hd; auto.
Qed.

(** other threads' facts across a step that changes m_Top and the abstract stack *)
Lemma others_lp g a t p' s' x q :
  mono a t p' ->
  (forall n, published a n -> ~ In n (stk a) -> ~ In n s') ->
  (forall n, published a n -> In n s' -> In n (stk a)) ->
  forall u, u <> t -> phase_ok g a u (ph a u) -> phase_ok (set_top g q) (mkA s' x (set_ph (ph a) t p')) u (ph a u).
Proof.
  intros L Hout Hin u Hu H.
  set (a' := mkA s' x (set_ph (ph a) t p')).
  assert (Hpub : forall n, published a n -> published a' n) by (intros; now apply published_mono).
  assert (Hini : forall n, inited a n -> inited a' n) by (intros; now apply inited_mono).
  destruct (ph a u) as [k|k v|k v q'|k v|k|k q'|k n|k n nx|k n v|k|k ek|k ek i|k ek|k n v] eqn:Ep; cbn in *; auto.
  - destruct H; auto.
  - destruct H as (H1 & H2 & H3). repeat split; auto.
  - destruct H as (H1 & H2 & H3). repeat split; auto.
  - destruct H as (H1 & H2 & H3). unfold pub_ok in *. cbn. repeat split; auto.
    destruct H3 as [H3|[H3 H4]]; [left; exact H3|right; split; auto].
    destruct ek; auto. destruct H4 as (n & E & Hi). exists n. auto.
  - destruct H as (H1 & H2 & H3). unfold pub_ok in *. cbn. repeat split; auto.
    destruct H3 as [H3|[H3 H4]]; [left; exact H3|right; split; auto].
    destruct ek; auto. destruct H4 as (n & E & Hi). exists n. auto.
  - destruct H as (H1 & H2 & H3). repeat split; auto.
Qed.

(** ** linearization point of push: the successful CAS *)
Lemma Inv_push_lp g a tr t k v p :
  Inv g a tr -> ph a t = EPushL k v p -> top g = p ->
  Inv (set_top g (Some (t, k)))
      (mkA ((t, k) :: stk a) (atr a ++ [ELin t]) (set_ph (ph a) t (EPushed k v)))
      (tr ++ Conc.tag t [EvAcc KCas obj_top true]).
Proof.
  intros (I1 & I2 & I3 & I4 & I5 & (sts & I6 & I6') & I7 & I8) Hp Htop.
  pose proof (I4 t) as Hme. rewrite Hp in Hme. cbn in Hme. destruct Hme as [Hnx Hval].
  assert (Hunpub : ~ published a (t, k)).
  { unfold published; cbn. rewrite Hp. cbn. lia. }
  assert (Hnin : ~ In (t, k) (stk a)) by (intros H; apply Hunpub, I3, H).
  assert (L : mono a t (EPushed k v)) by (unfold mono; rewrite Hp; cbn; lia).
  set (a' := mkA ((t, k) :: stk a) (atr a ++ [ELin t]) (set_ph (ph a) t (EPushed k v))).
  unfold Inv. cbn [stk atr ph a']. split_inv.
  - cbn. split; [reflexivity|]. rewrite Hnx, <- Htop. exact I1.
  - constructor; auto.
  - intros n [<-|Hin]; [|apply published_mono; auto].
    unfold published; cbn. rewrite set_ph_same. cbn. lia.
  - intros u. destruct (Nat.eq_dec u t) as [->|Hu].
    + rewrite set_ph_same. exact I.
    + rewrite set_ph_other by exact Hu. apply others_lp; auto.
      * intros n P N [E|Hin]; auto. subst n. contradiction.
      * intros n P [E|Hin]; auto. subst n. contradiction.      (* (ABA): a published node is not the fresh one *)
  - apply (SI_keep g _ a t); auto. intros k' ek i E. congruence.
  - exists (Lin.upd sts t (SLin (Push v) (RBool true))). split.
    + rewrite lp_run_app, I6. cbn. rewrite (I6' t), Hp. cbn. rewrite Hval. reflexivity.
    + intros u. destruct (Nat.eq_dec u t) as [->|Hu].
      * rewrite upd_same, set_ph_same. reflexivity.
      * rewrite upd_other, set_ph_other by exact Hu. apply I6'.
  - rewrite erase_app, hist_app, I7. cbn. reflexivity.
  - intros u n Hh. destruct (I8 u n Hh) as (Hs & Hn & Hun). split; [|split].
    + destruct Hs as [Hs|[W S2]]; [left; apply published_mono; auto|].
      destruct (Nat.eq_dec (fst n) t) as [E|E].
      * rewrite E, Hp in W. destruct W.
      * right. cbn. rewrite set_ph_other by exact E. auto.
    + intros [E|Hin]; [|auto]. subst n. destruct Hs as [Hs|[W _]]; [contradiction|].
      cbn in W. rewrite Hp in W. destruct W.
    + exact Hun.
Qed.

(** ** linearization point of a non-empty pop: the successful CAS (ABA: see TreiberProofs) *)
Lemma Inv_pop_lp g a tr t k n nx :
  Inv g a tr -> ph a t = EPopR k n nx -> top g = Some n ->
  Inv (set_top g nx)
      (mkA (tl (stk a)) (atr a ++ [ELin t]) (set_ph (ph a) t (EPopG k n (val g n))))
      (tr ++ Conc.tag t [EvAcc KCas obj_top true]).
Proof.
  intros (I1 & I2 & I3 & I4 & I5 & (sts & I6 & I6') & I7 & I8) Hp Htop.
  pose proof (I4 t) as Hme. rewrite Hp in Hme. cbn in Hme. destruct Hme as (Hpubn & Hhp & Hnx).
  destruct (chain_head _ _ _ n I1 Htop) as (r & Hs & Hc).
  assert (Hin : In n (stk a)) by (rewrite Hs; left; reflexivity).
  specialize (Hnx Hin).
  assert (L : mono a t (EPopG k n (val g n))) by (unfold mono; rewrite Hp; cbn; lia).
  assert (Hnd : NoDup (n :: r)) by (rewrite <- Hs; exact I2).
  apply NoDup_cons_iff in Hnd. destruct Hnd as [Hnotin Hnd].
  unfold Inv. cbn [stk atr ph]. rewrite Hs. cbn [tl]. split_inv.
  - cbn. rewrite <- Hnx. exact Hc.
  - exact Hnd.
  - intros x Hx. apply published_mono; auto. apply I3. rewrite Hs. right; exact Hx.
  - intros u. destruct (Nat.eq_dec u t) as [->|Hu].
    + rewrite set_ph_same. cbn. repeat split; auto. apply published_mono; auto.
    + rewrite set_ph_other by exact Hu.
      apply (others_lp g a t (EPopG k n (val g n)) r (atr a ++ [ELin t]) nx L); auto.
      * intros x P N Hx. apply N. rewrite Hs. right; exact Hx.
      * intros x P Hx. rewrite Hs. right; exact Hx.
  - apply (SI_keep g _ a t); auto. intros k' ek i E. congruence.
  - exists (Lin.upd sts t (SLin Pop (RVal (Some (val g n))))). split.
    + rewrite lp_run_app, I6, Hs. cbn. rewrite (I6' t), Hp. cbn. reflexivity.
    + intros u. destruct (Nat.eq_dec u t) as [->|Hu].
      * rewrite upd_same, set_ph_same. reflexivity.
      * rewrite upd_other, set_ph_other by exact Hu. apply I6'.
  - rewrite erase_app, hist_app, I7. cbn. reflexivity.
  - intros u x Hh. destruct (I8 u x Hh) as (Hs' & Hn' & Hun). split; [|split].
    + destruct Hs' as [Hs'|[W S2]]; [left; apply published_mono; auto|].
      destruct (Nat.eq_dec (fst x) t) as [E|E].
      * rewrite E, Hp in W. destruct W.
      * right. cbn. rewrite set_ph_other by exact E. auto.
    + intros Hx. apply Hn'. rewrite Hs. right; exact Hx.
    + exact Hun.
Qed.

(** facts of a thread whose own fields and the memory are untouched *)
Lemma phase_ok_same g g' a a' w p :
  (forall n, next g' n = next g n) -> (forall n, val g' n = val g n) -> hp g' w = hp g w ->
  d_push g' w = d_push g w -> d_val g' w = d_val g w -> d_stat g' w = d_stat g w ->
  stk a' = stk a -> (forall n, published a n -> published a' n) -> (forall n, inited a n -> inited a' n) ->
  phase_ok g a w p -> phase_ok g' a' w p.
Proof.
  intros Hn Hv Hh D1 D2 D3 Hs Hp Hi H.
  destruct p as [k|k v|k v q'|k v|k|k q'|k n|k n nx|k n v|k|k ek|k ek i|k ek|k n v]; cbn in *; auto;
    unfold pub_ok in *; rewrite ?Hn, ?Hv, ?Hh, ?D1, ?D2, ?D3, ?Hs; auto.
  - destruct H; auto.
  - destruct H as (H1 & H2 & H3); auto.
  - destruct H as (H1 & H2 & H3); auto.
  - destruct H as (H1 & H2 & H3 & H4). repeat split; auto. destruct ek; cbn in *; rewrite ?Hn, ?Hv; auto.
  - destruct H as (H1 & H2 & H3). repeat split; auto.
    + destruct ek; cbn in *; rewrite ?Hn, ?Hv; auto.
    + destruct H3 as [H3|[H3 H4]]; [left; exact H3|right; split; auto].
      destruct ek; auto. destruct H4 as (n & E & Hx). exists n. auto.
  - destruct H as (H1 & H2 & H3). repeat split; auto.
    + destruct ek; cbn in *; rewrite ?Hn, ?Hv; auto.
    + destruct H3 as [H3|[H3 H4]]; [left; exact H3|right; split; auto].
      destruct ek; auto. destruct H4 as (n & E & Hx). exists n. auto.
  - destruct H as (H1 & H2 & H3); auto.
Qed.

Lemma status_same g g' w p :
  (forall n, val g' n = val g n) -> d_val g' w = d_val g w -> d_stat g' w = d_stat g w ->
  status_of g' w p = status_of g w p.
Proof.
  intros Hv D2 D3. destruct p; cbn; auto; rewrite D3; destruct (Nat.eqb (d_stat g w) 2); auto;
    destruct ek; cbn; auto; rewrite D2; destruct (d_val g w); auto; now rewrite Hv.
Qed.

(** ** THE ELIMINATION LINEARIZATION POINT, active pusher: the store of op_collided into the waiting popper's
       descriptor linearizes the push and, immediately after it, the pop that receives the pushed node *)
Lemma Inv_collide_push g a tr t k v q i u ku :
  Inv g a tr -> ph a t = EEnt k (KPush v q) -> slot_rec g i = Some (u, ku) -> d_push g u = false ->
  Inv (set_dstat (set_slot_rec (set_dval g u (d_val g t)) i None) u 2)
      (mkA (stk a) (atr a ++ [ELin t; ELin u]) (set_ph (ph a) t (EPushed k v)))
      (tr ++ Conc.tag t [EvAcc KSt (obj_status u ku) true]).
Proof.
  intros (I1 & I2 & I3 & I4 & I5 & (sts & I6 & I6') & I7 & I8) Hp Hslot Hkind.
  destruct (I5 i u ku Hslot) as (ek & Eu & Su).
  pose proof (I4 u) as Hu. rewrite Eu in Hu. cbn in Hu. destruct Hu as (Up & _ & _).
  assert (ek = KPop) by (destruct ek; cbn in Up; congruence). subst ek.
  assert (Hne : u <> t) by (intros ->; congruence).
  pose proof (I4 t) as Hme. rewrite Hp in Hme. cbn in Hme. destruct Hme as (Dp & (Hnx & Hval) & Ds & Dv).
  assert (L : mono a t (EPushed k v)) by (unfold mono; rewrite Hp; cbn; lia).
  set (g' := set_dstat (set_slot_rec (set_dval g u (d_val g t)) i None) u 2).
  set (a' := mkA (stk a) (atr a ++ [ELin t; ELin u]) (set_ph (ph a) t (EPushed k v))).
  assert (Hpub : forall n, published a n -> published a' n) by (intros; now apply published_mono).
  assert (Hini : forall n, inited a n -> inited a' n) by (intros; now apply inited_mono).
  unfold Inv. cbn [stk atr]. split_inv.
  - exact I1.
  - exact I2.
  - intros n Hin. apply Hpub, I3, Hin.
  - intros w. cbn [ph a']. destruct (Nat.eq_dec w t) as [->|Hw].
    + rewrite set_ph_same. exact I.
    + rewrite set_ph_other by exact Hw. destruct (Nat.eq_dec w u) as [->|Hwu].
      * rewrite Eu. cbn. unfold pub_ok. cbn. rewrite !updf_same. repeat split; auto.
        right. split; auto. exists (t, k). split; auto.
        unfold inited; cbn. rewrite set_ph_same. cbn. lia.
      * apply (phase_ok_same g g' a a'); auto; cbn; rewrite ?updf_other; auto.
  - intros j w kw E. cbn in E. unfold updf in E. destruct (Nat.eqb_spec j i) as [->|Hj]; [discriminate|].
    destruct (I5 j w kw E) as (ek' & E1 & E2).
    assert (w <> t) by (intros ->; congruence).
    assert (w <> u) by (intros ->; rewrite Eu in E1; inversion E1; congruence).
    exists ek'. cbn. rewrite set_ph_other, updf_other; auto.
  - exists (Lin.upd (Lin.upd sts t (SLin (Push v) (RBool true))) u (SLin Pop (RVal (Some v)))). split.
    + unfold a'; cbn [atr stk]. rewrite lp_run_app, I6. cbn. rewrite (I6' t), Hp. cbn.
      rewrite upd_other by exact Hne. rewrite (I6' u), Eu. cbn. rewrite Su. cbn. reflexivity.
    + intros w. cbn [ph a']. destruct (Nat.eq_dec w u) as [->|Hwu].
      * rewrite upd_same, set_ph_other by exact Hne. rewrite Eu. cbn. rewrite !updf_same. cbn.
        rewrite Dv, Hval. reflexivity.
      * rewrite upd_other by exact Hwu. destruct (Nat.eq_dec w t) as [->|Hw].
        -- rewrite upd_same, set_ph_same. reflexivity.
        -- rewrite upd_other, set_ph_other by exact Hw. rewrite I6'. symmetry.
           apply status_same; auto; cbn; rewrite ?updf_other; auto.
  - cbn [atr a']. rewrite erase_app, hist_app, I7. cbn. reflexivity.
  - (* hand-over: the popper u now holds the pusher's node (t,k) *)
    assert (Hfresh : forall w, ~ holds_node g w (t, k)).
    { intros w Hw. destruct (I8 w _ Hw) as ([P|[W _]] & _ & _).
      - unfold published in P; cbn in P. rewrite Hp in P. cbn in P. lia.
      - cbn in W. rewrite Hp in W. destruct W. }
    assert (Hold : forall w n, w <> u -> holds_node g' w n -> holds_node g w n).
    { intros w n Hw [H1 H2]. cbn in H1, H2. rewrite updf_other in H2 by exact Hw. split; auto. }
    assert (Hnew : forall n, holds_node g' u n -> n = (t, k)).
    { intros n [_ H2]. cbn in H2. rewrite updf_same, Dv in H2. congruence. }
    intros w n Hh. destruct (Nat.eq_dec w u) as [->|Hwu].
    + rewrite (Hnew n Hh). split; [|split].
      * left. unfold published; cbn. rewrite set_ph_same. cbn. lia.
      * intros Hin. apply I3 in Hin. unfold published in Hin; cbn in Hin. rewrite Hp in Hin. cbn in Hin. lia.
      * intros w' Hh'. destruct (Nat.eq_dec w' u) as [->|Hw']; auto.
        exfalso. apply (Hfresh w'). apply Hold; auto.
    + pose proof (Hold w n Hwu Hh) as Hg. destruct (I8 w n Hg) as (Hs & Hn & Hun). split; [|split].
      * destruct Hs as [Hs|[W S2]]; [left; apply Hpub; auto|].
        destruct (Nat.eq_dec (fst n) t) as [E|E].
        -- rewrite E, Hp in W. destruct W.
        -- right. cbn. rewrite set_ph_other by exact E. split; auto.
           unfold updf. destruct (Nat.eqb (fst n) u); auto.
      * exact Hn.
      * intros w' Hh'. destruct (Nat.eq_dec w' u) as [->|Hw'].
        -- exfalso. apply (Hfresh w). rewrite <- (Hnew n Hh'). exact Hg.
        -- apply Hun. apply Hold; auto.
Qed.

(** ** ... active popper: the store of op_collided into the waiting pusher's descriptor linearizes that push and,
       immediately after it, this pop, which takes the pusher's node *)
Lemma Inv_collide_pop g a tr t k i u ku :
  Inv g a tr -> ph a t = EEnt k KPop -> slot_rec g i = Some (u, ku) -> d_push g u = true ->
  exists vu,
  val g (u, ku) = vu /\ d_val g u = Some (u, ku) /\
  Inv (set_dstat (set_slot_rec (set_dval g t (d_val g u)) i None) u 2)
      (mkA (stk a) (atr a ++ [ELin u; ELin t]) (set_ph (ph a) t (EPopX k (u, ku) vu)))
      (tr ++ Conc.tag t [EvAcc KSt (obj_status u ku) true]).
Proof.
  intros (I1 & I2 & I3 & I4 & I5 & (sts & I6 & I6') & I7 & I8) Hp Hslot Hkind.
  destruct (I5 i u ku Hslot) as (ek & Eu & Su).
  pose proof (I4 u) as Hu. rewrite Eu in Hu. cbn in Hu. destruct Hu as (Up & Upriv & Ud).
  destruct ek as [vu qu|]; [|cbn in Up; congruence]. cbn in Upriv. destruct Upriv as [Unx Uval].
  destruct Ud as [[_ Udv]|[Ud _]]; [|congruence]. cbn in Udv.
  assert (Hne : u <> t) by (intros ->; congruence).
  exists vu. split; [exact Uval|]. split; [exact Udv|].
  assert (L : mono a t (EPopX k (u, ku) vu)) by (unfold mono; rewrite Hp; cbn; lia).
  set (g' := set_dstat (set_slot_rec (set_dval g t (d_val g u)) i None) u 2).
  set (a' := mkA (stk a) (atr a ++ [ELin u; ELin t]) (set_ph (ph a) t (EPopX k (u, ku) vu))).
  assert (Hpub : forall n, published a n -> published a' n) by (intros; now apply published_mono).
  assert (Hini : forall n, inited a n -> inited a' n) by (intros; now apply inited_mono).
  unfold Inv. cbn [stk atr]. split_inv.
  - exact I1.
  - exact I2.
  - intros n Hin. apply Hpub, I3, Hin.
  - intros w. cbn [ph a']. destruct (Nat.eq_dec w t) as [->|Hw].
    + rewrite set_ph_same. cbn. rewrite updf_same. repeat split; auto.
      unfold inited; cbn. rewrite set_ph_other by exact Hne. rewrite Eu. cbn. lia.
    + rewrite set_ph_other by exact Hw. destruct (Nat.eq_dec w u) as [->|Hwu].
      * rewrite Eu. cbn. unfold pub_ok. cbn. rewrite updf_same. repeat split; auto.
      * apply (phase_ok_same g g' a a'); auto; cbn; rewrite ?updf_other; auto.
  - intros j w kw E. cbn in E. unfold updf in E. destruct (Nat.eqb_spec j i) as [->|Hj]; [discriminate|].
    destruct (I5 j w kw E) as (ek' & E1 & E2).
    assert (w <> t) by (intros ->; congruence).
    assert (w <> u) by (intros ->; rewrite Eu in E1; inversion E1; congruence).
    exists ek'. cbn. rewrite set_ph_other, updf_other; auto.
  - exists (Lin.upd (Lin.upd sts u (SLin (Push vu) (RBool true))) t (SLin Pop (RVal (Some vu)))). split.
    + unfold a'; cbn [atr stk]. rewrite lp_run_app, I6. cbn. rewrite (I6' u), Eu. cbn. rewrite Su. cbn.
      rewrite upd_other by (intros E; apply Hne; auto). rewrite (I6' t), Hp. cbn. reflexivity.
    + intros w. cbn [ph a']. destruct (Nat.eq_dec w t) as [->|Hw].
      * rewrite upd_same, set_ph_same. reflexivity.
      * rewrite upd_other, set_ph_other by exact Hw. destruct (Nat.eq_dec w u) as [->|Hwu].
        -- rewrite upd_same. rewrite Eu. cbn. rewrite updf_same. reflexivity.
        -- rewrite upd_other by exact Hwu. rewrite I6'. symmetry.
           apply status_same; auto; cbn; rewrite ?updf_other; auto.
  - cbn [atr a']. rewrite erase_app, hist_app, I7. cbn. reflexivity.
  - (* hand-over: this popper now holds the waiting pusher's node (u,ku) *)
    pose proof (I4 t) as Hme. rewrite Hp in Hme. cbn in Hme. destruct Hme as (Dp & _ & _ & _).
    assert (Hfresh : forall w, ~ holds_node g w (u, ku)).
    { intros w Hw. destruct (I8 w _ Hw) as ([P|[_ S2]] & _ & _).
      - unfold published in P; cbn in P. rewrite Eu in P. cbn in P. lia.
      - cbn in S2. congruence. }
    assert (Hold : forall w n, w <> t -> holds_node g' w n -> holds_node g w n).
    { intros w n Hw [H1 H2]. cbn in H1, H2. rewrite updf_other in H2 by exact Hw. split; auto. }
    assert (Hnew : forall n, holds_node g' t n -> n = (u, ku)).
    { intros n [_ H2]. cbn in H2. rewrite updf_same, Udv in H2. congruence. }
    intros w n Hh. destruct (Nat.eq_dec w t) as [->|Hwt].
    + rewrite (Hnew n Hh). split; [|split].
      * right. cbn. rewrite set_ph_other by exact Hne. rewrite Eu. cbn. split; auto. now rewrite updf_same.
      * intros Hin. apply I3 in Hin. unfold published in Hin; cbn in Hin. rewrite Eu in Hin. cbn in Hin. lia.
      * intros w' Hh'. destruct (Nat.eq_dec w' t) as [->|Hw']; auto.
        exfalso. apply (Hfresh w'). apply Hold; auto.
    + pose proof (Hold w n Hwt Hh) as Hg. destruct (I8 w n Hg) as (Hs & Hn & Hun). split; [|split].
      * destruct Hs as [Hs|[W S2]]; [left; apply Hpub; auto|].
        destruct (Nat.eq_dec (fst n) t) as [E|E].
        -- rewrite E, Hp in W. destruct W.
        -- right. cbn. rewrite set_ph_other by exact E. split; auto.
           unfold updf. destruct (Nat.eqb (fst n) u); auto.
      * exact Hn.
      * intros w' Hh'. destruct (Nat.eq_dec w' t) as [->|Hw'].
        -- exfalso. apply (Hfresh w). rewrite <- (Hnew n Hh'). exact Hg.
        -- apply Hun. apply Hold; auto.
Qed.

(** ** helpers for the per-step proofs *)
Definition own (a : Aux) (t : nat) : node := (t, lim (ph a t)).

Lemma wr_own g g' a t : val g' (own a t) = val g (own a t) -> wr_ok g g' a t (own a t).
Proof. intros H. split; [left; split; reflexivity|left; exact H]. Qed.

Lemma mono_refl a t : mono a t (ph a t).
Proof. split; lia. Qed.

Lemma phase_ok_same' g g' a a' w p :
  (forall n, next g' n = next g n) -> (forall n, val g' n = val g n) ->
  (match p with EPopH _ _ | EPopV _ _ | EPopR _ _ _ => hp g' w = hp g w | _ => True end) ->
  d_push g' w = d_push g w -> d_val g' w = d_val g w -> d_stat g' w = d_stat g w ->
  stk a' = stk a -> (forall n, published a n -> published a' n) -> (forall n, inited a n -> inited a' n) ->
  phase_ok g a w p -> phase_ok g' a' w p.
Proof.
  intros Hn Hv Hh D1 D2 D3 Hs Hp Hi H.
  destruct p as [k|k v|k v q'|k v|k|k q'|k n|k n nx|k n v|k|k ek|k ek i|k ek|k n v]; cbn in *; auto;
    unfold pub_ok in *; rewrite ?Hn, ?Hv, ?Hh, ?D1, ?D2, ?D3, ?Hs; auto.
  - destruct H; auto.
  - destruct H as (H1 & H2 & H3); auto.
  - destruct H as (H1 & H2 & H3); auto.
  - destruct H as (H1 & H2 & H3 & H4). repeat split; auto. destruct ek; cbn in *; rewrite ?Hn, ?Hv; auto.
  - destruct H as (H1 & H2 & H3). repeat split; auto.
    + destruct ek; cbn in *; rewrite ?Hn, ?Hv; auto.
    + destruct H3 as [H3|[H3 H4]]; [left; exact H3|right; split; auto].
      destruct ek; auto. destruct H4 as (n & E & Hx). exists n. auto.
  - destruct H as (H1 & H2 & H3). repeat split; auto.
    + destruct ek; cbn in *; rewrite ?Hn, ?Hv; auto.
    + destruct H3 as [H3|[H3 H4]]; [left; exact H3|right; split; auto].
      destruct ek; auto. destruct H4 as (n & E & Hx). exists n. auto.
  - destruct H as (H1 & H2 & H3); auto.
Qed.

(** a step of [t] that changes nothing the invariant or [t]'s current phase depends on *)
Lemma Inv_stutter g g' a tr t es :
  Inv g a tr ->
  top g' = top g -> (forall n, next g' n = next g n) -> (forall n, val g' n = val g n) ->
  (forall u, u <> t -> hp g' u = hp g u) ->
  (forall u, d_push g' u = d_push g u) -> (forall u, d_val g' u = d_val g u) -> (forall u, d_stat g' u = d_stat g u) ->
  (forall i, slot_rec g' i = slot_rec g i) ->
  (match ph a t with EPopH _ _ | EPopV _ _ | EPopR _ _ _ => hp g' t = hp g t | _ => True end) ->
  hist (Conc.tag t es) = [] ->
  Inv g' (upd_a a t (ph a t) []) (tr ++ Conc.tag t es).
Proof.
  intros Hi H1 H2 H3 H4 H5 H6 H7 H8 H9 Hh.
  apply (Inv_keep g g' a tr t (own a t)); [exact Hi| | | | | | | | |].
  - repeat split; auto.
  - apply wr_own. apply H3.
  - apply mono_refl.
  - apply (phase_ok_same' g g' a); auto.
    + intros n P. apply published_mono; auto. apply mono_refl.
    + intros n P. apply inited_mono; auto. apply mono_refl.
    + exact (Inv_phase _ _ _ t Hi).
  - apply (SI_keep g g' a t); auto. exact (Inv_SI _ _ _ Hi).
  - rewrite (status_same g g'); auto. apply lp_ok_nil.
  - rewrite Hh. reflexivity.
  - right; right; split; [apply H5|apply H6].
  - intros k W S2. right. split; [exact W|]. rewrite H7. exact S2.
Qed.

(** a step that changes only [t]'s phase *)
Lemma Inv_rephase g a tr t p' es :
  Inv g a tr ->
  mono a t p' ->
  phase_ok g (upd_a a t p' []) t p' ->
  status_of g t p' = status_of g t (ph a t) ->
  (forall k ek i, ph a t = EPub k ek i -> p' = EPub k ek i) ->
  hist (Conc.tag t es) = [] ->
  (forall k, is_wait_push (ph a t) k -> d_stat g t = 2%nat -> (k < lim p')%nat \/ is_wait_push p' k) ->
  Inv g (upd_a a t p' []) (tr ++ Conc.tag t es).
Proof.
  intros Hi L Hok Hst Hp Hh Hnw.
  apply (Inv_keep g g a tr t (own a t)); [exact Hi| | |exact L|exact Hok| | | |hd_same|].
  - repeat split; auto.
  - apply wr_own. reflexivity.
  - apply (SI_keep g g a t); auto. exact (Inv_SI _ _ _ Hi).
  - rewrite Hst. apply lp_ok_nil.
  - rewrite Hh. reflexivity.
  - intros k W S2. destruct (Hnw k W S2); auto.
Qed.

Lemma phase_ok_upd g a t p' ae u q :
  mono a t p' -> phase_ok g a u q -> phase_ok g (upd_a a t p' ae) u q.
Proof.
  intros L H. apply (phase_ok_same g g a); auto.
  - intros n P. apply published_mono; auto.
  - intros n P. apply inited_mono; auto.
Qed.

Ltac sc := first [reflexivity | intros; reflexivity | intros; cbn; rewrite ?updf_other by auto; reflexivity].

(** ** spin lock on a slot: no effect on the invariant *)
Lemma safe_lock_loops fuel : forall t i l,
  safe t (lock_outer fuel i) l (fun _ l' => l' = l) /\ safe t (lock_inner fuel i) l (fun _ l' => l' = l).
Proof.
  induction fuel as [|f IH]; intros t i l; split; cbn [lock_outer lock_inner Conc.safe]; try reflexivity.
  - intros g a tr Hi Hv. unfold view in Hv. cbn [a_xchg_lock fst snd bool_of].
    exists (upd_a a t (ph a t) []). split; [|split; [apply frame_upd_a|]].
    { apply (Inv_stutter g); [exact Hi|sc|sc|sc|sc|sc|sc|sc|sc| |reflexivity]. destruct (ph a t); exact I || reflexivity. }
    rewrite view_upd_a, Hv. destruct (slot_lock g i); [apply IH|reflexivity].
  - intros g a tr Hi Hv. unfold view in Hv. cbn [a_ld_lock fst snd bool_of].
    exists (upd_a a t (ph a t) []). split; [|split; [apply frame_upd_a|]].
    { apply (Inv_stutter g); [exact Hi|sc|sc|sc|sc|sc|sc|sc|sc| |reflexivity]. destruct (ph a t); exact I || reflexivity. }
    rewrite view_upd_a, Hv. destruct (slot_lock g i); apply IH.
Qed.

Lemma safe_wait_loop n : forall t k l, safe t (wait_loop n t k) l (fun _ l' => l' = l).
Proof.
  induction n as [|m IH]; intros t k l; cbn [wait_loop Conc.safe]; [reflexivity|].
  intros g a tr Hi Hv. unfold view in Hv. cbn [a_ld_status fst snd nat_of].
  exists (upd_a a t (ph a t) []). split; [|split; [apply frame_upd_a|]].
  { apply (Inv_stutter g); [exact Hi|sc|sc|sc|sc|sc|sc|sc|sc| |reflexivity]. destruct (ph a t); exact I || reflexivity. }
  rewrite view_upd_a, Hv. destruct (Nat.eqb (d_stat g t) 1); [apply IH|reflexivity].
Qed.

(** ** elimination_backoff<true>::backoff *)
Definition pre_ph (k : nat) (ek : ekind) : phase :=
  match ek with KPush v q => EPushL k v q | KPop => EPop k end.

Definition Qbk (k : nat) (ek : ekind) : option bool -> phase -> Prop :=
  fun r l => match r with
             | None => True
             | Some false => l = pre_ph k ek
             | Some true => match ek with
                            | KPush v _ => l = EPushed k v
                            | KPop => exists n v, l = EPopX k n v
                            end
             end.

(** publication of the own record (slot.pRec = myRec; unlock) *)
Lemma Inv_publish g a tr t k ek i :
  Inv g a tr -> ph a t = EEnt k ek ->
  Inv (set_slot_lock (set_slot_rec g i (Some (t, k))) i false) (upd_a a t (EPub k ek i) [])
      (tr ++ Conc.tag t [EvAcc KSt (obj_lock i) true]).
Proof.
  intros Hi Hp. pose proof (Inv_phase _ _ _ t Hi) as Hme. rewrite Hp in Hme. cbn in Hme.
  destruct Hme as (Dp & Hpriv & Ds & Dv).
  apply (Inv_keep g _ a tr t (own a t)); [exact Hi| | | | | | |reflexivity|hd_same|nw Hp].
  - repeat split; auto.
  - apply wr_own. reflexivity.
  - unfold mono. rewrite Hp. cbn. lia.
  - cbn. unfold pub_ok. cbn. repeat split; auto.
  - intros j w kw E. cbn in E. unfold updf in E. cbn. destruct (Nat.eqb_spec j i) as [->|Hj].
    + inversion E; subst w kw. exists ek. rewrite set_ph_same. auto.
    + destruct (Inv_SI _ _ _ Hi j w kw E) as (ek' & E1 & E2).
      assert (w <> t) by (intros ->; congruence).
      exists ek'. rewrite set_ph_other; auto.
  - rewrite Hp. cbn. rewrite Ds. cbn. apply lp_ok_nil.
Qed.

(** withdrawal of the own record (if it is still there) and unlock *)
Lemma Inv_withdraw g a tr t k ek i :
  Inv g a tr -> ph a t = EPub k ek i ->
  Inv (set_slot_lock (if own_rec (slot_rec g i) t k then set_slot_rec g i None else g) i false)
      (upd_a a t (EFin k ek) []) (tr ++ Conc.tag t [EvAcc KSt (obj_lock i) true]).
Proof.
  intros Hi Hp. pose proof (Inv_phase _ _ _ t Hi) as Hme. rewrite Hp in Hme. cbn in Hme.
  set (g1 := if own_rec (slot_rec g i) t k then set_slot_rec g i None else g).
  assert (Hsame : top g1 = top g /\ next g1 = next g /\ val g1 = val g /\ hp g1 = hp g /\ d_push g1 = d_push g /\
                  d_val g1 = d_val g /\ d_stat g1 = d_stat g).
  { unfold g1. destruct (own_rec (slot_rec g i) t k); cbn; repeat split; reflexivity. }
  destruct Hsame as (S1 & S2 & S3 & S4 & S5 & S6 & S7).
  apply (Inv_keep g _ a tr t (own a t)); [exact Hi| | | | | | |reflexivity| |].
  - repeat split; cbn; rewrite ?S1, ?S2, ?S3, ?S4, ?S5, ?S6, ?S7; auto.
  - apply wr_own. cbn. now rewrite S3.
  - unfold mono. rewrite Hp. cbn. lia.
  - apply (phase_ok_same g _ a); try (intros; cbn; rewrite ?S2, ?S3, ?S4, ?S5, ?S6, ?S7; reflexivity).
    + intros n P. apply published_mono; auto. unfold mono. rewrite Hp. cbn. lia.
    + intros n P. apply inited_mono; auto. unfold mono. rewrite Hp. cbn. lia.
    + exact Hme.
  - intros j w kw E. cbn in E.
    assert (E0 : slot_rec g j = Some (w, kw) /\ ~ (j = i /\ w = t /\ kw = k)).
    { unfold g1 in E. destruct (own_rec (slot_rec g i) t k) eqn:Eo.
      - cbn in E. unfold updf in E. destruct (Nat.eqb_spec j i) as [->|Hj]; [discriminate|].
        split; auto. intros (H & _); contradiction.
      - split; auto. intros (-> & -> & ->). rewrite E in Eo. cbn in Eo. rewrite !Nat.eqb_refl in Eo. discriminate. }
    destruct E0 as [E0 Hnot].
    destruct (Inv_SI _ _ _ Hi j w kw E0) as (ek' & E1 & E2).
    assert (w <> t).
    { intros ->. rewrite Hp in E1. inversion E1; subst. apply Hnot. auto. }
    exists ek'. cbn. rewrite set_ph_other, S7; auto.
  - rewrite Hp. rewrite (status_same g (set_slot_lock g1 i false) t (EFin k ek)); try (intros; cbn; rewrite ?S3, ?S6, ?S7; reflexivity). apply lp_ok_nil.
  - right; right. cbn. rewrite S5, S6. split; reflexivity.
  - intros k0 W St2. right. rewrite Hp in W. cbn. rewrite S7. split; [|exact St2].
    destruct ek; cbn in *; auto.
Qed.

Lemma eqb_false_true b : Bool.eqb b true = false -> b = false.
Proof. destruct b; cbn; congruence. Qed.
Lemma eqb_false_false b : Bool.eqb b false = false -> b = true.
Proof. destruct b; cbn; congruence. Qed.

Lemma safe_backoff fuel t k ek rl cap :
  safe t (backoff fuel t k (isp ek) (pval t k ek) rl cap) (pre_ph k ek) (Qbk k ek).
Proof.
  unfold backoff. cbn [Conc.safe].
  (* op.nStatus.store( op_waiting ) *)
  intros g a tr Hi Hv. unfold view in Hv. cbn [a_st_status fst snd nat_of].
  pose proof (Inv_phase _ _ _ t Hi) as Hme. rewrite Hv in Hme.
  exists (upd_a a t (EEnt k ek) []). split; [|split; [apply frame_upd_a|]].
  { apply (Inv_keep g _ a tr t (own a t)); [exact Hi| | | | | | |reflexivity| |].
    - repeat split; cbn; rewrite ?updf_other; auto.
    - apply wr_own. reflexivity.
    - unfold mono. rewrite Hv. destruct ek; cbn; lia.
    - cbn. rewrite !updf_same. repeat split; auto. destruct ek; cbn in *; auto.
    - apply (SI_keep g _ a t); [exact (Inv_SI _ _ _ Hi)|sc| |].
      + intros u Hu. cbn. now rewrite updf_other.
      + intros k' ek' i' E. rewrite Hv in E. destruct ek; discriminate.
    - rewrite Hv. destruct ek; cbn; apply lp_ok_nil.
    - destruct ek; cbn; rewrite ?updf_same; [left; reflexivity|right; left; reflexivity].
    - intros k0 W. rewrite Hv in W. destruct ek; cbn in W; contradiction. }
  rewrite view_upd_a. remember (draw rl (rpos g t) cap) as i eqn:Ei. clear g a tr Hi Hv Hme Ei.
  apply Conc.safe_bind. eapply Conc.safe_weaken; [|apply (safe_lock_loops fuel t i (EEnt k ek))].
  intros got l ->. destruct got; [|exact I].
  (* first access under the lock *)
  cbn [Conc.safe]. intros g a tr Hi Hv. unfold view in Hv. unfold a_after_lock.
  pose proof (Inv_phase _ _ _ t Hi) as Hme. rewrite Hv in Hme. cbn in Hme. destruct Hme as (Dp & Hpriv & Ds & Dv).
  assert (Hpublish :
    exists a', Inv (set_slot_lock (set_slot_rec g i (Some (t, k))) i false) a'
                   (tr ++ Conc.tag t [EvAcc KSt (obj_lock i) true]) /\ Conc.frame view t a a' /\
      safe t (bind (wait_loop nwait t k) (fun _ =>
              bind (lock_outer fuel i) (fun got2 =>
                if got2 then Act (a_withdraw t k i) (fun _ =>
                             Act (a_ld_status t k) (fun s => Ret (Some (Nat.eqb (nat_of s) 2))))
                else Ret None))) (view a' t) (Qbk k ek)).
  { exists (upd_a a t (EPub k ek i) []). split; [apply Inv_publish; auto|]. split; [apply frame_upd_a|].
    rewrite view_upd_a. clear g a tr Hi Hv Dp Hpriv Ds Dv.
    apply Conc.safe_bind. eapply Conc.safe_weaken; [|apply (safe_wait_loop nwait t k (EPub k ek i))].
    intros _ l ->.
    apply Conc.safe_bind. eapply Conc.safe_weaken; [|apply (safe_lock_loops fuel t i (EPub k ek i))].
    intros got2 l ->. destruct got2; [|exact I].
    (* withdrawal *)
    cbn [Conc.safe]. intros g a tr Hi Hv. unfold view in Hv. cbn [a_withdraw fst snd].
    exists (upd_a a t (EFin k ek) []). split; [apply Inv_withdraw; auto|]. split; [apply frame_upd_a|].
    rewrite view_upd_a. cbn [Conc.safe]. clear g a tr Hi Hv.
    (* final status *)
    intros g a tr Hi Hv. unfold view in Hv. cbn [a_ld_status fst snd nat_of].
    pose proof (Inv_phase _ _ _ t Hi) as Hme. rewrite Hv in Hme. cbn in Hme. destruct Hme as (Dp & Hpriv & Hd).
    destruct (Nat.eqb_spec (d_stat g t) 2) as [E2|E2].
    - (* collided *)
      destruct Hd as [[Hd _]|[_ Hd]]; [congruence|].
      destruct ek as [v q|].
      + exists (upd_a a t (EPushed k v) []). split; [|split; [apply frame_upd_a|]].
        { apply Inv_rephase; [exact Hi| | | | |reflexivity|intros k0 W _; rewrite Hv in W; cbn in W; subst k0; left; cbn; lia].
          - unfold mono. rewrite Hv. cbn. lia.
          - exact I.
          - rewrite Hv. cbn. rewrite E2. reflexivity.
          - intros k' ek' i' E. rewrite Hv in E. discriminate. }
        rewrite view_upd_a. reflexivity.
      + destruct Hd as (n & En & Hin).
        exists (upd_a a t (EPopX k n (val g n)) []). split; [|split; [apply frame_upd_a|]].
        { apply Inv_rephase; [exact Hi| | | | |reflexivity|nw Hv].
          - unfold mono. rewrite Hv. cbn. lia.
          - cbn. repeat split; auto. apply inited_mono; auto. unfold mono. rewrite Hv. cbn. lia.
          - rewrite Hv. cbn. rewrite E2, En. reflexivity.
          - intros k' ek' i' E. rewrite Hv in E. discriminate. }
        rewrite view_upd_a. cbn. eauto.
    - (* not collided *)
      exists (upd_a a t (pre_ph k ek) []). split; [|split; [apply frame_upd_a|]].
      { apply Inv_rephase; [exact Hi| | | | |reflexivity|intros k0 W St2; contradiction].
        - unfold mono. rewrite Hv. destruct ek; cbn; lia.
        - destruct ek; cbn in *; auto.
        - rewrite Hv. cbn. apply Nat.eqb_neq in E2. rewrite E2. destruct ek; reflexivity.
        - intros k' ek' i' E. rewrite Hv in E. discriminate. }
      rewrite view_upd_a. reflexivity. }
  destruct (slot_rec g i) as [[u ku]|] eqn:Es; [|exact Hpublish].
  destruct (Bool.eqb (d_push g u) (d_push g t)) eqn:Ek; [exact Hpublish|]. clear Hpublish.
  rewrite Dp in *. destruct ek as [v q|]; cbn [isp] in *; cbn [fst snd bool_of].
  - (* active pusher *)
    apply eqb_false_true in Ek.
    exists (mkA (stk a) (atr a ++ [ELin t; ELin u]) (set_ph (ph a) t (EPushed k v))).
    split; [apply (Inv_collide_push g a tr t k v q i u ku); auto|]. split; [apply frame_set_ph|].
    unfold view; cbn [ph]. rewrite set_ph_same. cbn [Conc.safe]. clear g a tr Hi Hv Dp Hpriv Ds Dv Es Ek.
    intros g a tr Hi Hv. unfold view in Hv. cbn [a_unlock fst snd].
    exists (upd_a a t (ph a t) []). split; [|split; [apply frame_upd_a|]].
    { apply (Inv_stutter g); [exact Hi|sc|sc|sc|sc|sc|sc|sc|sc| |reflexivity]. rewrite Hv. exact I. }
    rewrite view_upd_a, Hv. reflexivity.
  - (* active popper *)
    apply eqb_false_false in Ek.
    destruct (Inv_collide_pop g a tr t k i u ku Hi Hv Es Ek) as (vu & _ & _ & Hinv).
    exists (mkA (stk a) (atr a ++ [ELin u; ELin t]) (set_ph (ph a) t (EPopX k (u, ku) vu))).
    split; [exact Hinv|]. split; [apply frame_set_ph|].
    unfold view; cbn [ph]. rewrite set_ph_same. cbn [Conc.safe]. clear g a tr Hi Hv Dp Hpriv Ds Dv Es Ek Hinv.
    intros g a tr Hi Hv. unfold view in Hv. cbn [a_unlock fst snd].
    exists (upd_a a t (ph a t) []). split; [|split; [apply frame_upd_a|]].
    { apply (Inv_stutter g); [exact Hi|sc|sc|sc|sc|sc|sc|sc|sc| |reflexivity]. rewrite Hv. exact I. }
    rewrite view_upd_a, Hv. cbn. eauto.
Qed.

Lemma hist_acc t k o b : hist (Conc.tag t [EvAcc k o b]) = [].
Proof. reflexivity. Qed.

Ltac not_pub Hv := let k := fresh in let ek := fresh in let i := fresh in let E := fresh in
  intros k ek i E; rewrite Hv in E; discriminate.

(** a stutter step, packaged for [safe] *)
Lemma stutter_ok g g' a tr t es l :
  Inv g a tr -> view a t = l ->
  top g' = top g -> (forall n, next g' n = next g n) -> (forall n, val g' n = val g n) ->
  (forall u, u <> t -> hp g' u = hp g u) ->
  (forall u, d_push g' u = d_push g u) -> (forall u, d_val g' u = d_val g u) -> (forall u, d_stat g' u = d_stat g u) ->
  (forall i, slot_rec g' i = slot_rec g i) ->
  (match l with EPopH _ _ | EPopV _ _ | EPopR _ _ _ => hp g' t = hp g t | _ => True end) ->
  hist (Conc.tag t es) = [] ->
  exists a', Inv g' a' (tr ++ Conc.tag t es) /\ Conc.frame view t a a' /\ view a' t = l.
Proof.
  intros Hi Hv H1 H2 H3 H4 H5 H6 H7 H8 H9 Hh. unfold view in Hv. subst l.
  exists (upd_a a t (ph a t) []). split; [apply (Inv_stutter g); auto|]. split; [apply frame_upd_a|apply view_upd_a].
Qed.

(** ** push *)
Lemma safe_push_loop fuel rl cap : forall t k v p p0 (Q : bool -> phase -> Prop),
  Q true (EPushed k v) -> (forall l, Q false l) ->
  safe t (push_loop fuel t k rl cap (t, k) p) (EPushL k v p0) Q.
Proof.
  induction fuel as [|f IH]; intros t k v p p0 Q Q1 Q2; cbn [push_loop Conc.safe]; [apply Q2|].
  (* pNew->m_pNext.store( t ) *)
  intros g a tr Hi Hv. unfold view in Hv. cbn [a_st_next fst snd].
  pose proof (Inv_phase _ _ _ t Hi) as Hme. rewrite Hv in Hme. cbn in Hme. destruct Hme as [_ Hval].
  exists (upd_a a t (EPushL k v p) []). split; [|split; [apply frame_upd_a|]].
  { apply (Inv_keep g _ a tr t (t, k)); [exact Hi| | | | | | |reflexivity|hd_same|nw Hv].
    - repeat split; auto. cbn. rewrite node_eqb_neq; auto.
    - split; [left; rewrite Hv; split; reflexivity|left; reflexivity].
    - unfold mono. rewrite Hv. cbn. lia.
    - cbn. rewrite node_eqb_refl. auto.
    - apply (SI_keep g _ a t); [exact (Inv_SI _ _ _ Hi)|sc|sc|not_pub Hv].
    - rewrite Hv. apply lp_ok_nil. }
  rewrite view_upd_a. cbn [Conc.safe]. clear g a tr Hi Hv Hval.
  (* m_Top.compare_exchange_weak( t, pNew ) *)
  intros g a tr Hi Hv. unfold view in Hv. unfold a_cas_top.
  destruct (ptr_eqb (top g) p) eqn:E; cbn [fst snd].
  - apply ptr_eqb_spec in E.
    exists (mkA ((t, k) :: stk a) (atr a ++ [ELin t]) (set_ph (ph a) t (EPushed k v))).
    split; [apply (Inv_push_lp g a tr t k v p); auto|]. split; [apply frame_set_ph|].
    unfold view; cbn. rewrite set_ph_same. exact Q1.
  - destruct (stutter_ok g g a tr t [EvAcc KCas obj_top false] (EPushL k v p) Hi Hv) as (a' & H1 & H2 & H3);
      try sc.
    exists a'. split; [exact H1|]. split; [exact H2|]. unfold view in H3 |- *; rewrite H3. cbn [ptr_of].
    apply Conc.safe_bind. eapply Conc.safe_weaken; [|apply (safe_backoff f t k (KPush v p) rl cap)].
    intros [[|]|] l Hl; cbn in Hl.
    + subst l. exact Q1.
    + subst l. apply IH; auto.
    + apply Q2.
Qed.

Lemma safe_push fuel rl cap t k v (Q : bool -> phase -> Prop) :
  Q true (EPushed k v) -> (forall l, Q false l) ->
  safe t (push fuel t k rl cap v) (EPush k v) Q.
Proof.
  intros Q1 Q2. unfold push. cbn [Conc.safe].
  (* node constructor *)
  intros g a tr Hi Hv. unfold view in Hv. cbn [a_node_init fst snd].
  exists (upd_a a t (EPushL k v None) []). split; [|split; [apply frame_upd_a|]].
  { apply (Inv_keep g _ a tr t (t, k)); [exact Hi| | | | | | |reflexivity|hd_same|nw Hv].
    - repeat split; auto; cbn; rewrite node_eqb_neq; auto.
    - split; [left; rewrite Hv; split; reflexivity|right]. unfold inited; cbn. rewrite Hv. cbn. lia.
    - unfold mono. rewrite Hv. cbn. lia.
    - cbn. rewrite !node_eqb_refl. auto.
    - apply (SI_keep g _ a t); [exact (Inv_SI _ _ _ Hi)|sc|sc|not_pub Hv].
    - rewrite Hv. apply lp_ok_nil. }
  rewrite view_upd_a. cbn [Conc.safe]. clear g a tr Hi Hv.
  (* m_Top.load *)
  intros g a tr Hi Hv. cbn [a_ld_top fst snd].
  destruct (stutter_ok g g a tr t [EvAcc KLd obj_top true] _ Hi Hv) as (a' & H1 & H2 & H3); try sc.
  exists a'. split; [exact H1|]. split; [exact H2|]. unfold view in H3 |- *; rewrite H3. cbn [ptr_of]. apply safe_push_loop; auto.
Qed.

(** ** Guard::protect( m_Top ) *)
Definition Qprot (k : nat) : option ptr -> phase -> Prop :=
  fun r l => match r with
             | None => True
             | Some None => l = EPopE k
             | Some (Some n) => l = EPopV k n
             end.

Lemma safe_protect_loop fuel : forall t k pCur,
  safe t (protect_loop fuel t pCur) (EPop k) (Qprot k).
Proof.
  induction fuel as [|f IH]; intros t k pCur; cbn [protect_loop Conc.safe]; [exact I|].
  (* hazard slot store *)
  intros g a tr Hi Hv. unfold view in Hv. cbn [a_st_hp fst snd].
  exists (upd_a a t (EPopH k pCur) []). split; [|split; [apply frame_upd_a|]].
  { apply (Inv_keep g _ a tr t (own a t)); [exact Hi| | | | | | |reflexivity|hd_same|nw Hv].
    - repeat split; auto; cbn; rewrite updf_other; auto.
    - apply wr_own. reflexivity.
    - unfold mono. rewrite Hv. cbn. lia.
    - cbn. now rewrite updf_same.
    - apply (SI_keep g _ a t); [exact (Inv_SI _ _ _ Hi)|sc|sc|not_pub Hv].
    - rewrite Hv. apply lp_ok_nil. }
  rewrite view_upd_a. cbn [Conc.safe]. clear g a tr Hi Hv.
  (* sync_.fetch_add *)
  intros g a tr Hi Hv. cbn [a_faa_sync fst snd].
  destruct (stutter_ok g g a tr t [EvAcc KFaa (obj_sync t) true] _ Hi Hv) as (a' & H1 & H2 & H3); try sc.
  exists a'. split; [exact H1|]. split; [exact H2|]. unfold view in H3 |- *; rewrite H3. cbn [Conc.safe]. clear g a tr Hi Hv a' H1 H2 H3.
  (* validating load *)
  intros g a tr Hi Hv. unfold view in Hv. cbn [a_ld_top fst snd ptr_of].
  pose proof (Inv_phase _ _ _ t Hi) as Hme. rewrite Hv in Hme. cbn in Hme.
  destruct (ptr_eqb pCur (top g)) eqn:E.
  - apply ptr_eqb_spec in E. subst pCur. destruct (top g) as [n|] eqn:Etop.
    + exists (upd_a a t (EPopV k n) []). split; [|split; [apply frame_upd_a|]].
      { apply Inv_rephase; [exact Hi| | | | |reflexivity|nw Hv].
        - unfold mono. rewrite Hv. cbn. lia.
        - cbn. split; auto. apply published_mono; [unfold mono; rewrite Hv; cbn; lia|].
          destruct Hi as (I1 & _ & I3 & _). destruct (chain_head _ _ _ n I1 Etop) as (r & Hs & _).
          apply I3. rewrite Hs. left; reflexivity.
        - now rewrite Hv.
        - not_pub Hv. }
      rewrite view_upd_a. reflexivity.
    + (* validated null: the linearization point of an empty pop *)
      exists (upd_a a t (EPopE k) [ELin t]). split; [|split; [apply frame_upd_a|]].
      { apply (Inv_keep g g a tr t (own a t)); [exact Hi| | | | | | |reflexivity|hd_same|nw Hv].
        - repeat split; auto.
        - apply wr_own. reflexivity.
        - unfold mono. rewrite Hv. cbn. lia.
        - exact I.
        - apply (SI_keep g _ a t); [exact (Inv_SI _ _ _ Hi)|sc|sc|not_pub Hv].
        - rewrite Hv. cbn [status_of]. destruct Hi as (I1 & _). rewrite Etop in I1.
          apply chain_nil in I1. rewrite I1. apply lp_ok_empty. }
      rewrite view_upd_a. reflexivity.
  - exists (upd_a a t (EPop k) []). split; [|split; [apply frame_upd_a|]].
    { apply Inv_rephase; [exact Hi| | | | |reflexivity|nw Hv].
      - unfold mono. rewrite Hv. cbn. lia.
      - exact I.
      - now rewrite Hv.
      - not_pub Hv. }
    rewrite view_upd_a. apply IH.
Qed.

Lemma safe_protect fuel t k : safe t (protect fuel t) (EPop k) (Qprot k).
Proof.
  unfold protect. cbn [Conc.safe].
  intros g a tr Hi Hv. cbn [a_ld_top fst snd ptr_of].
  destruct (stutter_ok g g a tr t [EvAcc KLd obj_top true] _ Hi Hv) as (a' & H1 & H2 & H3); try sc.
  exists a'. split; [exact H1|]. split; [exact H2|]. unfold view in H3 |- *; rewrite H3. apply safe_protect_loop.
Qed.

(** ** pop *)
Definition Qpop (k : nat) : pop_res -> phase -> Prop :=
  fun r l => match r with
             | PopFuel => True
             | PopEmpty => l = EPopE k
             | Popped v => exists n, l = EPopG k n v \/ l = EPopX k n v
             end.

(** retire_node: two accesses to the thread's retired array *)
Lemma safe_finish_pop t x l (Q : pop_res -> phase -> Prop) :
  (match l with EPopH _ _ | EPopV _ _ | EPopR _ _ _ => False | _ => True end) ->
  Q (Popped (z_of x)) l -> safe t (finish_pop t x) l Q.
Proof.
  intros Hl HQ. unfold finish_pop. cbn [Conc.safe].
  intros g a tr Hi Hv. cbn [a_ld_ret fst snd].
  destruct (stutter_ok g (match ptr_of x with Some n => add_retired g t n | None => g end) a tr t
              [EvAcc KLd (obj_ret t) true] _ Hi Hv) as (a' & H1 & H2 & H3);
    try (destruct (ptr_of x); sc).
  { destruct l; try exact I; contradiction. }
  exists a'. split; [exact H1|]. split; [exact H2|]. unfold view in H3 |- *; rewrite H3. cbn [Conc.safe]. clear g a tr Hi Hv a' H1 H2 H3.
  intros g a tr Hi Hv. cbn [a_st_ret fst snd].
  destruct (stutter_ok g g a tr t [EvAcc KSt (obj_ret t) true] _ Hi Hv) as (a' & H1 & H2 & H3); try sc.
  { destruct l; try exact I; contradiction. }
  exists a'. split; [exact H1|]. split; [exact H2|]. unfold view in H3 |- *; rewrite H3. exact HQ.
Qed.

Lemma safe_pop_loop fuel rl cap : forall t k, safe t (pop_loop fuel t k rl cap) (EPop k) (Qpop k).
Proof.
  induction fuel as [|f IH]; intros t k; cbn [pop_loop]; [exact I|].
  apply Conc.safe_bind. eapply Conc.safe_weaken; [|apply safe_protect].
  intros [[n|]|] l Hl; cbn in Hl; [| |exact I]; subst l.
  - (* a node was validated: t->m_pNext.load *)
    cbn [Conc.safe]. intros g a tr Hi Hv. unfold view in Hv. cbn [a_ld_next fst snd ptr_of].
    pose proof (Inv_phase _ _ _ t Hi) as Hme. rewrite Hv in Hme. cbn in Hme. destruct Hme as [Hpub Hhp].
    exists (upd_a a t (EPopR k n (next g n)) []). split; [|split; [apply frame_upd_a|]].
    { apply Inv_rephase; [exact Hi| | | | |reflexivity|nw Hv].
      - unfold mono. rewrite Hv. cbn. lia.
      - cbn. repeat split; auto. apply published_mono; [unfold mono; rewrite Hv; cbn; lia|auto].
      - now rewrite Hv.
      - not_pub Hv. }
    rewrite view_upd_a. cbn [Conc.safe]. remember (next g n) as nx eqn:Enx. clear g a tr Hi Hv Hpub Hhp Enx.
    (* m_Top.compare_exchange_weak( t, pNext ) *)
    intros g a tr Hi Hv. unfold view in Hv. unfold a_cas_top.
    destruct (ptr_eqb (top g) (Some n)) eqn:E; cbn [fst snd].
    + apply ptr_eqb_spec in E.
      exists (mkA (tl (stk a)) (atr a ++ [ELin t]) (set_ph (ph a) t (EPopG k n (val g n)))).
      split; [apply (Inv_pop_lp g a tr t k n nx); auto|]. split; [apply frame_set_ph|].
      unfold view; cbn [ph]. rewrite set_ph_same. cbn [Conc.safe].
      remember (val g n) as v eqn:Ev. clear g a tr Hi Hv E Ev.
      (* clear_links *)
      intros g a tr Hi Hv. unfold view in Hv. cbn [a_st_next fst snd].
      pose proof (Inv_phase _ _ _ t Hi) as Hme. rewrite Hv in Hme. cbn in Hme. destruct Hme as (Hpub & Hnin & Hval).
      exists (upd_a a t (EPopG k n v) []). split; [|split; [apply frame_upd_a|]].
      { apply (Inv_keep g _ a tr t n); [exact Hi| | | | | | |reflexivity|hd_same|nw Hv].
        - repeat split; auto. cbn. rewrite node_eqb_neq; auto.
        - split; [right; auto|left; reflexivity].
        - unfold mono. rewrite Hv. cbn. lia.
        - cbn. repeat split; auto. apply published_mono; [unfold mono; rewrite Hv; cbn; lia|auto].
        - apply (SI_keep g _ a t); [exact (Inv_SI _ _ _ Hi)|sc|sc|not_pub Hv].
        - rewrite Hv. apply lp_ok_nil. }
      rewrite view_upd_a. cbn [Conc.safe]. clear g a tr Hi Hv Hpub Hnin Hval.
      (* ~Guard, value read *)
      intros g a tr Hi Hv. cbn [a_st_hp_rd fst snd].
      pose proof (Inv_phase _ _ _ t Hi) as Hme. unfold view in Hv. rewrite Hv in Hme. cbn in Hme.
      destruct Hme as (Hpub & Hnin & Hval).
      destruct (stutter_ok g (set_hp g t None) a tr t [EvAcc KSt (obj_hp t) true] _ Hi Hv) as (a' & H1 & H2 & H3);
        try sc.
      exists a'. split; [exact H1|]. split; [exact H2|]. unfold view in H3 |- *; rewrite H3. rewrite Hval.
      apply safe_finish_pop; [exact I|]. cbn. exists n. left; reflexivity.
    + (* CAS failed: elimination back-off *)
      exists (upd_a a t (EPop k) []). split; [|split; [apply frame_upd_a|]].
      { apply Inv_rephase; [exact Hi| | | | |reflexivity|nw Hv].
        - unfold mono. rewrite Hv. cbn. lia.
        - exact I.
        - now rewrite Hv.
        - not_pub Hv. }
      rewrite view_upd_a. clear g a tr Hi Hv E.
      apply Conc.safe_bind. eapply Conc.safe_weaken; [|apply (safe_backoff f t k KPop rl cap)].
      intros [[|]|] l Hl; cbn in Hl.
      * (* eliminated: return op.pVal; ~Guard; value read; retire *)
        destruct Hl as (m & v & ->). cbn [Conc.safe].
        intros g a tr Hi Hv. cbn [a_st_hp_rd_elim fst snd].
        pose proof (Inv_phase _ _ _ t Hi) as Hme. unfold view in Hv. rewrite Hv in Hme. cbn in Hme.
        destruct Hme as (Hin & Hval & Hdv).
        destruct (stutter_ok g (set_hp g t None) a tr t [EvAcc KSt (obj_hp t) true] _ Hi Hv) as (a' & H1 & H2 & H3);
          try sc.
        exists a'. split; [exact H1|]. split; [exact H2|]. unfold view in H3 |- *; rewrite H3. rewrite Hdv, Hval.
        apply safe_finish_pop; [exact I|]. cbn. exists m. right; reflexivity.
      * subst l. apply IH.
      * exact I.
  - (* empty: ~Guard *)
    cbn [Conc.safe]. intros g a tr Hi Hv. cbn [a_st_hp fst snd].
    destruct (stutter_ok g (set_hp g t None) a tr t [EvAcc KSt (obj_hp t) true] _ Hi Hv) as (a' & H1 & H2 & H3);
      try sc.
    exists a'. split; [exact H1|]. split; [exact H2|]. unfold view in H3 |- *; rewrite H3. reflexivity.
Qed.

(** ** client operations *)
Definition Qop (k : nat) : bool -> phase -> Prop := fun ok l => ok = true -> l = EIdle (S k).

Lemma safe_emit_fuel t l (Q : bool -> phase -> Prop) :
  (forall l', Q false l') -> safe t (Emit [EvCli "outoffuel" []] (Ret false)) l Q.
Proof.
  intros HQ. cbn [Conc.safe]. intros g a tr Hi Hv.
  destruct (stutter_ok g g a tr t [EvCli "outoffuel" []] _ Hi Hv) as (a' & H1 & H2 & H3); try sc.
  { destruct l; try exact I; reflexivity. }
  exists a'. split; [exact H1|]. split; [exact H2|]. apply HQ.
Qed.

(** invoke / response events *)
Lemma safe_client g a tr t p' ae es :
  Inv g a tr ->
  mono a t p' ->
  phase_ok g (upd_a a t p' ae) t p' ->
  (forall k ek i, ph a t = EPub k ek i -> False) ->
  lp_ok t (map (val g) (stk a)) (status_of g t (ph a t)) (status_of g t p') ae ->
  erase ae = hist (Conc.tag t es) ->
  (forall k, is_wait_push (ph a t) k -> False) ->
  Inv g (upd_a a t p' ae) (tr ++ Conc.tag t es).
Proof.
  intros Hi L Hok Hnp Hlp Her Hnw.
  apply (Inv_keep g g a tr t (own a t)); [exact Hi| | |exact L|exact Hok| |exact Hlp|exact Her|hd_same|];
    [| | |intros k W; destruct (Hnw k W)].
  - repeat split; auto.
  - apply wr_own. reflexivity.
  - apply (SI_keep g g a t); auto. exact (Inv_SI _ _ _ Hi). intros k ek i E. destruct (Hnp _ _ _ E).
Qed.

Lemma safe_run_op fuel rl cap t k o : safe t (run_op fuel t k rl cap o) (EIdle k) (Qop k).
Proof.
  destruct o as [v|]; cbn [run_op Conc.safe].
  - (* push *)
    intros g a tr Hi Hv. unfold view in Hv.
    exists (upd_a a t (EPush k v) [EInv t (Push v)]). split; [|split; [apply frame_upd_a|]].
    { apply safe_client; [exact Hi| | | | |reflexivity|nw Hv].
      - unfold mono. rewrite Hv. cbn. lia.
      - exact I.
      - intros k' ek i E. rewrite Hv in E. discriminate.
      - rewrite Hv. apply lp_ok_inv. }
    rewrite view_upd_a. apply Conc.safe_bind.
    apply (safe_push fuel rl cap t k v
             (fun ok l => safe t (if ok then Emit [EvCli "ret_push" [1]] (Ret true)
                                  else Emit [EvCli "outoffuel" []] (Ret false)) l (Qop k))).
    + cbn [Conc.safe]. clear g a tr Hi Hv. intros g a tr Hi Hv. unfold view in Hv.
      exists (upd_a a t (EIdle (S k)) [ERes t (RBool true)]). split; [|split; [apply frame_upd_a|]].
      { apply safe_client; [exact Hi| | | | |reflexivity|nw Hv].
        - unfold mono. rewrite Hv. cbn. lia.
        - exact I.
        - intros k' ek i E. rewrite Hv in E. discriminate.
        - rewrite Hv. apply lp_ok_res. }
      rewrite view_upd_a. intros _. reflexivity.
    + intros l. apply safe_emit_fuel. intros l' H. discriminate.
  - (* pop *)
    intros g a tr Hi Hv. unfold view in Hv.
    exists (upd_a a t (EPop k) [EInv t Pop]). split; [|split; [apply frame_upd_a|]].
    { apply safe_client; [exact Hi| | | | |reflexivity|nw Hv].
      - unfold mono. rewrite Hv. cbn. lia.
      - exact I.
      - intros k' ek i E. rewrite Hv in E. discriminate.
      - rewrite Hv. apply lp_ok_inv. }
    rewrite view_upd_a. apply Conc.safe_bind.
    eapply Conc.safe_weaken; [|apply safe_pop_loop].
    intros [| |v] l Hl; cbn in Hl.
    + apply safe_emit_fuel. intros l' H. discriminate.
    + subst l. cbn [Conc.safe]. clear g a tr Hi Hv. intros g a tr Hi Hv. unfold view in Hv.
      exists (upd_a a t (EIdle (S k)) [ERes t (RVal None)]). split; [|split; [apply frame_upd_a|]].
      { apply safe_client; [exact Hi| | | | |reflexivity|nw Hv].
        - unfold mono. rewrite Hv. cbn. lia.
        - exact I.
        - intros k' ek i E. rewrite Hv in E. discriminate.
        - rewrite Hv. apply lp_ok_res. }
      rewrite view_upd_a. intros _. reflexivity.
    + cbn [Conc.safe]. clear g a tr Hi Hv. intros g a tr Hi Hv. unfold view in Hv.
      exists (upd_a a t (EIdle (S k)) [ERes t (RVal (Some v))]). split; [|split; [apply frame_upd_a|]].
      { apply safe_client; [exact Hi| | | | |reflexivity|intros k0 W; rewrite Hv in W; destruct Hl as [n [-> | ->]]; destruct W].
        - unfold mono. rewrite Hv. destruct Hl as [n [-> | ->]]; cbn; lia.
        - exact I.
        - intros k' ek i E. rewrite Hv in E. destruct Hl as [n [-> | ->]]; discriminate.
        - rewrite Hv. destruct Hl as [n [-> | ->]]; cbn [status_of]; apply lp_ok_res. }
      rewrite view_upd_a. intros _. reflexivity.
Qed.

Lemma safe_run_ops fuel rl cap t os : forall k, safe t (run_ops fuel t k rl cap os) (EIdle k) (@Conc.QTrue phase).
Proof.
  induction os as [|o r IH]; intros k; cbn [run_ops]; [exact I|].
  apply Conc.safe_bind. eapply Conc.safe_weaken; [|apply safe_run_op].
  intros [|] l Hl; [|exact I]. rewrite (Hl eq_refl). apply IH.
Qed.

Lemma safe_thread fuel cap t rl os : safe t (thread_prog fuel cap t rl os) (EIdle 0) (@Conc.QTrue phase).
Proof.
  unfold thread_prog. cbn [Conc.safe]. intros g a tr Hi Hv. cbn [a_begin fst snd].
  destruct (stutter_ok g g a tr t [EvAcc KBegin [] true] _ Hi Hv) as (a' & H1 & H2 & H3); try sc.
  exists a'. split; [exact H1|]. split; [exact H2|]. unfold view in H3 |- *; rewrite H3. apply safe_run_ops.
Qed.

Lemma nth_thread_progs fuel cap ths : forall t0 i p,
  nth_error (thread_progs fuel cap t0 ths) i = Some p ->
  exists rl os, p = thread_prog fuel cap (t0 + i) rl os.
Proof.
  induction ths as [|[rl os] r IH]; intros t0 [|i] p H; cbn in H; try discriminate.
  - inversion H. exists rl, os. now rewrite Nat.add_0_r.
  - destruct (IH (S t0) i p H) as (rl' & os' & ->). exists rl', os'. f_equal. lia.
Qed.

Definition aux0 : Aux := mkA [] [] (fun _ => EIdle 0).

Lemma init_ok fuel cap ths : Conc.cfg_ok view Inv (init_cfg fuel cap ths).
Proof.
  exists aux0. split.
  - unfold Inv. cbn [init_cfg Conc.shared Conc.trace]. split_inv.
    + reflexivity.
    + constructor.
    + intros n [].
    + intros t. exact I.
    + intros i u ku E. discriminate.
    + exists (fun _ => SIdle). split; reflexivity.
    + reflexivity.
    + intros u n [_ H]. discriminate.
  - intros t p Hp. cbn [init_cfg Conc.threads] in Hp.
    destruct (nth_thread_progs _ _ _ _ _ _ Hp) as (rl & os & ->). cbn. apply safe_thread.
Qed.

(** ** the theorems: every reachable configuration of the Treiber stack with elimination back-off (every schedule,
       any number of threads, any client program, any collision-array capacity, any random numbers, any loop
       fuel) has a history that is the erasure of a trace with valid linearization points; at a collision the
       annotated trace receives TWO linearization points in one step, push then pop *)
Theorem treiber_elim_lp_valid fuel cap ths c :
  Conc.reach (init_cfg fuel cap ths) c ->
  exists atr, lp_valid Stack atr /\ erase atr = hist (Conc.trace c).
Proof.
  intros Hr. destruct (Conc.reach_Inv (init_ok fuel cap ths) Hr) as (a & _ & _ & _ & _ & _ & (sts & H & _) & He & _).
  exists (atr a). split; [|exact He]. eexists. exact H.
Qed.

Theorem treiber_elim_linearizable fuel cap ths c :
  Conc.reach (init_cfg fuel cap ths) c -> linearizable Stack (hist (Conc.trace c)).
Proof.
  intros Hr. destruct (treiber_elim_lp_valid fuel cap ths c Hr) as (atr & Hv & He).
  rewrite <- He. now apply lp_valid_linearizable.
Qed.

(** ** "An eliminated push/pop pair delivers the pushed item to exactly one popper" at the level of nodes:
       in every reachable configuration a node that sits in the descriptor of a pop (it was handed over through a
       collision slot) sits in no other pop descriptor, and it is not on the m_pNext chain from m_Top — it never
       enters the list *)
Theorem elim_exactly_one_popper fuel cap ths c :
  Conc.reach (init_cfg fuel cap ths) c ->
  let g := Conc.shared c in
  (forall t1 t2 n, d_push g t1 = false -> d_push g t2 = false ->
                   d_val g t1 = Some n -> d_val g t2 = Some n -> t1 = t2) /\
  (forall t n l, d_push g t = false -> d_val g t = Some n -> chain (next g) (top g) l -> ~ In n l).
Proof.
  intros Hr g. destruct (Conc.reach_Inv (init_ok fuel cap ths) Hr) as (a & I1 & _ & _ & _ & _ & _ & _ & I8).
  fold g in I1, I8. split.
  - intros t1 t2 n P1 P2 V1 V2. destruct (I8 t2 n (conj P2 V2)) as (_ & _ & U). apply U. split; auto.
  - intros t n l P V C. destruct (I8 t n (conj P V)) as (_ & N & _).
    assert (l = stk a); [|subst l; exact N].
    clear - C I1. revert C I1. generalize (top g) as p. generalize (stk a) as l'. revert l.
    induction l as [|x l IH]; intros [|y l'] p C C'; cbn in *; auto.
    + destruct C' as [E _]. congruence.
    + destruct C as [E _]. congruence.
    + destruct C as [E C], C' as [E' C']. assert (x = y) by congruence. subst y. f_equal. eapply IH; eauto.
Qed.
