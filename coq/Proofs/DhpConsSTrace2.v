(** * DhpConsSTrace2: [mine] keeps everything a thread retired since its last "_att" event. *)
From Coq Require Import ZArith NArith List String Bool Lia PeanoNat.
From LV Require Import Base.Conc Base.Events Model.DhpLang Model.Dhp Proofs.DhpBase Proofs.DhpHist Proofs.DhpInvB Proofs.DhpConsSTrace.
Import ListNotations.

(** without "_att" event of t in between, nothing retired by t is forgotten *)
Lemma mine_fold_in t l :
  (forall e, In e l -> fst e = t -> forall r', classify (snd e) <> HAtt r') ->
  forall acc p, In p acc \/ In p (flat_map (fun e => if Nat.eqb (fst e) t then retired_ev (snd e) else []) l) ->
  In p (fold_left (mine_step t) l acc).
Proof.
  induction l as [|e l IH]; intros Hna acc p H; cbn in *; [destruct H as [H|[]]; exact H|].
  apply IH; [intros; apply Hna; auto|]. unfold mine_step. destruct (Nat.eqb_spec (fst e) t) as [E|N].
  - destruct H as [H|H].
    + left. destruct (classify (snd e)) eqn:Ec; try (apply in_or_app; now right). exfalso. eapply (Hna e); eauto.
    + apply in_app_or in H. destruct H as [H|H]; [left|now right].
      destruct (classify (snd e)) eqn:Ec; try (apply in_or_app; now left). exfalso. eapply (Hna e); eauto.
  - destruct H as [H|H]; [now left|now right].
Qed.
