(** * DhpClearA: thread_hp_storage::clear() as executed by detach_thread. *)
From Coq Require Import ZArith NArith List String Bool Lia PeanoNat.
From LV Require Import Base.Conc Base.Events Model.DhpLang Model.Dhp Proofs.DhpBase Proofs.DhpHist
  Proofs.DhpLangProofs Proofs.DhpInvA Proofs.DhpStepsA Proofs.DhpQuietA Proofs.DhpSlotA Proofs.DhpScanA Proofs.DhpScanC
  Proofs.DhpScanD Proofs.DhpPresA Proofs.DhpAllocA Proofs.DhpAllocB Proofs.DhpViewA Proofs.DhpRulesA
  Proofs.DhpExtendA Proofs.DhpExtendB Proofs.DhpDetA Proofs.DhpDetB Proofs.DhpDetC.
Import ListNotations.

Section ClearA.
  Variable c : cfg.
  Notation dsafeA := (@dsafe G ev AuxA VA viewA (InvA c)).

  (** the loop that gives the extension blocks back *)
  Lemma spec_free_gblocks t : forall fuel p l lb, va_limbo l = Some (p, lb) -> va_blk l = None -> va_e l = None ->
    dsafeA t (free_gblocks c fuel p) l
      (fun o l' => match o with Some _ => exists lb', l' = with_blk_limbo l None (Some (None, lb')) | None => True end).
  Proof.
    induction fuel as [|fuel IH]; intros p l lb Hlm Hb He; destruct p as [b|]; cbn [free_gblocks].
    - apply dsafe_fuel_out. exact I.
    - cbn. exists lb. destruct l; cbn in *; subst; reflexivity.
    - unfold xbind at 1. unfold loc at 1. cbn [dbind].
      apply dsafe_loc_J. intros g a tr Hv.
      exists (upd_aux a t (with_blk_limbo l (Some b) (Some (gb_nextb (ggb g b), tl lb))) (bown a)).
      split; [apply frame_upd_aux|]. split; [intros _ J; eapply JA_limbo_pop; eauto|].
      unfold viewA. rewrite upd_aux_same. cbn [fst snd].
      set (l1 := with_blk_limbo l (Some b) (Some (gb_nextb (ggb g b), tl lb))).
      apply dsafe_xbind. unfold hp_free.
      unfold xbind at 1. unfold emit at 1. cbn [dbind].
      apply (dsafe_emit_J c t [ev_free FHp b] _ l1 (with_blk l1 None)); [apply nodisp_one, nd_free| |].
      + intros g1 a1 tr1 Hv1. exists (upd_aux a1 t (with_blk l1 None) (fun x => if Nat.eqb x b then BFree else bown a1 x)).
        split; [apply frame_upd_aux|]. split; [unfold viewA; apply upd_aux_same|].
        intros _ J. cbn [Conc.tag map]. rewrite hist_snoc, hstep_free. eapply JA_free; eauto.
      + apply quietP_dsafe; [apply q_fl_put|]. intros [x|]; [|exact I].
        eapply dsafe_weaken; [|apply (IH (gb_nextb (ggb g b)) (with_blk l1 None) (tl lb)); reflexivity || exact He].
        intros [y|] l2 K; [|exact I]. destruct K as (lb' & ->). exists lb'. reflexivity.
    - cbn. exists lb. destruct l; cbn in *; subst; reflexivity.
  Qed.

  (** hazards_.clear() of detach_thread: afterwards the record is held (not attached), all blocks given back *)
  Definition view_cleared (l : VA) (r : nat) : VA :=
    mkVA None (va_unpub l) (Some r) (va_help l) (va_node l) None None None (va_scan l).

  Lemma spec_hp_clear t r l : va_tls l = Some r -> va_blk l = None -> va_e l = None -> va_hold l = None -> va_limbo l = None ->
    dsafeA t (hp_clear c r [ev_relall; ev_det r]) l
      (fun o l' => match o with Some _ => l' = view_cleared l r | None => True end).
  Proof.
    intros Htls Hb He Hh Hlm. unfold hp_clear.
    apply dsafe_neut_seq; [apply neut_clear_slots|exact I|intros _].
    unfold xbind at 1. unfold act at 1. cbn [dbind].
    apply (dsafe_load_en c t (a_ld_ext r) _ l (fun g => Some (r_ext (grec g r), false)) (fun _ => va_node l)).
    - intros g. cbn. split; auto. repeat constructor.
    - intros g a h Hv J. split.
      + intros e0 fl E. inversion E; subst. exists r. split; [exact Htls|]. split; auto. discriminate.
      + intros n0 E. apply (ja_node _ _ _ _ J t). unfold viewA in Hv. rewrite Hv. exact E.
    - intros g. cbn [a_ld_ext fst snd]. set (p := r_ext (grec g r)). set (l1 := with_en l (Some (p, false)) (va_node l)).
      unfold xbind at 1. unfold emit at 1. cbn [dbind].
      apply dsafe_emit_J'.
      { intros e [<-|[<-|[]]]; [apply nd_relall|apply nd_det]. }
      intros g1 a1 tr1 Hv1. set (h1 := hist tr1).
      exists (upd_aux a1 t (view_det l1 r p (map fst (linked h1 r))) (bown_det a1 r t)).
      split; [apply frame_upd_aux|]. split.
      + intros _ J. cbn [Conc.tag map]. rewrite hist_app. cbn [fold_left]. rewrite (hstep_other _ _ ev_relall eq_refl), hstep_det.
        cbn [hlen slotv lastw att linked scan freeh flbad].
        apply (JA_det c g1 a1 h1 t l1 r p (S (hlen h1))); auto.
      + unfold viewA. rewrite upd_aux_same. set (l2 := view_det l1 r p (map fst (linked h1 r))).
        apply dsafe_xbind.
        eapply dsafe_weaken; [|apply (spec_free_gblocks t (c_spin c) p l2 (map fst (linked h1 r))); [reflexivity|exact Hb|reflexivity]].
        intros [x|] l3 K; [|exact I]. destruct K as (lb' & ->).
        unfold act. apply dsafe_act_J; [intros g2; apply nodisp_acc|].
        intros g2 a2 tr2 Hv2.
        exists (upd_aux a2 t (with_hold_limbo (with_blk_limbo l2 None (Some (None, lb'))) (Some r) None) (bown a2)).
        split; [apply frame_upd_aux|]. split.
        * intros _ J. cbn [a_st_ext fst snd]. cbn [Conc.tag map acc]. rewrite hist_snoc, hstep_acc.
          eapply (JA_stext_none c g2 a2 (hist tr2) t _ r lb'); eauto.
        * unfold viewA. rewrite upd_aux_same. cbn. unfold view_cleared. destruct l; cbn in *; subst. reflexivity.
  Qed.
End ClearA.
