(** * LazyListCountProofs: every operation of the LazyList model with the item counter ( ic = true ) is [Conc.safe] for
      [InvD]; in a quiescent configuration m_ItemCounter is the cardinality of the abstract set. *)
From Coq Require Import ZArith List String Bool Lia PeanoNat.
From LV Require Import Base.Conc Base.Events Base.Lin Spec.Specs Proofs.LinProofs.
From LV Require Proofs.MichaelListInv Proofs.MichaelListLin Proofs.MichaelListActs Proofs.MichaelListCount.
From LV Require Import Model.LazyList Proofs.LazyListBase Proofs.LazyListInv Proofs.LazyListSteps Proofs.LazyListActs
                       Proofs.LazyListDefs Proofs.LazyListProofs Proofs.LazyListLin Proofs.LazyListLinActs
                       Proofs.LazyListLinProofs Proofs.LazyListQuiescent Proofs.LazyListCount.
Import ListNotations.
Local Open Scope Z_scope.

Notation safeD := (@Conc.safe G V ev aux6 lview6 view6 InvD).
Notation st := (status SetSpec).

(** ** plumbing *)
Lemma safeD_nop2 {R} t k1 o1 k2 o2 (p : prog R) l Q :
  safeD t p l Q -> safeD t (Act (a_nop k1 o1) (fun _ => Act (a_nop k2 o2) (fun _ => p))) l Q.
Proof. destruct l as [l c]. intros H. apply safeD_nop. apply safeD_nop. exact H. Qed.
Lemma safeD_assign_guard t s l (Q : unit -> lview6 -> Prop) : Q tt l -> safeD t (assign_guard t s) l Q.
Proof. intros H. unfold assign_guard. apply safeD_nop2. exact H. Qed.
Lemma safeD_copy_guard t d s l (Q : unit -> lview6 -> Prop) : Q tt l -> safeD t (copy_guard t d s) l Q.
Proof. destruct l as [l c]. intros H. unfold copy_guard. apply safeD_nop. apply safeD_assign_guard. exact H. Qed.
Lemma safeD_retire t l (Q : unit -> lview6 -> Prop) : Q tt l -> safeD t (retire t) l Q.
Proof. intros H. unfold retire. apply safeD_nop2. exact H. Qed.
Lemma safeD_use_guarded t s l (Q : unit -> lview6 -> Prop) : Q tt l -> safeD t (use_guarded t s) l Q.
Proof. intros H. unfold use_guarded. apply safeD_nop2. exact H. Qed.
Lemma safeD_cnt_inc lv s c t (Q : unit -> lview6 -> Prop) :
  s <> @Idle SetSpec -> Q tt (lv, s, c + 1) -> safeD t (cnt_inc true) (lv, s, c) Q.
Proof. intros Hs H. unfold cnt_inc. apply safeD_cnt; [exact Hs|]. exact H. Qed.
Lemma safeD_cnt_dec lv s c t (Q : unit -> lview6 -> Prop) :
  s <> @Idle SetSpec -> Q tt (lv, s, c + -1) -> safeD t (cnt_dec true) (lv, s, c) Q.
Proof. intros Hs H. unfold cnt_dec. apply safeD_cnt; [exact Hs|]. exact H. Qed.
Lemma safeD_free_guards t gs : forall fr l (Q : list nat -> lview6 -> Prop),
  (forall fr', Q fr' l) -> safeD t (free_guards t gs fr) l Q.
Proof.
  induction gs as [|s gs IH]; intros fr [l c] Q H; cbn [free_guards]; [apply H|].
  apply safeD_nop. apply IH. exact H.
Qed.

Definition QNone6 {R} (Q : option R -> lview6 -> Prop) : Prop := forall l, Q None l.

(** ** protect *)
Lemma safeD_protect fuel : forall t s l lv (z : st) cn (Q : option V -> lview6 -> Prop),
  pk (lv_facts lv) l ->
  (forall F', incl (lv_facts lv) F' -> Q None (with_facts lv F', z, cn)) ->
  (forall v F', incl (lv_facts lv) F' -> incl (newfacts l v) F' -> Q (Some v) (with_facts lv F', z, cn)) ->
  safeD t (protect fuel t s l) (lv, z, cn) Q.
Proof.
  induction fuel as [|f IH]; intros t s l lv z cn Q Hp HN HS; cbn [protect].
  - cbn [Conc.safe]. destruct lv. apply (HN lv_facts). apply incl_refl.
  - apply safeD_ld; [exact Hp|]. intros v _.
    apply safeD_nop. apply safeD_nop.
    apply safeD_ld; [eapply pk_incl; [|exact Hp]; apply incl_app_r'|]. intros v' _.
    set (F2 := newfacts l v' ++ newfacts l v ++ lv_facts lv).
    assert (I0 : incl (lv_facts lv) F2) by (unfold F2; apply incl_appr; apply incl_app_r').
    destruct (veqb v v').
    + cbn [Conc.safe]. apply (HS v F2); auto. unfold F2. apply incl_appr. apply incl_appl. apply incl_refl.
    + change (safeD t (protect f t s l) (with_facts lv F2, z, cn) Q). apply IH.
      * eapply pk_incl; eauto.
      * intros F' HF. cbn [with_facts lv_facts] in HF. apply (HN F'). eapply incl_tran; eauto.
      * intros w F' HF HF'. cbn [with_facts lv_facts] in HF. apply (HS w F'); auto. eapply incl_tran; eauto.
Qed.

(** ** search *)
Lemma safeD_search fuel : forall t g0 g1 k pPrev pCur lv (z : st) cn (Q : option (nat * V) -> lview6 -> Prop),
  klt (lv_facts lv) pPrev k -> cur_ok (lv_facts lv) pCur ->
  (forall F', incl (lv_facts lv) F' -> Q None (with_facts lv F', z, cn)) ->
  (forall F' pp pc, incl (lv_facts lv) F' -> found_ok F' k pp pc -> Q (Some (pp, pc)) (with_facts lv F', z, cn)) ->
  safeD t (search fuel t g0 g1 k pPrev pCur) (lv, z, cn) Q.
Proof.
  induction fuel as [|f IH]; intros t g0 g1 k pPrev pCur lv z cn Q Hkl Hcur HN HS; cbn [search].
  - cbn [Conc.safe]. destruct lv. apply (HN lv_facts). apply incl_refl.
  - destruct (Nat.eqb_spec (vptr pCur) TAIL) as [ET|ET].
    { cbn [Conc.safe]. destruct lv as [F H o h]. apply (HS F pPrev pCur); [apply incl_refl|]. split; auto. }
    destruct (negb (Nat.eqb (vptr pCur) HEAD) && Z.leb k (vkey pCur)) eqn:Estop.
    { cbn [Conc.safe]. destruct lv as [F H o h]. apply (HS F pPrev pCur); [apply incl_refl|]. split; auto.
      apply andb_true_iff in Estop. destruct Estop as [E1 E2]. apply negb_true_iff, Nat.eqb_neq in E1. apply Z.leb_le in E2.
      right. destruct Hcur as [Hc|[Hc|Hc]]; try contradiction. auto. }
    assert (Hkl' : klt (lv_facts lv) (vptr pCur) k).
    { apply andb_false_iff in Estop. destruct Estop as [E|E].
      - apply negb_false_iff, Nat.eqb_eq in E. left. exact E.
      - apply Z.leb_gt in E. destruct Hcur as [Hc|[Hc|Hc]]; [left; exact Hc|contradiction|]. right. exists (vkey pCur). auto. }
    apply Conc.safe_bind. apply safeD_copy_guard.
    apply Conc.safe_bind. apply safeD_protect; [apply cur_pk; exact Hcur|..].
    + intros F' HF. cbn [Conc.safe]. apply HN. exact HF.
    + intros nx F1 HF1 HN1. cbn beta iota. destruct (vmark nx).
      * change (safeD t (search f t g0 g1 k HEAD (mkV HEAD false 0)) (with_facts lv F1, z, cn) Q). apply IH.
        -- left. reflexivity.
        -- left. reflexivity.
        -- intros F' HF. cbn [with_facts lv_facts] in HF. apply HN. eapply incl_tran; eauto.
        -- intros F' pp pc HF Hf. cbn [with_facts lv_facts] in HF. apply HS; auto. eapply incl_tran; eauto.
      * change (safeD t (search f t g0 g1 k (vptr pCur) nx) (with_facts lv F1, z, cn) Q). apply IH.
        -- eapply klt_incl; [exact HF1|exact Hkl'].
        -- eapply (newfacts_cur (vptr pCur)); [exact ET|exact HN1].
        -- intros F' HF. cbn [with_facts lv_facts] in HF. apply HN. eapply incl_tran; eauto.
        -- intros F' pp pc HF Hf. cbn [with_facts lv_facts] in HF. apply HS; auto. eapply incl_tran; eauto.
Qed.

(** ** spin locks *)
Lemma safeD_lock_loops fuel : forall t n lv (z : st) cn (Q : bool -> lview6 -> Prop),
  pk (lv_facts lv) n ->
  (~ holds lv n -> Q true (with_held lv ((n, None) :: lv_held lv), z, cn)) -> Q false (lv, z, cn) ->
  safeD t (lock_outer fuel n) (lv, z, cn) Q /\ safeD t (lock_inner fuel n) (lv, z, cn) Q.
Proof.
  induction fuel as [|f IH]; intros t n lv z cn Q Hn HT HF; split; cbn [lock_outer lock_inner]; try (cbn [Conc.safe]; exact HF).
  - apply safeD_xchg; [exact Hn| |].
    + cbn [vmark vok]. apply IH; auto.
    + intros Hfree. cbn [vmark vok Conc.safe]. apply HT. exact Hfree.
  - apply safeD_ldlock. intros b. cbn [vmark vok]. destruct b; apply IH; auto.
Qed.

Lemma safeD_lock_outer fuel t n lv (z : st) cn (Q : bool -> lview6 -> Prop) :
  pk (lv_facts lv) n ->
  (~ holds lv n -> Q true (with_held lv ((n, None) :: lv_held lv), z, cn)) -> Q false (lv, z, cn) ->
  safeD t (lock_outer fuel n) (lv, z, cn) Q.
Proof. intros. apply safeD_lock_loops; auto. Qed.

Lemma safeD_unlock' t n lv (z : st) cn (Q : unit -> lview6 -> Prop) :
  holds lv n -> lv_hole lv = None -> Q tt (with_held lv (release (lv_held lv) n), z, cn) -> safeD t (unlock n) (lv, z, cn) Q.
Proof. intros H1 H2 H3. unfold unlock. apply safeD_unlock; auto. Qed.

Lemma safeD_unlock_pos t p c lv (z : st) cn (Q : unit -> lview6 -> Prop) :
  holds lv p -> holds lv c -> p <> c -> lv_hole lv = None ->
  Q tt (with_held lv (release (release (lv_held lv) c) p), z, cn) -> safeD t (unlock_pos p c) (lv, z, cn) Q.
Proof.
  intros Hp Hc Hpc Hh HQ. unfold unlock_pos. apply Conc.safe_bind. apply safeD_unlock'; auto.
  apply safeD_unlock'; auto. destruct Hp as [o Ho]. exists o. cbn. apply release_in. auto.
Qed.

Lemma safeD_validate t p c lv (z : st) cn (Q : bool -> lview6 -> Prop) :
  holds lv p -> holds lv c ->
  (forall F' H', incl (lv_facts lv) F' -> incl (lv_held lv) H' -> Q false (mkLV F' H' (lv_own lv) (lv_hole lv), z, cn)) ->
  (forall F' H' x, incl (lv_facts lv) F' -> incl (lv_held lv) H' -> In (p, Some (c, false)) H' -> In (c, Some (x, false)) H' ->
        Q true (mkLV F' H' (lv_own lv) (lv_hole lv), z, cn)) ->
  safeD t (validate p c) (lv, z, cn) Q.
Proof.
  intros Hp Hc HF HT. unfold validate.
  apply safeD_ld_held; [exact Hp|]. intros v1 _. destruct (vmark v1).
  { cbn [Conc.safe]. apply HF; [apply incl_app_r'|apply incl_tl; apply incl_refl]. }
  apply safeD_ld_held; [destruct Hc as [o Ho]; exists o; right; exact Ho|]. intros v2 _. cbn [lv_facts lv_held lv_own lv_hole].
  destruct (vmark v2) eqn:E2.
  { cbn [Conc.safe]. apply HF; [apply incl_appr; apply incl_app_r'|do 2 apply incl_tl; apply incl_refl]. }
  apply safeD_ld_held; [destruct Hp as [o Ho]; exists o; right; right; exact Ho|]. intros v3 _. cbn [lv_facts lv_held lv_own lv_hole Conc.safe].
  destruct (Nat.eqb_spec (vptr v3) c) as [E3|E3]; cbn [andb].
  - destruct (vmark v3) eqn:E4; cbn [negb].
    + apply HF; [do 2 apply incl_appr; apply incl_app_r'|do 3 apply incl_tl; apply incl_refl].
    + apply (HT _ _ (vptr v2)); [do 2 apply incl_appr; apply incl_app_r'|do 3 apply incl_tl; apply incl_refl| |].
      * left. rewrite E3. reflexivity.
      * right. left. reflexivity.
  - apply HF; [do 2 apply incl_appr; apply incl_app_r'|do 3 apply incl_tl; apply incl_refl].
Qed.

Lemma safeD_lock_pos fuel t p c lv (z : st) cn (Q : bool -> lview6 -> Prop) :
  pk (lv_facts lv) p -> pk (lv_facts lv) c ->
  (p <> c -> Q true (with_held lv ((c, None) :: (p, None) :: lv_held lv), z, cn)) ->
  (forall H', Q false (with_held lv H', z, cn)) ->
  safeD t (lock_pos fuel p c) (lv, z, cn) Q.
Proof.
  intros Hp Hc HT HF. unfold lock_pos. apply Conc.safe_bind. apply safeD_lock_outer; [exact Hp| |].
  - intros _. apply safeD_lock_outer; [exact Hc| |].
    + intros Hfree. cbn [with_held lv_facts lv_held lv_own lv_hole]. apply HT.
      intros ->. apply Hfree. exists None. left. reflexivity.
    + cbn [Conc.safe]. apply (HF ((p, None) :: lv_held lv)).
  - cbn [Conc.safe]. destruct lv as [F H o h]. apply (HF H).
Qed.

(** ** the critical sections *)
Lemma safeD_section {R} t sf pp pc k (body : prog (option R)) (retry : prog (option R)) lv (z : st) cn (Q : option R -> lview6 -> Prop) :
  found_ok (lv_facts lv) k pp pc -> lv_hole lv = None -> QNone6 Q ->
  (forall F' H' x, incl (lv_facts lv) F' -> pp <> vptr pc ->
        In (pp, Some (vptr pc, false)) H' -> In (vptr pc, Some (x, false)) H' ->
        safeD t body (mkLV F' H' (lv_own lv) None, z, cn) Q) ->
  (forall F' H', incl (lv_facts lv) F' -> safeD t retry (mkLV F' H' (lv_own lv) None, z, cn) Q) ->
  safeD t (lk <- lock_pos sf pp (vptr pc) ;;
          if negb lk then Ret None
          else ok <- validate pp (vptr pc) ;;
               if ok then body else (_ <- unlock_pos pp (vptr pc) ;; retry)) (lv, z, cn) Q.
Proof.
  intros Hf Hh HQ Hbody Hretry. destruct (found_pk _ _ _ _ Hf) as [Hp Hc].
  apply Conc.safe_bind. apply safeD_lock_pos; auto.
  - intros Hpc. cbn [negb]. apply Conc.safe_bind. apply safeD_validate.
    + exists None. right. left. reflexivity.
    + exists None. left. reflexivity.
    + intros F' H' HF HH. cbn [with_held lv_facts lv_held lv_own lv_hole] in *.
      apply Conc.safe_bind. apply safeD_unlock_pos; cbn [lv_held lv_hole]; auto.
      * exists None. apply HH. right. left. reflexivity.
      * exists None. apply HH. left. reflexivity.
      * cbn [with_held lv_facts lv_held lv_own lv_hole]. rewrite Hh. apply Hretry. exact HF.
    + intros F' H' x HF HH H1 H2. cbn [with_held lv_facts lv_held lv_own lv_hole] in *. rewrite Hh. eapply Hbody; eauto.
  - intros H'. cbn [negb Conc.safe]. apply HQ.
Qed.

(** ** the operation loops *)
Lemma safeD_insert_loop fuel : forall sf withf t g0 g1 k n nx lv o cn (Q : out bool -> lview6 -> Prop),
  lv_own lv = Some (n, k, nx) -> lv_hole lv = None -> ins_op o k -> QNone6 Q ->
  (forall b lv', lv_hole lv' = None -> Q (Some b) (lv', lin_if b o (ins_res o), if b then cn + 1 else cn)) ->
  safeD t (insert_loop fuel sf true withf t g0 g1 k n) (lv, @Pending SetSpec o, cn) Q.
Proof.
  induction fuel as [|f IH]; intros sf withf t g0 g1 k n nx lv o cn Q Hown Hh Hop HQN HQ; cbn [insert_loop].
  - cbn [Conc.safe]. apply HQN.
  - apply Conc.safe_bind. unfold search_from_head. apply safeD_search; [left; reflexivity|left; reflexivity|..].
    + intros F' _. cbn [Conc.safe]. apply HQN.
    + intros F' pp pc HF Hf. cbn beta iota.
      apply (safeD_section t sf pp pc k); auto.
      * intros F2 H2 x HF2 Hpc Hp Hc. cbn [with_facts lv_facts lv_own] in *. rewrite Hown.
        destruct (is_key pc k) eqn:Ek.
        -- apply Conc.safe_bind. apply safeD_unlock_pos; [eexists; exact Hp|eexists; exact Hc|exact Hpc|reflexivity|].
           cbn [Conc.safe]. apply (HQ false). reflexivity.
        -- unfold link_node. apply Conc.safe_bind.
           eapply safeD_st_own; [reflexivity|]. cbn [lv_facts lv_held lv_own lv_hole].
           eapply safeD_st_link with (kk := k) (pc := vptr pc); cbn [lv_facts lv_held lv_own lv_hole]; auto.
           ++ eapply klt_incl; [exact HF2|]. apply Hf.
           ++ eapply kgt_incl; [exact HF2|]. eapply found_kgt; eauto.
           ++ cbn [Conc.safe].
              assert (Hu : forall (Q' : unit -> lview6 -> Prop) lvx z c1, lv_held lvx = set_obs H2 pp (n, false) -> lv_hole lvx = None ->
                           Q' tt (with_held lvx (release (release (lv_held lvx) (vptr pc)) pp), z, c1) -> safeD t (unlock_pos pp (vptr pc)) (lvx, z, c1) Q').
              { intros Q' lvx z c1 E1 E2 HQ'. apply safeD_unlock_pos; auto; unfold holds; rewrite E1; eapply holds_set_obs; eauto. }
              destruct withf.
              ** apply safeD_emit_other; [reflexivity|reflexivity|]. apply Conc.safe_bind. apply Hu; [reflexivity|reflexivity|].
                 apply Conc.safe_bind. apply safeD_cnt_inc; [discriminate|]. cbn [Conc.safe]. apply (HQ true). reflexivity.
              ** apply Conc.safe_bind. apply Hu; [reflexivity|reflexivity|].
                 apply Conc.safe_bind. apply safeD_cnt_inc; [discriminate|]. cbn [Conc.safe]. apply (HQ true). reflexivity.
      * intros F2 H2 HF2. cbn [with_facts lv_own]. eapply IH; eauto.
Qed.

Lemma safeD_update_loop fuel : forall sf allow t g0 g1 k n nx lv cn (Q : out (bool * bool) -> lview6 -> Prop),
  lv_own lv = Some (n, k, nx) -> lv_hole lv = None -> QNone6 Q ->
  (forall lv', lv_hole lv' = None -> Q (Some (true, true)) (lv', @Linearized SetSpec (SUpdate k allow) (RPair true true), cn + 1)) ->
  (forall a lv', lv_hole lv' = None -> Q (Some (a, false)) (lv', @Pending SetSpec (SUpdate k allow), cn)) ->
  safeD t (update_loop fuel sf true allow t g0 g1 k n) (lv, @Pending SetSpec (SUpdate k allow), cn) Q.
Proof.
  induction fuel as [|f IH]; intros sf allow t g0 g1 k n nx lv cn Q Hown Hh HQN HQT HQF; cbn [update_loop].
  - cbn [Conc.safe]. apply HQN.
  - apply Conc.safe_bind. unfold search_from_head. apply safeD_search; [left; reflexivity|left; reflexivity|..].
    + intros F' _. cbn [Conc.safe]. apply HQN.
    + intros F' pp pc HF Hf. cbn beta iota.
      apply (safeD_section t sf pp pc k); auto.
      * intros F2 H2 x HF2 Hpc Hp Hc. cbn [with_facts lv_facts lv_own] in *. rewrite Hown.
        destruct (is_key pc k) eqn:Ek.
        -- apply safeD_emit_other; [reflexivity|reflexivity|].
           apply Conc.safe_bind. apply safeD_unlock_pos; [eexists; exact Hp|eexists; exact Hc|exact Hpc|reflexivity|].
           cbn [Conc.safe]. apply HQF. reflexivity.
        -- destruct allow; cbn [negb].
           ++ unfold link_node. apply Conc.safe_bind.
              eapply safeD_st_own; [reflexivity|]. cbn [lv_facts lv_held lv_own lv_hole].
              eapply safeD_st_link with (kk := k) (pc := vptr pc); cbn [lv_facts lv_held lv_own lv_hole]; auto.
              ** eapply klt_incl; [exact HF2|]. apply Hf.
              ** eapply kgt_incl; [exact HF2|]. eapply found_kgt; eauto.
              ** right. reflexivity.
              ** cbn [Conc.safe]. apply safeD_emit_other; [reflexivity|reflexivity|]. apply Conc.safe_bind.
                 apply safeD_unlock_pos; auto; try (unfold holds; cbn [lv_held]; eapply holds_set_obs; eauto).
                 apply Conc.safe_bind. apply safeD_cnt_inc; [discriminate|]. cbn [Conc.safe]. apply HQT. reflexivity.
           ++ apply Conc.safe_bind. apply safeD_unlock_pos; [eexists; exact Hp|eexists; exact Hc|exact Hpc|reflexivity|].
              cbn [Conc.safe]. apply HQF. reflexivity.
      * intros F2 H2 HF2. cbn [with_facts lv_own]. eapply IH; eauto.
Qed.

Lemma safeD_erase_loop fuel : forall sf code mine t g0 g1 k lv cn (Q : out bool -> lview6 -> Prop),
  lv_hole lv = None -> QNone6 Q ->
  (forall b lv', lv_hole lv' = None -> Q (Some b) (lv', lin_if b (SErase k) (RBool true), if b then cn + -1 else cn)) ->
  safeD t (erase_loop fuel sf true code mine t g0 g1 k) (lv, @Pending SetSpec (SErase k), cn) Q.
Proof.
  induction fuel as [|f IH]; intros sf code mine t g0 g1 k lv cn Q Hh HQN HQ; cbn [erase_loop].
  - cbn [Conc.safe]. apply HQN.
  - apply Conc.safe_bind. unfold search_from_head. apply safeD_search; [left; reflexivity|left; reflexivity|..].
    + intros F' _. cbn [Conc.safe]. apply HQN.
    + intros F' pp pc HF Hf. cbn beta iota.
      apply (safeD_section t sf pp pc k); auto.
      * intros F2 H2 x HF2 Hpc Hp Hc. cbn [with_facts lv_facts lv_own] in *.
        destruct (is_key pc k && (negb (Z.eqb code 6) || Nat.eqb (vptr pc) mine)) eqn:Ek.
        -- apply andb_true_iff in Ek. destruct Ek as [Ek _].
           pose proof (found_key _ _ _ _ Hf Ek) as Hfk.
           assert (Ekk : vkey pc = k).
           { unfold is_key in Ek. apply andb_true_iff in Ek. destruct Ek as [_ Ek]. apply Z.eqb_eq in Ek. exact Ek. }
           unfold unlink_node. apply Conc.safe_bind.
           apply safeD_ld_held; [exists (Some (x, false)); exact Hc|]. intros v Hag. cbn [lv_facts lv_held lv_own lv_hole].
           destruct (Hag x false Hc) as [Ev1 Ev2].
           eapply safeD_st_mark with (p := pp) (nx := vptr v) (kc := k); cbn [lv_facts lv_held lv_own lv_hole].
           ++ right. exact Hp.
           ++ left. rewrite Ev2. reflexivity.
           ++ apply in_or_app. right. apply HF2. rewrite <- Ekk. exact Hfk.
           ++ reflexivity.
           ++ eapply safeD_st_bypass; cbn [lv_facts lv_held lv_own lv_hole]; [reflexivity|].
              cbn [Conc.safe].
              set (H3 := set_obs (set_obs ((vptr pc, Some (vptr v, vmark v)) :: H2) (vptr pc) (HEAD, true)) pp (vptr v, false)).
              assert (Hu : forall (Q' : unit -> lview6 -> Prop) lvx z c1, lv_held lvx = H3 -> lv_hole lvx = None ->
                           Q' tt (with_held lvx (release (release (lv_held lvx) (vptr pc)) pp), z, c1) -> safeD t (unlock_pos pp (vptr pc)) (lvx, z, c1) Q').
              { intros Q' lvx z c1 E1 E2 HQ'. apply safeD_unlock_pos; auto; unfold holds; rewrite E1; unfold H3.
                - apply set_obs_holds. apply set_obs_holds. exists (Some (vptr pc, false)). right. exact Hp.
                - apply set_obs_holds. apply set_obs_holds. eexists. left. reflexivity. }
              destruct (Z.eqb code 5).
              ** apply safeD_emit_other; [reflexivity|reflexivity|]. apply Conc.safe_bind. apply Hu; [reflexivity|reflexivity|].
                 apply Conc.safe_bind. apply safeD_cnt_dec; [discriminate|]. apply Conc.safe_bind. apply safeD_retire. cbn [Conc.safe]. apply (HQ true). reflexivity.
              ** apply Conc.safe_bind. apply Hu; [reflexivity|reflexivity|].
                 apply Conc.safe_bind. apply safeD_cnt_dec; [discriminate|]. apply Conc.safe_bind. apply safeD_retire. cbn [Conc.safe]. apply (HQ true). reflexivity.
        -- apply Conc.safe_bind. apply safeD_unlock_pos; [eexists; exact Hp|eexists; exact Hc|exact Hpc|reflexivity|].
           cbn [Conc.safe]. apply (HQ false). reflexivity.
Qed.

(** ** one client operation *)
Definition Qop6 (Q : out lstate -> lview6 -> Prop) : Prop :=
  QNone6 Q /\ forall ls' lv', lv_hole lv' = None -> Q (Some ls') (lv', @Idle SetSpec, 0).

Lemma safeD_give_up t l (Q : out lstate -> lview6 -> Prop) : QNone6 Q -> safeD t give_up l Q.
Proof. intros HQ. destruct l as [[lv z] cn]. unfold give_up. apply safeD_emit_other; [reflexivity|reflexivity|]. cbn [Conc.safe]. apply HQ. Qed.

Lemma safeD_finish t gs fr (k : list nat -> prog (out lstate)) l (Q : out lstate -> lview6 -> Prop) :
  (forall fr', safeD t (k fr') l Q) -> safeD t (fr2 <- free_guards t gs fr ;; k fr2) l Q.
Proof. intros H. apply Conc.safe_bind. apply safeD_free_guards. exact H. Qed.

Lemma safeD_run_op fuel sf t o ls lv (Q : out lstate -> lview6 -> Prop) :
  lv_hole lv = None -> Qop6 Q -> safeD t (run_op fuel sf true t o ls) (lv, @Idle SetSpec, 0) Q.
Proof.
  intros Hh [HQN HQ]. unfold run_op.
  set (code := nth 0 o 0). set (k := nth 1 o 0). set (x := nth 2 o 0).
  destruct ls as [fr own]. destruct (alloc2 fr) as [[g0 g1] fr1].
  destruct (Z.leb 1 code && Z.leb code 10); [|cbn [Conc.safe]; apply HQ; exact Hh].
  unfold ev_inv. fold code k x. apply safeD_emit_inv.
  assert (HretL : forall (r : lstate) op res a1 b1 lv' cn, lv_hole lv' = None -> res_of op a1 b1 = res -> is_read op res = false ->
                    cn = gain op res ->
                    safeD t (Emit [ev_ret a1 b1] (Ret (Some r))) (lv', @Linearized SetSpec op res, cn) Q).
  { intros r op res a1 b1 lv' cn E E1 E2 E3. unfold ev_ret. apply (safeD_emit_ret_lin t op res a1 b1); auto. cbn [Conc.safe]. apply HQ. exact E. }
  assert (HretR : forall (r : lstate) op a1 b1 lv', lv_hole lv' = None -> is_read op (res_of op a1 b1) = true ->
                    safeD t (Emit [ev_ret a1 b1] (Ret (Some r))) (lv', @Pending SetSpec op, 0) Q).
  { intros r op a1 b1 lv' E E1. unfold ev_ret. apply (safeD_emit_ret_read t op a1 b1); auto. cbn [Conc.safe]. apply HQ. exact E. }
  destruct (Z.eqb code 1 || Z.eqb code 2) eqn:E12.
  { assert (Eo : spec_op code k x = SInsert k) by (unfold MichaelListInv.spec_op; rewrite E12; reflexivity). rewrite Eo.
    apply safeD_alloc. intros n. cbn [vptr]. apply Conc.safe_bind.
    eapply (safeD_insert_loop fuel sf _ t g0 g1 k n 0%nat _ (SInsert k) 0); [reflexivity|exact Hh|left; reflexivity| |].
    - intros l. apply safeD_give_up. exact HQN.
    - intros b lv' E. apply safeD_finish. intros fr2. destruct b; cbn [lin_if zb].
      + apply HretL; auto.
      + apply HretR; auto. }
  destruct (Z.eqb code 3) eqn:E3.
  { assert (Eo : spec_op code k x = SUpdate k (Z.odd x)) by (unfold MichaelListInv.spec_op; rewrite E12, E3; reflexivity). rewrite Eo.
    apply safeD_alloc. intros n. cbn [vptr]. apply Conc.safe_bind.
    eapply (safeD_update_loop fuel sf (Z.odd x) t g0 g1 k n 0%nat _ 0); [reflexivity|exact Hh| | |].
    - intros l. apply safeD_give_up. exact HQN.
    - intros lv' E. apply safeD_finish. intros fr2. apply HretL; auto.
    - intros a lv' E. apply safeD_finish. intros fr2. apply HretR; auto. }
  destruct (Z.eqb code 4 || Z.eqb code 5) eqn:E45.
  { assert (Eo : spec_op code k x = SErase k).
    { apply spec_op_erase. apply orb_true_iff in E45. destruct E45 as [E|E]; apply Z.eqb_eq in E; auto. }
    rewrite Eo. apply Conc.safe_bind. apply (safeD_erase_loop fuel sf code 0%nat t g0 g1 k _ 0); [exact Hh| |].
    - intros l. apply safeD_give_up. exact HQN.
    - intros b lv' E. apply safeD_finish. intros fr2. destruct b; cbn [lin_if zb].
      + apply HretL; auto.
      + apply HretR; auto. }
  destruct (Z.eqb code 6) eqn:E6.
  { assert (Eo : spec_op code k x = SErase k) by (apply spec_op_erase; apply Z.eqb_eq in E6; auto). rewrite Eo.
    cbv zeta.
    assert (Hbody : forall m lv0, lv_hole lv0 = None ->
       safeD t (r <- erase_loop fuel sf true 6 m t g0 g1 k ;;
               match r with
               | None => give_up
               | Some b => fr2 <- free_guards t [g0; g1] fr1 ;;
                   Emit [ev_ret (zb b) (zb (negb (Nat.eqb (own_find k own) 0)))] (Ret (Some (fr2, if b then own_del k own else own)))
               end) (lv0, @Pending SetSpec (SErase k), 0) Q).
    { intros m lv0 E0. apply Conc.safe_bind. apply (safeD_erase_loop fuel sf 6 m t g0 g1 k _ 0); [exact E0| |].
      - intros l. apply safeD_give_up. exact HQN.
      - intros b lv' E. apply safeD_finish. intros fr2. destruct b; cbn [lin_if zb].
        + apply HretL; auto.
        + apply HretR; auto. }
    destruct (Nat.eqb (own_find k own) 0).
    - apply safeD_alloc. intros n. cbn [vptr]. apply Hbody. exact Hh.
    - apply Hbody. exact Hh. }
  destruct (Z.eqb code 7) eqn:E7.
  { assert (Eo : spec_op code k x = SErase k) by (apply spec_op_erase; apply Z.eqb_eq in E7; auto). rewrite Eo.
    apply Conc.safe_bind. apply (safeD_erase_loop fuel sf 7 0%nat t g0 g1 k _ 0); [exact Hh| |].
    - intros l. apply safeD_give_up. exact HQN.
    - intros b lv' E. destruct b; cbn [lin_if].
      + apply safeD_finish. intros fr2. apply Conc.safe_bind. apply safeD_use_guarded.
        apply safeD_finish. intros fr3. apply HretL; auto.
      + apply safeD_finish. intros fr2. apply HretR; auto. }
  (* get, contains, find with functor: never a modifying operation *)
  rewrite (spec_op_contains code k x E12 E3 E45 E6 E7).
  assert (Hret : forall (r : lstate) a1 b1 lv', lv_hole lv' = None ->
                   safeD t (Emit [ev_ret a1 b1] (Ret (Some r))) (lv', @Pending SetSpec (SContains k), 0) Q).
  { intros r a1 b1 lv' E. apply HretR; [exact E|apply is_read_contains]. }
  apply Conc.safe_bind. unfold search_from_head. apply safeD_search; [left; reflexivity|left; reflexivity|..].
  - intros F' _. apply safeD_give_up; auto.
  - intros F' pp pc HF Hf. cbn beta iota.
    destruct (Nat.eqb_spec (vptr pc) TAIL) as [ET|ET].
    { apply safeD_finish. intros fr2. apply Hret. exact Hh. }
    assert (Hpk : pk F' (vptr pc)) by (apply (found_pk _ _ _ _ Hf)).
    destruct (Z.eqb code 10).
    + apply Conc.safe_bind. apply safeD_lock_outer; [exact Hpk| |].
      * intros _. cbn [negb].
        apply safeD_ld_held; [exists None; left; reflexivity|]. intros v _. cbn [with_held with_facts lv_facts lv_held lv_own lv_hole].
        assert (Hu : forall (kk : prog (out lstate)) F2 H2, (forall H3, safeD t kk (mkLV F2 H3 (lv_own lv) None, @Pending SetSpec (SContains k), 0) Q) ->
                       safeD t (_ <- unlock (vptr pc) ;; kk) (mkLV F2 ((vptr pc, Some (vptr v, vmark v)) :: H2) (lv_own lv) None, @Pending SetSpec (SContains k), 0) Q).
        { intros kk F2 H2 Hkk. apply Conc.safe_bind. apply safeD_unlock'; [eexists; left; reflexivity|reflexivity|]. apply Hkk. }
        rewrite Hh.
        destruct (negb (vmark v) && Z.eqb (vkey pc) k).
        -- apply safeD_emit_other; [reflexivity|reflexivity|]. apply Hu. intros H3. apply safeD_finish. intros fr2. apply Hret. reflexivity.
        -- apply Hu. intros H3. apply safeD_finish. intros fr2. apply Hret. reflexivity.
      * cbn [negb]. apply safeD_give_up; auto.
    + apply safeD_ld; [exact Hpk|]. intros v _. cbv zeta.
      destruct (Z.eqb code 8 && (negb (vmark v) && Z.eqb (vkey pc) k)).
      * apply safeD_finish. intros fr2. apply Conc.safe_bind. apply safeD_use_guarded.
        apply safeD_finish. intros fr3. apply Hret. exact Hh.
      * apply safeD_finish. intros fr2. apply Hret. exact Hh.
Qed.

Lemma safeD_run_ops fuel sf t os : forall ls lv,
  lv_hole lv = None -> safeD t (run_ops fuel sf true t os ls) (lv, @Idle SetSpec, 0) (fun _ _ => True).
Proof.
  induction os as [|o os IH]; intros ls lv Hh; cbn [run_ops]; [exact I|].
  apply Conc.safe_bind. apply safeD_run_op; [exact Hh|]. split.
  - intros l. exact I.
  - intros ls' lv' E. apply IH. exact E.
Qed.

Lemma safeD_thread fuel sf t os lv :
  lv_hole lv = None -> safeD t (thread_prog fuel sf true t os) (lv, @Idle SetSpec, 0) (@Conc.QTrue lview6).
Proof.
  intros Hh. unfold thread_prog. apply safeD_begin.
  eapply Conc.safe_weaken; [|apply safeD_run_ops; exact Hh]. intros; exact I.
Qed.

Definition aux60 : aux6 := mkAux6 aux30 (fun _ => 0) [].

Lemma init_okD fuel sf ths : Conc.cfg_ok view6 InvD (init_cfg fuel sf true ths).
Proof.
  destruct (init_okQ fuel sf true ths) as (a0 & HI0 & _).
  exists aux60. split.
  - split.
    + (* InvQ of the initial configuration, for aux30 *)
      split; [|split].
      * exists []. split; [exact IS_init|]. constructor; cbn [aux30 c_atr c_st].
        -- exists [], (fun _ => @Idle SetSpec). split; [reflexivity|]. split; [reflexivity|].
           intros k0. split; [discriminate|]. intros (n & [] & _).
        -- reflexivity.
      * intros n Hm. exfalso. unfold init_cfg, init in Hm. cbn [Conc.shared heap] in Hm. destruct (Nat.eqb n HEAD); cbn [nmark] in Hm; discriminate Hm.
      * intros t H. exfalso. apply H. reflexivity.
    + unfold KD, aux60; cbn [f_base f_cnt f_ids MichaelListCount.sumf].
      split; [constructor|]. split; [reflexivity|]. split; [reflexivity|]. reflexivity.
  - intros t p Hp. cbn [init_cfg Conc.threads] in Hp.
    destruct (thread_progs_nth _ _ _ _ _ _ _ Hp) as [os ->]. cbn [Nat.add].
    unfold view6, view3. cbn [aux60 f_base f_cnt aux30 c_base c_st]. apply safeD_thread. reflexivity.
Qed.

(** ** the counter at quiescence *)
From LV Require Proofs.MichaelListCountProofs.
From Coq Require Import Permutation.

Lemma upd_hist_ok tr : MichaelListCountProofs.hist_ok (upd_hist tr).
Proof.
  induction tr as [|[t e] tr IH] using rev_ind; [intros t o []|].
  rewrite MichaelListInv.upd_hist_app. cbn [fold_left]. set (out := upd_hist tr) in *.
  destruct e as [kd ob ok|name args]; cbn [MichaelListInv.hstep]; [exact IH|].
  destruct (String.eqb name "inv").
  - destruct args as [|c [|k [|x [|v [|? ?]]]]]; try exact IH. intros u o Hin. apply in_app_or in Hin.
    destruct Hin as [Hin|[E|[]]]; [apply (IH u o Hin)|]. inversion E; subst. apply MichaelListCountProofs.spec_op_no_extract.
  - destruct (String.eqb name "ret"); [|exact IH].
    destruct args as [|a [|b [|? ?]]]; try exact IH. destruct (MichaelListInv.last_inv_op t out None) as [o|]; [|exact IH].
    cbv zeta. destruct (is_read o (res_of o a b)).
    + intros u o' Hin. apply MichaelListCountProofs.rm_last_incl in Hin. apply (IH u o' Hin).
    + intros u o' Hin. apply in_app_or in Hin. destruct Hin as [Hin|[E|[]]]; [apply (IH u o' Hin)|discriminate].
Qed.

Lemma increasing_lt_all x r : increasing (x :: r) -> forall y, In y r -> x < y.
Proof.
  revert x. induction r as [|z r IH]; intros x H y Hy; [destruct Hy|].
  destruct H as [H1 H2]. destruct Hy as [->|Hy]; [exact H1|]. specialize (IH z H2 y Hy). lia.
Qed.
Lemma increasing_nodup l : increasing l -> NoDup l.
Proof.
  induction l as [|x l IH]; intros H; constructor.
  - intros Hin. pose proof (increasing_lt_all _ _ H x Hin). lia.
  - apply IH. destruct H; assumption.
Qed.

Lemma zmem_In k S : zmem k S = true <-> In k S.
Proof.
  unfold zmem. rewrite existsb_exists. split.
  - intros (x & Hx & E). apply Z.eqb_eq in E. subst. exact Hx.
  - intros H. exists k. split; [exact H|apply Z.eqb_refl].
Qed.
Lemma znodup_NoDup S : MichaelListCount.znodup S -> NoDup S.
Proof.
  induction S as [|x S IH]; intros H; constructor; destruct H as [H1 H2]; [|apply IH; exact H2].
  intros Hin. apply zmem_In in Hin. congruence.
Qed.

Theorem lazy_quiescent_count fuel sf ths c :
  Conc.reach (init_cfg fuel sf true ths) c ->
  exists atr Sabs st0,
    lp_run lp_init atr = Some (Sabs, st0) /\ erase atr = upd_hist (Conc.trace c) /\
    increasing (lazy_keys (Conc.shared c)) /\
    (quiescent_hist (upd_hist (Conc.trace c)) ->
       (forall t, st0 t = @Idle SetSpec) /\
       (forall k, zmem k Sabs = true <-> In k (lazy_keys (Conc.shared c))) /\
       count (Conc.shared c) = Z.of_nat (List.length Sabs) /\
       count (Conc.shared c) = Z.of_nat (List.length (lazy_keys (Conc.shared c)))).
Proof.
  intros Hr. pose proof (lazy_sorted_nodup fuel sf true ths c Hr) as Hinc.
  destruct (Conc.reach_Inv (init_okD fuel sf ths) Hr) as (a & HI & (Hnd & Hout & Hcnt & Hz)).
  destruct (InvQ_quiescent _ _ _ HI) as (Sabs & st0 & H1 & H2 & H3).
  exists (c_atr (f_base a)), Sabs, st0. split; [exact H1|]. split; [exact H2|]. split; [exact Hinc|].
  intros Hq. destruct (H3 Hq) as [Hidle Hkeys]. split; [exact Hidle|]. split; [exact Hkeys|].
  assert (Hne : MichaelListCount.no_extract (c_atr (f_base a))).
  { intros t o Hin. apply MichaelListCountProofs.erase_inv_in in Hin. rewrite H2 in Hin. apply (upd_hist_ok _ t o Hin). }
  destruct (MichaelListCount.lp_size _ _ _ H1 Hne) as (_ & HndS & Hsz).
  assert (Hst : forall t, st0 t = c_st (f_base a) t).
  { destruct HI as ((L & _ & [(S' & st' & K1 & K2 & _) _]) & _). rewrite H1 in K1. inversion K1; subst. exact K2. }
  assert (Hc : count (Conc.shared c) = Z.of_nat (List.length Sabs)).
  { rewrite (Hsz [] (NoDup_nil _)); [|intros t Ht; exfalso; apply Ht; apply Hidle]. cbn [MichaelListCount.sumf].
    rewrite Hcnt, H2. rewrite MichaelListCount.sumf_zero; [lia|]. intros t _. apply Hz. unfold view3. cbn [snd]. rewrite <- Hst. apply Hidle. }
  split; [exact Hc|]. rewrite Hc. f_equal. apply Permutation_length.
  apply NoDup_Permutation; [apply znodup_NoDup; exact HndS|apply increasing_nodup; exact Hinc|].
  intros k. rewrite <- zmem_In. apply Hkeys.
Qed.
