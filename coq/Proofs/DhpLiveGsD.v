(** * DhpLiveGsD: [JS] at the steps that move pointers (retire announcement, push, stage 2, disposer calls, help_scan's
      take, claiming a record), and the programs of LV.Proofs.DhpProgB1 (retired allocator, init / extend, smr::scan) under
      the paired invariant [InvS].  The [JB] obligations are discharged by the step lemmas of DhpStepsB*, verbatim as in
      DhpProgB1; the [JS] obligations are new. *)
From Coq Require Import ZArith NArith List String Bool Lia PeanoNat.
From LV Require Import Base.Conc Base.Events Model.DhpLang Model.Dhp Proofs.DhpBase Proofs.DhpSeq Proofs.DhpSeqThm Proofs.DhpHist
  Proofs.DhpLangProofs Proofs.DhpAllocA Proofs.DhpInvB Proofs.DhpQuietB Proofs.DhpQuietB2 Proofs.DhpRulesB Proofs.DhpStepsB1 Proofs.DhpStepsB2
  Proofs.DhpStepsB3 Proofs.DhpStepsB4 Proofs.DhpStepsB5 Proofs.DhpStepsB6 Proofs.DhpStepsB7 Proofs.DhpStepsB10 Proofs.DhpProgB1 Proofs.DhpLiveA Proofs.DhpLiveGsC.
Import ListNotations.

(** ** pointers that change place inside one thread *)
Lemma inpl_same a a' u q : wh a' q = wh a q -> (forall r, In r (vb_own (bvs a' u)) -> In r (vb_own (bvs a u))) -> inpl a' u q -> inpl a u q.
Proof. intros E Ho [H|(r & H1 & H2)]; [left; congruence|right; exists r; split; auto; congruence]. Qed.

Lemma JS_moveL a a' tr t (l : list nat) :
  (forall q, ~ In q l -> wh a' q = wh a q) ->
  (forall u r, In r (vb_own (bvs a' u)) -> In r (vb_own (bvs a u))) ->
  (forall q, In q l -> inpl a t q) ->
  (forall q u, In q l -> inpl a' u q -> u = t) ->
  JS a tr -> JS a' tr.
Proof.
  intros Ew Eo Hb Ha S. apply (JS_upd a a' tr S).
  - intros q Hq. destruct (in_dec Nat.eq_dec q l) as [I|N]; [apply (inpl_place a t); auto|rewrite <- Ew; auto].
  - intros u s0 q _ Hq. destruct (in_dec Nat.eq_dec q l) as [I|N].
    + rewrite (Ha q u I Hq). auto.
    + exact (inpl_same a a' u q (Ew q N) (Eo u) Hq).
Qed.

Ltac own_fn t := let u := fresh "u" in let r := fresh "r" in
  intros u r; cbn; unfold fn; destruct (Nat.eqb_spec u t) as [->|]; cbn; auto.

Section StepsS.
  Variable c : cfg.
  Notation RB := (c_RB c).
  Hypothesis HRB : 4 <= RB.
  Let HRB1 : 1 <= RB. Proof. lia. Qed.

  (** retire( p ) is announced by a thread that is not inside a scan *)
  Lemma JS_retire_ev a tr t p : scan (hist tr) t = None -> JS a tr -> JS (aux_pend a t p) (tr ++ Conc.tag t [ev_op9 p]).
  Proof.
    intros Hsc S.
    assert (S1 : JS a (tr ++ Conc.tag t [ev_op9 p])) by (apply JS_ext; auto; apply single_not_dispose; intros q; discriminate).
    destruct S1 as [A1 A2 A3]. constructor; auto.
    - intros q. cbn [aux_pend wh]. destruct (Nat.eq_dec q p) as [->|N]; [intros _|rewrite fn_other by exact N; apply A1].
      exists (List.length tr), t. split; [rewrite app_length; cbn; lia|]. rewrite nth_error_app2, Nat.sub_diag by lia. reflexivity.
    - intros u s0 q Hs Hq. apply (A2 u s0 q Hs).
      assert (Hu : u <> t).
      { intros ->. change (Conc.tag t [ev_op9 p]) with [(t, ev_op9 p)] in Hs. rewrite hist_snoc, scan_hstep in Hs. cbn in Hs. congruence. }
      assert (N : q <> p).
      { intros ->. destruct Hq as [H|(r & _ & H)]; cbn [aux_pend wh] in H; rewrite fn_same in H; [inversion H; congruence|discriminate]. }
      revert Hq. apply inpl_same; [cbn [aux_pend wh]; now rewrite fn_other|]. intros r. cbn [aux_pend bvs]. now rewrite fn_other.
  Qed.

  (** push( p ) of the pointer in flight in t into the array of a record t owns *)
  Lemma JS_push g a tr t r p ok : In r (vb_own (bvs a t)) -> vb_pend (bvs a t) = Some p -> JB c g a tr -> JS a tr -> JS (aux_push a t r p ok) tr.
  Proof.
    intros Hr Hp J S. unfold aux_push. destruct (rch a r) as [|b0 ch] eqn:Ech.
    - revert S. apply JS_frame; [intros; reflexivity|own_fn t].
    - destruct J as [O1 _ _ [_ W2 _ _ _]]. destruct (W2 t p Hp) as (Hwp & _).
      revert S. apply (JS_moveL a _ tr t [p]).
      + intros q Hq. cbn [aux_arr wh]. rewrite fn_other; auto. intros ->. apply Hq. now left.
      + own_fn t.
      + intros q [<-|[]]. now left.
      + intros q u [<-|[]] [H|(r' & H1 & H2)]; cbn [aux_arr wh bvs] in *; rewrite fn_same in *; [discriminate|]. inversion H2; subst r'.
        assert (Hu : In r (vb_own (bvs a u))) by (revert H1; unfold fn; destruct (Nat.eqb_spec u t) as [->|]; cbn; auto).
        symmetry. eapply JO_excl; eauto.
  Qed.

  (** stage 2 of the scan of a record t owns: the freed pointers go from the array into flight in t *)
  Lemma JS_stage2 g a tr t r pl :
    In r (vb_own (bvs a t)) -> vb_dead (bvs a t) <> Some r -> (forall ob, vb_move (bvs a t) <> Some (r, ob)) ->
    JB c g a tr -> JS a tr ->
    JS (aux_st2 a t r (fst (snd (stage2 c r pl g))) (snd (snd (stage2 c r pl g)))) tr.
  Proof.
    intros Hr Hd Hnm J S.
    assert (Hfwh : forall q, In q (fst (snd (stage2 c r pl g))) -> wh a q = LRec r).
    { assert (Hcase : rch a r = [] \/ rch a r <> []) by (destruct (rch a r); [left|right]; congruence).
      destruct Hcase as [Ech|Hne].
      - destruct (JB_rec1 c g a tr t r J Hr Hd Ech) as (Hh & Hc & _ & _).
        assert (Est : stage2 c r pl g = (upd_rec g r (rs_cur None 0), ([], false))) by (unfold stage2; rewrite Hh; cbn; reflexivity).
        rewrite Est. cbn. intros q [].
      - destruct (JB_rec2 c g a tr t r J Hr Hne) as (Hlt & Hal & I & Hrb & Hmw & _).
        pose proof (JB_unmoved c g a tr t r J Hr Hnm) as Hmv.
        pose proof (stage2_spec c pl g r (rch a r) (rw a r) HRB1 I) as Sp.
        destruct (stage2 c r pl g) as [g' [freed ext]] eqn:Est. cbn [fst snd].
        destruct Sp as (w' & I' & Ec' & Efr & _).
        destruct J as [_ _ _ [W1 _ _ _ _]].
        assert (EC : ec g a r = content g (rch a r) (rw a r)) by (unfold ec; rewrite Hmv; reflexivity).
        intros q Hq. apply (proj2 (W1 r Hlt)). rewrite EC. rewrite Efr in Hq. apply filter_In in Hq. apply Hq. }
    revert S. unfold aux_st2. apply (JS_moveL a _ tr t (fst (snd (stage2 c r pl g)))).
    - intros q Hq. cbn [aux_arr wh]. apply memb_nIn in Hq. now rewrite Hq.
    - own_fn t.
    - intros q Hq. right. exists r. auto.
    - intros q u Hq [H|(r' & _ & H)]; cbn [aux_arr wh] in H; apply memb_In in Hq; rewrite Hq in H; [inversion H; auto|discriminate].
  Qed.

  (** the disposer calls *)
  Lemma JS_dispose g a tr t :
    JB c g a tr -> JS a tr -> JS (aux_disp a t (vb_freed (bvs a t))) (tr ++ Conc.tag t (map ev_dispose (vb_freed (bvs a t)))).
  Proof.
    intros [_ _ _ [_ _ W3 _ _]] S. set (freed := vb_freed (bvs a t)).
    assert (Hfwh : forall q, In q freed -> wh a q = LFly t) by (intros q Hq; now apply W3).
    pose proof (JS_ext_dispose a tr t freed Hfwh S) as S1. revert S1.
    apply (JS_moveL a _ _ t freed).
    - intros q Hq. cbn [aux_disp wh]. apply memb_nIn in Hq. now rewrite Hq.
    - own_fn t.
    - intros q Hq. left. auto.
    - intros q u Hq [H|(r' & _ & H)]; cbn [aux_disp wh] in H; apply memb_In in Hq; rewrite Hq in H; discriminate.
  Qed.

  (** help_scan takes one cell out of the array of a record it has claimed *)
  Lemma JS_take g a tr t src ob b i n :
    vb_move (bvs a t) = Some (src, ob) -> vb_cur (bvs a t) = Some (b, i, S n) ->
    JB c g a tr -> JS a tr -> JS (aux_take a t src b i n (nth i (rb_cells (grb g b)) 0)) tr.
  Proof.
    intros Hm Hc J HS. set (p := nth i (rb_cells (grb g b)) 0).
    pose proof J as [O1 K1 R0 W0]. pose proof R0 as [R1 R2 R3 R4 R5 R6]. pose proof W0 as [W1 W2 W3 W4 W5].
    destruct (R3 t src ob Hm) as (Hs & _).
    destruct (R4 t b i (S n) Hc) as (r0 & ob0 & j & E0 & Ej & Emv & Hle & Hw & Hlim). rewrite Hm in E0. inversion E0; subst r0 ob0. clear E0.
    assert (Hne : rch a src <> []) by (intros E; rewrite E in Ej; destruct j; discriminate).
    destruct (JB_rec2 c g a tr t src J Hs Hne) as (Hlt & Hal & I & Hrb & Hmw & _).
    destruct I as [_ Ich Ind _ _ Iw _].
    assert (Elen : List.length (flat g (rch a src)) = List.length (rch a src) * RB) by (eapply flat_length; eauto).
    assert (Ep : nth (moved a src) (flat g (rch a src)) 0 = p) by (rewrite Emv; eapply flat_nth; eauto; lia).
    assert (Eec : ec g a src = p :: skipn (S (moved a src)) (content g (rch a src) (rw a src))).
    { unfold ec, content. rewrite skipn_cons_nth by (rewrite firstn_length_le; lia). rewrite DhpStepsB10.nth_firstn_lt by lia. now rewrite Ep. }
    assert (Hwp : wh a p = LRec src) by (apply (proj2 (W1 src Hlt)); rewrite Eec; now left).
    revert HS. apply (JS_moveL a _ tr t [p]).
    - intros q Hq. cbn [aux_take wh]. rewrite fn_other; auto. intros ->. apply Hq. now left.
    - own_fn t.
    - intros q [<-|[]]. right. exists src. auto.
    - intros q u [<-|[]] [H|(r' & _ & H)]; cbn [aux_take wh] in H; rewrite fn_same in H; [inversion H; auto|discriminate].
  Qed.

  (** a thread that is not inside a scan becomes the owner of one more record *)
  Lemma JS_own_add a tr t h : scan (hist tr) t = None -> JS a tr -> JS (setv a t (set_own (bvs a t) (h :: vb_own (bvs a t)))) tr.
  Proof.
    intros Hsc S. apply (JS_upd a _ tr S); [intros q; auto|].
    intros u s0 q Hs. assert (Hu : u <> t) by (intros ->; congruence).
    apply inpl_same; [reflexivity|]. intros r. cbn. now rewrite fn_other.
  Qed.

  Lemma TO_acc_tid tr t k r ok : TO (tr ++ Conc.tag t (acc k (obj_rec r 0) ok)) -> k <> KLd -> scan (hist tr) t = None.
  Proof. intros H Hk. apply (TO_last tr t _ H). cbn. destruct k; auto; congruence. Qed.
End StepsS.

Ltac js_fr t := first [ intros; reflexivity | own_fn t ].
(** [JS] obligation of a step that keeps [wh], keeps or shrinks the owner lists and (maybe) appends quiet events *)
Ltac js_loc t := let J := fresh "J" in let S := fresh "S" in intros J S; revert S; apply JS_frame; js_fr t.
Ltac js_nodisp := first [apply qevB_not_dispose; solve [repeat constructor; auto with qdbB] | apply single_not_dispose; intros; discriminate].
Ltac js_ev t := let J := fresh "J" in let S := fresh "S" in
  intros _ J S; eapply JS_frame; [ | | eapply JS_ext; [ | exact S ] ]; [ intros; reflexivity | own_fn t | js_nodisp ].

Section ProgS1.
  Variable c : cfg.
  Notation RB := (c_RB c).
  Hypothesis HRB : 4 <= RB.
  Hypothesis Hold : c_old c = false.
  Let HRB1 : 1 <= RB. Proof. lia. Qed.

  (** retired_allocator::alloc *)
  Lemma rt_alloc_specS t l (Q : option nat -> VB -> Prop) :
    vb_blk l = None -> (forall b, Q (Some b) (set_blk l (Some (b, true)))) -> (forall l', Q None l') ->
    dsafeS c t (rt_alloc c) l Q.
  Proof.
    intros Hb HQ HN. unfold rt_alloc.
    assert (Hrest : forall b, dsafeS c t (xbind (loc (fun g => (upd_rb g b (bs_next None), tt))) (fun _ => ret b)) (set_blk l (Some (b, false))) Q).
    { intros b. apply dsafeS_xloc. intros g a tr Hv. unfold viewB in Hv. exists (setv a t (set_blk (bvs a t) (Some (b, true)))).
      split; [eapply frame_bvs; reflexivity|]. split.
      - intros J. eapply S_clrnext; eauto. rewrite Hv. reflexivity.
      - split; [js_loc t|]. unfold viewB. cbn [bvs setv]. rewrite fn_same, Hv. exact (HQ b). }
    apply dsafeS_quiet_seq; [apply qB_fl_get|apply HN|]. intros o. apply dsafeS_xbind. destruct o as [b|].
    - apply dsafeS_xemit. intros g a tr Hv. unfold viewB in Hv. exists (aux_blk a t b). split; [eapply frame_bvs; reflexivity|]. split.
      + intros Hfl Hnd J. apply S_alloc; auto. now rewrite Hv.
      + split; [js_ev t|]. unfold viewB. cbn [bvs aux_blk]. rewrite fn_same, Hv. exact (Hrest b).
    - apply dsafeS_xloc. intros g a tr Hv. unfold viewB in Hv. exists (aux_blk a t (List.length (rbs g))). split; [eapply frame_bvs; reflexivity|]. split.
      + intros J. apply S_newrb; auto. now rewrite Hv.
      + split; [js_loc t|]. unfold viewB. cbn [bvs aux_blk snd new_rblock]. rewrite fn_same, Hv.
        apply dsafeS_xemit_q; [repeat constructor; apply qevB_new|]. apply dsafeS_xact_q; [apply qB_st_flnext|]. intros _. exact (Hrest _).
  Qed.

  (** retired_array::init *)
  Lemma rt_init_specS t l r (Q : option unit -> VB -> Prop) :
    In r (vb_own l) -> vb_blk l = None -> vb_dead l <> Some r -> (forall ob, vb_move l <> Some (r, ob)) -> vb_full l = None ->
    Q (Some tt) l -> (forall l', Q None l') -> dsafeS c t (rt_init c r) l Q.
  Proof.
    intros Hr Hb Hd Hm Hf HQ HN. unfold rt_init. apply dsafeS_xloc_q; [intros; apply piB_refl|]. intros [hd|]; [exact HQ|].
    apply dsafeS_xbind. apply rt_alloc_specS; auto. intros b. cbn beta iota.
    apply dsafeS_loc_J. intros g a tr Hv. unfold viewB in Hv. exists (aux_init a t r b). split; [eapply frame_bvs; reflexivity|]. split.
    - intros J. apply S_init; auto; rewrite Hv; auto.
    - split; [js_loc t|]. unfold viewB. cbn [bvs aux_init fst snd]. rewrite fn_same, Hv.
      assert (E : set_blk (set_blk l (Some (b, true))) None = l) by (destruct l; cbn in *; subst; reflexivity). rewrite E. exact HQ.
  Qed.

  (** retired_array::extend *)
  Lemma rt_extend_specS t l r (Q : option unit -> VB -> Prop) :
    In r (vb_own l) -> vb_blk l = None -> vb_full l = Some r -> (forall ob, vb_move l <> Some (r, ob)) ->
    Q (Some tt) (set_full l None) -> (forall l', Q None l') -> dsafeS c t (rt_extend c r) l Q.
  Proof.
    intros Hr Hb Hf Hm HQ HN. unfold rt_extend. apply dsafeS_xbind. apply rt_alloc_specS; auto. intros b. cbn beta iota.
    apply dsafeS_loc_J. intros g a tr Hv. unfold viewB in Hv. exists (aux_ext a t r b). split; [eapply frame_bvs; reflexivity|]. split.
    - intros J. apply S_extend; auto; try (rewrite Hv; cbn; auto).
      destruct J as [_ _ [_ _ _ _ _ R6] _]. apply (R6 t r). rewrite Hv. exact Hf.
    - split; [js_loc t|]. unfold viewB. cbn [bvs aux_ext fst snd]. rewrite fn_same, Hv.
      assert (E : set_full (set_blk (set_blk l (Some (b, true))) None) None = set_full l None) by (destruct l; cbn in *; subst; reflexivity).
      rewrite E. destruct (snd (rt_do_extend c r b g)). exact HQ.
  Qed.

  (** smr::scan *)
  Lemma scan_specS t l r (Q : option unit -> VB -> Prop) :
    In r (vb_own l) -> vb_dead l <> Some r -> (forall ob, vb_move l <> Some (r, ob)) -> (vb_full l = None \/ vb_full l = Some r) ->
    vb_freed l = [] -> vb_blk l = None ->
    Q (Some tt) (set_full l None) -> (forall l', Q None l') -> dsafeS c t (Dhp.scan c r) l Q.
  Proof.
    intros Hr Hd Hm Hf Hfr Hb HQ HN. unfold Dhp.scan.
    apply dsafeS_xact_q; [apply qB_faa_sync|]. intros _. apply dsafeS_xemit_q; [repeat constructor; apply qevB_scanb|].
    apply dsafeS_xact_q; [apply qB_ld_tlist|]. intros h. apply dsafeS_quiet_seq; [apply qB_scan_recs|apply HN|]. intros pl.
    apply dsafeS_xloc. intros g a tr Hv. unfold viewB in Hv.
    exists (aux_st2 a t r (fst (snd (stage2 c r pl g))) (snd (snd (stage2 c r pl g)))). split; [eapply frame_bvs; reflexivity|]. split.
    { intros J. apply S_stage2; auto; rewrite Hv; auto. }
    split.
    { intros J S. apply (JS_stage2 c HRB g a tr t r pl); auto; rewrite Hv; auto. }
    unfold viewB. cbn [bvs aux_st2 aux_arr]. rewrite fn_same, Hv.
    destruct (stage2 c r pl g) as [g' [freed ext]]. cbn [fst snd]. clear g a tr Hv g'.
    set (v1 := set_full (set_freed l freed) (if ext then Some r else None)).
    apply dsafeS_xemit. intros g a tr Hv. unfold viewB in Hv. exists (aux_disp a t freed). split; [eapply frame_bvs; reflexivity|]. split.
    { intros _ _ J. replace freed with (vb_freed (bvs a t)) by (rewrite Hv; reflexivity). apply S_dispose. exact J. }
    split.
    { intros _ J S. replace freed with (vb_freed (bvs a t)) by (rewrite Hv; reflexivity). apply (JS_dispose c g); auto. }
    unfold viewB. cbn [bvs aux_disp]. rewrite fn_same, Hv. clear g a tr Hv.
    set (v2 := set_freed v1 []).
    assert (Hend : forall l', l' = set_full l None -> dsafeS c t (emit [ev_scane r]) l' Q).
    { intros l' ->. apply dsafeS_emit_quiet; [repeat constructor; apply qevB_scane|]. exact HQ. }
    apply dsafeS_xbind. destruct ext.
    - apply rt_extend_specS; auto.
      + cbn beta iota. apply Hend. unfold v2, v1. destruct l; cbn in *; subst; reflexivity.
    - apply dsafeS_ret. apply Hend. unfold v2, v1. destruct l; cbn in *; subst; reflexivity.
  Qed.
End ProgS1.
