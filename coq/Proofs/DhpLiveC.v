(** * DhpLiveC: C02, second sentence for DHP.  Part C: every library program of the model (free lists, allocators,
      thread_hp_storage, retired_array, scan, help_scan, alloc_thread_data, free_thread_data) keeps the invariant
      [InvL] and leaves the thread's current operation unchanged; disposer calls happen inside smr::scan only. *)
From Coq Require Import ZArith NArith List String Bool Lia PeanoNat.
From LV Require Import Base.Conc Base.Events Model.DhpLang Model.Dhp Proofs.DhpBase Proofs.DhpHist
  Proofs.DhpLangProofs Proofs.DhpLiveA Proofs.DhpLiveB.
Import ListNotations.
Local Open Scope string_scope.
Local Open Scope list_scope.

Notation dsafeL := (@dsafe G ev S VL viewL InvL).

(** ** non-atomic code does not touch the client sources *)
Lemma srcs_upd_rec g r f : srcs (upd_rec g r f) = srcs g. Proof. reflexivity. Qed.
Lemma srcs_upd_rb g b f : srcs (upd_rb g b f) = srcs g. Proof. reflexivity. Qed.
Lemma srcs_upd_gb g b f : srcs (upd_gb g b f) = srcs g. Proof. reflexivity. Qed.
Lemma srcs_set_oob g v : srcs (set_oob g v) = srcs g. Proof. reflexivity. Qed.
Lemma srcs_snext_set g s v : srcs (snext_set g s v) = srcs g. Proof. destruct s; reflexivity. Qed.
Lemma srcs_slot_set g s v : srcs (slot_set g s v) = srcs g. Proof. destruct s; reflexivity. Qed.

Lemma srcs_rt_push c r p g : srcs (fst (rt_push c r p g)) = srcs g.
Proof.
  unfold rt_push. destruct (r_cb (grec g r)) as [b|]; [|reflexivity].
  set (g1 := if Nat.ltb (r_cc (grec g r)) (c_RB c) then _ else _).
  assert (E : srcs g1 = srcs g) by (unfold g1; destruct (Nat.ltb _ _); reflexivity).
  destruct (Nat.eqb _ _); [destruct (rb_next (grb g1 b))|]; cbn [fst]; rewrite srcs_upd_rec; exact E.
Qed.
Lemma srcs_retire_data c r pl b : forall n i g racc cnt, srcs (fst (fst (retire_data c r pl b i n g racc cnt))) = srcs g.
Proof.
  induction n as [|n IH]; intros i g racc cnt; cbn [retire_data]; [reflexivity|].
  destruct (memb _ pl); [|apply IH]. rewrite IH. apply srcs_rt_push.
Qed.
Lemma srcs_stage2_blocks c r pl lastb lastc : forall fuel block g racc f rc,
  srcs (fst (fst (fst (stage2_blocks c fuel r pl block lastb lastc g racc f rc)))) = srcs g.
Proof.
  induction fuel as [|fuel IH]; intros block g racc f rc; destruct block as [b|]; cbn [stage2_blocks]; try reflexivity.
  pose proof (srcs_retire_data c r pl b (if oeqb (Some b) lastb then lastc else c_RB c) 0 g racc 0) as K.
  destruct (retire_data c r pl b 0 _ g racc 0) as [[g1 racc1] c1]. cbn [fst] in K.
  destruct (oeqb (Some b) lastb); cbn [fst]; [exact K|]. rewrite IH. exact K.
Qed.
Lemma srcs_stage2 c r pl g : srcs (fst (stage2 c r pl g)) = srcs g.
Proof.
  unfold stage2.
  pose proof (srcs_stage2_blocks c r pl (r_cb (grec g r)) (r_cc (grec g r)) (Datatypes.S (List.length (rbs g))) (r_head (grec g r))
                (upd_rec g r (rs_cur (r_head (grec g r)) 0)) [] 0 0) as K.
  destruct (stage2_blocks _ _ _ _ _ _ _ _ _ _ _) as [[[g1 racc] f] rc]. cbn [fst] in *. exact K.
Qed.
Lemma srcs_rt_do_extend c r b g : srcs (fst (rt_do_extend c r b g)) = srcs g.
Proof.
  unfold rt_do_extend. destruct (r_tail (grec g r)); destruct (c_old c || _); reflexivity.
Qed.
Lemma srcs_hp_init c r g : srcs (fst (hp_init c r g)) = srcs g. Proof. reflexivity. Qed.
Lemma srcs_new_rec c g : srcs (fst (new_rec c g)) = srcs g. Proof. reflexivity. Qed.
Lemma srcs_new_gblock c g : srcs (fst (new_gblock c g)) = srcs g. Proof. reflexivity. Qed.
Lemma srcs_new_rblock c g : srcs (fst (new_rblock c g)) = srcs g. Proof. reflexivity. Qed.

#[export] Hint Resolve srcs_upd_rec srcs_upd_rb srcs_upd_gb srcs_set_oob srcs_snext_set srcs_slot_set srcs_rt_push srcs_stage2
  srcs_rt_do_extend srcs_hp_init srcs_new_rec srcs_new_gblock srcs_new_rblock : ldb.

#[export] Hint Rewrite srcs_upd_rec srcs_upd_rb srcs_upd_gb srcs_set_oob srcs_snext_set srcs_slot_set srcs_rt_push srcs_stage2
  srcs_rt_do_extend srcs_hp_init srcs_new_rec srcs_new_gblock srcs_new_rblock : srcsdb.
Ltac srcs_solve :=
  cbn [fst snd]; repeat match goal with |- context [match ?x with _ => _ end] => destruct x; cbn [fst snd] end;
  autorewrite with srcsdb; reflexivity.

Section LibProgs.
  Variable Rl : VL -> VL -> Prop.
  Hypothesis Rl_refl : forall l, Rl l l.
  Hypothesis Rl_trans : forall l1 l2 l3, Rl l1 l2 -> Rl l2 l3 -> Rl l1 l3.
  Hypothesis Rl_lib : forall l l', Rs l l' -> Rl l l'.
  Notation LibP := (LibG Rl).

  Ltac lp :=
    repeat match goal with
      | |- LibG _ (ret _) => apply (LibG_ret Rl Rl_refl)
      | |- LibG _ fuel_out => apply (LibG_fuel_out Rl Rl_lib)
      | |- LibG _ (xbind _ _) => apply (LibG_xbind Rl Rl_refl Rl_trans); [|intros]
      | |- LibG _ (act _) => apply (LibG_act Rl Rl_lib); solve [auto with ldb]
      | |- LibG _ (emit _) => apply (LibG_emit Rl Rl_lib); solve [repeat constructor; auto with ldb]
      | |- LibG _ (loc _) => apply (LibG_loc Rl Rl_refl); let g := fresh "g" in intros g; cbn [fst snd];
          solve [auto with ldb | srcs_solve]
      | |- LibG _ (if ?b then _ else _) => destruct b
      | |- LibG _ (match ?o with Some _ => _ | None => _ end) => destruct o
      end.

  (** free lists *)
  Lemma L_add_knowing sp : forall f n head, LibP (add_knowing sp f n head).
  Proof. induction sp as [|sp IH]; intros f n head; cbn [add_knowing]; lp. apply IH. Qed.
  Lemma L_fl_add sp f n : LibP (fl_add sp f n).
  Proof. unfold fl_add. lp. apply L_add_knowing. Qed.
  Lemma L_fl_put sp f n : LibP (fl_put sp f n).
  Proof. unfold fl_put. lp. apply L_fl_add. Qed.
  Lemma L_fl_get_loop sp : forall f head, LibP (fl_get_loop sp f head).
  Proof.
    induction sp as [|sp IH]; intros f head; destruct head as [h|]; cbn [fl_get_loop]; lp; try apply IH; try apply L_fl_add.
  Qed.
  Lemma L_fl_get sp f : LibP (fl_get sp f).
  Proof. unfold fl_get. lp. apply L_fl_get_loop. Qed.

  (** allocators *)
  Lemma L_link_guards b : forall n i, LibP (link_guards b i n).
  Proof. induction n as [|n IH]; intros i; cbn [link_guards]; lp. apply IH. Qed.
  Lemma L_hp_alloc c : LibP (hp_alloc c).
  Proof. unfold hp_alloc. lp; try apply L_fl_get; try apply L_link_guards. Qed.
  Lemma L_hp_free c b : LibP (hp_free c b).
  Proof. unfold hp_free. lp. apply L_fl_put. Qed.
  Lemma L_rt_alloc c : LibP (rt_alloc c).
  Proof. unfold rt_alloc. lp; apply L_fl_get. Qed.
  Lemma L_rt_free c b : LibP (rt_free c b).
  Proof. unfold rt_free. lp. apply L_fl_put. Qed.

  (** thread_hp_storage *)
  Lemma L_hp_extend c r : LibP (hp_extend c r).
  Proof. unfold hp_extend. lp. apply L_hp_alloc. Qed.
  Lemma L_hp_galloc c r : LibP (hp_galloc c r).
  Proof. unfold hp_galloc. lp. apply L_hp_extend. Qed.
  Lemma L_hp_gfree r s : LibP (hp_gfree r s).
  Proof. unfold hp_gfree. lp. Qed.
  Lemma L_clear_slots r : forall n i, LibP (clear_slots r i n).
  Proof. induction n as [|n IH]; intros i; cbn [clear_slots]; lp. apply IH. Qed.
  Lemma L_free_gblocks c : forall fuel p, LibP (free_gblocks c fuel p).
  Proof. induction fuel as [|f IH]; intros [b|]; cbn [free_gblocks]; lp; try apply L_hp_free; apply IH. Qed.
  Lemma L_hp_clear c r det : Forall (fun e => libevb e = true) det -> LibP (hp_clear c r det).
  Proof.
    intros Hd. unfold hp_clear. lp; try apply L_clear_slots; try apply L_free_gblocks.
  Qed.

  (** retired_array *)
  Lemma L_rt_init c r : LibP (rt_init c r).
  Proof. unfold rt_init. lp. apply L_rt_alloc. Qed.
  Lemma L_free_rblocks c : forall fuel p, LibP (free_rblocks c fuel p).
  Proof. induction fuel as [|f IH]; intros [b|]; cbn [free_rblocks]; lp; try apply L_rt_free; apply IH. Qed.
  Lemma L_rt_fini c r : LibP (rt_fini c r).
  Proof. unfold rt_fini. lp. apply L_free_rblocks. Qed.
  Lemma L_rt_extend c r : LibP (rt_extend c r).
  Proof. unfold rt_extend. lp. apply L_rt_alloc. Qed.

  (** stage 1 of scan *)
  Lemma L_copy_hazards mk : forall n i pl, LibP (copy_hazards mk i n pl).
  Proof. induction n as [|n IH]; intros i pl; cbn [copy_hazards]; lp. apply IH. Qed.
  Lemma L_scan_blocks c : forall fuel b pl, LibP (scan_blocks c fuel b pl).
  Proof. induction fuel as [|f IH]; intros [b|] pl; cbn [scan_blocks]; lp; try apply L_copy_hazards; apply IH. Qed.
  Lemma L_scan_recs c : forall fuel node pl, LibP (scan_recs c fuel node pl).
  Proof.
    induction fuel as [|f IH]; intros [n|] pl; cbn [scan_recs]; lp; try apply L_copy_hazards; try apply L_scan_blocks; apply IH.
  Qed.

  (** alloc_thread_data *)
  Lemma L_reuse_recs mytid : forall fuel node, LibP (reuse_recs fuel mytid node).
  Proof. induction fuel as [|f IH]; intros [h|]; cbn [reuse_recs]; lp; apply IH. Qed.
  Lemma L_push_rec r : forall fuel old, LibP (push_rec fuel r old).
  Proof. induction fuel as [|f IH]; intros old; cbn [push_rec]; lp; apply IH. Qed.
  Lemma L_alloc_thread_data c mytid : LibP (alloc_thread_data c mytid).
  Proof. unfold alloc_thread_data. lp; try apply L_reuse_recs; try apply L_push_rec; try apply L_rt_init. Qed.
End LibProgs.

(** ** smr::scan: the disposer calls are made between "_scanb" and "_scane" *)
Lemma lcls_scanb r : lcls (ev_scanb r) = LScanb. Proof. reflexivity. Qed.
Lemma lcls_scane r : lcls (ev_scane r) = LScane. Proof. reflexivity. Qed.
Lemma lcls_dispose p : lcls (ev_dispose p) = LDisp. Proof. reflexivity. Qed.

Lemma inert_dispose ps : Forall (fun e => inertb e = true) (map ev_dispose ps).
Proof. induction ps; constructor; auto. Qed.

Lemma InvL_scanmark g a tr t e : InvL g a tr -> (lcls e = LScanb \/ lcls e = LScane) ->
  InvL g (fold_left sstep (Conc.tag t [e]) a) (tr ++ Conc.tag t [e]).
Proof.
  intros (E & Hs & Ht) He. split; [rewrite sfold_app; now subst a|]. split.
  - cbn. unfold SrcOK, sstep. cbn [snd fst]. destruct He as [-> | ->]; exact Hs.
  - apply TProp_plain; [exact Ht|]. constructor; [|constructor]. unfold plainb. destruct He as [-> | ->]; reflexivity.
Qed.

Lemma InvL_dispose g a tr t ps : InvL g a tr -> lsc a t <> None ->
  InvL g (fold_left sstep (Conc.tag t (map ev_dispose ps)) a) (tr ++ Conc.tag t (map ev_dispose ps)).
Proof.
  intros (E & Hs & Ht) Hsc. split; [rewrite sfold_app; now subst a|]. split.
  - destruct (inert_fold t _ (inert_dispose ps) a) as (_&_&_&_&_&B). unfold SrcOK. rewrite B. exact Hs.
  - apply TProp_app; [exact Ht|]. intros i u e Hn. rewrite firstn_tag in *. apply nth_tag in Hn. destruct Hn as (-> & Hn).
    rewrite nth_error_map in Hn. destruct (nth_error ps i) as [p|]; [|discriminate]. cbn in Hn. inversion Hn; subst e.
    split; [intros z Ez; discriminate|]. intros _. rewrite sfold_app, <- E, firstn_map.
    destruct (inert_fold t _ (inert_dispose (firstn i ps)) a) as (_&_&_&_&B&_). rewrite B. exact Hsc.
Qed.

Lemma Rs_lib_id l l' : Rs l l' -> Rs l l'. Proof. auto. Qed.
Lemma Rs_Rw_trans l1 l2 l3 : Rw l1 l2 -> Rs l2 l3 -> Rw l1 l3.
Proof. unfold Rw, Rs. intros A (B&_). congruence. Qed.

Lemma L_scan c r : LibG Rw (Dhp.scan c r).
Proof.
  intros t l. unfold Dhp.scan.
  apply dsafe_bind. eapply dsafe_weaken; [|apply (LibG_act Rs Rs_lib_id (a_faa_sync r) (l_faa_sync r) t l)].
  intros [x|] l1 K1; cbn beta iota; [|cbn; apply (proj1 K1)].
  unfold xbind at 1. unfold emit at 1. cbn [dbind].
  apply dsafeL_emit. intros g a tr Hi Hv. split; [apply InvL_scanmark; auto|].
  set (a1 := fold_left sstep (Conc.tag t [ev_scanb r]) a).
  assert (V1 : v_op (viewL a1 t) = v_op l /\ v_sc (viewL a1 t) <> None).
  { unfold a1. cbn. unfold sstep. cbn [snd fst lcls]. cbn. rewrite fnu_same. rewrite <- (proj1 K1), <- Hv. split; [reflexivity|discriminate]. }
  generalize dependent (viewL a1 t). intros l2 (V1 & V2). clear a1.
  apply dsafe_bind. eapply dsafe_weaken; [|apply (LibG_act Rs Rs_lib_id a_ld_tlist l_ld_tlist t l2)].
  intros [h|] l3 K3; cbn beta iota; [|cbn; unfold Rw; rewrite (proj1 K3); exact V1].
  apply dsafe_bind. eapply dsafe_weaken; [|apply (L_scan_recs Rs Rs_refl Rs_trans Rs_lib_id c (c_spin c) h [] t l3)].
  intros [pl|] l4 K4; cbn beta iota; [|cbn; unfold Rw; rewrite (proj1 K4), (proj1 K3); exact V1].
  unfold xbind at 1. unfold loc at 1. cbn [dbind].
  apply dsafeL_loc; [intros g1; apply srcs_stage2|]. intros xs.
  unfold xbind at 1. unfold emit at 1. cbn [dbind].
  apply dsafeL_emit. intros g1 a1 tr1 Hi1 Hv1.
  assert (Hsc : lsc a1 t <> None).
  { destruct K4 as (_&_&K4). destruct K3 as (_&_&K3). change (lsc a1 t) with (v_sc (viewL a1 t)). rewrite Hv1, K4, K3. exact V2. }
  split; [apply InvL_dispose; auto|].
  assert (V5 : v_op (viewL (fold_left sstep (Conc.tag t (map ev_dispose (fst xs))) a1) t) = v_op l).
  { destruct (inert_fold t _ (inert_dispose (fst xs)) a1) as (B&_). cbn. rewrite B. change (lop a1 t) with (v_op (viewL a1 t)).
    rewrite Hv1, (proj1 K4), (proj1 K3). exact V1. }
  generalize dependent (viewL (fold_left sstep (Conc.tag t (map ev_dispose (fst xs))) a1) t). intros l5 V5.
  apply dsafe_bind.
  assert (Hx : dsafeL t (if snd xs then rt_extend c r else ret tt) l5 (fun _ l' => Rw l5 l')).
  { destruct (snd xs); [apply (L_rt_extend Rw Rw_refl Rw_trans Rw_lib)|apply (LibG_ret Rw Rw_refl)]. }
  eapply dsafe_weaken; [|exact Hx]. intros [y|] l6 K6; cbn beta iota; [|cbn; unfold Rw in *; congruence].
  unfold emit. apply dsafeL_emit. intros g2 a2 tr2 Hi2 Hv2. split; [apply InvL_scanmark; auto|].
  cbn. unfold Rw in *. unfold sstep. cbn. change (lop a2 t) with (v_op (viewL a2 t)). rewrite Hv2. congruence.
Qed.

(** ** the programs that call scan *)
Ltac lpw :=
  repeat match goal with
    | |- LibG _ (ret _) => apply (LibG_ret Rw Rw_refl)
    | |- LibG _ fuel_out => apply (LibG_fuel_out Rw Rw_lib)
    | |- LibG _ (Dhp.scan _ _) => apply L_scan
    | |- LibG _ (xbind _ _) => apply (LibG_xbind Rw Rw_refl Rw_trans); [|intros]
    | |- LibG _ (act _) => apply (LibG_act Rw Rw_lib); solve [auto with ldb]
    | |- LibG _ (emit _) => apply (LibG_emit Rw Rw_lib); solve [repeat constructor; auto with ldb]
    | |- LibG _ (loc _) => apply (LibG_loc Rw Rw_refl); let g := fresh "g" in intros g; cbn [fst snd];
        solve [auto with ldb | srcs_solve]
    | |- LibG _ (if ?b then _ else _) => destruct b
    | |- LibG _ (match ?o with Some _ => _ | None => _ end) => destruct o
    end.

Lemma L_move_cells c me b : forall n i, LibG Rw (move_cells c me b i n).
Proof. induction n as [|n IH]; intros i; cbn [move_cells]; lpw. apply IH. Qed.
Lemma L_move_blocks c me src : forall fuel block, LibG Rw (move_blocks c fuel me src block).
Proof. induction fuel as [|f IH]; intros [b|]; cbn [move_blocks]; lpw; try apply L_move_cells; apply IH. Qed.
Lemma L_help_recs c me mytid : forall fuel node, LibG Rw (help_recs c fuel me mytid node).
Proof.
  induction fuel as [|f IH]; intros [h|]; cbn [help_recs]; lpw; try apply IH; try apply L_move_blocks;
    try apply (L_rt_fini Rw Rw_refl Rw_trans Rw_lib).
Qed.
Lemma L_help_scan c me mytid : LibG Rw (help_scan c me mytid).
Proof. unfold help_scan. lpw. apply L_help_recs. Qed.

Lemma L_ftd_go c r : forall fuel p,
  LibG Rw ((fix go (fuel : nat) (p : option nat) : P unit :=
        match p with
        | None => ret tt
        | Some b =>
            match fuel with
            | O => fuel_out
            | Datatypes.S f =>
                nx <- loc (fun g => (g, rb_next (grb g b))) ;;
                rt_free c b ;;;
                loc (fun g => (upd_rec g r (fun x => rs_ret (r_cb x) (r_cc x) (r_head x) (r_tail x) (pred (r_bcount x)) x), tt)) ;;;
                go f nx
            end
        end) fuel p).
Proof. induction fuel as [|f IH]; intros [b|]; lpw; try apply (L_rt_free Rw Rw_refl Rw_trans Rw_lib); apply IH. Qed.

Lemma L_free_thread_data c r mytid help det : Forall (fun e => libevb e = true) det -> LibG Rw (free_thread_data c r mytid help det).
Proof.
  intros Hd. unfold free_thread_data. lpw; try apply (L_hp_clear Rw Rw_refl Rw_trans Rw_lib); auto;
    try apply L_help_scan; try apply (L_rt_fini Rw Rw_refl Rw_trans Rw_lib); try apply L_ftd_go.
Qed.
