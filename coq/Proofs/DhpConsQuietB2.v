(** DhpConsQuietB2: copy of LV.Proofs.DhpQuietB2 over the two-directional pointer invariant of LV.Proofs.DhpConsInv (conservation);
    the text differs from the original where the JW part of a goal is proved. *)
(** * DhpQuietB2: the accesses and programs the C03 invariant cannot see. *)
From Coq Require Import ZArith NArith List String Bool Lia PeanoNat.
From LV Require Import Base.Conc Base.Events Model.DhpLang Model.Dhp Proofs.DhpBase Proofs.DhpSeq Proofs.DhpSeqThm Proofs.DhpHist
  Proofs.DhpLangProofs Proofs.DhpInvB Proofs.DhpConsInv Proofs.DhpConsQuietB.
Import ListNotations.

Ltac qevs := repeat first [solve [auto with qdbB] | apply Forall_nil | apply Forall_cons].
Ltac qaccB := intros g; cbn; split; [auto with qdbB|qevs].

Definition QA {X} (f : A X) : Prop := forall g, piB g (fst (fst (f g))) /\ Forall qevB (snd (f g)).

Lemma qB_begin : QA a_begin. Proof. qaccB. Qed.
Lemma qB_ld_tlist : QA a_ld_tlist. Proof. qaccB. Qed.
Lemma qB_ld_tid r : QA (a_ld_tid r). Proof. qaccB. Qed.
Lemma qB_ld_free r : QA (a_ld_free r). Proof. qaccB. Qed.
Lemma qB_st_free r v : QA (a_st_free r v). Proof. intros g; cbn; split; [apply piB_upd_rec; intros []; repeat split; reflexivity|qevs]. Qed.
Lemma qB_faa_sync r : QA (a_faa_sync r). Proof. intros g; cbn; split; [apply piB_upd_rec; intros []; repeat split; reflexivity|qevs]. Qed.
Lemma qB_ld_ext r : QA (a_ld_ext r). Proof. qaccB. Qed.
Lemma qB_st_ext r v : QA (a_st_ext r v). Proof. intros g; cbn; split; [apply piB_upd_rec; intros []; repeat split; reflexivity|qevs]. Qed.
Lemma qB_st_ext_g r v gh : Forall qevB gh -> QA (a_st_ext_g r v gh).
Proof. intros H g; cbn; split; [apply piB_upd_rec; intros []; repeat split; reflexivity|constructor; auto with qdbB]. Qed.
Lemma qB_ld_slot s : QA (a_ld_slot s). Proof. qaccB. Qed.
Lemma qB_st_slot s v : QA (a_st_slot s v).
Proof. intros g. unfold a_st_slot, acc. cbn [fst snd app]. split; [apply piB_slot_set|]. destruct (slot_valid g s); qevs. Qed.
Lemma qB_ld_src k : QA (a_ld_src k). Proof. qaccB. Qed.
Lemma qB_st_src k v : QA (a_st_src k v). Proof. intros g; cbn; split; [apply piB_simple; reflexivity|qevs]. Qed.
Lemma qB_ld_head f : QA (a_ld_head f). Proof. qaccB. Qed.
Lemma qB_cas_head f e n : QA (a_cas_head f e n).
Proof. intros g. unfold a_cas_head. destruct (oeqb _ _); cbn; split; auto with qdbB; qevs. Qed.
Lemma qB_ld_refs f n : QA (a_ld_refs f n). Proof. qaccB. Qed.
Lemma qB_st_refs f n v : QA (a_st_refs f n v). Proof. qaccB. Qed.
Lemma qB_cas_refs f n e v : QA (a_cas_refs f n e v).
Proof. intros g. unfold a_cas_refs. destruct (N.eqb _ _); cbn; split; auto with qdbB; qevs. Qed.
Lemma qB_faa_refs f n d : QA (a_faa_refs f n d). Proof. qaccB. Qed.
Lemma qB_fas_refs f n d : QA (a_fas_refs f n d). Proof. qaccB. Qed.
Lemma qB_ld_flnext f n : QA (a_ld_flnext f n). Proof. qaccB. Qed.
Lemma qB_st_flnext f n v : QA (a_st_flnext f n v). Proof. qaccB. Qed.

#[export] Hint Resolve qB_begin qB_ld_tlist qB_ld_tid qB_ld_free qB_st_free qB_faa_sync qB_ld_ext qB_st_ext
  qB_ld_slot qB_st_slot qB_ld_src qB_st_src qB_ld_head qB_cas_head qB_ld_refs qB_st_refs qB_cas_refs qB_faa_refs qB_fas_refs
  qB_ld_flnext qB_st_flnext : qdbB.

Notation dsafeB c := (@dsafe G ev AuxB VB viewB (InvB c)).
Lemma quietPB_actQ {X} (f : A X) : QA f -> quietPB (act f).
Proof. intros H. apply quietPB_act. exact H. Qed.
Lemma dsafeB_actQ c {X R} t (f : A X) (k : X -> @dprog G ev R) l Q :
  QA f -> (forall x, dsafeB c t (k x) l Q) -> dsafeB c t (DAct f k) l Q.
Proof. intros H. apply dsafeB_act_quiet. exact H. Qed.

Ltac qpB_known := fail.
Ltac qpB :=
  repeat first
    [ qpB_known
    | match goal with
      | |- quietPB (ret _) => apply quietPB_ret
      | |- quietPB fuel_out => apply quietPB_fuel_out
      | |- quietPB (xbind _ _) => apply quietPB_xbind; [|intros]
      | |- quietPB (act _) => apply quietPB_actQ; solve [auto with qdbB]
      | |- quietPB (emit _) => apply quietPB_emit; solve [qevs]
      | |- quietPB (loc _) => apply quietPB_loc; let g := fresh "g" in intros g; cbn [fst snd]; solve [auto with qdbB]
      | |- quietPB (if ?b then _ else _) => destruct b
      | |- quietPB (match ?o with Some _ => _ | None => _ end) => destruct o
      end ].

Lemma qB_add_knowing sp : forall f n head, quietPB (add_knowing sp f n head).
Proof. induction sp as [|sp IH]; intros f n head; cbn [add_knowing]; qpB. apply IH. Qed.
Lemma qB_fl_add sp f n : quietPB (fl_add sp f n).
Proof. unfold fl_add. qpB. apply qB_add_knowing. Qed.
Lemma qB_fl_put sp f n : quietPB (fl_put sp f n).
Proof. unfold fl_put. qpB. apply qB_fl_add. Qed.
Lemma qB_fl_get_loop sp : forall f head, quietPB (fl_get_loop sp f head).
Proof. induction sp as [|sp IH]; intros f head; destruct head as [h|]; cbn [fl_get_loop]; qpB; try apply IH; try apply qB_fl_add. Qed.
Lemma qB_fl_get sp f : quietPB (fl_get sp f).
Proof. unfold fl_get. qpB. apply qB_fl_get_loop. Qed.

Lemma piB_new_gblock c g : piB g (fst (new_gblock c g)).
Proof. unfold new_gblock. cbn. apply piB_simple; reflexivity. Qed.
Lemma piB_fhead g r v : piB g (upd_rec g r (rs_fhead v)).
Proof. apply piB_upd_rec. intros []; repeat split; reflexivity. Qed.
Lemma piB_hp_init c g r : piB g (fst (hp_init c r g)).
Proof. unfold hp_init. cbn. apply piB_upd_rec. intros []; repeat split; reflexivity. Qed.
#[export] Hint Resolve piB_new_gblock piB_fhead piB_hp_init : qdbB.

Lemma qB_link_guards b : forall n i, quietPB (link_guards b i n).
Proof. induction n as [|n IH]; intros i; cbn [link_guards]; qpB. apply IH. Qed.
Lemma qB_clear_slots r : forall n i, quietPB (clear_slots r i n).
Proof. induction n as [|n IH]; intros i; cbn [clear_slots]; qpB. apply IH. Qed.

Ltac qpB_known ::=
  match goal with
  | |- quietPB (fl_put _ _ _) => apply qB_fl_put
  | |- quietPB (fl_get _ _) => apply qB_fl_get
  | |- quietPB (fl_add _ _ _) => apply qB_fl_add
  | |- quietPB (link_guards _ _ _) => apply qB_link_guards
  | |- quietPB (clear_slots _ _ _) => apply qB_clear_slots
  end.

Lemma qB_hp_alloc c : quietPB (hp_alloc c).
Proof. unfold hp_alloc. qpB. Qed.
Lemma qB_hp_free c b : quietPB (hp_free c b).
Proof. unfold hp_free. qpB. Qed.
Lemma qB_hp_extend c r : quietPB (hp_extend c r).
Proof.
  unfold hp_extend. qpB; try apply qB_hp_alloc.
  all: try (apply quietPB_actQ; apply qB_st_ext_g; repeat constructor; apply qevB_link).
Qed.
Lemma qB_hp_galloc c r : quietPB (hp_galloc c r).
Proof.
  unfold hp_galloc. qpB; try apply qB_hp_extend.
  all: apply quietPB_loc; intros g; destruct (r_fhead (grec g r)); cbn; auto with qdbB.
Qed.
Lemma qB_hp_gfree r s : quietPB (hp_gfree r s).
Proof.
  unfold hp_gfree. qpB. apply quietPB_loc. intros g. cbn. eapply piB_trans; [apply piB_snext_set|apply piB_fhead].
Qed.
Lemma qB_free_gblocks c : forall fuel p, quietPB (free_gblocks c fuel p).
Proof. induction fuel as [|fuel IH]; intros [b|]; cbn [free_gblocks]; qpB; try apply qB_hp_free; apply IH. Qed.
Lemma qB_hp_clear c r det : Forall qevB det -> quietPB (hp_clear c r det).
Proof. intros Hd. unfold hp_clear. qpB; try apply qB_free_gblocks. Qed.

Lemma qB_copy_hazards mk : forall n i pl, quietPB (copy_hazards mk i n pl).
Proof. induction n as [|n IH]; intros i pl; cbn [copy_hazards]; qpB. apply IH. Qed.
Lemma qB_scan_blocks c : forall fuel b pl, quietPB (scan_blocks c fuel b pl).
Proof. induction fuel as [|fuel IH]; intros [b|] pl; cbn [scan_blocks]; qpB; try apply qB_copy_hazards; apply IH. Qed.
Lemma qB_scan_recs c : forall fuel node pl, quietPB (scan_recs c fuel node pl).
Proof.
  induction fuel as [|fuel IH]; intros [n|] pl; cbn [scan_recs]; qpB; try apply qB_copy_hazards; try apply qB_scan_blocks; try apply IH.
Qed.
Lemma qB_protect_loop r s k : forall fuel p, quietPB (protect_loop fuel r s k p).
Proof. induction fuel as [|fuel IH]; intros p; cbn [protect_loop]; qpB. apply IH. Qed.
Lemma qB_wait_loop k v : forall fuel, quietPB (wait_loop fuel k v).
Proof. induction fuel as [|fuel IH]; cbn [wait_loop]; qpB. apply IH. Qed.

Ltac qpB_known ::=
  match goal with
  | |- quietPB (fl_put _ _ _) => apply qB_fl_put
  | |- quietPB (fl_get _ _) => apply qB_fl_get
  | |- quietPB (fl_add _ _ _) => apply qB_fl_add
  | |- quietPB (link_guards _ _ _) => apply qB_link_guards
  | |- quietPB (clear_slots _ _ _) => apply qB_clear_slots
  | |- quietPB (hp_alloc _) => apply qB_hp_alloc
  | |- quietPB (hp_free _ _) => apply qB_hp_free
  | |- quietPB (hp_extend _ _) => apply qB_hp_extend
  | |- quietPB (hp_galloc _ _) => apply qB_hp_galloc
  | |- quietPB (hp_gfree _ _) => apply qB_hp_gfree
  | |- quietPB (free_gblocks _ _ _) => apply qB_free_gblocks
  | |- quietPB (copy_hazards _ _ _ _) => apply qB_copy_hazards
  | |- quietPB (scan_blocks _ _ _ _) => apply qB_scan_blocks
  | |- quietPB (scan_recs _ _ _ _) => apply qB_scan_recs
  | |- quietPB (protect_loop _ _ _ _ _) => apply qB_protect_loop
  | |- quietPB (wait_loop _ _ _) => apply qB_wait_loop
  end.
