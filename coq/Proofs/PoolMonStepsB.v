(** * pool_monitor: the steps that write m_RefSpin / m_pLock / the pool, on the whole invariant. *)
From Coq Require Import ZArith List String Bool Lia PeanoNat.
From LV Require Import Base.Conc Base.Events Model.PoolMon.
From LV Require Import Proofs.PoolMonBase Proofs.PoolMonSteps Proofs.PoolMonStepsA Proofs.PoolMonStepsR.
Import ListNotations.
Local Open Scope string_scope.

Ltac inv6 := split; [|split; [|split; [|split; [|split]]]]; cbn [fst snd].

(** ** lock(): successful CAS( cur -> cur + 3 ) *)
Lemma step_cas_lock g vs rf tr t n k s :
  Inv g (vs, rf) tr -> vs t = (Idle, s) -> refspin g n = 2 * k ->
  Inv (set_ref g n (2 * k + 3))
      (upd vs t (match plock g n with Some x => LBitS n (2 * k) x | None => LBitA n (2 * k) end, s), updn rf n (t :: rf n))
      (tr ++ Conc.tag t [EvAcc KCas (obj_ref n) true]).
Proof.
  intros (HR & HP & HM & HL & HO & HD) Hv Hr. cbn [fst snd] in *.
  set (p' := match plock g n with Some x => LBitS n (2 * k) x | None => LBitA n (2 * k) end).
  inv6.
  - apply (InvR_take g (set_ref g n (2 * k + 3)) vs rf t n s k Idle p' true (2 * k + 3)); [exact HR|exact Hv|exact Hr| | | | | | |].
    + cbn. unfold updn. now rewrite Nat.eqb_refl.
    + intros n0 N. cbn. unfold updn. destruct (Nat.eqb_spec n0 n); [congruence|reflexivity].
    + cbn. lia.
    + reflexivity.
    + intros n0. unfold p'. destruct (plock g n); reflexivity.
    + intros n0. unfold p'. destruct (plock g n); reflexivity.
    + unfold p'. destruct (plock g n); cbn; unfold updn; rewrite Nat.eqb_refl; lia.
  - destruct HP as (P1 & P2 & P3). repeat split.
    + intros t0 n0 x0 H. cbn [plock set_ref]. destruct (Nat.eq_dec t0 t) as [E|N]; [subst t0; rewrite upd_same in H|rewrite upd_other in H by exact N; eapply P1; eauto].
      destruct H as [H|H]; [apply (P1 t); rewrite Hv; now left|]. cbn [fst] in H. unfold p' in H.
      destruct (plock g n) as [x|] eqn:Ep; cbn in H; [|discriminate].
      apply andb_true_iff in H. destruct H as [A B]. apply Nat.eqb_eq in A, B. subst. exact Ep.
    + intros t0 n0 c0 H. cbn [plock set_ref]. destruct (Nat.eq_dec t0 t) as [E|N]; [subst t0; rewrite upd_same in H|rewrite upd_other in H by exact N; eapply P2; eauto].
      cbn [fst] in H. unfold p' in H. destruct (plock g n) as [x|] eqn:Ep; inversion H; subst. exact Ep.
    + intros n1 n2 x. cbn [plock set_ref]. apply P3.
  - apply InvM_frame with (g := g); auto. rewrite Hv. intros x. unfold hm, p'. destruct (plock g n); reflexivity.
  - apply InvL_frame with (g := g); auto. rewrite Hv. intros x. unfold p'. destruct (plock g n); reflexivity.
  - apply InvO_frame; [exact HO|intros; apply occ_acc|rewrite Hv; reflexivity].
  - apply InvD_frame with (g := g); auto. apply disc_acc_other. apply nlo_ref.
Qed.

(** ** lock(): release of the spin bit, store( cur + 2 ) *)
Lemma step_st_lock g vs rf tr t n c x s :
  Inv g (vs, rf) tr -> vs t = (LBitS n c x, s) ->
  Inv (set_ref g n (c + 2)) (upd vs t (LWait n x, s), rf) (tr ++ Conc.tag t [EvAcc KSt (obj_ref n) true]).
Proof.
  intros (HR & HP & HM & HL & HO & HD) Hv. cbn [fst snd] in *.
  assert (H4 : refspin g n = c + 3) by (destruct HR as (_ & _ & _ & R4); specialize (R4 t); rewrite Hv in R4; exact R4).
  inv6.
  - apply (InvR_give g (set_ref g n (c + 2)) vs rf t n s (LBitS n c x) (LWait n x) false (c + 2)); [exact HR|exact Hv| | | | | | | |].
    + cbn. apply Nat.eqb_refl.
    + cbn. unfold updn. now rewrite Nat.eqb_refl.
    + intros n0 N. cbn. unfold updn. destruct (Nat.eqb_spec n0 n); [congruence|reflexivity].
    + cbn. lia.
    + intros n0. cbn. lia.
    + intros n0. reflexivity.
    + intros n0 N. cbn. destruct (Nat.eqb_spec n n0); congruence.
    + exact I.
  - apply InvP_frame with (g := g); auto; rewrite ?Hv; intros; fin.
  - apply InvM_frame with (g := g); auto; rewrite ?Hv; intros; fin.
  - apply InvL_frame with (g := g); auto; rewrite ?Hv; intros; fin.
  - apply InvO_frame; [exact HO|intros; apply occ_acc|rewrite Hv; reflexivity].
  - apply InvD_frame with (g := g); auto. apply disc_acc_other. apply nlo_ref.
Qed.

(** ** unlock(): successful CAS( cur -> cur | 1 ) with cur <> 2: the lock stays on the node *)
Lemma step_cas_unlock_keep g vs rf tr t n k s :
  Inv g (vs, rf) tr -> vs t = (URel n, s) -> refspin g n = 2 * k -> 2 * k <> 2 ->
  Inv (set_ref g n (S (2 * k))) (upd vs t (UBit n (2 * k) None, s), rf) (tr ++ Conc.tag t [EvAcc KCas (obj_ref n) true]).
Proof.
  intros (HR & HP & HM & HL & HO & HD) Hv Hr Hk. cbn [fst snd] in *.
  inv6.
  - apply (InvR_take g (set_ref g n (S (2 * k))) vs rf t n s k (URel n) (UBit n (2 * k) None) false (S (2 * k))); [exact HR|exact Hv|exact Hr| | | | | | |].
    + cbn. unfold updn. now rewrite Nat.eqb_refl.
    + intros n0 N. cbn. unfold updn. destruct (Nat.eqb_spec n0 n); [congruence|reflexivity].
    + cbn. lia.
    + reflexivity.
    + intros n0. cbn. lia.
    + intros n0. reflexivity.
    + cbn. unfold updn. rewrite Nat.eqb_refl. split; [lia|auto].
  - apply InvP_frame with (g := g); auto; rewrite ?Hv; intros; fin.
  - apply InvM_frame with (g := g); auto; rewrite ?Hv; intros; fin.
  - apply InvL_frame with (g := g); auto; rewrite ?Hv; intros; fin.
  - apply InvO_frame; [exact HO|intros; apply occ_acc|rewrite Hv; reflexivity].
  - apply InvD_frame with (g := g); auto. apply disc_acc_other. apply nlo_ref.
Qed.

(** ** unlock(): successful CAS with cur = 2 (the caller holds the only reference): the lock leaves the node *)
Lemma step_cas_unlock_take g vs rf tr t n s :
  Inv g (vs, rf) tr -> vs t = (URel n, s) -> refspin g n = 2 ->
  Inv (set_plock (set_ref g n 3) n None) (upd vs t (UBit n 2 (plock g n), s), rf)
      (tr ++ Conc.tag t [EvAcc KCas (obj_ref n) true]).
Proof.
  intros (HR & HP & HM & HL & HO & HD) Hv Hr. cbn [fst snd] in *.
  destruct (R_even g vs rf n 1 HR Hr) as [Hfree Hlen].
  assert (Hcnt : count_occ Nat.eq_dec (rf n) t = cntn s n + 1).
  { destruct HR as (R1 & _). rewrite R1, Hv. unfold nrefs. cbn. rewrite Nat.eqb_refl. reflexivity. }
  assert (Hs0 : cntn s n = 0) by (pose proof (count_occ_bound Nat.eq_dec t (rf n)); lia).
  assert (Hoth : forall t0, t0 <> t -> nrefs (vs t0) n = 0).
  { intros t0 N. destruct HR as (R1 & _). rewrite <- R1. apply (len1_only t); auto; lia. }
  inv6.
  - apply (InvR_take g (set_plock (set_ref g n 3) n None) vs rf t n s 1 (URel n) (UBit n 2 (plock g n)) false 3); [exact HR|exact Hv|exact Hr| | | | | | |].
    + cbn. unfold updn. now rewrite Nat.eqb_refl.
    + intros n0 N. cbn. unfold updn. destruct (Nat.eqb_spec n0 n); [congruence|reflexivity].
    + reflexivity.
    + reflexivity.
    + intros n0. cbn. lia.
    + intros n0. reflexivity.
    + cbn. unfold updn. rewrite Nat.eqb_refl. split; [lia|congruence].
  - destruct HP as (P1 & P2 & P3).
    assert (Hnu : forall t0 x0, ~ uses (upd vs t (UBit n 2 (plock g n), s) t0) n x0).
    { intros t0 x0 H. destruct (Nat.eq_dec t0 t) as [E|N]; [subst t0; rewrite upd_same in H|rewrite upd_other in H by exact N].
      - destruct H as [H|H]; [apply In_cntn in H; cbn [snd] in H; lia|discriminate].
      - apply uses_nrefs in H. rewrite Hoth in H by exact N. lia. }
    repeat split.
    + intros t0 n0 x0 H. cbn [plock set_plock set_ref]. unfold updn. destruct (Nat.eqb_spec n0 n) as [E|Nn]; [subst n0; exfalso; eapply Hnu; eauto|].
      destruct (Nat.eq_dec t0 t) as [E|N]; [subst t0; rewrite upd_same in H|rewrite upd_other in H by exact N; eapply P1; eauto].
      destruct H as [H|H]; [|discriminate]. apply (P1 t). rewrite Hv. now left.
    + intros t0 n0 c0 H. cbn [plock set_plock set_ref]. unfold updn. destruct (Nat.eqb_spec n0 n) as [E|Nn]; [reflexivity|].
      destruct (Nat.eq_dec t0 t) as [E|N]; [subst t0; rewrite upd_same in H; discriminate|rewrite upd_other in H by exact N; eapply P2; eauto].
    + intros n1 n2 x. cbn [plock set_plock set_ref]. unfold updn.
      destruct (Nat.eqb_spec n1 n); [discriminate|]. destruct (Nat.eqb_spec n2 n); [discriminate|]. apply P3.
  - apply InvM_frame with (g := g); auto; rewrite ?Hv; intros; fin.
  - destruct HL as ((L1a & L1b) & L2 & L3 & L4). destruct HP as (_ & _ & P3).
    assert (El : forall t0 x0, limbo (fst (upd vs t (UBit n 2 (plock g n), s) t0)) x0 = true ->
                 (t0 = t /\ plock g n = Some x0) \/ (t0 <> t /\ limbo (fst (vs t0)) x0 = true)).
    { intros t0 x0 H. destruct (Nat.eq_dec t0 t) as [E|N]; [subst t0; rewrite upd_same in H|rewrite upd_other in H by exact N; auto].
      left. split; auto. cbn in H. destruct (plock g n); [|discriminate]. apply Nat.eqb_eq in H. now subst. }
    split; [|split; [|split]]; cbn [pool fresh plock set_plock set_ref].
    + split; auto.
    + intros n0 x0. unfold updn. destruct (Nat.eqb_spec n0 n); [discriminate|]. apply L2.
    + intros t0 x0 H. destruct (El t0 x0 H) as [[-> Hp]|[N Hl]].
      * destruct (L2 n x0 Hp) as [A B]. split; [|split]; auto. intros n0. unfold updn.
        destruct (Nat.eqb_spec n0 n); [discriminate|]. intros Hn0. apply n1. eapply P3; eauto.
      * destruct (L3 t0 x0 Hl) as (A & B & C). split; [|split]; auto. intros n0. unfold updn.
        destruct (Nat.eqb_spec n0 n); [discriminate|apply C].
    + intros t1 t2 x0 H1 H2. destruct (El t1 x0 H1) as [[-> Hp1]|[N1 Hl1]]; destruct (El t2 x0 H2) as [[-> Hp2]|[N2 Hl2]]; auto.
      * exfalso. destruct (L3 t2 x0 Hl2) as (_ & _ & C). eapply C; eauto.
      * exfalso. destruct (L3 t1 x0 Hl1) as (_ & _ & C). eapply C; eauto.
      * eapply L4; eauto.
  - apply InvO_frame; [exact HO|intros; apply occ_acc|rewrite Hv; reflexivity].
  - apply InvD_frame with (g := g); auto. apply disc_acc_other. apply nlo_ref.
Qed.

(** ** unlock(): the reference is dropped and the spin bit released, store( cur - 2 ) *)
Lemma step_st_unlock g vs rf tr t n c o s :
  Inv g (vs, rf) tr -> vs t = (UBit n c o, s) ->
  Inv (set_ref g n (c - 2)) (upd vs t (match o with Some y => UDe y | None => Idle end, s), updn rf n (rem1 t (rf n)))
      (tr ++ Conc.tag t [EvAcc KSt (obj_ref n) true]).
Proof.
  intros (HR & HP & HM & HL & HO & HD) Hv. cbn [fst snd] in *.
  assert (H4 : refspin g n = c + 1) by (destruct HR as (_ & _ & _ & R4); specialize (R4 t); rewrite Hv in R4; cbn in R4; tauto).
  assert (Hc : c >= 2).
  { assert (Hb : bitph (fst (vs t)) n = true) by (rewrite Hv; cbn; apply Nat.eqb_refl).
    destruct (R_bit g vs rf t n HR Hb) as [E _]. destruct HR as (R1 & _). specialize (R1 t n). rewrite Hv in R1.
    unfold nrefs in R1. cbn in R1. rewrite Nat.eqb_refl in R1. cbn in R1.
    pose proof (count_occ_bound Nat.eq_dec t (rf n)). lia. }
  set (p' := match o with Some y => UDe y | None => Idle end).
  inv6.
  - apply (InvR_give g (set_ref g n (c - 2)) vs rf t n s (UBit n c o) p' true (c - 2)); [exact HR|exact Hv| | | | | | | |].
    + cbn. apply Nat.eqb_refl.
    + cbn. unfold updn. now rewrite Nat.eqb_refl.
    + intros n0 N. cbn. unfold updn. destruct (Nat.eqb_spec n0 n); [congruence|reflexivity].
    + cbn. lia.
    + intros n0. unfold p'. destruct o; cbn; lia.
    + intros n0. unfold p'. destruct o; reflexivity.
    + intros n0 N. cbn. destruct (Nat.eqb_spec n n0); congruence.
    + unfold p'. destruct o; exact I.
  - apply InvP_frame with (g := g); auto; rewrite ?Hv.
    + intros n0 x0 [H|H]; [now left|]. unfold p' in H. destruct o; discriminate.
    + intros n0 c0 H. unfold p' in H. destruct o; discriminate.
  - apply InvM_frame with (g := g); auto. rewrite Hv. intros x. unfold hm, p'. destruct o; reflexivity.
  - apply InvL_frame with (g := g); auto. rewrite Hv. intros x. unfold p'. destruct o; reflexivity.
  - apply InvO_frame; [exact HO|intros; apply occ_acc|rewrite Hv; reflexivity].
  - apply InvD_frame with (g := g); auto. apply disc_acc_other. apply nlo_ref.
Qed.
