(** * IterListDefs: what "no key is present twice" means on the IterableList model (statement only, see Properties_C13). *)
From Coq Require Import ZArith List Bool PeanoNat.
From LV Require Import Model.IterList.
Import ListNotations.
Local Open Scope Z_scope.

(** keys of the items found in the data cells when following [next] from the node after m_Head up to the tail
    (the node whose next points to itself); empty data cells are skipped, mark bits ignored *)
Fixpoint iter_walk (g : G) (fuel : nat) (n : nat) : list Z :=
  match fuel with
  | O => []
  | S f => if Nat.eqb n (nnext g n) then []
           else let (i, _) := ndata g n in
                (if Nat.eqb i 0 then [] else [ikey g i]) ++ iter_walk g f (nnext g n)
  end.
Definition iter_keys (g : G) : list Z := iter_walk g (S (nalloc g)) (nnext g HEAD).
