(** * DhpLiveA: C02, second sentence ("a pointer obtained through a guard stays dereferenceable ...") for DHP.
      Part A: what the summary [hist] says about indices of the trace, and the REDUCTION of the second sentence to
      [dhp_no_dispose_while_guarded_partial]: if a hazard cell of an attached record has held p continuously from
      its last store (index g0) to a disposer call for p, then the scan that made the call began before g0. *)
From Coq Require Import ZArith NArith List String Bool Lia PeanoNat.
From LV Require Import Base.Conc Base.Events Model.DhpLang Model.Dhp Proofs.DhpBase Proofs.DhpHist Proofs.DhpProofsC02.
Import ListNotations.
Local Open Scope string_scope.
Local Open Scope list_scope.

(** ** prefixes of a list *)
Lemma nth_firstn_lt {A} (l : list A) : forall n j, j < n -> nth_error (firstn n l) j = nth_error l j.
Proof. induction l as [|x l IH]; intros [|n] [|j] H; cbn; try lia; auto. apply IH. lia. Qed.
Lemma nth_firstn_some {A} (l : list A) n i x : nth_error (firstn n l) i = Some x -> i < n /\ nth_error l i = Some x.
Proof.
  intros H. assert (Hi : i < List.length (firstn n l)) by (apply nth_error_Some; congruence).
  rewrite firstn_length in Hi. assert (i < n) by lia. split; [assumption|]. now rewrite nth_firstn_lt in H.
Qed.
Lemma firstn_S_snoc {A} (l : list A) i x : nth_error l i = Some x -> firstn (S i) l = firstn i l ++ [x].
Proof.
  revert l. induction i as [|i IH]; intros [|y l] H; cbn in *; try discriminate.
  - inversion H; reflexivity.
  - f_equal. now apply IH.
Qed.
Lemma nth_error_split_at {A} (l : list A) i x : nth_error l i = Some x -> l = firstn i l ++ x :: skipn (S i) l.
Proof.
  revert l. induction i as [|i IH]; intros [|y l] H; cbn in *; try discriminate.
  - inversion H; reflexivity.
  - f_equal. now apply IH.
Qed.
Lemma nth_snoc_cases {A} (l : list A) (x : A) i y : nth_error (l ++ [x]) i = Some y ->
  (i < List.length l /\ nth_error l i = Some y) \/ (i = List.length l /\ y = x).
Proof.
  intros H. destruct (Nat.lt_ge_cases i (List.length l)) as [L|L].
  - left. rewrite nth_error_app1 in H by exact L. auto.
  - right. rewrite nth_error_app2 in H by exact L. destruct (i - List.length l) as [|m] eqn:E; cbn in H.
    + inversion H. split; [lia|reflexivity].
    + destruct m; discriminate.
Qed.

Lemma hist_firstn_S tr i te : nth_error tr i = Some te -> hist (firstn (S i) tr) = hstep (hist (firstn i tr)) te.
Proof. intros H. rewrite (firstn_S_snoc tr i te H). apply hist_snoc. Qed.
Lemma hlen_firstn tr i : i <= List.length tr -> hlen (hist (firstn i tr)) = i.
Proof. intros H. rewrite hlen_hist, firstn_length. lia. Qed.

(** ** one step of the summary, field by field *)
Lemma lastw_hstep h te s :
  lastw (hstep h te) s = match classify (snd te) with
                         | HSlot s' _ => if gref_eqb s s' then Some (hlen h) else lastw h s
                         | _ => lastw h s end.
Proof. unfold hstep, fupd. destruct (classify (snd te)) as [| | | |f b|f b|f b| | | |]; cbn; try reflexivity; destruct (existsb (Nat.eqb b) (freeh h f)); reflexivity. Qed.
Lemma slotv_hstep h te s :
  slotv (hstep h te) s = match classify (snd te) with
                         | HSlot s' v => if gref_eqb s s' then v else slotv h s
                         | _ => slotv h s end.
Proof. unfold hstep, fupd. destruct (classify (snd te)) as [| | | |f b|f b|f b| | | |]; cbn; try reflexivity; destruct (existsb (Nat.eqb b) (freeh h f)); reflexivity. Qed.
Lemma att_hstep h te r :
  att (hstep h te) r = match classify (snd te) with
                       | HAtt r' => if Nat.eqb r r' then Some (fst te, hlen h) else att h r
                       | HDet r' => if Nat.eqb r r' then None else att h r
                       | _ => att h r end.
Proof. unfold hstep, fupd. destruct (classify (snd te)) as [| | | |f b|f b|f b| | | |]; cbn; try reflexivity; destruct (existsb (Nat.eqb b) (freeh h f)); reflexivity. Qed.
Lemma linked_hstep h te r :
  linked (hstep h te) r = match classify (snd te) with
                          | HAtt r' | HDet r' => if Nat.eqb r r' then [] else linked h r
                          | HLink r' b => if Nat.eqb r r' then (b, hlen h) :: linked h r else linked h r
                          | _ => linked h r end.
Proof.
  unfold hstep, fupd. destruct (classify (snd te)) as [| | |r0 b0|f b|f b|f b| | | |]; cbn; try reflexivity.
  - destruct (Nat.eqb_spec r r0) as [->|]; reflexivity.
  - destruct (existsb (Nat.eqb b) (freeh h f)); reflexivity.
Qed.
Lemma scan_hstep h te t :
  scan (hstep h te) t = match classify (snd te) with
                        | HScanb _ => if Nat.eqb t (fst te) then Some (hlen h) else scan h t
                        | HScane _ => if Nat.eqb t (fst te) then None else scan h t
                        | _ => scan h t end.
Proof. unfold hstep, fupd. destruct (classify (snd te)) as [| | | |f b|f b|f b| | | |]; cbn; try reflexivity; destruct (existsb (Nat.eqb b) (freeh h f)); reflexivity. Qed.

(** ** where the summary got its values from *)
Definition is_slot_of (s : gref) (e : ev) : Prop := exists v, classify e = HSlot s v.

Lemma lastw_index tr s w : lastw (hist tr) s = Some w ->
  exists t e, nth_error tr w = Some (t, e) /\ classify e = HSlot s (slotv (hist tr) s) /\
    forall i te, w < i -> nth_error tr i = Some te -> ~ is_slot_of s (snd te).
Proof.
  induction tr as [|[u e] tr IH] using rev_ind; [discriminate|].
  rewrite hist_snoc, lastw_hstep, slotv_hstep. cbn [snd]. intros H.
  assert (K : forall v, classify e = HSlot s v -> exists t e0, nth_error (tr ++ [(u, e)]) (List.length tr) = Some (t, e0) /\
            classify e0 = HSlot s v /\ forall i te, List.length tr < i -> nth_error (tr ++ [(u, e)]) i = Some te -> ~ is_slot_of s (snd te)).
  { intros v Ev. exists u, e. split; [rewrite nth_error_app2 by lia; now rewrite Nat.sub_diag|]. split; [exact Ev|].
    intros i te Hi Hn. exfalso. assert (i < List.length (tr ++ [(u, e)])) by (apply nth_error_Some; congruence).
    rewrite app_length in H0. cbn in H0. lia. }
  assert (K2 : (forall v, classify e <> HSlot s v) -> lastw (hist tr) s = Some w ->
            exists t e0, nth_error (tr ++ [(u, e)]) w = Some (t, e0) /\ classify e0 = HSlot s (slotv (hist tr) s) /\
              forall i te, w < i -> nth_error (tr ++ [(u, e)]) i = Some te -> ~ is_slot_of s (snd te)).
  { intros Hne Hw. destruct (IH Hw) as (t & e0 & H1 & H2 & H3).
    assert (Hlt : w < List.length tr) by (apply nth_error_Some; congruence).
    exists t, e0. split; [rewrite nth_error_app1 by exact Hlt; exact H1|]. split; [exact H2|].
    intros i te Hi Hn. destruct (nth_snoc_cases _ _ _ _ Hn) as [(L & Hn')|(L & ->)]; [eapply H3; eauto|].
    cbn. intros (v & Ev). exact (Hne v Ev). }
  destruct (classify e) as [s' v| | | | | | | | | |] eqn:Ec; try (apply K2; [intros v0; discriminate|exact H]).
  destruct (gref_eqb s s') eqn:Es.
  - apply gref_eqb_eq in Es. subst s'. inversion H; subst w. rewrite hlen_hist. apply K. reflexivity.
  - apply K2; [|exact H]. intros v0 E0. inversion E0; subst. rewrite gref_eqb_refl in Es. discriminate.
Qed.

Lemma scan_index tr t s0 : scan (hist tr) t = Some s0 ->
  exists e r, nth_error tr s0 = Some (t, e) /\ classify e = HScanb r.
Proof.
  induction tr as [|[u e] tr IH] using rev_ind; [discriminate|].
  rewrite hist_snoc, scan_hstep. cbn [snd fst]. intros H.
  assert (K2 : scan (hist tr) t = Some s0 -> exists e0 r, nth_error (tr ++ [(u, e)]) s0 = Some (t, e0) /\ classify e0 = HScanb r).
  { intros Hw. destruct (IH Hw) as (e0 & r & H1 & H2).
    assert (Hlt : s0 < List.length tr) by (apply nth_error_Some; congruence).
    exists e0, r. split; [rewrite nth_error_app1 by exact Hlt; exact H1|exact H2]. }
  destruct (classify e) as [| | | | | | |r|r| |] eqn:Ec; try (apply K2; exact H).
  - destruct (Nat.eqb_spec t u) as [->|N]; [|apply K2; exact H].
    inversion H; subst s0. rewrite hlen_hist. exists e, r. split; [rewrite nth_error_app2 by lia; now rewrite Nat.sub_diag|exact Ec].
  - destruct (Nat.eqb_spec t u) as [->|N]; [discriminate|apply K2; exact H].
Qed.

(** ** from the raw trace to the summary: a cell that is not stored to keeps its value; a record stays attached
       (and keeps its extension blocks) as long as no "_att"/"_det" event names it *)
Definition is_attdet_of (r : nat) (e : ev) : Prop := classify e = HAtt r \/ classify e = HDet r.

Lemma slot_held tr s p g0 t e : nth_error tr g0 = Some (t, e) -> classify e = HSlot s p ->
  forall d, g0 < d <= List.length tr ->
    (forall i te, g0 < i < d -> nth_error tr i = Some te -> ~ is_slot_of s (snd te)) ->
    lastw (hist (firstn d tr)) s = Some g0 /\ slotv (hist (firstn d tr)) s = p.
Proof.
  intros Hg Hc d Hd. assert (Hg0 : g0 < List.length tr) by (apply nth_error_Some; congruence).
  replace d with (S g0 + (d - S g0)) by lia. assert (Hm : S g0 + (d - S g0) <= List.length tr) by lia.
  revert Hm. generalize (d - S g0) as m. clear d Hd. induction m as [|m IH]; intros Hm Hno.
  - rewrite Nat.add_0_r, (hist_firstn_S tr g0 _ Hg), lastw_hstep, slotv_hstep. cbn [snd]. rewrite Hc, gref_eqb_refl.
    rewrite hlen_firstn by lia. auto.
  - rewrite Nat.add_succ_r. destruct (nth_error tr (S g0 + m)) as [te|] eqn:En; [|apply nth_error_None in En; lia].
    rewrite (hist_firstn_S tr _ _ En), lastw_hstep, slotv_hstep.
    assert (Hn : ~ is_slot_of s (snd te)) by (apply (Hno (S g0 + m)); [lia|exact En]).
    destruct (IH ltac:(lia)) as (I1 & I2). { intros i te' Hi. apply Hno. lia. }
    destruct (classify (snd te)) as [s' v| | | | | | | | | |] eqn:Ec; auto.
    destruct (gref_eqb s s') eqn:Es; auto. apply gref_eqb_eq in Es. subst s'. exfalso. apply Hn. exists v. exact Ec.
Qed.

Lemma att_held tr r ka t e : nth_error tr ka = Some (t, e) -> classify e = HAtt r ->
  forall d, ka < d <= List.length tr ->
    (forall i te, ka < i < d -> nth_error tr i = Some te -> ~ is_attdet_of r (snd te)) ->
    att (hist (firstn d tr)) r = Some (t, ka).
Proof.
  intros Hg Hc d Hd. assert (Hg0 : ka < List.length tr) by (apply nth_error_Some; congruence).
  replace d with (S ka + (d - S ka)) by lia. assert (Hm : S ka + (d - S ka) <= List.length tr) by lia.
  revert Hm. generalize (d - S ka) as m. clear d Hd. induction m as [|m IH]; intros Hm Hno.
  - rewrite Nat.add_0_r, (hist_firstn_S tr ka _ Hg), att_hstep. cbn [snd fst]. rewrite Hc, Nat.eqb_refl.
    rewrite hlen_firstn by lia. auto.
  - rewrite Nat.add_succ_r. destruct (nth_error tr (S ka + m)) as [te|] eqn:En; [|apply nth_error_None in En; lia].
    rewrite (hist_firstn_S tr _ _ En), att_hstep.
    assert (Hn : ~ is_attdet_of r (snd te)) by (apply (Hno (S ka + m)); [lia|exact En]).
    assert (I1 : att (hist (firstn (S ka + m) tr)) r = Some (t, ka)). { apply IH; [lia|]. intros i te' Hi. apply Hno. lia. }
    unfold is_attdet_of in Hn.
    destruct (classify (snd te)) as [|r'|r'| | | | | | | |] eqn:Ec; auto;
      (destruct (Nat.eqb_spec r r') as [->|N]; [exfalso; apply Hn; auto|exact I1]).
Qed.

Lemma linked_held tr r b kl : forall n d, n <= d <= List.length tr ->
  In (b, kl) (linked (hist (firstn n tr)) r) ->
  (forall i te, n <= i < d -> nth_error tr i = Some te -> ~ is_attdet_of r (snd te)) ->
  In (b, kl) (linked (hist (firstn d tr)) r).
Proof.
  intros n d Hd Hin. replace d with (n + (d - n)) by lia. assert (Hm : n + (d - n) <= List.length tr) by lia.
  revert Hm. generalize (d - n) as m. clear d Hd. induction m as [|m IH]; intros Hm Hno.
  - now rewrite Nat.add_0_r.
  - rewrite Nat.add_succ_r. destruct (nth_error tr (n + m)) as [te|] eqn:En; [|apply nth_error_None in En; lia].
    rewrite (hist_firstn_S tr _ _ En), linked_hstep.
    assert (Hn : ~ is_attdet_of r (snd te)) by (apply (Hno (n + m)); [lia|exact En]).
    assert (I1 : In (b, kl) (linked (hist (firstn (n + m) tr)) r)). { apply IH; [lia|]. intros i te' Hi. apply Hno. lia. }
    unfold is_attdet_of in Hn.
    destruct (classify (snd te)) as [|r'|r'|r' b'| | | | | | |] eqn:Ec; auto;
      (destruct (Nat.eqb_spec r r') as [->|N]; [|exact I1]).
    + exfalso; apply Hn; auto.
    + exfalso; apply Hn; auto.
    + right. exact I1.
Qed.

Lemma link_now tr r b kl t e : nth_error tr kl = Some (t, e) -> classify e = HLink r b ->
  In (b, kl) (linked (hist (firstn (S kl) tr)) r).
Proof.
  intros Hn Hc. assert (kl < List.length tr) by (apply nth_error_Some; congruence).
  rewrite (hist_firstn_S tr _ _ Hn), linked_hstep. cbn [snd]. rewrite Hc, Nat.eqb_refl, hlen_firstn by lia. now left.
Qed.

(** ** the reduction *)
(** summary form: at a disposer call for [p] made inside a scan that began at [s0], a cell of an attached record
    (attached / linked at [k]) whose last store (at [g0] > [k]) put [p] there was stored to AFTER the scan began *)
Theorem dhp_guarded_ptr_live_reduction : forall fuel c ths conf,
  Conc.reach (init_cfg fuel c ths) conf ->
  flbad (hist (Conc.trace conf)) = false ->
  forall d u p, nth_error (Conc.trace conf) d = Some (u, ev_dispose p) -> p <> 0 ->
  forall s0, scan (hist (firstn d (Conc.trace conf))) u = Some s0 ->
  forall s g0 k, slotv (hist (firstn d (Conc.trace conf))) s = p ->
                 lastw (hist (firstn d (Conc.trace conf))) s = Some g0 ->
                 live c (hist (firstn d (Conc.trace conf))) s k -> k < g0 ->
  s0 < g0.
Proof.
  intros fuel c ths conf Hr Hfl d u p Hd Hp s0 Hs s g0 k Hv Hw Hl Hk.
  pose proof (dhp_no_dispose_while_guarded_partial fuel c ths conf Hr Hfl) as ND.
  set (tr := Conc.trace conf) in *.
  destruct (Nat.lt_trichotomy s0 g0) as [L|[E|L]]; [exact L| |]; exfalso.
  - subst g0. destruct (scan_index _ _ _ Hs) as (e1 & r1 & H1 & H2).
    destruct (lastw_index _ _ _ Hw) as (t2 & e2 & K1 & K2 & _). rewrite H1 in K1. inversion K1; subst. congruence.
  - apply (ND (firstn d tr) u p (skipn (S d) tr) (nth_error_split_at tr d _ Hd) Hp s0 Hs s).
    split; [exact Hv|]. split; [exists g0; split; [exact Hw|lia]|]. exists k. split; [exact Hl|lia].
Qed.

(** raw-trace form, cell of the initial array: record [r] attached by the "_att" event at [ka], the store of [p]
    into cell [GI r i] at [g0] > [ka], then up to the disposer call at [d] no store to that cell and no
    "_att"/"_det" event for [r] *)
Theorem dhp_guarded_ptr_live_reduction_GI : forall fuel c ths conf,
  Conc.reach (init_cfg fuel c ths) conf ->
  flbad (hist (Conc.trace conf)) = false ->
  forall d u p, nth_error (Conc.trace conf) d = Some (u, ev_dispose p) -> p <> 0 ->
  forall s0, scan (hist (firstn d (Conc.trace conf))) u = Some s0 ->
  forall r i ka g0 t t', i < eff_H c -> ka < g0 -> g0 < d ->
    nth_error (Conc.trace conf) ka = Some (t, ev_att r) ->
    nth_error (Conc.trace conf) g0 = Some (t', ev_slot (GI r i) p) ->
    (forall j te, ka < j < d -> nth_error (Conc.trace conf) j = Some te -> ~ is_attdet_of r (snd te)) ->
    (forall j te, g0 < j < d -> nth_error (Conc.trace conf) j = Some te -> ~ is_slot_of (GI r i) (snd te)) ->
  s0 < g0.
Proof.
  intros fuel c ths conf Hr Hfl d u p Hd Hp s0 Hs r i ka g0 t t' Hi Hka Hg0 Hatt Hst Hnoad Hnost.
  assert (Hdl : d < List.length (Conc.trace conf)) by (apply nth_error_Some; congruence).
  destruct (slot_held _ (GI r i) p g0 t' _ Hst (classify_slot _ _) d ltac:(lia) Hnost) as (W & V).
  eapply (dhp_guarded_ptr_live_reduction fuel c ths conf Hr Hfl d u p Hd Hp s0 Hs (GI r i) g0 ka V W); [|exact Hka].
  cbn. exists t. split; [|exact Hi]. apply (att_held _ r ka t _ Hatt (classify_att r) d); [lia|exact Hnoad].
Qed.

(** raw-trace form, cell of an extension block: block [b] linked into the guard list of [r] by the "_link" event
    at [kl], [ka] < [kl] < [g0] *)
Theorem dhp_guarded_ptr_live_reduction_GE : forall fuel c ths conf,
  Conc.reach (init_cfg fuel c ths) conf ->
  flbad (hist (Conc.trace conf)) = false ->
  forall d u p, nth_error (Conc.trace conf) d = Some (u, ev_dispose p) -> p <> 0 ->
  forall s0, scan (hist (firstn d (Conc.trace conf))) u = Some s0 ->
  forall r b i ka kl g0 t t' t'', i < c_GB c -> ka < kl -> kl < g0 -> g0 < d ->
    nth_error (Conc.trace conf) ka = Some (t, ev_att r) ->
    nth_error (Conc.trace conf) kl = Some (t'', ev_link r b) ->
    nth_error (Conc.trace conf) g0 = Some (t', ev_slot (GE b i) p) ->
    (forall j te, ka < j < d -> nth_error (Conc.trace conf) j = Some te -> ~ is_attdet_of r (snd te)) ->
    (forall j te, g0 < j < d -> nth_error (Conc.trace conf) j = Some te -> ~ is_slot_of (GE b i) (snd te)) ->
  s0 < g0.
Proof.
  intros fuel c ths conf Hr Hfl d u p Hd Hp s0 Hs r b i ka kl g0 t t' t'' Hi Hka Hkl Hg0 Hatt Hlk Hst Hnoad Hnost.
  assert (Hdl : d < List.length (Conc.trace conf)) by (apply nth_error_Some; congruence).
  destruct (slot_held _ (GE b i) p g0 t' _ Hst (classify_slot _ _) d ltac:(lia) Hnost) as (W & V).
  eapply (dhp_guarded_ptr_live_reduction fuel c ths conf Hr Hfl d u p Hd Hp s0 Hs (GE b i) g0 kl V W); [|exact Hkl].
  cbn. exists r, t, ka. split; [|split; [|exact Hi]].
  - apply (att_held _ r ka t _ Hatt (classify_att r) d); [lia|exact Hnoad].
  - apply (linked_held _ r b kl (S kl) d); [lia|eapply link_now; [exact Hlk|apply classify_link]|].
    intros j te Hj. apply Hnoad. lia.
Qed.
