(** * Every index MSPriorityQueue uses stays inside the buffer -- for the capacities with [slots_ok cap].

    The model makes an access m_Heap[i] with i >= m_Heap.capacity() visible as the event "ub_oob" (the C++ has
    only an assert, compiled out under NDEBUG).  Here: for every schedule no reachable trace contains it.  Only
    the item counter matters: it always equals [st n] for some n <= cap (inc() runs only when value() < capacity(),
    dec() only when value() <> 0 -- whoever holds which lock), so every slot handed out is [slot n] with
    1 <= n <= cap, which [slots_ok] bounds by cap < m_Heap.capacity().  The children indices of heapify_after_pop
    are tested against the capacity by the code itself.
    For cap = 5 (possible only with a buffer whose Exp2 parameter is false) the event IS reached:
    Properties_C11.C11_mspq_capacity5_out_of_bounds. *)
From Coq Require Import ZArith List String Bool Lia PeanoNat.
From LV Require Import Base.Conc Base.Events Model.MsPq Proofs.MsPqBrc Proofs.MsPqInv.
Import ListNotations.
Local Open Scope string_scope.
Local Open Scope list_scope.

Definition not_oob (e : ev) : bool := negb (is_cli "ub_oob" e).
Definition no_oob (tr : list (nat * ev)) : Prop := forall te, In te tr -> not_oob (snd te) = true.

Lemma no_oob_app tr t es : no_oob tr -> forallb not_oob es = true -> no_oob (tr ++ Conc.tag t es).
Proof.
  intros H He te Hin. apply in_app_or in Hin. destruct Hin as [Hin|Hin]; [apply H; exact Hin|].
  unfold Conc.tag in Hin. apply in_map_iff in Hin. destruct Hin as (e & <- & Hin). cbn [snd].
  rewrite forallb_forall in He. apply He. exact Hin.
Qed.

Section Bounds.
  Variable cap : nat.
  Hypothesis OK : slots_ok cap = true.
  Variable bsz : nat.
  Hypothesis Hbsz : cap < bsz.

  Definition Aux := unit.
  Definition view (a : Aux) (t : nat) : unit := tt.
  Definition BInv (g : G) (a : Aux) (tr : list (nat * ev)) : Prop := C_ok cap g /\ no_oob tr.
  Notation safe := (@Conc.safe G V ev Aux unit view BInv).

  Lemma frame_tt t (a a' : Aux) : Conc.frame view t a a'.
  Proof. intros u _. reflexivity. Qed.

  (** plain code that keeps the counter invariant, emits nothing forbidden and never reports an index outside
      the buffer *)
  Definition body_ok (bd : body) : Prop :=
    forall g, C_ok cap g ->
      C_ok cap (fst (fst (bd g))) /\ forallb not_oob (snd (bd g)) = true /\ verr (snd (fst (bd g))) <= 1.

  Lemma C_ok_lockbit g l b : C_ok cap g -> C_ok cap (set_lockbit g l b).
  Proof. apply C_ext. apply ctr_set_lockbit. Qed.

  Definition QT {R} : R -> unit -> Prop := fun _ _ => True.

  Lemma usafe_stop {R} t : safe t (@stop_err R 1) tt QT.
  Proof.
    unfold stop_err. cbn [Conc.safe]. intros g a tr [H1 H2] _. exists a.
    split; [split; [exact H1|apply no_oob_app; [exact H2|reflexivity]]|split; [apply frame_tt|exact I]].
  Qed.

  Lemma usafe_checked {R} t v (k : prog (option R)) : verr v <= 1 -> safe t k tt QT -> safe t (checked v k) tt QT.
  Proof.
    intros Hv H. unfold checked. destruct (verr v) as [|c] eqn:E; [exact H|].
    assert (c = 0) by lia. subst c. apply usafe_stop.
  Qed.

  Lemma usafe_lock {R} lf t l bd (k : V -> prog (option R)) :
    body_ok bd -> (forall v, safe t (k v) tt QT) -> safe t (lock_ lf l bd k) tt QT.
  Proof.
    intros Hb Hk. unfold lock_, obind. apply Conc.safe_bind.
    set (Qmid := fun (r : option V) (l' : unit) =>
           safe t (match r with Some x => checked x (k x) | None => Ret None end) l' (@QT (option R))).
    change (safe t (lock_outer lf l bd) tt Qmid).
    assert (Both : safe t (lock_outer lf l bd) tt Qmid /\ safe t (lock_inner lf l bd) tt Qmid).
    { induction lf as [|f [IHo IHi]]; [split; exact I|]. split.
      - cbn [lock_outer Conc.safe]. intros g a tr [H1 H2] _. unfold a_lock. destruct (lockbit g l).
        + exists a. cbn [fst snd]. split; [split; [exact H1|apply no_oob_app; [exact H2|reflexivity]]|]. split; [apply frame_tt|]. exact IHi.
        + destruct (Hb (set_lockbit g l true) (C_ok_lockbit g l true H1)) as (K1 & K2 & K3).
          destruct (bd (set_lockbit g l true)) as [[g' v] es]. cbn [fst snd] in *.
          exists a. split; [split; [exact K1|apply no_oob_app; [exact H2|cbn [forallb]; rewrite K2; reflexivity]]|].
          split; [apply frame_tt|]. cbn [vbusy unbusy Conc.safe]. apply usafe_checked; [exact K3|apply Hk].
      - cbn [lock_inner Conc.safe]. intros g a tr [H1 H2] _. unfold a_load. cbn [fst snd]. exists a.
        split; [split; [exact H1|apply no_oob_app; [exact H2|reflexivity]]|]. split; [apply frame_tt|].
        destruct (lockbit g l); cbn [vbusy vbusyV v0]; assumption. }
    apply Both.
  Qed.

  Lemma usafe_unlock {R} t l bd (k : V -> prog (option R)) :
    body_ok bd -> (forall v, safe t (k v) tt QT) -> safe t (unlock_ l bd k) tt QT.
  Proof.
    intros Hb Hk. unfold unlock_, unlock. cbn [Conc.bind Conc.safe]. intros g a tr [H1 H2] _.
    destruct (Hb g H1) as (K1 & K2 & K3). unfold a_unlock. destruct (bd g) as [[g' v] es]. cbn [fst snd] in *.
    exists a. split; [split; [apply C_ok_lockbit; exact K1|apply no_oob_app; [exact H2|cbn [forallb]; rewrite K2; reflexivity]]|].
    split; [apply frame_tt|]. apply usafe_checked; [exact K3|apply Hk].
  Qed.

  Lemma usafe_emit {R} t n args (k : prog R) Q :
    String.eqb "ub_oob" n = false -> safe t k tt Q -> safe t (Emit [EvCli n args] k) tt Q.
  Proof.
    intros Hn H. cbn [Conc.safe]. intros g a tr [H1 H2] _. exists a.
    split; [split; [exact H1|apply no_oob_app; [exact H2|]]|split; [apply frame_tt|exact H]].
    cbn. unfold not_oob, is_cli. rewrite String.eqb_sym, Hn. reflexivity.
  Qed.

  (** *** the bodies *)
  Lemma ok_set_cell g i tg v : C_ok cap g -> C_ok cap (set_cell g i tg v).
  Proof. apply C_ext. reflexivity. Qed.

  Ltac okfin Hg :=
    cbn [fst snd verr forallb body_none v0]; repeat split; try reflexivity; try lia; try exact Hg; try apply Hg;
    try (repeat apply ok_set_cell; exact Hg).

  Lemma ok_none : body_ok body_none.
  Proof. intros g Hg. okfin Hg. Qed.

  Lemma ok_cmp_swap p c : body_ok (cmp_swap p c).
  Proof.
    intros g Hg. unfold cmp_swap. destruct (nval (heap g c)); [|okfin Hg]. destruct (nval (heap g p)); [|okfin Hg].
    destruct (Z.gtb _ _); okfin Hg.
  Qed.
  Lemma ok_sift_up t i p : body_ok (body_sift_up t i p).
  Proof.
    intros g Hg. unfold body_sift_up. destruct (_ && _).
    - destruct (nval (heap g i)); [|okfin Hg]. destruct (nval (heap g p)); [|okfin Hg].
      destruct (Z.gtb _ _); okfin Hg.
    - destruct (tag_eqb _ _); [okfin Hg|]. destruct (negb _); okfin Hg.
  Qed.
  Lemma ok_push_top t : body_ok (body_push_top t).
  Proof. intros g Hg. unfold body_push_top. destruct (tag_eqb _ _); okfin Hg. Qed.
  Lemma ok_child p c : body_ok (body_child bsz p c).
  Proof.
    intros g Hg. unfold body_child. destruct (tag_eqb _ _); [okfin Hg|]. destruct (Nat.ltb _ _); [okfin Hg|].
    destruct (ok_cmp_swap p c g Hg) as (K1 & K2 & K3). destruct (cmp_swap p c g) as [[g' v] es]. cbn [fst snd verr] in *. auto.
  Qed.
  Lemma ok_right c : body_ok (body_right c).
  Proof.
    intros g Hg. unfold body_right. destruct (negb _); [|okfin Hg]. destruct (nval (heap g (S c))); [|okfin Hg].
    destruct (nval (heap g c)); okfin Hg.
  Qed.
  Lemma ok_store t i x : body_ok (body_push_store t i x).
  Proof. intros g Hg. unfold body_push_store. okfin Hg. Qed.
  Lemma ok_take i : body_ok (body_take i).
  Proof. intros g Hg. unfold body_take. okfin Hg. Qed.
  Lemma ok_pop_top pv : body_ok (body_pop_top pv).
  Proof. intros g Hg. unfold body_pop_top. destruct (tag_eqb _ _); okfin Hg. Qed.

  Lemma count_st' n : Z.to_nat (bc (st n)) = n.
  Proof. rewrite bc_st. apply Nat2Z.id. Qed.

  (** P1: inc() only below the capacity; the slot is inside the buffer *)
  Lemma ok_push_size : body_ok (body_push_size cap bsz).
  Proof.
    intros g [C1 C2]. unfold body_push_size. set (n := count g) in *.
    destruct (Z.leb (Z.of_nat cap) (bc (ctr g))) eqn:E; [cbn [fst snd verr forallb]; repeat split; try assumption; try reflexivity; lia|].
    apply Z.leb_gt in E. assert (Hlt : n < cap) by (rewrite C1, bc_st in E; lia).
    destruct (brc_inc (ctr g)) as [s c'] eqn:Einc. cbn [fst snd forallb verr].
    assert (Ec : c' = st (S n)) by (cbn [st]; rewrite <- C1, Einc; reflexivity).
    assert (Es : Z.to_nat s = slot (S n)) by (rewrite slot_S, <- C1, Einc; reflexivity).
    split; [|split; [reflexivity|]].
    - unfold C_ok, count. cbn [ctr set_ctr]. rewrite Ec, count_st'. split; [reflexivity|lia].
    - rewrite Es. pose proof (slot_range cap OK (S n) ltac:(lia)).
      assert (Hin : Nat.ltb (slot (S n)) bsz = true) by (apply Nat.ltb_lt; lia). rewrite Hin. lia.
  Qed.

  (** Q1: dec() only above zero; the bottom slot is inside the buffer *)
  Lemma ok_pop_size : body_ok (body_pop_size bsz).
  Proof.
    intros g [C1 C2]. unfold body_pop_size. set (n := count g) in *.
    destruct (Z.eqb (bc (ctr g)) 0) eqn:E; [cbn [fst snd verr forallb]; repeat split; try assumption; try reflexivity; lia|].
    apply Z.eqb_neq in E. assert (Hge : 1 <= n) by (rewrite C1, bc_st in E; lia).
    destruct (brc_dec (ctr g)) as [s c'] eqn:Edec. cbn [fst snd forallb verr].
    assert (Hn : n = S (pred n)) by lia.
    assert (Ec : c' = st (pred n)) by (pose proof (dec_st cap OK n ltac:(lia)) as K; rewrite <- C1, Edec in K; exact K).
    assert (Es : Z.to_nat s = slot n) by (rewrite Hn, <- (slot_dec (pred n)), <- Hn, <- C1, Edec; reflexivity).
    split; [|split; [reflexivity|]].
    - unfold C_ok, count. cbn [ctr set_ctr]. rewrite Ec, count_st'. split; [reflexivity|lia].
    - rewrite Es. pose proof (slot_range cap OK n ltac:(lia)).
      assert (Hin : Nat.ltb (slot n) bsz = true) by (apply Nat.ltb_lt; lia). rewrite Hin. lia.
  Qed.

  (** *** the programs *)
  Lemma usafe_heapify_push lf t u : forall hf i, safe t (heapify_push hf lf u i) tt QT.
  Proof.
    induction hf as [|hf IH]; intros i; [exact I|]. cbn [heapify_push]. destruct (Nat.ltb 1 i).
    - apply usafe_lock; [apply ok_none|]. intros _. apply usafe_lock; [apply ok_sift_up|]. intros v.
      apply usafe_unlock; [apply ok_none|]. intros _. apply usafe_unlock; [apply ok_none|]. intros _. apply IH.
    - destruct (Nat.eqb i 1); [|exact I]. apply usafe_lock; [apply ok_push_top|]. intros _.
      apply usafe_unlock; [apply ok_none|]. intros _. exact I.
  Qed.

  Lemma usafe_heapify_pop lf t : forall hf p c, safe t (heapify_pop hf lf bsz p c) tt QT.
  Proof.
    induction hf as [|hf IH]; intros p c; [exact I|]. cbn [heapify_pop]. destruct (Nat.ltb c bsz).
    - apply usafe_lock; [apply ok_child|]. intros v. destruct (vn v) as [|[|[|n]]].
      + apply usafe_unlock; [apply ok_none|]. intros _. apply usafe_unlock; [apply ok_none|]. intros _. exact I.
      + apply usafe_lock; [apply ok_right|]. intros w. apply usafe_unlock; [apply ok_cmp_swap|]. intros u. destruct (vb u).
        * apply usafe_unlock; [apply ok_none|]. intros _. apply IH.
        * apply usafe_unlock; [apply ok_none|]. intros _. apply usafe_unlock; [apply ok_none|]. intros _. exact I.
      + apply usafe_unlock; [apply ok_none|]. intros _. apply IH.
      + apply usafe_unlock; [apply ok_none|]. intros _. apply usafe_unlock; [apply ok_none|]. intros _. exact I.
    - apply usafe_unlock; [apply ok_none|]. intros _. exact I.
  Qed.

  Lemma usafe_push hf lf t u x : safe t (push cap bsz hf lf u x) tt QT.
  Proof.
    unfold push. apply usafe_lock; [apply ok_push_size|]. intros v. destruct (vb v).
    - apply usafe_unlock; [apply ok_none|]. intros _. exact I.
    - apply usafe_lock; [apply ok_none|]. intros _. apply usafe_unlock; [apply ok_store|]. intros _.
      apply usafe_unlock; [apply ok_none|]. intros _. unfold obind. apply Conc.safe_bind.
      eapply Conc.safe_weaken; [|apply usafe_heapify_push]. intros [[]|] [] _; exact I.
  Qed.

  Lemma usafe_pop hf lf t : safe t (pop bsz hf lf) tt QT.
  Proof.
    unfold pop. apply usafe_lock; [apply ok_pop_size|]. intros v. destruct (vb v).
    - apply usafe_unlock; [apply ok_none|]. intros _. exact I.
    - destruct (Nat.eqb (vn v) 1).
      + apply usafe_lock; [apply ok_take|]. intros w. apply usafe_unlock; [apply ok_none|]. intros _.
        apply usafe_unlock; [apply ok_none|]. intros _. exact I.
      + apply usafe_lock; [apply ok_none|]. intros _. apply usafe_lock; [apply ok_none|]. intros _.
        apply usafe_unlock; [apply ok_take|]. intros w. apply usafe_unlock; [apply ok_pop_top|]. intros u. destruct (vb u).
        * apply usafe_unlock; [apply ok_none|]. intros _. exact I.
        * unfold obind. apply Conc.safe_bind. eapply Conc.safe_weaken; [|apply usafe_heapify_pop]. intros [[]|] [] _; exact I.
  Qed.

  Lemma usafe_run_op hf lf t u o : safe t (run_op cap bsz hf lf u o) tt QT.
  Proof.
    destruct o as [x|]; cbn [run_op]; (apply usafe_emit; [reflexivity|]); apply Conc.safe_bind.
    - eapply Conc.safe_weaken; [|apply usafe_push]. intros [b|] [] _; (apply usafe_emit; [reflexivity|exact I]).
    - eapply Conc.safe_weaken; [|apply usafe_pop]. intros [[x|]|] [] _; (apply usafe_emit; [reflexivity|exact I]).
  Qed.

  Lemma usafe_run_ops hf lf t u os : safe t (run_ops cap bsz hf lf u os) tt (@Conc.QTrue unit).
  Proof.
    induction os as [|o r IH]; cbn [run_ops]; [exact I|]. apply Conc.safe_bind.
    eapply Conc.safe_weaken; [|apply usafe_run_op]. intros [|] [] _; [exact IH|exact I].
  Qed.

  Lemma usafe_threads hf lf ths : forall k t p,
    nth_error (thread_progs cap bsz hf lf k ths) t = Some p -> safe t p tt (@Conc.QTrue unit).
  Proof.
    induction ths as [|os r IH]; intros k t p H; [destruct t; discriminate|]. destruct t as [|t]; cbn in H.
    - inversion H as [E0]. unfold thread_prog. cbn [Conc.safe]. intros g a tr [I1 I2] _. cbn [a_begin fst snd]. exists a.
      split; [split; [exact I1|apply no_oob_app; [exact I2|reflexivity]]|]. split; [apply frame_tt|]. apply usafe_run_ops.
    - (* [safe] of the proof rule is indexed by the position in the thread list; the programs do not depend on it *)
      assert (G : forall t' q, safe t q tt (@Conc.QTrue unit) -> safe t' q tt (@Conc.QTrue unit)).
      { intros t' q. revert t'. induction q as [x|es q IHq|f q IHq]; intros t' Hq; cbn [Conc.safe] in *; [exact I| |].
        - intros g a tr Hi Hv. destruct (Hq g a tr Hi eq_refl) as (a' & K1 & K2 & K3). exists a'. destruct a'.
          split; [destruct Hi as [I1 I2], K1 as [J1 J2]; split; [exact J1|]|split; [apply frame_tt|apply IHq; exact K3]].
          intros te Hin. apply in_app_or in Hin. destruct Hin as [Hin|Hin]; [apply I2; exact Hin|].
          unfold Conc.tag in Hin. apply in_map_iff in Hin. destruct Hin as (e & <- & Hin). cbn [snd].
          apply (J2 (t, e)). apply in_or_app. right. unfold Conc.tag. apply in_map. exact Hin.
        - intros g a tr Hi Hv. destruct (Hq g a tr Hi eq_refl) as (a' & K1 & K2 & K3). exists a'. destruct a'.
          split; [destruct Hi as [I1 I2], K1 as [J1 J2]; split; [exact J1|]|split; [apply frame_tt|apply IHq; exact K3]].
          intros te Hin. apply in_app_or in Hin. destruct Hin as [Hin|Hin]; [apply I2; exact Hin|].
          unfold Conc.tag in Hin. apply in_map_iff in Hin. destruct Hin as (e & <- & Hin). cbn [snd].
          apply (J2 (t, e)). apply in_or_app. right. unfold Conc.tag. apply in_map. exact Hin. }
      apply (G (S t)). apply (IH (S k) t p H).
  Qed.

  Lemma init_ok hf lf ths : Conc.cfg_ok view BInv (init_cfg cap bsz hf lf ths).
  Proof.
    exists tt. split.
    - split; [split; [reflexivity|cbn; lia]|intros te []].
    - intros t p Hp. apply (usafe_threads hf lf ths 0 t p Hp).
  Qed.

  Theorem mspq_no_out_of_bounds hf lf ths c :
    Conc.reach (init_cfg cap bsz hf lf ths) c -> no_oob (Conc.trace c).
  Proof. intros Hr. destruct (Conc.reach_Inv (init_ok hf lf ths) Hr) as (a & _ & H). exact H. Qed.
End Bounds.

Corollary mspq_no_oob_event cap :
  slots_ok cap = true -> forall bsz, cap < bsz ->
  forall hf lf ths c, Conc.reach (init_cfg cap bsz hf lf ths) c ->
  forall te, In te (Conc.trace c) -> is_cli "ub_oob" (snd te) = false.
Proof.
  intros OK bsz Hbsz hf lf ths c Hr te Hin. pose proof (mspq_no_out_of_bounds cap OK bsz Hbsz hf lf ths c Hr te Hin) as H.
  unfold not_oob in H. destruct (is_cli "ub_oob" (snd te)); [discriminate|reflexivity].
Qed.
