(** * C01, hypothesis of [hp_no_overflow]: how many thread records can thread_list_ hold?

    [hp_no_overflow] assumes that thread_list_ holds at most P = max_thread_count_ records.  One would like to derive
    that from "at most P threads use the SMR at any instant", because basic_smr::alloc_thread_data first tries to
    re-use a record whose owner_rec_ is null and creates a record only when every compare_exchange failed.

    That derivation is FALSE for the model, and for the same reason for /repo/src/hp.cpp: a thread that detaches
    runs help_scan, and help_scan takes ownership of an orphaned record (owner_rec_ == nullptr, free_ == false) with
    the very same compare_exchange on owner_rec_ while it moves that record's retired pointers.  During that window
    the detaching thread owns TWO records; a thread that attaches in the window sees every record owned and creates
    a new one.  The window needs no third thread: with two threads in total (so never more than two threads between
    the call of attach and the return of detach) thread_list_ reaches three records, for P = 2.

    Schedule ([records_exceed_P_run], HP(H=1, P=2, R=8, classic)):
      thread 0: attach (creates record 0);   thread 1: attach (record 0 owned: creates record 1);
      thread 1: detach completely (its help_scan skips record 0, owned; leaves record 1 with owner null, free_ false);
      thread 0: detach up to and including the compare_exchange of help_scan that claims record 1;
      thread 1: attach: compare_exchange on record 1 fails (claimed by thread 0's help_scan), on record 0 fails
                (thread 0 still attached): creates record 2 and pushes it.
    Consequence for the library: max_thread_count_ only sizes the retired arrays (calc_retired_size) and a
    reserve() in classic_scan; the records in excess carry no hazard pointers while they are only claimed by
    help_scan (their slots are null), so this is a looseness of the documented bound "nMaxThreadCount = max count of
    simultaneous working thread in your application", not by itself a memory-safety defect.  It does mean that
    [C01_no_overflow]'s hypothesis on the LIST cannot be replaced by a hypothesis on the number of threads. *)
From Coq Require Import ZArith List String Bool Lia PeanoNat.
From LV Require Import Base.Conc Base.Events Model.Hp Proofs.HpTrace.
Import ListNotations.
Local Open Scope string_scope.
Local Open Scope list_scope.

(** ** "thread t uses the SMR": from the call of attach to the return of detach, read off the trace *)
Definition span_upd (e : ev) (acc : bool) : bool :=
  match e with
  | EvCli n [] => if String.eqb n "attach" then true else if String.eqb n "detached" then false else acc
  | _ => acc
  end.
Definition in_span (tr : trace) (t : nat) : bool :=
  fold_left (fun acc te => if Nat.eqb (fst te) t then span_upd (snd te) acc else acc) tr false.
(** number of threads (of [n]) that are between "attach" and "detached" after the trace [tr] *)
Definition live_threads (tr : trace) (n : nat) : nat := List.length (filter (in_span tr) (seq 0 n)).

Lemma live_threads_le tr n : live_threads tr n <= n.
Proof.
  unfold live_threads. generalize (seq_length n 0). generalize (seq 0 n). intros l <-.
  induction l as [|x l IH]; cbn; [lia|]. destruct (in_span tr x); cbn; lia.
Qed.

(** ** the statement one would like to have, and its refutation *)
Definition records_le_P_statement : Prop :=
  forall (c : cfgT) (ths : list (list op)) cf,
    Conc.reach (Hp.init_cfg c ths) cf ->
    (forall n, live_threads (firstn n (Conc.trace cf)) (List.length ths) <= cP c) ->
    List.length (g_list (Conc.shared cf)) <= cP c.

Definition rx_cfg : cfgT := norm_cfg [1; 2; 8; 0; 1; 50]%Z.
Definition rx_ths : list (list op) := map decode_ops [[[1]; [2]]; [[1]; [2]; [1]]]%Z.
Definition rx_sched : list nat := repeat 0 5 ++ repeat 1 19 ++ repeat 0 13 ++ repeat 1 6.
Definition records_exceed_P_run : Conc.config G V ev := fst (Conc.run 43 0 rx_sched (Hp.init_cfg rx_cfg rx_ths)).

Lemma rx_facts :
  cP rx_cfg = 2 /\ List.length rx_ths = 2 /\
  g_list (Conc.shared records_exceed_P_run) = [2; 1; 0] /\
  map r_owner (g_recs (Conc.shared records_exceed_P_run)) = [true; true; true].
Proof. vm_compute. repeat split; reflexivity. Qed.

Theorem hp_records_le_P_refuted : ~ records_le_P_statement.
Proof.
  intros H. destruct rx_facts as (HP & Hn & Hl & _).
  specialize (H rx_cfg rx_ths records_exceed_P_run (Conc.run_reach _ _ _ _)).
  rewrite HP, Hn, Hl in H. cbn [List.length] in H.
  assert (3 <= 2); [apply H; intros n; apply live_threads_le|lia].
Qed.

(** the same witness in the form "exists": two threads in total, P = 2, three records in thread_list_, all three
    owned at that instant (record 0: thread 0 attached; record 1: thread 0's help_scan; record 2: thread 1) *)
Theorem hp_records_exceed_P :
  exists (c : cfgT) (ths : list (list op)) cf,
    Conc.reach (Hp.init_cfg c ths) cf /\ List.length ths <= cP c /\
    (forall n, live_threads (firstn n (Conc.trace cf)) (List.length ths) <= cP c) /\
    cP c < List.length (g_list (Conc.shared cf)).
Proof.
  exists rx_cfg, rx_ths, records_exceed_P_run. destruct rx_facts as (HP & Hn & Hl & _).
  split; [apply Conc.run_reach|]. rewrite HP, Hn, Hl. cbn [List.length].
  split; [lia|]. split; [|lia]. intros n. apply live_threads_le.
Qed.

(** the client events of the witness, for the reader (ghost events included) *)
Definition cli_only (tr : trace) : trace := filter (fun te => match snd te with EvCli _ _ => true | _ => false end) tr.
Example rx_trace :
  cli_only (Conc.trace records_exceed_P_run) =
  [(0, EvCli "attach" []); (0, EvCli "g_att" [0%Z]); (0, EvCli "attached" []); (0, EvCli "detach" []);
   (1, EvCli "attach" []); (1, EvCli "g_att" [1%Z]); (1, EvCli "attached" []); (1, EvCli "detach" []);
   (1, EvCli "g_slot" [1; 0; 0]%Z); (1, EvCli "g_scan_begin" [1%Z]); (1, EvCli "g_scan_end" [1%Z]);
   (1, EvCli "g_det" [1%Z]); (1, EvCli "detached" []); (1, EvCli "attach" []);
   (0, EvCli "g_slot" [0; 0; 0]%Z); (0, EvCli "g_scan_begin" [0%Z]); (0, EvCli "g_scan_end" [0%Z]);
   (1, EvCli "g_att" [2%Z]); (1, EvCli "attached" [])].
Proof. vm_compute. reflexivity. Qed.
