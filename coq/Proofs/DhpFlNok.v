(** * DhpFlNok: a syntactic fact about every program of LV.Model.Dhp: the event list of one program node (one
      atomic access with its ghost events, or one emit) either contains no allocator event ("_alloc", "_new",
      "_free" of either block allocator) or is a single event.  This is what lets the free-list hypothesis of the
      DHP theorems be discharged node by node (LV.Proofs.DhpFlKnot). *)
From Coq Require Import ZArith NArith List String Bool Lia PeanoNat.
From LV Require Import Base.Conc Base.Events Model.DhpLang Model.Dhp Proofs.DhpBase Proofs.DhpHist Proofs.DhpStepsB9 Proofs.DhpProgB4 Proofs.DhpCert.
Import ListNotations.

Definition afn (e : ev) : bool := match classify e with HAlloc _ _ | HNew _ _ | HFree _ _ => true | _ => false end.
Definition noafn (es : list ev) : Prop := forall e, In e es -> afn e = false.
Definition node_es (es : list ev) : Prop := noafn es \/ exists e, es = [e].

Fixpoint nok {R} (p : @dprog Dhp.G ev R) : Prop :=
  match p with
  | DRet _ => True
  | DEmit es k => node_es es /\ nok k
  | DLoc fn k => forall x, nok (k x)
  | DAct fn k => (forall g, node_es (snd (fn g))) /\ forall x, nok (k x)
  end.

Lemma noafn_nil : noafn []. Proof. intros e []. Qed.
Lemma noafn_cons e es : afn e = false -> noafn es -> noafn (e :: es).
Proof. intros H1 H2 x [<-|Hx]; auto. Qed.
Lemma noafn_app es es' : noafn es -> noafn es' -> noafn (es ++ es').
Proof. intros H1 H2 x Hx. apply in_app_or in Hx. destruct Hx; auto. Qed.
Lemma noafn_acc k o ok : noafn (acc k o ok).
Proof. intros e [<-|[]]. reflexivity. Qed.
Lemma node_single e : node_es [e]. Proof. right. eexists. reflexivity. Qed.

Lemma nok_dbind {A B} (p : @dprog Dhp.G ev A) (q : A -> @dprog Dhp.G ev B) : nok p -> (forall x, nok (q x)) -> nok (dbind p q).
Proof.
  induction p as [r|es k IH|X fn k IH|X fn k IH]; intros Hp Hq; cbn [dbind nok] in *; auto.
  - destruct Hp; split; auto.
  - destruct Hp; split; auto.
Qed.
Lemma nok_xbind {A B} (p : P A) (q : A -> P B) : nok p -> (forall x, nok (q x)) -> nok (xbind p q).
Proof. intros Hp Hq. unfold xbind. apply nok_dbind; auto. intros [x|]; [apply Hq|exact I]. Qed.
Lemma nok_ret {X} (x : X) : nok (ret x). Proof. exact I. Qed.
Lemma nok_fuel_out {X} : nok (@fuel_out X). Proof. cbn. split; [apply node_single|exact I]. Qed.
Definition NAc {X} (a : Dhp.A X) : Prop := forall g, node_es (snd (a g)).
Lemma nok_act {X} (a : Dhp.A X) : NAc a -> nok (act a). Proof. intros H. unfold act. cbn [nok]. split; auto. Qed.
Lemma nok_loc {X} (fn : Dhp.G -> Dhp.G * X) : nok (loc fn). Proof. unfold loc. cbn [nok]. auto. Qed.
Lemma nok_emit es : node_es es -> nok (emit es). Proof. intros H. unfold emit. cbn [nok]. auto. Qed.

(** ** the accesses *)
Ltac na := intros g; left; cbn; apply noafn_acc.
Lemma na_begin : NAc a_begin. Proof. intros g. apply node_single. Qed.
Lemma na_ld_tlist : NAc a_ld_tlist. Proof. na. Qed.
Lemma na_st_tlist v : NAc (a_st_tlist v). Proof. na. Qed.
Lemma na_cas_tlist e n : NAc (a_cas_tlist e n). Proof. intros g. left. unfold a_cas_tlist. destruct (oeqb _ _); cbn [snd]; apply noafn_acc. Qed.
Lemma na_ld_tid r : NAc (a_ld_tid r). Proof. na. Qed.
Lemma na_st_tid r v : NAc (a_st_tid r v). Proof. na. Qed.
Lemma na_cas_tid r e n : NAc (a_cas_tid r e n). Proof. intros g. left. unfold a_cas_tid. destruct (Nat.eqb _ _); cbn [snd]; apply noafn_acc. Qed.
Lemma na_ld_free r : NAc (a_ld_free r). Proof. na. Qed.
Lemma na_st_free r v : NAc (a_st_free r v). Proof. na. Qed.
Lemma na_faa_sync r : NAc (a_faa_sync r). Proof. na. Qed.
Lemma na_ld_ext r : NAc (a_ld_ext r). Proof. na. Qed.
Lemma na_st_ext r v : NAc (a_st_ext r v). Proof. na. Qed.
Lemma na_st_ext_link r v r' b : NAc (a_st_ext_g r v [ev_link r' b]).
Proof.
  intros g. left. cbn [a_st_ext_g snd]. apply noafn_app; [apply noafn_acc|]. apply noafn_cons; [|apply noafn_nil].
  unfold afn. rewrite classify_link. reflexivity.
Qed.
Lemma na_ld_slot s : NAc (a_ld_slot s). Proof. na. Qed.
Lemma na_st_slot s v : NAc (a_st_slot s v).
Proof.
  intros g. left. unfold a_st_slot. cbn [snd]. apply noafn_app; [apply noafn_acc|]. destruct (slot_valid g s); [|apply noafn_nil].
  apply noafn_cons; [|apply noafn_nil]. unfold afn. rewrite classify_slot. reflexivity.
Qed.
Lemma na_ld_src k : NAc (a_ld_src k). Proof. na. Qed.
Lemma na_st_src k v : NAc (a_st_src k v). Proof. na. Qed.
Lemma na_ld_head f : NAc (a_ld_head f). Proof. na. Qed.
Lemma na_cas_head f e n : NAc (a_cas_head f e n). Proof. intros g. left. unfold a_cas_head. destruct (oeqb _ _); cbn [snd]; apply noafn_acc. Qed.
Lemma na_ld_refs f n : NAc (a_ld_refs f n). Proof. na. Qed.
Lemma na_st_refs f n v : NAc (a_st_refs f n v). Proof. intros g. left. cbn [a_st_refs snd]. apply noafn_acc. Qed.
Lemma na_cas_refs f n e v : NAc (a_cas_refs f n e v). Proof. intros g. left. unfold a_cas_refs. destruct (N.eqb _ _); cbn [snd]; apply noafn_acc. Qed.
Lemma na_faa_refs f n d : NAc (a_faa_refs f n d). Proof. intros g. left. cbn [a_faa_refs snd]. apply noafn_acc. Qed.
Lemma na_fas_refs f n d : NAc (a_fas_refs f n d). Proof. intros g. left. cbn [a_fas_refs snd]. apply noafn_acc. Qed.
Lemma na_ld_flnext f n : NAc (a_ld_flnext f n). Proof. na. Qed.
Lemma na_st_flnext f n v : NAc (a_st_flnext f n v). Proof. intros g. left. cbn [a_st_flnext snd]. apply noafn_acc. Qed.

Lemma noafn_dispose l : noafn (map ev_dispose l).
Proof. induction l as [|p l IH]; [apply noafn_nil|]. cbn [map]. apply noafn_cons; [|exact IH]. unfold afn. rewrite classify_dispose. reflexivity. Qed.
Lemma node_dispose l : node_es (map ev_dispose l). Proof. left. apply noafn_dispose. Qed.
Lemma node_det r : node_es [ev_relall; ev_det r].
Proof. left. apply noafn_cons; [reflexivity|]. apply noafn_cons; [|apply noafn_nil]. unfold afn. rewrite classify_det. reflexivity. Qed.
Lemma node_nil : node_es []. Proof. left. apply noafn_nil. Qed.

#[export] Hint Resolve na_begin na_ld_tlist na_st_tlist na_cas_tlist na_ld_tid na_st_tid na_cas_tid na_ld_free na_st_free na_faa_sync
  na_ld_ext na_st_ext na_st_ext_link na_ld_slot na_st_slot na_ld_src na_st_src na_ld_head na_cas_head na_ld_refs na_st_refs na_cas_refs
  na_faa_refs na_fas_refs na_ld_flnext na_st_flnext node_single node_dispose node_det node_nil : ndb.

Ltac nk_known := fail.
Ltac nk :=
  repeat first
    [ nk_known
    | match goal with
      | |- nok (ret _) => exact I
      | |- nok fuel_out => apply nok_fuel_out
      | |- nok (xbind _ _) => apply nok_xbind; [|intros]
      | |- nok (act _) => apply nok_act; solve [auto with ndb]
      | |- nok (emit _) => apply nok_emit; solve [auto with ndb]
      | |- nok (loc _) => apply nok_loc
      | |- nok (if ?b then _ else _) => destruct b
      | |- nok (match ?o with Some _ => _ | None => _ end) => destruct o
      end ].

Lemma nk_add_knowing sp f : forall n head, nok (add_knowing sp f n head).
Proof. induction sp as [|sp IH]; intros n head; cbn [add_knowing]; nk. apply IH. Qed.
Lemma nk_fl_add sp f n : nok (fl_add sp f n).
Proof. unfold fl_add. nk. apply nk_add_knowing. Qed.
Lemma nk_fl_put sp f n : nok (fl_put sp f n).
Proof. unfold fl_put. nk. apply nk_fl_add. Qed.
Lemma nk_fl_get_loop sp f : forall head, nok (fl_get_loop sp f head).
Proof. induction sp as [|sp IH]; intros head; destruct head as [h|]; cbn [fl_get_loop]; nk; try apply IH; try apply nk_fl_add. Qed.
Lemma nk_fl_get sp f : nok (fl_get sp f).
Proof. unfold fl_get. nk. apply nk_fl_get_loop. Qed.

Lemma nk_link_guards b : forall n i, nok (link_guards b i n).
Proof. induction n as [|n IH]; intros i; cbn [link_guards]; nk. apply IH. Qed.
Lemma nk_clear_slots r : forall n i, nok (clear_slots r i n).
Proof. induction n as [|n IH]; intros i; cbn [clear_slots]; nk. apply IH. Qed.
Lemma nk_copy_hazards mk : forall n i pl, nok (copy_hazards mk i n pl).
Proof. induction n as [|n IH]; intros i pl; cbn [copy_hazards]; nk. apply IH. Qed.
Lemma nk_scan_blocks c : forall fuel b pl, nok (scan_blocks c fuel b pl).
Proof. induction fuel as [|fuel IH]; intros [b|] pl; cbn [scan_blocks]; nk; try apply nk_copy_hazards; apply IH. Qed.
Lemma nk_scan_recs c : forall fuel node pl, nok (scan_recs c fuel node pl).
Proof. induction fuel as [|fuel IH]; intros [n|] pl; cbn [scan_recs]; nk; try apply nk_copy_hazards; try apply nk_scan_blocks; try apply IH. Qed.
Lemma nk_protect_loop r s k : forall fuel p, nok (protect_loop fuel r s k p).
Proof. induction fuel as [|fuel IH]; intros p; cbn [protect_loop]; nk. apply IH. Qed.
Lemma nk_wait_loop k v : forall fuel, nok (wait_loop fuel k v).
Proof. induction fuel as [|fuel IH]; cbn [wait_loop]; nk. apply IH. Qed.
Lemma nk_push_rec r : forall fuel old, nok (push_rec fuel r old).
Proof. induction fuel as [|fuel IH]; intros old; cbn [push_rec]; nk. apply IH. Qed.
Lemma nk_reuse_recs mytid : forall fuel node, nok (reuse_recs fuel mytid node).
Proof. induction fuel as [|fuel IH]; intros [h|]; cbn [reuse_recs]; nk. apply IH. Qed.

Ltac nk_known ::=
  match goal with
  | |- nok (fl_put _ _ _) => apply nk_fl_put
  | |- nok (fl_get _ _) => apply nk_fl_get
  | |- nok (link_guards _ _ _) => apply nk_link_guards
  | |- nok (clear_slots _ _ _) => apply nk_clear_slots
  | |- nok (copy_hazards _ _ _ _) => apply nk_copy_hazards
  | |- nok (scan_blocks _ _ _ _) => apply nk_scan_blocks
  | |- nok (scan_recs _ _ _ _) => apply nk_scan_recs
  | |- nok (protect_loop _ _ _ _ _) => apply nk_protect_loop
  | |- nok (wait_loop _ _ _) => apply nk_wait_loop
  | |- nok (push_rec _ _ _) => apply nk_push_rec
  | |- nok (reuse_recs _ _ _) => apply nk_reuse_recs
  end.

Lemma nk_hp_alloc c : nok (hp_alloc c). Proof. unfold hp_alloc. nk. Qed.
Lemma nk_hp_free c b : nok (hp_free c b). Proof. unfold hp_free. nk. Qed.
Lemma nk_rt_alloc c : nok (rt_alloc c). Proof. unfold rt_alloc. nk. Qed.
Lemma nk_rt_free c b : nok (rt_free c b). Proof. unfold rt_free. nk. Qed.
Lemma nk_hp_extend c r : nok (hp_extend c r). Proof. unfold hp_extend. nk; apply nk_hp_alloc. Qed.
Lemma nk_hp_galloc c r : nok (hp_galloc c r). Proof. unfold hp_galloc. nk; apply nk_hp_extend. Qed.
Lemma nk_hp_gfree r s : nok (hp_gfree r s). Proof. unfold hp_gfree. nk. Qed.
Lemma nk_free_gblocks c : forall fuel p, nok (free_gblocks c fuel p).
Proof. induction fuel as [|fuel IH]; intros [b|]; cbn [free_gblocks]; nk; try apply nk_hp_free; auto. Qed.
Lemma nk_hp_clear c r det : node_es det -> nok (hp_clear c r det).
Proof. intros Hd. unfold hp_clear. nk. all: try (apply nok_emit; exact Hd). all: try apply nk_free_gblocks. Qed.
Lemma nk_rt_init c r : nok (rt_init c r). Proof. unfold rt_init. nk; apply nk_rt_alloc. Qed.
Lemma nk_free_rblocks c : forall fuel p, nok (free_rblocks c fuel p).
Proof. induction fuel as [|fuel IH]; intros [b|]; cbn [free_rblocks]; nk; try apply nk_rt_free; auto. Qed.
Lemma nk_rt_fini c r : nok (rt_fini c r). Proof. unfold rt_fini. nk; apply nk_free_rblocks. Qed.
Lemma nk_rt_extend c r : nok (rt_extend c r). Proof. unfold rt_extend. nk; apply nk_rt_alloc. Qed.
Lemma nk_trunc_go c r : forall fuel p, nok (trunc_go c r fuel p).
Proof. induction fuel as [|fuel IH]; intros [b|]; cbn [trunc_go]; nk; try apply nk_rt_free; auto. Qed.
Lemma nk_trunc_block c r : nok (trunc_block c r).
Proof. unfold trunc_block. apply nok_xbind; [apply nok_loc|intros fb; apply nk_trunc_go]. Qed.
Lemma nk_scan c r : nok (Dhp.scan c r). Proof. unfold Dhp.scan. nk; try apply nk_rt_extend. Qed.
Lemma nk_move_cells c me b : forall n i, nok (move_cells c me b i n).
Proof. induction n as [|n IH]; intros i; cbn [move_cells]; nk; try apply nk_scan; apply IH. Qed.
Lemma nk_move_blocks c me src : forall fuel block, nok (move_blocks c fuel me src block).
Proof. induction fuel as [|fuel IH]; intros [b|]; cbn [move_blocks]; nk; try apply nk_move_cells; apply IH. Qed.
Lemma nk_help_recs c me mytid : forall fuel node, nok (help_recs c fuel me mytid node).
Proof. induction fuel as [|fuel IH]; intros [h|]; cbn [help_recs]; nk; try apply IH; try apply nk_move_blocks; try apply nk_rt_fini. Qed.
Lemma nk_help_scan c me mytid : nok (help_scan c me mytid).
Proof. unfold help_scan. nk; [apply nk_help_recs|apply nk_scan]. Qed.
Lemma nk_alloc_thread_data c mytid : nok (alloc_thread_data c mytid).
Proof. unfold alloc_thread_data. nk; try apply nk_rt_init. Qed.
Lemma nk_free_thread_data c r mytid help det : node_es det -> nok (free_thread_data c r mytid help det).
Proof.
  intros Hd. unfold free_thread_data.
  apply nok_xbind; [apply nk_hp_clear; exact Hd|intros _]. apply nok_xbind; [apply nk_scan|intros _].
  apply nok_xbind; [destruct help; [apply nk_help_scan|nk]|intros _].
  apply nok_xbind; [nk|intros e]. apply nok_xbind; [|intros _; nk].
  destruct e; [apply nok_xbind; [apply nk_rt_fini|intros _; nk]|]. apply (nk_trunc_block c r).
Qed.
Lemma nk_run_op c t L o : nok (run_op c t L o).
Proof.
  destruct o; cbn [run_op]; unfold inv, rsp, skip.
  all: try (destruct (l_tls L) as [r|]); try (destruct (gfind (l_guards L) j) as [s|]).
  all: nk; try apply nk_alloc_thread_data; try apply nk_hp_galloc; try apply nk_hp_gfree; try apply nk_scan.
  all: try (apply nk_free_thread_data; auto with ndb).
Qed.
Lemma nk_run_ops c t : forall os L, nok (run_ops c t L os).
Proof. induction os as [|o os IH]; intros L; cbn [run_ops]; [exact I|]. apply nok_xbind; [apply nk_run_op|intros L'; apply IH]. Qed.

Theorem nk_thread c t os : nok (thread_src c t os).
Proof.
  unfold thread_src. cbn [nok]. split; [apply na_begin|intros _]. unfold to_unit. apply nok_dbind; [apply nk_run_ops|intros; exact I].
Qed.
