(** * DhpLiveGxH: C02, second sentence for DHP -- the allocator discipline [cell_disc].  Part X-H: the free guard chain of
      thread_hp_storage as a state invariant [JCh]: the chain from free_head_ of an attached record through guard::next_
      consists of distinct cells of that record that no Guard holds (except the one ~Guard() has just pushed, until its
      "ret"); between hp_init and "_att" the chain of the record is the whole initial array (as long as thread_id_ names
      the thread); the cells of a guard block being prepared by hp_allocator::alloc are chained as far as the loop got;
      the cell popped by alloc() is a cell of the record that nobody holds.  This file: definitions and the
      transitions. *)
From Coq Require Import ZArith NArith List String Bool Lia PeanoNat.
From Coq Require FinFun.
From LV Require Import Base.Conc Base.Events Model.DhpLang Model.Dhp Proofs.DhpBase Proofs.DhpHist
  Proofs.DhpLangProofs Proofs.DhpInvA Proofs.DhpStepsA Proofs.DhpLiveA Proofs.DhpLiveB
  Proofs.DhpLiveGcRule Proofs.DhpLiveGcA Proofs.DhpLiveGcB Proofs.DhpLiveGcC Proofs.DhpLiveGxA Proofs.DhpLiveGxE Proofs.DhpLiveGxF
  Proofs.DhpLiveGxG.
Import ListNotations.
Local Open Scope string_scope.
Local Open Scope list_scope.

Fixpoint fchain (g : G) (o : option gref) (F : list gref) : Prop :=
  match F with
  | [] => o = None
  | s :: F' => o = Some s /\ fchain g (snext_get g s) F'
  end.

Record JCh (c : cfg) (g : G) (st : GS) (x : nat -> XC) (h : H) : Prop := {
  jc_lr : forall r, r < List.length (recs g) -> List.length (r_snext (grec g r)) = eff_H c;
  jc_lb : forall b, b < List.length (gbs g) -> List.length (gb_snext (ggb g b)) = c_GB c;
  jc_chain : forall t r, gtl st t = Some r -> exists F, fchain g (r_fhead (grec g r)) F /\ NoDup F /\
       forall s, In s F -> ownc c h t s /\ xc_pop (x t) <> Some s /\
         (forall u j, gfind (gmp st u) j = Some s -> u = t /\ xc_freed (x t) = true /\ gop st t = [4%Z; zn j]);
  jc_init : forall t r, xc_init (x t) = Some r -> gtl st t = None /\
       (r_tid (grec g r) = Datatypes.S t -> fchain g (r_fhead (grec g r)) (map (GI r) (seq 0 (eff_H c))));
  jc_pb : forall t b n lk, xc_pb (x t) = Some (b, n, lk) -> b < List.length (gbs g) /\
       (forall i, Datatypes.S i < c_GB c -> i < n -> snext_get g (GE b i) = Some (GE b (Datatypes.S i))) /\
       (n = c_GB c -> snext_get g (GE b (c_GB c - 1)) = None) /\
       (forall i u j, gfind (gmp st u) j <> Some (GE b i)) /\
       (if lk then exists r kb, gtl st t = Some r /\ In (b, kb) (linked h r) else gpv st t = Some b);
  jc_pop : forall t s, xc_pop (x t) = Some s -> ownc c h t s /\ forall u j, gfind (gmp st u) j <> Some s }.

(** ** guard::next_ *)
Definition snv (g : G) (s : gref) : Prop :=
  match s with
  | GI r i => r < List.length (recs g) /\ i < List.length (r_snext (grec g r))
  | GE b i => b < List.length (gbs g) /\ i < List.length (gb_snext (ggb g b))
  end.

Lemma snext_get_set_same g s v : snv g s -> snext_get (snext_set g s v) s = v.
Proof.
  destruct s as [r i|b i]; cbn; intros (L1 & L2).
  - rewrite grec_upd_rec_same by exact L1. cbn. now rewrite nth_upd_nth_same.
  - rewrite ggb_upd_gb_any, Nat.eqb_refl. apply Nat.ltb_lt in L1. rewrite L1. cbn. now rewrite nth_upd_nth_same.
Qed.
Lemma snext_get_set_other g s v s' : s' <> s -> snext_get (snext_set g s v) s' = snext_get g s'.
Proof.
  intros N. destruct s as [r i|b i], s' as [r' i'|b' i']; cbn; try reflexivity.
  - rewrite grec_upd_rec_any. destruct (Nat.eqb r' r && Nat.ltb r (List.length (recs g))) eqn:E; [|reflexivity].
    apply andb_true_iff in E. destruct E as (E & _). apply Nat.eqb_eq in E. subst r'. cbn. apply nth_upd_nth_other. congruence.
  - rewrite ggb_upd_gb_any. destruct (Nat.eqb b' b && Nat.ltb b (List.length (gbs g))) eqn:E; [|reflexivity].
    apply andb_true_iff in E. destruct E as (E & _). apply Nat.eqb_eq in E. subst b'. cbn. apply nth_upd_nth_other. congruence.
Qed.

Lemma fchain_ext g g' : forall F o, (forall s, In s F -> snext_get g' s = snext_get g s) -> fchain g o F -> fchain g' o F.
Proof.
  induction F as [|s F IH]; intros o He Hc; cbn in *; [exact Hc|]. destruct Hc as (E & Hc). split; [exact E|].
  rewrite (He s (or_introl eq_refl)). apply IH; [intros s' Hs'; apply He; now right|exact Hc].
Qed.

(** what [JCh] reads of the shared state *)
Definition piC (g g' : G) : Prop :=
  List.length (recs g') = List.length (recs g) /\ List.length (gbs g') = List.length (gbs g) /\
  (forall r, r_tid (grec g' r) = r_tid (grec g r) /\ r_fhead (grec g' r) = r_fhead (grec g r) /\ r_snext (grec g' r) = r_snext (grec g r)) /\
  (forall b, gb_snext (ggb g' b) = gb_snext (ggb g b)).

Lemma piC_refl g : piC g g. Proof. unfold piC. repeat split; auto. Qed.
Lemma piC_trans g1 g2 g3 : piC g1 g2 -> piC g2 g3 -> piC g1 g3.
Proof.
  intros (A1 & A2 & A3 & A4) (B1 & B2 & B3 & B4). split; [congruence|]. split; [congruence|]. split.
  - intros r. destruct (A3 r) as (X1 & X2 & X3), (B3 r) as (Y1 & Y2 & Y3). repeat split; congruence.
  - intros b. now rewrite B4.
Qed.
Lemma piC_snext g g' : piC g g' -> forall s, snext_get g' s = snext_get g s.
Proof. intros (_ & _ & A3 & A4) [r i|b i]; cbn; [destruct (A3 r) as (_ & _ & ->)|rewrite A4]; reflexivity. Qed.

Lemma ownc_same c h h' : (forall r, att h' r = att h r) -> (forall r, linked h' r = linked h r) -> forall u s, ownc c h' u s <-> ownc c h u s.
Proof.
  intros Ha Hk u [r i|b i]; cbn.
  - rewrite Ha. tauto.
  - split; intros ((r & k & kb & A & B) & C); (split; [exists r, k, kb|exact C]); [rewrite <- Ha, <- Hk|rewrite Ha, Hk]; auto.
Qed.

(** nodes that change nothing the chain invariant reads (the ghost state stays) *)
Lemma JCh_quiet c g g' st st' x h h' : JCh c g st x h -> piC g g' ->
  (forall u, gtl st' u = gtl st u /\ gmp st' u = gmp st u /\ gop st' u = gop st u /\ gpv st' u = gpv st u) ->
  (forall r, att h' r = att h r) -> (forall r, linked h' r = linked h r) -> JCh c g' st' x h'.
Proof.
  intros [J1 J2 J3 J4 J5 J6] P Hs Ha Hk. pose proof P as (P1 & P2 & P3 & P4). pose proof (piC_snext _ _ P) as Hsn.
  pose proof (ownc_same c h h' Ha Hk) as Ho.
  constructor.
  - intros r. rewrite P1. destruct (P3 r) as (_ & _ & ->). apply J1.
  - intros b. rewrite P2, P4. apply J2.
  - intros t r. destruct (Hs t) as (-> & _). intros Ht. destruct (J3 t r Ht) as (F & F1 & F2 & F3). exists F.
    destruct (P3 r) as (_ & -> & _). split; [eapply fchain_ext; [|exact F1]; intros; apply Hsn|]. split; [exact F2|].
    intros s Hs0. destruct (F3 s Hs0) as (A1 & A2 & A3). split; [now apply Ho|]. split; [exact A2|]. intros u j.
    destruct (Hs u) as (_ & -> & _). destruct (Hs t) as (_ & _ & -> & _). apply A3.
  - intros t r Hi. destruct (J4 t r Hi) as (A1 & A2). destruct (Hs t) as (-> & _). split; [exact A1|]. destruct (P3 r) as (-> & -> & _).
    intros E. eapply fchain_ext; [|exact (A2 E)]. intros; apply Hsn.
  - intros t b n lk Hp. destruct (J5 t b n lk Hp) as (A1 & A2 & A3 & A4 & A5). rewrite P2. split; [exact A1|].
    split; [intros i; rewrite Hsn; apply A2|]. split; [rewrite Hsn; exact A3|]. split.
    + intros i u j. destruct (Hs u) as (_ & -> & _). apply A4.
    + destruct lk; [|destruct (Hs t) as (_ & _ & _ & ->); exact A5]. destruct A5 as (r & kb & B1 & B2). exists r, kb.
      destruct (Hs t) as (-> & _). rewrite Hk. auto.
  - intros t s Hp. destruct (J6 t s Hp) as (A1 & A2). split; [now apply Ho|]. intros u j. destruct (Hs u) as (_ & -> & _). apply A2.
Qed.

(** thread_id_ of a record is written (not to a value that names a thread which initialised the record's chain) *)
Lemma JCh_tid c g st x h r v : JCh c g st x h ->
  (forall t, xc_init (x t) = Some r -> v <> Datatypes.S t \/ r_tid (grec g r) = Datatypes.S t) ->
  JCh c (upd_rec g r (rs_tid v)) st x h.
Proof.
  intros [J1 J2 J3 J4 J5 J6] Hv. set (g' := upd_rec g r (rs_tid v)).
  assert (Hf : forall r', r_fhead (grec g' r') = r_fhead (grec g r') /\ r_snext (grec g' r') = r_snext (grec g r')).
  { intros r'. unfold g'. rewrite grec_upd_rec_any. destruct (Nat.eqb r' r && Nat.ltb r (List.length (recs g))) eqn:E; [|auto].
    apply andb_true_iff in E. destruct E as (E & _). apply Nat.eqb_eq in E. subst. auto. }
  assert (Hsn : forall s, snext_get g' s = snext_get g s).
  { intros [r' i|b i]; cbn; [destruct (Hf r') as (_ & ->)|]; reflexivity. }
  assert (Hlen : List.length (recs g') = List.length (recs g)) by apply len_upd_rec.
  constructor.
  - intros r'. rewrite Hlen. destruct (Hf r') as (_ & ->). apply J1.
  - exact J2.
  - intros t r' Ht. destruct (J3 t r' Ht) as (F & F1 & F2 & F3). exists F. destruct (Hf r') as (-> & _).
    split; [eapply fchain_ext; [|exact F1]; intros; apply Hsn|auto].
  - intros t r' Hi. destruct (J4 t r' Hi) as (A1 & A2). split; [exact A1|]. destruct (Hf r') as (-> & _). intros E.
    eapply fchain_ext; [intros; apply Hsn|]. apply A2. unfold g' in E. rewrite tid_upd in E.
    destruct (Nat.eqb r' r && Nat.ltb r (List.length (recs g))) eqn:Eb; [|exact E].
    apply andb_true_iff in Eb. destruct Eb as (Eb & _). apply Nat.eqb_eq in Eb. subst r'. destruct (Hv t Hi) as [N|E']; [contradiction|exact E'].
  - intros t b n lk Hp. destruct (J5 t b n lk Hp) as (A1 & A2 & A3 & A4 & A5). split; [exact A1|].
    split; [intros i; rewrite Hsn; apply A2|]. split; [rewrite Hsn; exact A3|auto].
  - exact J6.
Qed.

Definition sameCh (xt xt' : XC) : Prop :=
  xc_init xt' = xc_init xt /\ xc_pb xt' = xc_pb xt /\ xc_pop xt' = xc_pop xt /\ xc_freed xt' = xc_freed xt.

Lemma JCh_same_x c g st x x' h : (forall u, sameCh (x u) (x' u)) -> JCh c g st x h -> JCh c g st x' h.
Proof.
  intros He [J1 J2 J3 J4 J5 J6]. constructor; auto.
  - intros t r Ht. destruct (J3 t r Ht) as (F & F1 & F2 & F3). exists F. split; [exact F1|]. split; [exact F2|]. intros s Hs.
    destruct (He t) as (_ & _ & -> & ->). apply F3. exact Hs.
  - intros t r. destruct (He t) as (-> & _). apply J4.
  - intros t b n lk. destruct (He t) as (_ & -> & _). apply J5.
  - intros t s. destruct (He t) as (_ & _ & -> & _). apply J6.
Qed.

(** "op": the thread announces an operation (~Guard() of the previous operation is over: nothing pushed and held) *)
Lemma JCh_op c g st st' x h t args : JCh c g st x h -> xc_freed (x t) = false ->
  (forall u, gtl st' u = gtl st u /\ gmp st' u = gmp st u /\ gpv st' u = gpv st u) ->
  (forall u, u <> t -> gop st' u = gop st u) -> gop st' t = args -> JCh c g st' x h.
Proof.
  intros [J1 J2 J3 J4 J5 J6] Hfr Hs Ho Ht. constructor; auto.
  - intros u r. destruct (Hs u) as (-> & _). intros Hu. destruct (J3 u r Hu) as (F & F1 & F2 & F3). exists F. split; [exact F1|]. split; [exact F2|].
    intros s Hs0. destruct (F3 s Hs0) as (A1 & A2 & A3). split; [exact A1|]. split; [exact A2|]. intros u' j. destruct (Hs u') as (_ & -> & _).
    intros Hg. destruct (A3 u' j Hg) as (B1 & B2 & B3). subst u'. destruct (Nat.eq_dec u t) as [->|N]; [congruence|].
    rewrite (Ho u N). auto.
  - intros u r Hi. destruct (Hs u) as (-> & _). now apply J4.
  - intros u b n lk Hp. destruct (J5 u b n lk Hp) as (A1 & A2 & A3 & A4 & A5). split; [exact A1|]. split; [exact A2|]. split; [exact A3|]. split.
    + intros i u' j. destruct (Hs u') as (_ & -> & _). apply A4.
    + destruct (Hs u) as (-> & _ & ->). exact A5.
  - intros u s Hp. destruct (J6 u s Hp) as (A1 & A2). split; [exact A1|]. intros u' j. destruct (Hs u') as (_ & -> & _). apply A2.
Qed.

(** "ret": the operation is over; after ~Guard( j ) the Guard is dropped from the table *)
Lemma JCh_ret c g st st' x x' h t : JCh c g st x h ->
  (forall u, gtl st' u = gtl st u /\ gpv st' u = gpv st u) ->
  (forall u, u <> t -> gop st' u = gop st u /\ gmp st' u = gmp st u) ->
  gop st' t = [] -> gmp st' t = drop_of (gop st t) (gmp st t) ->
  (forall u, u <> t -> x' u = x u) -> xc_init (x' t) = xc_init (x t) -> xc_pb (x' t) = xc_pb (x t) -> xc_pop (x' t) = xc_pop (x t) ->
  xc_freed (x' t) = false -> JCh c g st' x' h.
Proof.
  intros [J1 J2 J3 J4 J5 J6] Hs Ho Hop Hmp Hx Ei Eb Ep Ef.
  assert (Hheld : forall u j s, gfind (gmp st' u) j = Some s -> gfind (gmp st u) j = Some s).
  { intros u j s. destruct (Nat.eq_dec u t) as [->|N]; [rewrite Hmp; apply gfind_drop_of|destruct (Ho u N) as (_ & ->); auto]. }
  assert (Hxi : forall u, xc_init (x' u) = xc_init (x u)) by (intros u; destruct (Nat.eq_dec u t) as [->|N]; [exact Ei|now rewrite (Hx u N)]).
  assert (Hxb : forall u, xc_pb (x' u) = xc_pb (x u)) by (intros u; destruct (Nat.eq_dec u t) as [->|N]; [exact Eb|now rewrite (Hx u N)]).
  assert (Hxp : forall u, xc_pop (x' u) = xc_pop (x u)) by (intros u; destruct (Nat.eq_dec u t) as [->|N]; [exact Ep|now rewrite (Hx u N)]).
  constructor; auto.
  - intros u r. destruct (Hs u) as (-> & _). intros Hu. destruct (J3 u r Hu) as (F & F1 & F2 & F3). exists F. split; [exact F1|]. split; [exact F2|].
    intros s Hs0. destruct (F3 s Hs0) as (A1 & A2 & A3). split; [exact A1|]. split; [now rewrite Hxp|]. intros u' j Hg.
    destruct (A3 u' j (Hheld _ _ _ Hg)) as (B1 & B2 & B3). subst u'. destruct (Nat.eq_dec u t) as [->|N].
    + exfalso. rewrite Hmp, B3, drop_of_4 in Hg. apply gfind_gdrop_some in Hg. now destruct Hg as (_ & Nj).
    + split; [reflexivity|]. rewrite (Hx u N). destruct (Ho u N) as (-> & _). auto.
  - intros u r. rewrite Hxi. intros Hi. destruct (Hs u) as (-> & _). now apply J4.
  - intros u b n lk. rewrite Hxb. intros Hp. destruct (J5 u b n lk Hp) as (A1 & A2 & A3 & A4 & A5). split; [exact A1|]. split; [exact A2|].
    split; [exact A3|]. split.
    + intros i u' j Hg. apply (A4 i u' j). now apply Hheld.
    + destruct (Hs u) as (-> & ->). exact A5.
  - intros u s. rewrite Hxp. intros Hp. destruct (J6 u s Hp) as (A1 & A2). split; [exact A1|]. intros u' j Hg. apply (A2 u' j). now apply Hheld.
Qed.

(** "_att": the chain initialised by hp_init becomes the chain of the attached record *)
Lemma JCh_att c g st st' x x' h h' t r : JCh c g st x h ->
  xc_init (x t) = Some r -> r_tid (grec g r) = Datatypes.S t -> xc_pop (x t) = None ->
  (forall u j i, gfind (gmp st u) j <> Some (GI r i)) ->
  (forall u, gmp st' u = gmp st u /\ gop st' u = gop st u /\ gpv st' u = gpv st u) ->
  (forall u, u <> t -> gtl st' u = gtl st u) -> gtl st' t = Some r -> (forall u, gtl st u <> Some r) ->
  (forall u s, ownc c h u s -> ownc c h' u s) -> (forall i, i < eff_H c -> ownc c h' t (GI r i)) ->
  (forall r' x0, In x0 (linked h r') -> In x0 (linked h' r') \/ r' = r) ->
  (forall u, u <> t -> x' u = x u) -> xc_init (x' t) = None -> xc_pb (x' t) = xc_pb (x t) -> xc_pop (x' t) = xc_pop (x t) ->
  xc_freed (x' t) = xc_freed (x t) -> JCh c g st' x' h'.
Proof.
  intros [J1 J2 J3 J4 J5 J6] Hi Htid Hpop Hnh Hs Hgt Hgt' Hnr Ho Hor Hlk Hx Ei Eb Ep Ef.
  assert (Hxb : forall u, xc_pb (x' u) = xc_pb (x u)) by (intros u; destruct (Nat.eq_dec u t) as [->|N]; [exact Eb|now rewrite (Hx u N)]).
  assert (Hxp : forall u, xc_pop (x' u) = xc_pop (x u)) by (intros u; destruct (Nat.eq_dec u t) as [->|N]; [exact Ep|now rewrite (Hx u N)]).
  assert (Hxf : forall u, xc_freed (x' u) = xc_freed (x u)) by (intros u; destruct (Nat.eq_dec u t) as [->|N]; [exact Ef|now rewrite (Hx u N)]).
  destruct (J4 t r Hi) as (Ht0 & Hfull).
  constructor; auto.
  - intros u r'. destruct (Nat.eq_dec u t) as [->|N].
    + rewrite Hgt'. intros E. inversion E; subst r'. exists (map (GI r) (seq 0 (eff_H c))). split; [now apply Hfull|]. split.
      * apply FinFun.Injective_map_NoDup; [intros a b E0; now inversion E0|apply seq_NoDup].
      * intros s Hs0. apply in_map_iff in Hs0. destruct Hs0 as (i & <- & Hi0). apply in_seq in Hi0. split; [apply Hor; lia|].
        split; [rewrite Ep, Hpop; discriminate|]. intros u j. destruct (Hs u) as (-> & _). intros Hg. now destruct (Hnh u j i).
    + rewrite (Hgt u N). intros Hu. destruct (J3 u r' Hu) as (F & F1 & F2 & F3). exists F. split; [exact F1|]. split; [exact F2|].
      intros s Hs0. destruct (F3 s Hs0) as (A1 & A2 & A3). split; [now apply Ho|]. split; [now rewrite Hxp|]. intros u' j.
      destruct (Hs u') as (-> & _). destruct (Hs u) as (_ & -> & _). rewrite Hxf. apply A3.
  - intros u r'. destruct (Nat.eq_dec u t) as [->|N]; [rewrite Ei; discriminate|]. rewrite (Hx u N), (Hgt u N). apply J4.
  - intros u b n lk. rewrite Hxb. intros Hp. destruct (J5 u b n lk Hp) as (A1 & A2 & A3 & A4 & A5). split; [exact A1|]. split; [exact A2|].
    split; [exact A3|]. split.
    + intros i u' j. destruct (Hs u') as (-> & _). apply A4.
    + destruct lk; [|destruct (Hs u) as (_ & _ & ->); exact A5]. destruct A5 as (r' & kb & B1 & B2).
      destruct (Nat.eq_dec u t) as [->|N]; [congruence|]. exists r', kb. rewrite (Hgt u N). split; [exact B1|].
      destruct (Hlk r' _ B2) as [B | ->]; [exact B|]. now destruct (Hnr u).
  - intros u s. rewrite Hxp. intros Hp. destruct (J6 u s Hp) as (A1 & A2). split; [now apply Ho|]. intros u' j. destruct (Hs u') as (-> & _). apply A2.
Qed.

(** "_relall" + "_det": the thread has no record and no Guard any more *)
Lemma JCh_det c g st st' x h h' t r : JCh c g st x h -> gtl st t = Some r -> xc_pb (x t) = None -> xc_pop (x t) = None ->
  (forall u, u <> t -> gtl st u <> Some r) ->
  (forall u, gop st' u = gop st u /\ gpv st' u = gpv st u) ->
  (forall u, u <> t -> gtl st' u = gtl st u /\ gmp st' u = gmp st u) -> gtl st' t = None -> gmp st' t = [] ->
  (forall u s, u <> t -> ownc c h u s -> ownc c h' u s) ->
  (forall r' x0, r' <> r -> In x0 (linked h r') -> In x0 (linked h' r')) -> JCh c g st' x h'.
Proof.
  intros [J1 J2 J3 J4 J5 J6] Ht Hpb Hpop Hnr Hs Hgo Hgt' Hmp' Ho Hlk.
  assert (Hheld : forall u j s, gfind (gmp st' u) j = Some s -> gfind (gmp st u) j = Some s /\ u <> t).
  { intros u j s. destruct (Nat.eq_dec u t) as [->|N]; [rewrite Hmp'; discriminate|destruct (Hgo u N) as (_ & ->); auto]. }
  constructor; auto.
  - intros u r'. destruct (Nat.eq_dec u t) as [->|N]; [rewrite Hgt'; discriminate|]. destruct (Hgo u N) as (-> & _). intros Hu.
    destruct (J3 u r' Hu) as (F & F1 & F2 & F3). exists F. split; [exact F1|]. split; [exact F2|]. intros s Hs0.
    destruct (F3 s Hs0) as (A1 & A2 & A3). split; [now apply Ho|]. split; [exact A2|]. intros u' j Hg. destruct (Hheld _ _ _ Hg) as (Hg' & _).
    destruct (Hs u) as (-> & _). now apply A3.
  - intros u r' Hi. destruct (J4 u r' Hi) as (A1 & A2). split; [|exact A2]. destruct (Nat.eq_dec u t) as [->|N]; [exact Hgt'|].
    destruct (Hgo u N) as (-> & _). exact A1.
  - intros u b n lk Hp. destruct (J5 u b n lk Hp) as (A1 & A2 & A3 & A4 & A5). split; [exact A1|]. split; [exact A2|]. split; [exact A3|]. split.
    + intros i u' j Hg. destruct (Hheld _ _ _ Hg) as (Hg' & _). now apply (A4 i u' j).
    + assert (N : u <> t) by (intros ->; congruence). destruct lk; [|destruct (Hs u) as (_ & ->); exact A5].
      destruct A5 as (r' & kb & B1 & B2). exists r', kb. destruct (Hgo u N) as (-> & _). split; [exact B1|]. apply Hlk; [|exact B2].
      intros ->. now apply (Hnr u N).
  - intros u s Hp. assert (N : u <> t) by (intros ->; congruence). destruct (J6 u s Hp) as (A1 & A2). split; [now apply Ho|].
    intros u' j Hg. destruct (Hheld _ _ _ Hg) as (Hg' & _). now apply (A2 u' j).
Qed.

(** "_own": Guard j gets the popped cell *)
Lemma JCh_own c g st st' x x' h t j s : JCh c g st x h -> xc_pop (x t) = Some s -> xc_pb (x t) = None ->
  (forall u, u <> t -> ~ ownc c h u s) ->
  (forall u b n lk i, xc_pb (x u) = Some (b, n, lk) -> s <> GE b i) ->
  (forall u, gtl st' u = gtl st u /\ gop st' u = gop st u /\ gpv st' u = gpv st u) ->
  (forall u, u <> t -> gmp st' u = gmp st u) -> gmp st' t = (j, s) :: gmp st t ->
  (forall u, u <> t -> x' u = x u) -> xc_init (x' t) = xc_init (x t) -> xc_pb (x' t) = xc_pb (x t) -> xc_pop (x' t) = None ->
  xc_freed (x' t) = xc_freed (x t) -> JCh c g st' x' h.
Proof.
  intros [J1 J2 J3 J4 J5 J6] Hpop Hpb Hex Hnb Hs Hmo Hmt Hx Ei Eb Ep Ef.
  assert (Hheld : forall u j' s', gfind (gmp st' u) j' = Some s' -> gfind (gmp st u) j' = Some s' \/ (u = t /\ s' = s)).
  { intros u j' s'. destruct (Nat.eq_dec u t) as [->|N]; [|rewrite (Hmo u N); auto]. rewrite Hmt. cbn.
    destruct (Nat.eqb j j'); [intros E; inversion E; auto|auto]. }
  assert (Hxi : forall u, xc_init (x' u) = xc_init (x u)) by (intros u; destruct (Nat.eq_dec u t) as [->|N]; [exact Ei|now rewrite (Hx u N)]).
  assert (Hxb : forall u, xc_pb (x' u) = xc_pb (x u)) by (intros u; destruct (Nat.eq_dec u t) as [->|N]; [exact Eb|now rewrite (Hx u N)]).
  assert (Hxf : forall u, xc_freed (x' u) = xc_freed (x u)) by (intros u; destruct (Nat.eq_dec u t) as [->|N]; [exact Ef|now rewrite (Hx u N)]).
  destruct (J6 t s Hpop) as (Hos & Hns).
  constructor; auto.
  - intros u r. destruct (Hs u) as (-> & _). intros Hu. destruct (J3 u r Hu) as (F & F1 & F2 & F3). exists F. split; [exact F1|]. split; [exact F2|].
    intros s' Hs0. destruct (F3 s' Hs0) as (A1 & A2 & A3). split; [exact A1|].
    assert (Ns : s' <> s).
    { intros ->. destruct (Nat.eq_dec u t) as [->|N]; [now apply A2|now apply (Hex u N)]. }
    split.
    + destruct (Nat.eq_dec u t) as [->|N]; [rewrite Ep; discriminate|rewrite (Hx u N); exact A2].
    + intros u' j' Hg. destruct (Hheld _ _ _ Hg) as [Hg'|(_ & E)]; [|contradiction]. destruct (Hs u) as (_ & -> & _). rewrite Hxf. now apply A3.
  - intros u r. rewrite Hxi. intros Hi. destruct (Hs u) as (-> & _). now apply J4.
  - intros u b n lk. rewrite Hxb. intros Hp. destruct (J5 u b n lk Hp) as (A1 & A2 & A3 & A4 & A5). split; [exact A1|]. split; [exact A2|].
    split; [exact A3|]. split.
    + intros i u' j' Hg. destruct (Hheld _ _ _ Hg) as [Hg'|(_ & E)]; [now apply (A4 i u' j')|]. symmetry in E. now apply (Hnb u b n lk i Hp).
    + destruct (Hs u) as (-> & _ & ->). exact A5.
  - intros u s'. destruct (Nat.eq_dec u t) as [->|N]; [rewrite Ep; discriminate|]. rewrite (Hx u N). intros Hp.
    destruct (J6 u s' Hp) as (A1 & A2). split; [exact A1|]. intros u' j' Hg. destruct (Hheld _ _ _ Hg) as [Hg'|(_ & E)]; [now apply (A2 u' j')|].
    subst s'. now apply (Hex u N).
Qed.

(** a guard block is taken from the allocator: its cells are to be chained *)
Lemma JCh_pv c g st st' x x' h t b : JCh c g st x h -> 1 <= c_GB c -> b < List.length (gbs g) ->
  (forall i u j, gfind (gmp st u) j <> Some (GE b i)) ->
  (forall u, gtl st' u = gtl st u /\ gmp st' u = gmp st u /\ gop st' u = gop st u) ->
  (forall u, u <> t -> gpv st' u = gpv st u) -> gpv st' t = Some b ->
  (forall u, u <> t -> x' u = x u) -> xc_init (x' t) = xc_init (x t) -> xc_pb (x' t) = Some (b, 0, false) -> xc_pop (x' t) = xc_pop (x t) ->
  xc_freed (x' t) = xc_freed (x t) -> JCh c g st' x' h.
Proof.
  intros [J1 J2 J3 J4 J5 J6] HG Hb Hnh Hs Hpo Hpt Hx Ei Eb Ep Ef.
  assert (Hxi : forall u, xc_init (x' u) = xc_init (x u)) by (intros u; destruct (Nat.eq_dec u t) as [->|N]; [exact Ei|now rewrite (Hx u N)]).
  assert (Hxp : forall u, xc_pop (x' u) = xc_pop (x u)) by (intros u; destruct (Nat.eq_dec u t) as [->|N]; [exact Ep|now rewrite (Hx u N)]).
  assert (Hxf : forall u, xc_freed (x' u) = xc_freed (x u)) by (intros u; destruct (Nat.eq_dec u t) as [->|N]; [exact Ef|now rewrite (Hx u N)]).
  constructor; auto.
  - intros u r. destruct (Hs u) as (-> & _). intros Hu. destruct (J3 u r Hu) as (F & F1 & F2 & F3). exists F. split; [exact F1|]. split; [exact F2|].
    intros s Hs0. destruct (F3 s Hs0) as (A1 & A2 & A3). split; [exact A1|]. split; [now rewrite Hxp|]. intros u' j.
    destruct (Hs u') as (_ & -> & _). destruct (Hs u) as (_ & _ & ->). rewrite Hxf. apply A3.
  - intros u r. rewrite Hxi. intros Hi. destruct (Hs u) as (-> & _). now apply J4.
  - intros u b0 n lk Hp. destruct (Nat.eq_dec u t) as [->|N].
    + rewrite Eb in Hp. inversion Hp; subst. split; [exact Hb|]. split; [intros i _ L; lia|]. split; [intros E; lia|]. split; [|exact Hpt].
      intros i u j. destruct (Hs u) as (_ & -> & _). apply Hnh.
    + rewrite (Hx u N) in Hp. destruct (J5 u b0 n lk Hp) as (A1 & A2 & A3 & A4 & A5). split; [exact A1|]. split; [exact A2|]. split; [exact A3|]. split.
      * intros i u' j. destruct (Hs u') as (_ & -> & _). apply A4.
      * destruct (Hs u) as (-> & _). rewrite (Hpo u N). exact A5.
  - intros u s. rewrite Hxp. intros Hp. destruct (J6 u s Hp) as (A1 & A2). split; [exact A1|]. intros u' j. destruct (Hs u') as (_ & -> & _). apply A2.
Qed.

(** the block is linked into the own record *)
Lemma JCh_link c g g' st st' x x' h h' t b n r kb : JCh c g st x h -> piC g g' -> xc_pb (x t) = Some (b, n, false) ->
  gtl st t = Some r -> In (b, kb) (linked h' r) ->
  (forall u, gtl st' u = gtl st u /\ gmp st' u = gmp st u /\ gop st' u = gop st u) ->
  (forall u, u <> t -> gpv st' u = gpv st u) ->
  (forall u s, ownc c h u s -> ownc c h' u s) -> (forall r' x0, In x0 (linked h r') -> In x0 (linked h' r')) ->
  (forall u, u <> t -> x' u = x u) -> xc_init (x' t) = xc_init (x t) -> xc_pb (x' t) = Some (b, n, true) -> xc_pop (x' t) = xc_pop (x t) ->
  xc_freed (x' t) = xc_freed (x t) -> JCh c g' st' x' h'.
Proof.
  intros J P Hpb Ht Hin Hs Hpo Ho Hlk Hx Ei Eb Ep Ef.
  assert (J0 : JCh c g' st x h).
  { eapply JCh_quiet; [exact J|exact P| | |]; auto. }
  clear J. destruct J0 as [J1 J2 J3 J4 J5 J6].
  assert (Hxi : forall u, xc_init (x' u) = xc_init (x u)) by (intros u; destruct (Nat.eq_dec u t) as [->|N]; [exact Ei|now rewrite (Hx u N)]).
  assert (Hxp : forall u, xc_pop (x' u) = xc_pop (x u)) by (intros u; destruct (Nat.eq_dec u t) as [->|N]; [exact Ep|now rewrite (Hx u N)]).
  assert (Hxf : forall u, xc_freed (x' u) = xc_freed (x u)) by (intros u; destruct (Nat.eq_dec u t) as [->|N]; [exact Ef|now rewrite (Hx u N)]).
  constructor; auto.
  - intros u r0. destruct (Hs u) as (-> & _). intros Hu. destruct (J3 u r0 Hu) as (F & F1 & F2 & F3). exists F. split; [exact F1|]. split; [exact F2|].
    intros s Hs0. destruct (F3 s Hs0) as (A1 & A2 & A3). split; [now apply Ho|]. split; [now rewrite Hxp|]. intros u' j.
    destruct (Hs u') as (_ & -> & _). destruct (Hs u) as (_ & _ & ->). rewrite Hxf. apply A3.
  - intros u r0. rewrite Hxi. intros Hi. destruct (Hs u) as (-> & _). now apply J4.
  - intros u b0 n0 lk Hp. destruct (Nat.eq_dec u t) as [->|N].
    + rewrite Eb in Hp. inversion Hp; subst. destruct (J5 t b0 n0 false Hpb) as (A1 & A2 & A3 & A4 & A5). split; [exact A1|]. split; [exact A2|].
      split; [exact A3|]. split; [intros i u j; destruct (Hs u) as (_ & -> & _); apply A4|]. exists r, kb. destruct (Hs t) as (-> & _). auto.
    + rewrite (Hx u N) in Hp. destruct (J5 u b0 n0 lk Hp) as (A1 & A2 & A3 & A4 & A5). split; [exact A1|]. split; [exact A2|]. split; [exact A3|]. split.
      * intros i u' j. destruct (Hs u') as (_ & -> & _). apply A4.
      * destruct lk; [|rewrite (Hpo u N); exact A5]. destruct A5 as (r0 & kb0 & B1 & B2). exists r0, kb0. destruct (Hs u) as (-> & _). auto.
  - intros u s. rewrite Hxp. intros Hp. destruct (J6 u s Hp) as (A1 & A2). split; [now apply Ho|]. intros u' j. destruct (Hs u') as (_ & -> & _). apply A2.
Qed.

(** ** the nodes that write free_head_ / guard::next_ *)
Lemma fhead_upd g r v r' : r_fhead (grec (upd_rec g r (rs_fhead v)) r') = if Nat.eqb r' r && Nat.ltb r (List.length (recs g)) then v else r_fhead (grec g r').
Proof. rewrite grec_upd_rec_any. destruct (Nat.eqb r' r && Nat.ltb r (List.length (recs g))); reflexivity. Qed.
Lemma other_upd_fhead g r v r' : r_tid (grec (upd_rec g r (rs_fhead v)) r') = r_tid (grec g r') /\ r_snext (grec (upd_rec g r (rs_fhead v)) r') = r_snext (grec g r').
Proof.
  rewrite grec_upd_rec_any. destruct (Nat.eqb r' r && Nat.ltb r (List.length (recs g))) eqn:E; [|auto].
  apply andb_true_iff in E. destruct E as (E & _). apply Nat.eqb_eq in E. subst. auto.
Qed.
Lemma snext_upd_fhead g r v s : snext_get (upd_rec g r (rs_fhead v)) s = snext_get g s.
Proof. destruct s as [r' i|b i]; cbn; [destruct (other_upd_fhead g r v r') as (_ & ->)|]; reflexivity. Qed.

(** one more cell of the block being prepared is chained *)
Lemma JCh_snext_pb c g st x x' h t b i v n n' : JCh c g st x h -> xc_pb (x t) = Some (b, n, false) ->
  (forall u s, ownc c h u s -> s <> GE b i) ->
  (forall u b' n0 lk0, u <> t -> xc_pb (x u) = Some (b', n0, lk0) -> b' <> b) ->
  (forall i0, Datatypes.S i0 < c_GB c -> i0 < n' -> snext_get (snext_set g (GE b i) v) (GE b i0) = Some (GE b (Datatypes.S i0))) ->
  (n' = c_GB c -> snext_get (snext_set g (GE b i) v) (GE b (c_GB c - 1)) = None) ->
  (forall u, u <> t -> x' u = x u) -> xc_init (x' t) = xc_init (x t) -> xc_pb (x' t) = Some (b, n', false) -> xc_pop (x' t) = xc_pop (x t) ->
  xc_freed (x' t) = xc_freed (x t) -> JCh c (snext_set g (GE b i) v) st x' h.
Proof.
  intros [J1 J2 J3 J4 J5 J6] Hpb Hno Hnb Hc1 Hc2 Hx Ei Eb Ep Ef. set (g' := snext_set g (GE b i) v).
  assert (Hxi : forall u, xc_init (x' u) = xc_init (x u)) by (intros u; destruct (Nat.eq_dec u t) as [->|N]; [exact Ei|now rewrite (Hx u N)]).
  assert (Hxp : forall u, xc_pop (x' u) = xc_pop (x u)) by (intros u; destruct (Nat.eq_dec u t) as [->|N]; [exact Ep|now rewrite (Hx u N)]).
  assert (Hxf : forall u, xc_freed (x' u) = xc_freed (x u)) by (intros u; destruct (Nat.eq_dec u t) as [->|N]; [exact Ef|now rewrite (Hx u N)]).
  assert (Hrec : forall r, grec g' r = grec g r) by reflexivity.
  assert (Hlr : List.length (recs g') = List.length (recs g)) by reflexivity.
  assert (Hlb : List.length (gbs g') = List.length (gbs g)) by (unfold g'; cbn; apply upd_nth_length).
  destruct (J5 t b n false Hpb) as (B1 & _ & _ & B4 & B5).
  constructor.
  - intros r. rewrite Hlr, Hrec. apply J1.
  - intros b0. rewrite Hlb. unfold g'. cbn [snext_set]. rewrite ggb_upd_gb_any.
    destruct (Nat.eqb b0 b && Nat.ltb b (List.length (gbs g))) eqn:E; [|apply J2].
    apply andb_true_iff in E. destruct E as (E & _). apply Nat.eqb_eq in E. subst b0. cbn. rewrite upd_nth_length. apply J2.
  - intros u r Hu. destruct (J3 u r Hu) as (F & F1 & F2 & F3). exists F. rewrite Hrec. split.
    + eapply fchain_ext; [|exact F1]. intros s Hs0. apply snext_get_set_other. destruct (F3 s Hs0) as (A1 & _). now apply (Hno u).
    + split; [exact F2|]. intros s Hs0. destruct (F3 s Hs0) as (A1 & A2 & A3). split; [exact A1|]. split; [now rewrite Hxp|]. rewrite Hxf. exact A3.
  - intros u r. rewrite Hxi, Hrec. intros Hi. destruct (J4 u r Hi) as (A1 & A2). split; [exact A1|]. intros E. eapply fchain_ext; [|exact (A2 E)].
    intros s Hs0. apply snext_get_set_other. apply in_map_iff in Hs0. destruct Hs0 as (i0 & <- & _). discriminate.
  - intros u b0 n0 lk Hp. rewrite Hlb. destruct (Nat.eq_dec u t) as [->|N].
    + rewrite Eb in Hp. inversion Hp; subst. split; [exact B1|]. split; [exact Hc1|]. split; [exact Hc2|]. split; [exact B4|exact B5].
    + rewrite (Hx u N) in Hp. destruct (J5 u b0 n0 lk Hp) as (A1 & A2 & A3 & A4 & A5). pose proof (Hnb u b0 n0 lk N Hp) as Nb.
      split; [exact A1|]. split; [intros i0 L1 L2; unfold g'; rewrite snext_get_set_other by congruence; now apply A2|].
      split; [intros E; unfold g'; rewrite snext_get_set_other by congruence; now apply A3|]. auto.
  - intros u s. rewrite Hxp. apply J6.
Qed.

Lemma fchain_block g b : forall n i, (forall i0, i <= i0 -> i0 < i + n -> snext_get g (GE b i0) = if Nat.eqb (Datatypes.S i0) (i + n) then None else Some (GE b (Datatypes.S i0))) ->
  fchain g (if Nat.eqb n 0 then None else Some (GE b i)) (map (GE b) (seq i n)).
Proof.
  induction n as [|n IH]; intros i Hn; cbn [seq map fchain Nat.eqb]; [reflexivity|]. split; [reflexivity|].
  rewrite (Hn i) by lia. specialize (IH (Datatypes.S i)). destruct n as [|n].
  - cbn. replace (i + 1) with (Datatypes.S i) by lia. now rewrite Nat.eqb_refl.
  - destruct (Nat.eqb_spec (Datatypes.S i) (i + Datatypes.S (Datatypes.S n))) as [E|_]; [lia|]. cbn [Nat.eqb] in IH. apply IH.
    intros i0 L1 L2. rewrite Hn by lia. replace (Datatypes.S i + Datatypes.S n) with (i + Datatypes.S (Datatypes.S n)) by lia. reflexivity.
Qed.

(** extend(): free_head_ = block->first() *)
Lemma JCh_fhead_blk c g st x x' h t r b : JCh c g st x h -> 1 <= c_GB c -> gtl st t = Some r -> xc_pb (x t) = Some (b, c_GB c, true) ->
  xc_pop (x t) = None -> r_tid (grec g r) = Datatypes.S t -> r < List.length (recs g) ->
  (forall i, i < c_GB c -> ownc c h t (GE b i)) -> (forall u, u <> t -> gtl st u <> Some r) ->
  (forall u, u <> t -> x' u = x u) -> xc_init (x' t) = xc_init (x t) -> xc_pb (x' t) = None -> xc_pop (x' t) = xc_pop (x t) ->
  xc_freed (x' t) = xc_freed (x t) -> JCh c (upd_rec g r (rs_fhead (Some (GE b 0)))) st x' h.
Proof.
  intros [J1 J2 J3 J4 J5 J6] HG Ht Hpb Hpop Htid Hr Hown Hnr Hx Ei Eb Ep Ef. set (g' := upd_rec g r (rs_fhead (Some (GE b 0)))).
  assert (Hxi : forall u, xc_init (x' u) = xc_init (x u)) by (intros u; destruct (Nat.eq_dec u t) as [->|N]; [exact Ei|now rewrite (Hx u N)]).
  assert (Hxp : forall u, xc_pop (x' u) = xc_pop (x u)) by (intros u; destruct (Nat.eq_dec u t) as [->|N]; [exact Ep|now rewrite (Hx u N)]).
  assert (Hxf : forall u, xc_freed (x' u) = xc_freed (x u)) by (intros u; destruct (Nat.eq_dec u t) as [->|N]; [exact Ef|now rewrite (Hx u N)]).
  assert (Hsn : forall s, snext_get g' s = snext_get g s) by (intros s; apply snext_upd_fhead).
  assert (Hlr : List.length (recs g') = List.length (recs g)) by apply len_upd_rec.
  destruct (J5 t b _ true Hpb) as (B1 & B2 & B3 & B4 & B5).
  constructor.
  - intros r0. rewrite Hlr. destruct (other_upd_fhead g r (Some (GE b 0)) r0) as (_ & E). unfold g'. rewrite E. apply J1.
  - exact J2.
  - intros u r0 Hu. unfold g'. rewrite fhead_upd. destruct (Nat.eq_dec u t) as [->|N].
    + assert (r0 = r) by congruence. subst r0. rewrite Nat.eqb_refl. apply Nat.ltb_lt in Hr. rewrite Hr. cbn [andb].
      exists (map (GE b) (seq 0 (c_GB c))). split.
      * pose proof (fchain_block g' b (c_GB c) 0) as FB. destruct (Nat.eqb_spec (c_GB c) 0) as [E|_]; [lia|]. apply FB. intros i0 _ L. cbn [plus].
        rewrite Hsn. destruct (Nat.eqb_spec (Datatypes.S i0) (c_GB c)) as [E|NE].
        -- replace i0 with (c_GB c - 1) by lia. now apply B3.
        -- apply B2; lia.
      * split; [apply FinFun.Injective_map_NoDup; [intros a0 b0 E0; now inversion E0|apply seq_NoDup]|].
        intros s Hs0. apply in_map_iff in Hs0. destruct Hs0 as (i & <- & Hi0). apply in_seq in Hi0. split; [apply Hown; lia|].
        split; [rewrite Ep, Hpop; discriminate|]. intros u j Hg. now destruct (B4 i u j).
    + destruct (Nat.eqb_spec r0 r) as [->|Nr]; [now destruct (Hnr u N)|]. cbn [andb]. destruct (J3 u r0 Hu) as (F & F1 & F2 & F3). exists F.
      split; [eapply fchain_ext; [|exact F1]; intros; apply Hsn|]. split; [exact F2|]. intros s Hs0. destruct (F3 s Hs0) as (A1 & A2 & A3).
      split; [exact A1|]. split; [now rewrite Hxp|]. rewrite Hxf. exact A3.
  - intros u r0. rewrite Hxi. intros Hi. destruct (J4 u r0 Hi) as (A1 & A2). split; [exact A1|]. unfold g'.
    destruct (other_upd_fhead g r (Some (GE b 0)) r0) as (-> & _). rewrite fhead_upd. intros E.
    destruct (Nat.eqb_spec r0 r) as [->|Nr]; cbn [andb].
    + exfalso. assert (u = t) by congruence. subst u. congruence.
    + eapply fchain_ext; [|exact (A2 E)]. intros; apply Hsn.
  - intros u b0 n0 lk Hp. destruct (Nat.eq_dec u t) as [->|N]; [rewrite Eb in Hp; discriminate|]. rewrite (Hx u N) in Hp.
    destruct (J5 u b0 n0 lk Hp) as (A1 & A2 & A3 & A4 & A5). split; [exact A1|]. split; [intros i0; rewrite Hsn; apply A2|]. split; [rewrite Hsn; exact A3|auto].
  - intros u s. rewrite Hxp. apply J6.
Qed.

Lemma fchain_cons_inv g o F s : fchain g o F -> o = Some s -> exists F', F = s :: F' /\ fchain g (snext_get g s) F'.
Proof. destruct F as [|s0 F']; cbn; [intros -> E; discriminate|]. intros (E & Hc) E'. assert (s0 = s) by congruence. subst. eauto. Qed.

(** alloc(): g = free_head_; free_head_ = g->next_ *)
Lemma JCh_pop c g st x x' h t r s j : JCh c g st x h -> gtl st t = Some r -> r_fhead (grec g r) = Some s -> gop st t = [3%Z; zn j] ->
  r_tid (grec g r) = Datatypes.S t -> r < List.length (recs g) -> (forall u, u <> t -> gtl st u <> Some r) ->
  (forall u, u <> t -> x' u = x u) -> xc_init (x' t) = xc_init (x t) -> xc_pb (x' t) = xc_pb (x t) -> xc_pop (x' t) = Some s ->
  xc_freed (x' t) = xc_freed (x t) -> JCh c (upd_rec g r (rs_fhead (snext_get g s))) st x' h.
Proof.
  intros [J1 J2 J3 J4 J5 J6] Ht Hfh Hop Htid Hr Hnr Hx Ei Eb Ep Ef. set (g' := upd_rec g r (rs_fhead (snext_get g s))).
  assert (Hxi : forall u, xc_init (x' u) = xc_init (x u)) by (intros u; destruct (Nat.eq_dec u t) as [->|N]; [exact Ei|now rewrite (Hx u N)]).
  assert (Hxb : forall u, xc_pb (x' u) = xc_pb (x u)) by (intros u; destruct (Nat.eq_dec u t) as [->|N]; [exact Eb|now rewrite (Hx u N)]).
  assert (Hxf : forall u, xc_freed (x' u) = xc_freed (x u)) by (intros u; destruct (Nat.eq_dec u t) as [->|N]; [exact Ef|now rewrite (Hx u N)]).
  assert (Hsn : forall s0, snext_get g' s0 = snext_get g s0) by (intros s0; apply snext_upd_fhead).
  assert (Hlr : List.length (recs g') = List.length (recs g)) by apply len_upd_rec.
  destruct (J3 t r Ht) as (F & F1 & F2 & F3). destruct (fchain_cons_inv _ _ _ _ F1 Hfh) as (F' & -> & F1'). inversion F2; subst.
  destruct (F3 s (or_introl eq_refl)) as (S1 & S2 & S3).
  constructor.
  - intros r0. rewrite Hlr. destruct (other_upd_fhead g r (snext_get g s) r0) as (_ & E). unfold g'. rewrite E. apply J1.
  - exact J2.
  - intros u r0 Hu. unfold g'. rewrite fhead_upd. destruct (Nat.eq_dec u t) as [->|N].
    + assert (r0 = r) by congruence. subst r0. rewrite Nat.eqb_refl. apply Nat.ltb_lt in Hr. rewrite Hr. cbn [andb]. exists F'.
      split; [eapply fchain_ext; [|exact F1']; intros; apply Hsn|]. split; [assumption|]. intros s0 Hs0.
      destruct (F3 s0 (or_intror Hs0)) as (A1 & A2 & A3). split; [exact A1|]. split; [rewrite Ep; intros E; inversion E; subst; contradiction|].
      rewrite Ef. exact A3.
    + destruct (Nat.eqb_spec r0 r) as [->|Nr]; [now destruct (Hnr u N)|]. cbn [andb]. destruct (J3 u r0 Hu) as (F0 & G1 & G2 & G3). exists F0.
      split; [eapply fchain_ext; [|exact G1]; intros; apply Hsn|]. split; [exact G2|]. intros s0 Hs0. destruct (G3 s0 Hs0) as (A1 & A2 & A3).
      split; [exact A1|]. split; [now rewrite (Hx u N)|]. rewrite Hxf. exact A3.
  - intros u r0. rewrite Hxi. intros Hi. destruct (J4 u r0 Hi) as (A1 & A2). split; [exact A1|]. unfold g'.
    destruct (other_upd_fhead g r (snext_get g s) r0) as (-> & _). rewrite fhead_upd. intros E.
    destruct (Nat.eqb_spec r0 r) as [->|Nr]; cbn [andb].
    + exfalso. assert (u = t) by congruence. subst u. congruence.
    + eapply fchain_ext; [|exact (A2 E)]. intros; apply Hsn.
  - intros u b0 n0 lk. rewrite Hxb. intros Hp. destruct (J5 u b0 n0 lk Hp) as (A1 & A2 & A3 & A4 & A5). split; [exact A1|].
    split; [intros i0; rewrite Hsn; apply A2|]. split; [rewrite Hsn; exact A3|auto].
  - intros u s0. destruct (Nat.eq_dec u t) as [->|N]; [|rewrite (Hx u N); apply J6]. rewrite Ep. intros E. inversion E; subst s0.
    split; [exact S1|]. intros u j0 Hg. destruct (S3 u j0 Hg) as (_ & _ & B3). rewrite Hop in B3. discriminate.
Qed.

(** free( g ): g->next_ = free_head_; free_head_ = g *)
Lemma JCh_push c g st x x' h t r s j : JCh c g st x h -> gtl st t = Some r -> gop st t = [4%Z; zn j] -> gfind (gmp st t) j = Some s ->
  xc_freed (x t) = false -> xc_pop (x t) = None -> ownc c h t s -> snv g s -> (forall r0 i0, s = GI r0 i0 -> r0 = r) ->
  (forall u j', gfind (gmp st u) j' = Some s -> u = t /\ j' = j) -> (forall u, u <> t -> ~ ownc c h u s) ->
  r_tid (grec g r) = Datatypes.S t -> r < List.length (recs g) -> (forall u, u <> t -> gtl st u <> Some r) ->
  (forall u, u <> t -> x' u = x u) -> xc_init (x' t) = xc_init (x t) -> xc_pb (x' t) = xc_pb (x t) -> xc_pop (x' t) = xc_pop (x t) ->
  xc_freed (x' t) = true -> JCh c (upd_rec (snext_set g s (r_fhead (grec g r))) r (rs_fhead (Some s))) st x' h.
Proof.
  intros [J1 J2 J3 J4 J5 J6] Ht Hop Hg Hfr Hpop Hos Hsv Hsr Hinj Hex Htid Hr Hnr Hx Ei Eb Ep Ef.
  set (g1 := snext_set g s (r_fhead (grec g r))). set (g' := upd_rec g1 r (rs_fhead (Some s))).
  assert (Hxi : forall u, xc_init (x' u) = xc_init (x u)) by (intros u; destruct (Nat.eq_dec u t) as [->|N]; [exact Ei|now rewrite (Hx u N)]).
  assert (Hxb : forall u, xc_pb (x' u) = xc_pb (x u)) by (intros u; destruct (Nat.eq_dec u t) as [->|N]; [exact Eb|now rewrite (Hx u N)]).
  assert (Hxp : forall u, xc_pop (x' u) = xc_pop (x u)) by (intros u; destruct (Nat.eq_dec u t) as [->|N]; [exact Ep|now rewrite (Hx u N)]).
  assert (Hsn : forall s0, s0 <> s -> snext_get g' s0 = snext_get g s0).
  { intros s0 N. unfold g'. rewrite snext_upd_fhead. unfold g1. now apply snext_get_set_other. }
  assert (Hss : snext_get g' s = r_fhead (grec g r)).
  { unfold g'. rewrite snext_upd_fhead. unfold g1. now apply snext_get_set_same. }
  assert (Hl1 : List.length (recs g1) = List.length (recs g)) by (unfold g1; destruct s; cbn; [apply upd_nth_length|reflexivity]).
  assert (Hlr : List.length (recs g') = List.length (recs g)) by (unfold g'; rewrite len_upd_rec; exact Hl1).
  assert (Hlb : List.length (gbs g') = List.length (gbs g)) by (unfold g', g1; destruct s; cbn; [reflexivity|apply upd_nth_length]).
  assert (Hfh : forall r0, r_fhead (grec g' r0) = if Nat.eqb r0 r then Some s else r_fhead (grec g r0)).
  { intros r0. unfold g'. rewrite fhead_upd, Hl1. apply Nat.ltb_lt in Hr. rewrite Hr, andb_true_r. destruct (Nat.eqb r0 r); [reflexivity|].
    unfold g1. destruct s as [r1 i1|b1 i1]; cbn [snext_set]; [|reflexivity]. rewrite grec_upd_rec_any.
    destruct (Nat.eqb r0 r1 && Nat.ltb r1 (List.length (recs g))) eqn:E; [|reflexivity].
    apply andb_true_iff in E. destruct E as (E & _). apply Nat.eqb_eq in E. now subst. }
  assert (Htd : forall r0, r_tid (grec g' r0) = r_tid (grec g r0)).
  { intros r0. unfold g'. destruct (other_upd_fhead g1 r (Some s) r0) as (-> & _). unfold g1. destruct s as [r1 i1|b1 i1]; cbn [snext_set]; [|reflexivity].
    rewrite grec_upd_rec_any. destruct (Nat.eqb r0 r1 && Nat.ltb r1 (List.length (recs g))) eqn:E; [|reflexivity].
    apply andb_true_iff in E. destruct E as (E & _). apply Nat.eqb_eq in E. now subst. }
  destruct (J3 t r Ht) as (F & F1 & F2 & F3).
  assert (HsF : ~ In s F).
  { intros Hin. destruct (F3 s Hin) as (_ & _ & A3). destruct (A3 t j Hg) as (_ & B2 & _). congruence. }
  constructor.
  - intros r0. rewrite Hlr. intros L. unfold g'. destruct (other_upd_fhead g1 r (Some s) r0) as (_ & ->). unfold g1.
    destruct s as [r1 i1|b1 i1]; cbn [snext_set]; [|now apply J1]. rewrite grec_upd_rec_any.
    destruct (Nat.eqb r0 r1 && Nat.ltb r1 (List.length (recs g))) eqn:E; [|now apply J1].
    apply andb_true_iff in E. destruct E as (E & _). apply Nat.eqb_eq in E. subst r0. cbn. rewrite upd_nth_length. now apply J1.
  - intros b0. rewrite Hlb. intros L. unfold g', g1. destruct s as [r1 i1|b1 i1]; cbn [snext_set]; [now apply J2|].
    change (ggb (upd_rec (upd_gb g b1 (fun x0 => gs_snext (upd_nth (gb_snext x0) i1 (fun _ => r_fhead (grec g r))) x0)) r (rs_fhead (Some (GE b1 i1)))) b0)
      with (ggb (upd_gb g b1 (fun x0 => gs_snext (upd_nth (gb_snext x0) i1 (fun _ => r_fhead (grec g r))) x0)) b0).
    rewrite ggb_upd_gb_any. destruct (Nat.eqb b0 b1 && Nat.ltb b1 (List.length (gbs g))) eqn:E; [|now apply J2].
    apply andb_true_iff in E. destruct E as (E & _). apply Nat.eqb_eq in E. subst b0. cbn. rewrite upd_nth_length. now apply J2.
  - intros u r0 Hu. rewrite Hfh. destruct (Nat.eq_dec u t) as [->|N].
    + assert (r0 = r) by congruence. subst r0. rewrite Nat.eqb_refl. exists (s :: F). split.
      * cbn. split; [reflexivity|]. rewrite Hss. eapply fchain_ext; [|exact F1]. intros s0 Hs0. apply Hsn. intros ->. contradiction.
      * split; [constructor; assumption|]. intros s0 [<-|Hs0].
        -- split; [exact Hos|]. split; [rewrite Ep, Hpop; discriminate|]. intros u j' Hg'. destruct (Hinj u j' Hg') as (-> & ->). auto.
        -- destruct (F3 s0 Hs0) as (A1 & A2 & A3). split; [exact A1|]. split; [now rewrite Ep|]. intros u j' Hg'.
           destruct (A3 u j' Hg') as (_ & B2 & _). congruence.
    + destruct (Nat.eqb_spec r0 r) as [->|Nr]; [now destruct (Hnr u N)|]. destruct (J3 u r0 Hu) as (F0 & G1 & G2 & G3). exists F0. split.
      * eapply fchain_ext; [|exact G1]. intros s0 Hs0. apply Hsn. intros ->. destruct (G3 s Hs0) as (A1 & _). now apply (Hex u N).
      * split; [exact G2|]. intros s0 Hs0. destruct (G3 s0 Hs0) as (A1 & A2 & A3). split; [exact A1|]. split; [now rewrite Hxp|]. rewrite (Hx u N). exact A3.
  - intros u r0. rewrite Hxi. intros Hi. destruct (J4 u r0 Hi) as (A1 & A2). split; [exact A1|]. rewrite Htd, Hfh. intros E.
    destruct (Nat.eqb_spec r0 r) as [->|Nr].
    + exfalso. assert (u = t) by congruence. subst u. congruence.
    + eapply fchain_ext; [|exact (A2 E)]. intros s0 Hs0. apply Hsn. intros ->. apply in_map_iff in Hs0. destruct Hs0 as (i0 & E0 & _).
      symmetry in E0. now apply Nr, (Hsr r0 i0).
  - intros u b0 n0 lk. rewrite Hxb, Hlb. intros Hp. destruct (J5 u b0 n0 lk Hp) as (A1 & A2 & A3 & A4 & A5). split; [exact A1|].
    assert (Nb : forall i0, GE b0 i0 <> s) by (intros i0 E; apply (A4 i0 t j); now rewrite E).
    split; [intros i0 L1 L2; rewrite Hsn by apply Nb; now apply A2|]. split; [intros E; rewrite Hsn by apply Nb; now apply A3|auto].
  - intros u s0. rewrite Hxp. apply J6.
Qed.

Lemma eff_H_pos c : 1 <= eff_H c.
Proof. unfold eff_H. destruct (Nat.ltb_spec (c_H c) 4); lia. Qed.

Lemma fchain_arr g r : forall n i, (forall i0, i <= i0 -> i0 < i + n -> snext_get g (GI r i0) = if Nat.eqb (Datatypes.S i0) (i + n) then None else Some (GI r (Datatypes.S i0))) ->
  fchain g (if Nat.eqb n 0 then None else Some (GI r i)) (map (GI r) (seq i n)).
Proof.
  induction n as [|n IH]; intros i Hn; cbn [seq map fchain Nat.eqb]; [reflexivity|]. split; [reflexivity|].
  rewrite (Hn i) by lia. specialize (IH (Datatypes.S i)). destruct n as [|n].
  - cbn. replace (i + 1) with (Datatypes.S i) by lia. now rewrite Nat.eqb_refl.
  - destruct (Nat.eqb_spec (Datatypes.S i) (i + Datatypes.S (Datatypes.S n))) as [E|_]; [lia|]. cbn [Nat.eqb] in IH. apply IH.
    intros i0 L1 L2. rewrite Hn by lia. replace (Datatypes.S i + Datatypes.S n) with (i + Datatypes.S (Datatypes.S n)) by lia. reflexivity.
Qed.

(** hp_init: the free chain of the record is the whole initial array *)
Lemma JCh_init c g st x x' h t r : JCh c g st x h -> gtl st t = None -> r < List.length (recs g) ->
  (forall u, gtl st u <> Some r) -> (forall u i, ~ ownc c h u (GI r i)) ->
  (forall u, u <> t -> x' u = x u) -> xc_init (x' t) = Some r -> xc_pb (x' t) = xc_pb (x t) -> xc_pop (x' t) = xc_pop (x t) ->
  xc_freed (x' t) = xc_freed (x t) -> JCh c (fst (hp_init c r g)) st x' h.
Proof.
  intros [J1 J2 J3 J4 J5 J6] Ht Hr Hnr Hno Hx Ei Eb Ep Ef. set (g' := fst (hp_init c r g)). set (hh := eff_H c).
  assert (Hxb : forall u, xc_pb (x' u) = xc_pb (x u)) by (intros u; destruct (Nat.eq_dec u t) as [->|N]; [exact Eb|now rewrite (Hx u N)]).
  assert (Hxp : forall u, xc_pop (x' u) = xc_pop (x u)) by (intros u; destruct (Nat.eq_dec u t) as [->|N]; [exact Ep|now rewrite (Hx u N)]).
  assert (Hxf : forall u, xc_freed (x' u) = xc_freed (x u)) by (intros u; destruct (Nat.eq_dec u t) as [->|N]; [exact Ef|now rewrite (Hx u N)]).
  assert (Hro : forall r0, r0 <> r -> grec g' r0 = grec g r0).
  { intros r0 N. unfold g', hp_init. cbn [fst]. apply grec_upd_rec_other. congruence. }
  assert (Hrr : r_fhead (grec g' r) = Some (GI r 0) /\
                r_snext (grec g' r) = map (fun i => if Nat.eqb (Datatypes.S i) hh then None else Some (GI r (Datatypes.S i))) (seq 0 hh) /\
                r_tid (grec g' r) = r_tid (grec g r)).
  { unfold g', hp_init. cbn [fst]. rewrite grec_upd_rec_same by exact Hr. cbn. auto. }
  destruct Hrr as (R1 & R2 & R3).
  assert (Hsn : forall s, (forall i, s <> GI r i) -> snext_get g' s = snext_get g s).
  { intros [r0 i0|b0 i0] N; cbn; [|reflexivity]. rewrite Hro; [reflexivity|]. intros ->. now apply (N i0). }
  assert (Hlr : List.length (recs g') = List.length (recs g)) by (unfold g', hp_init; cbn [fst]; apply len_upd_rec).
  assert (Hfull : fchain g' (r_fhead (grec g' r)) (map (GI r) (seq 0 hh))).
  { rewrite R1. pose proof (fchain_arr g' r hh 0) as FA. pose proof (eff_H_pos c) as HP. fold hh in HP.
    destruct (Nat.eqb_spec hh 0) as [E|_]; [lia|]. apply FA. intros i0 _ L. cbn [plus snext_get]. rewrite R2.
    rewrite (nth_indep _ None (if Nat.eqb (Datatypes.S i0) hh then None else Some (GI r (Datatypes.S i0)))) by (rewrite map_length, seq_length; exact L).
    rewrite (map_nth (fun i => if Nat.eqb (Datatypes.S i) hh then None else Some (GI r (Datatypes.S i)))). rewrite seq_nth by exact L. reflexivity. }
  constructor.
  - intros r0. rewrite Hlr. intros L. destruct (Nat.eq_dec r0 r) as [->|N]; [rewrite R2, map_length, seq_length; reflexivity|rewrite (Hro r0 N); now apply J1].
  - exact J2.
  - intros u r0 Hu. assert (N : r0 <> r) by (intros ->; now apply (Hnr u)). rewrite (Hro r0 N). destruct (J3 u r0 Hu) as (F & F1 & F2 & F3). exists F.
    split; [eapply fchain_ext; [|exact F1]; intros s Hs0; apply Hsn; intros i ->; destruct (F3 _ Hs0) as (A1 & _); now apply (Hno u i)|].
    split; [exact F2|]. intros s Hs0. destruct (F3 s Hs0) as (A1 & A2 & A3). split; [exact A1|]. split; [now rewrite Hxp|]. rewrite Hxf. exact A3.
  - intros u r0 Hi. assert (Hg0 : gtl st u = None).
    { destruct (Nat.eq_dec u t) as [->|N]; [exact Ht|]. rewrite (Hx u N) in Hi. now destruct (J4 u r0 Hi). }
    split; [exact Hg0|]. destruct (Nat.eq_dec r0 r) as [->|N]; [intros _; exact Hfull|]. rewrite (Hro r0 N).
    assert (Hi0 : xc_init (x u) = Some r0).
    { destruct (Nat.eq_dec u t) as [->|Nu]; [rewrite Ei in Hi; congruence|now rewrite (Hx u Nu) in Hi]. }
    destruct (J4 u r0 Hi0) as (_ & A2). intros E. eapply fchain_ext; [|exact (A2 E)]. intros s Hs0. apply Hsn. intros i ->.
    apply in_map_iff in Hs0. destruct Hs0 as (i1 & E1 & _). congruence.
  - intros u b0 n0 lk. rewrite Hxb. intros Hp. destruct (J5 u b0 n0 lk Hp) as (A1 & A2 & A3 & A4 & A5). split; [exact A1|].
    split; [intros i0; rewrite Hsn by discriminate; apply A2|]. split; [rewrite Hsn by discriminate; exact A3|auto].
  - intros u s. rewrite Hxp. apply J6.
Qed.

(** a thread record / a guard block is created *)
Lemma JCh_new_rec c g st x h v : JCh c g st x h -> List.length (r_snext v) = eff_H c -> r_tid v = 0 ->
  (forall t r, gtl st t = Some r -> r < List.length (recs g)) -> (forall u r i, ownc c h u (GI r i) -> r < List.length (recs g)) ->
  JCh c (set_recs g (recs g ++ [v])) st x h.
Proof.
  intros [J1 J2 J3 J4 J5 J6] Hv Htv Hat Hown. set (g' := set_recs g (recs g ++ [v])). set (n := List.length (recs g)).
  assert (Hlen : List.length (recs g') = Datatypes.S n) by (unfold g'; cbn; rewrite app_length; cbn; lia).
  assert (Hold : forall r, r < n -> grec g' r = grec g r) by (intros r L; unfold g'; now rewrite grec_app_old).
  assert (Hsn : forall s, (forall r i, s = GI r i -> r < n) -> snext_get g' s = snext_get g s).
  { intros [r i|b i] Hs; cbn; [rewrite Hold; [reflexivity|eapply Hs; eauto]|reflexivity]. }
  constructor.
  - intros r. rewrite Hlen. intros L. destruct (Nat.eq_dec r n) as [->|N]; [unfold g', n; now rewrite grec_app_new|]. rewrite Hold by lia. apply J1. unfold n in *. lia.
  - exact J2.
  - intros t r Ht. pose proof (Hat t r Ht) as L. rewrite Hold by exact L. destruct (J3 t r Ht) as (F & F1 & F2 & F3). exists F.
    split; [|auto]. eapply fchain_ext; [|exact F1]. intros s Hs0. apply Hsn. intros r0 i0 ->. destruct (F3 _ Hs0) as (A1 & _). eapply Hown; eauto.
  - intros t r Hi. destruct (J4 t r Hi) as (A1 & A2). split; [exact A1|]. destruct (Nat.lt_ge_cases r n) as [L|L].
    + rewrite Hold by exact L. intros E. eapply fchain_ext; [|exact (A2 E)]. intros s Hs0. apply Hsn. intros r0 i0 ->.
      apply in_map_iff in Hs0. destruct Hs0 as (i1 & E1 & _). inversion E1; subst. exact L.
    + intros E. exfalso. destruct (Nat.eq_dec r n) as [->|N]; [unfold g', n in E; rewrite grec_app_new in E; lia|].
      rewrite (grec_oob g' r) in E by lia. cbn in E. lia.
  - intros t b n0 lk Hp. destruct (J5 t b n0 lk Hp) as (A1 & A2 & A3 & A4 & A5). auto.
  - exact J6.
Qed.

Lemma JCh_new_gblock c g st x h blk : JCh c g st x h -> List.length (gb_snext blk) = c_GB c ->
  (forall u b i, ownc c h u (GE b i) -> b < List.length (gbs g)) ->
  JCh c (set_gbs g (gbs g ++ [blk])) st x h.
Proof.
  intros [J1 J2 J3 J4 J5 J6] Hv Hown. set (g' := set_gbs g (gbs g ++ [blk])). set (n := List.length (gbs g)).
  assert (Hlen : List.length (gbs g') = Datatypes.S n) by (unfold g'; cbn; rewrite app_length; cbn; lia).
  assert (Hold : forall b, b < n -> ggb g' b = ggb g b) by (intros b L; unfold g'; now rewrite ggb_app_old).
  constructor; auto.
  - intros b. rewrite Hlen. intros L. destruct (Nat.eq_dec b n) as [->|N].
    + unfold g', n, ggb. cbn. rewrite app_nth2, Nat.sub_diag by lia. exact Hv.
    + rewrite Hold by lia. apply J2. unfold n in *. lia.
  - intros t r Ht. destruct (J3 t r Ht) as (F & F1 & F2 & F3). exists F. split; [|auto]. eapply fchain_ext; [|exact F1]. intros s Hs0.
    destruct (F3 s Hs0) as (A1 & _). destruct s as [r0 i0|b0 i0]; [reflexivity|]. cbn. rewrite Hold; [reflexivity|]. eapply Hown; eauto.
  - intros t r Hi. destruct (J4 t r Hi) as (A1 & A2). split; [exact A1|]. intros E. eapply fchain_ext; [|exact (A2 E)]. intros s Hs0.
    apply in_map_iff in Hs0. destruct Hs0 as (i1 & <- & _). reflexivity.
  - intros t b n0 lk Hp. destruct (J5 t b n0 lk Hp) as (A1 & A2 & A3 & A4 & A5). rewrite Hlen. split; [unfold n; lia|].
    split; [intros i L1 L2; cbn; rewrite Hold by exact A1; now apply A2|]. split; [intros E; cbn; rewrite Hold by exact A1; now apply A3|auto].
Qed.
