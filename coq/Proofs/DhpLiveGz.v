(** * DhpLiveGz: C02, second sentence for DHP at the level of the client's Guard object -- what is proved.

    [dhp_guarded_ptr_live_partial]: the client-level statement [DhpLiveF.dhp_guarded_ptr_live_statement] with
    - NO hypothesis on the embedded free lists ([DhpFlThm.dhp_flbad_false]) and NO hypothesis [scan_frees_older]
      ([DhpLiveGsG.dhp_scan_frees_older], proved for every schedule), under the side conditions of those theorems
      (retired-block size >= 4, current-code configuration, fewer than 2^31-3 threads, every object retired at most once);
    - GIVEN [DhpLiveGcE.guard_cell_exclusive] for the trace: the hazard cell protect() stored into stays a cell of the
      thread's attached record and nobody stores into it until the thread starts a releasing operation on that Guard.
    The latter is what remains open ([DhpLiveGcE.dhp_guard_cell_exclusive_corrected_statement]; the literal statement of
    DhpLiveF is refuted for the degenerate block size c_GB = 0 in DhpLiveGcRefute). *)
From Coq Require Import ZArith NArith List String Bool Lia PeanoNat.
From LV Require Import Base.Conc Base.Events Model.DhpLang Model.Dhp Proofs.DhpBase Proofs.DhpHist Proofs.DhpInvB
  Proofs.DhpLiveA Proofs.DhpLiveB Proofs.DhpLiveD Proofs.DhpLiveE Proofs.DhpLiveF Proofs.DhpFlThm Proofs.DhpLiveGsG Proofs.DhpLiveGcE.
Import ListNotations.
Local Open Scope string_scope.
Local Open Scope list_scope.

Theorem dhp_guarded_ptr_live_partial : forall fuel c ths conf,
  Conc.reach (init_cfg fuel c ths) conf ->
  4 <= c_RB c -> c_old c = false -> c_oldtail c = false ->
  (Z.of_nat (List.length ths) + 3 < 2147483648)%Z ->
  NoDup (flat_map (fun e => retired_ev (snd e)) (Conc.trace conf)) ->
  guard_cell_exclusive c (Conc.trace conf) ->
  forall p, p <> 0 -> publish_once (Conc.trace conf) p -> retire_after_unlink (Conc.trace conf) p ->
  forall v t j k, nth_error (Conc.trace conf) v = Some (t, EvCli "ret" [zn p]) ->
    lop (sfold (firstn v (Conc.trace conf))) t = [7%Z; zn j; zn k] ->
  forall d u, v < d -> nth_error (Conc.trace conf) d = Some (u, ev_dispose p) ->
  exists i e, v < i < d /\ nth_error (Conc.trace conf) i = Some (t, e) /\ releasesD j e.
Proof.
  intros fuel c ths conf Hr H4 Ho Ht Hn Hnd Hex.
  apply (dhp_guarded_ptr_live_from_exclusive fuel c ths conf Hr).
  - exact (dhp_flbad_false fuel c ths conf H4 Ho Ht Hn Hr).
  - exact (dhp_scan_frees_older fuel c ths conf Hr H4 Ho Ht Hn Hnd).
  - exact Hex.
Qed.
