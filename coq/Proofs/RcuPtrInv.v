(** * RcuPtr: the custody invariant of the container client (LV.Model.RcuPtr) - definitions and step lemmas.

    Ghost state: [a_gone p] = node p has been physically unlinked; [a_owner p] = the thread that took p into its
    custody and the position of its "hold p" event (the unlinking thread for an erase-marked node, the marking
    thread for an extract-marked node).  Per thread: the start of its current outermost section, the nodes in its
    chains ([v_live]), its extracted node ([v_x]), the nodes it has released with the position of the "release"
    event ([v_batch]), the node it loaded from the head in this section ([v_seen]), mark bits it has loaded ([v_mk]). *)
From Coq Require Import ZArith List String Bool Lia PeanoNat.
From LV Require Import Base.Conc Base.Events Model.RcuGp Model.RcuPtr Proofs.RcuGpInv.
Import ListNotations.
Local Open Scope string_scope.
Local Open Scope list_scope.
Local Open Scope Z_scope.

(** ** events *)
Definition is_hold (p : Z) : ev -> bool := cli_is "hold" p.
Definition is_touch (p : Z) : ev -> bool := cli_is "touch" p.
Definition is_release (p : Z) (e : ev) : bool :=
  match e with EvCli n args => String.eqb n "release" && existsb (Z.eqb p) args | _ => false end.

(** thread [w] is outside every read-side section at position [k] *)
Definition outside_at (tr : trace) (w k : nat) : Prop := forall s, ~ open_at tr w s k.

Record L2 := mkL2 {
  v_cs : option nat;
  v_live : list (Z * nat);
  v_x : option (Z * nat * bool);
  v_batch : list (Z * nat * nat);
  v_seen : option Z;
  v_mk : option (Z * Z)
}.

Record Aux2 := mkA2 { a_loc : nat -> L2; a_gone : Z -> bool; a_owner : Z -> option (nat * nat) }.
Definition view2 (a : Aux2) (t : nat) : L2 := a_loc a t.
Definition l20 : L2 := mkL2 None [] None [] None None.

Definition updL (f : nat -> L2) (t : nat) (l : L2) : nat -> L2 := fun x => if Nat.eqb x t then l else f x.
Definition updZ {A} (f : Z -> A) (p : Z) (x : A) : Z -> A := fun q => if q =? p then x else f q.

Lemma updL_same f t l : updL f t l t = l.
Proof. unfold updL. now rewrite Nat.eqb_refl. Qed.
Lemma updL_other f t l t' : t' <> t -> updL f t l t' = f t'.
Proof. unfold updL. intros H. destruct (Nat.eqb_spec t' t); congruence. Qed.
Lemma updZ_same {A} (f : Z -> A) p x : updZ f p x p = x.
Proof. unfold updZ. now rewrite Z.eqb_refl. Qed.
Lemma updZ_other {A} (f : Z -> A) p x q : q <> p -> updZ f p x q = f q.
Proof. unfold updZ. intros H. destruct (Z.eqb_spec q p); congruence. Qed.

(** ** the invariant *)
Record InvS (g : PG) (a : Aux2) : Prop := {
  S1 : pg_head g <> 0 -> 0 < pg_head g < pg_next g /\ a_gone a (pg_head g) = false;
  S2 : 0 < pg_next g;
  S3 : forall p, 0 < p < pg_next g -> a_gone a p = false -> pg_head g = p;
  S4 : forall p, a_gone a p = true -> 0 < p < pg_next g /\ pg_mark g p <> 0;
  S5 : forall p, pg_mark g p <> 0 -> 0 < p < pg_next g;
  S6 : forall p h u, a_owner a p = Some (h, u) -> pg_mark g p = 3 \/ a_gone a p = true;
  K1 : forall t p m, v_mk (a_loc a t) = Some (p, m) -> pg_mark g p = m /\ m <> 0;
  VR : forall t p, v_seen (a_loc a t) = Some p -> 0 < p < pg_next g;
  C1 : forall t p u, In (p, u) (v_live (a_loc a t)) -> a_owner a p = Some (t, u) /\ a_gone a p = true;
  CX : forall t p u b, v_x (a_loc a t) = Some (p, u, b) -> a_owner a p = Some (t, u) /\ (b = true -> a_gone a p = true);
  CB : forall t p u r, In (p, u, r) (v_batch (a_loc a t)) -> a_owner a p = Some (t, u) /\ a_gone a p = true /\ (u < r)%nat
}.

Record InvT (a : Aux2) (tr : trace) : Prop := {
  O1 : forall p h u, a_owner a p = Some (h, u) <-> at_ tr u h (is_hold p);
  BT : forall t p u r, In (p, u, r) (v_batch (a_loc a t)) -> at_ tr r t (is_release p) /\ outside_at tr t r;
  TA : forall r s, v_cs (a_loc a r) = Some s -> at_ tr s r is_rlock1 /\ forall b, (s < b)%nat -> ~ at_ tr b r is_runlock0;
  TB : forall r s, at_ tr s r is_rlock1 -> v_cs (a_loc a r) = Some s \/ exists b, (s < b)%nat /\ at_ tr b r is_runlock0;
  V1 : forall r p, v_seen (a_loc a r) = Some p ->
         exists s, v_cs (a_loc a r) = Some s /\ forall k w, at_ tr k w (is_retire p) -> (s < k)%nat;
  R1 : forall k w p, at_ tr k w (is_retire p) ->
         a_gone a p = true /\
         exists u r, (u < r < k)%nat /\ at_ tr u w (is_hold p) /\ at_ tr r w (is_release p) /\ outside_at tr w r /\ outside_at tr w k;
  R3 : forall x r p, at_ tr x r (is_touch p) ->
         exists s, (s < x)%nat /\ at_ tr s r is_rlock1 /\ (forall b, (s < b < x)%nat -> ~ at_ tr b r is_runlock0) /\
                   forall k w, at_ tr k w (is_retire p) -> (s < k)%nat
}.

Definition Inv2 (g : PG) (a : Aux2) (tr : trace) : Prop := InvS g a /\ InvT a tr.

(** ** events appended by one step *)
Lemma at_tag_inv tr t es i w P :
  at_ (tr ++ Conc.tag t es) i w P ->
  at_ tr i w P \/ (w = t /\ exists j e, nth_error es j = Some e /\ i = (List.length tr + j)%nat /\ P e = true).
Proof.
  intros (e & H & HP). destruct (Nat.lt_ge_cases i (List.length tr)) as [Hi|Hi].
  - left. exists e. rewrite nth_error_app1 in H by exact Hi. auto.
  - right. rewrite nth_error_app2 in H by exact Hi. unfold Conc.tag in H. rewrite nth_error_map in H.
    destruct (nth_error es (i - List.length tr)) as [e'|] eqn:E; [|discriminate]. cbn in H. inversion H; subst.
    split; [reflexivity|]. exists (i - List.length tr)%nat, e. split; [exact E|]. split; [lia|exact HP].
Qed.

Lemma at_tag_last tr t es j e P :
  nth_error es j = Some e -> P e = true -> at_ (tr ++ Conc.tag t es) (List.length tr + j) t P.
Proof.
  intros H HP. exists e. split; [|exact HP]. rewrite nth_error_app2 by lia.
  replace (List.length tr + j - List.length tr)%nat with j by lia. unfold Conc.tag. rewrite nth_error_map, H. reflexivity.
Qed.

Lemma open_at_tag_l tr x r s i : open_at tr r s i -> (i <= List.length tr)%nat -> open_at (tr ++ x) r s i.
Proof. apply open_at_app_l. Qed.

Lemma outside_app tr x w k : outside_at tr w k -> (k <= List.length tr)%nat -> outside_at (tr ++ x) w k.
Proof. intros H Hk s Ho. apply (H s). eapply open_at_app_inv; eauto. Qed.

(** no event of the step satisfies [P] *)
Definition none_of (es : list ev) (P : ev -> bool) : Prop := forall e, In e es -> P e = false.

Lemma at_tag_old tr t es i w P : none_of es P -> at_ (tr ++ Conc.tag t es) i w P -> at_ tr i w P.
Proof.
  intros N H. apply at_tag_inv in H. destruct H as [H|(_ & j & e & Hn & _ & HP)]; [exact H|].
  apply nth_error_In in Hn. rewrite (N e Hn) in HP. discriminate.
Qed.

(** an event list that the trace clauses do not look at *)
Definition inert (es : list ev) : Prop :=
  none_of es is_rlock1 /\ none_of es is_runlock0 /\ (forall p, none_of es (is_hold p)) /\
  (forall p, none_of es (is_retire p)) /\ (forall p, none_of es (is_touch p)).

(** the trace group when the step appends no rlock 1 / runlock 0 / retire / touch event, [v_cs] and [v_batch] stay,
    [gone] only grows, the owner clause is re-established by the caller, [v_seen] is unchanged, cleared or justified *)
Lemma InvT_gen a a' tr t es :
  none_of es is_rlock1 -> none_of es is_runlock0 -> (forall p, none_of es (is_retire p)) -> (forall p, none_of es (is_touch p)) ->
  (forall p, a_gone a p = true -> a_gone a' p = true) ->
  (forall p h u, a_owner a' p = Some (h, u) <-> at_ (tr ++ Conc.tag t es) u h (is_hold p)) ->
  (forall x, v_cs (a_loc a' x) = v_cs (a_loc a x) /\ v_batch (a_loc a' x) = v_batch (a_loc a x)) ->
  (forall x p, v_seen (a_loc a' x) = Some p -> v_seen (a_loc a x) = Some p \/
     (x = t /\ exists s, v_cs (a_loc a x) = Some s /\ forall k w, at_ tr k w (is_retire p) -> (s < k)%nat)) ->
  InvT a tr -> InvT a' (tr ++ Conc.tag t es).
Proof.
  intros N1 N2 N4 N6 Hg HO Ef Es [O B TA0 TB0 V R RR]. constructor.
  - exact HO.
  - intros x p u r. destruct (Ef x) as (_ & ->). intros H. destruct (B x p u r H) as (B1 & B2).
    split; [apply at_app_l; exact B1|]. apply outside_app; [exact B2|]. apply at_lt in B1. lia.
  - intros r s. destruct (Ef r) as (-> & _). intros H. destruct (TA0 r s H) as (A1 & A2). split; [apply at_app_l; exact A1|].
    intros b Hb Hat. apply (A2 b Hb). eapply at_tag_old; [apply N2|exact Hat].
  - intros r s H. destruct (Ef r) as (-> & _). apply at_tag_old in H; [|apply N1].
    destruct (TB0 r s H) as [A|(b & Hb & Hat)]; [left; exact A|right; exists b; split; [exact Hb|apply at_app_l; exact Hat]].
  - intros r p H. destruct (Ef r) as (-> & _). destruct (Es r p H) as [H'|(-> & s & Hs & Hk)].
    + destruct (V r p H') as (s & Hs & Hk). exists s. split; [exact Hs|]. intros k w Hat. apply (Hk k w).
      eapply at_tag_old; [apply N4|exact Hat].
    + exists s. split; [exact Hs|]. intros k w Hat. apply (Hk k w). eapply at_tag_old; [apply N4|exact Hat].
  - intros k w p H. apply at_tag_old in H; [|apply N4]. destruct (R k w p H) as (G & u & r & Hur & H1 & H2 & H3 & H4).
    split; [apply Hg; exact G|]. exists u, r. pose proof (at_lt _ _ _ _ H) as Lk. split; [exact Hur|]. split; [apply at_app_l; exact H1|].
    split; [apply at_app_l; exact H2|]. split; apply outside_app; auto; lia.
  - intros x r p H. apply at_tag_old in H; [|apply N6]. destruct (RR x r p H) as (s & Hs & H1 & H2 & H3).
    exists s. split; [exact Hs|]. split; [apply at_app_l; exact H1|]. split.
    + intros b Hb Hat. apply (H2 b Hb). eapply at_tag_old; [apply N2|exact Hat].
    + intros k w Hat. apply (H3 k w). eapply at_tag_old; [apply N4|exact Hat].
Qed.

Lemma InvT_inert a a' tr t es :
  inert es ->
  a_owner a' = a_owner a -> a_gone a' = a_gone a ->
  (forall x, v_cs (a_loc a' x) = v_cs (a_loc a x) /\ v_batch (a_loc a' x) = v_batch (a_loc a x)) ->
  (forall x p, v_seen (a_loc a' x) = Some p -> v_seen (a_loc a x) = Some p \/
     (x = t /\ exists s, v_cs (a_loc a x) = Some s /\ forall k w, at_ tr k w (is_retire p) -> (s < k)%nat)) ->
  InvT a tr -> InvT a' (tr ++ Conc.tag t es).
Proof.
  intros (N1 & N2 & N3 & N4 & N6) Eo Eg Ef Es H. apply InvT_gen with (a := a); auto.
  - intros p Hp. rewrite Eg. exact Hp.
  - intros p h u. rewrite Eo. split.
    + intros X. apply at_app_l. apply (O1 _ _ H); exact X.
    + intros X. apply (O1 _ _ H). eapply at_tag_old; [apply N3|exact X].
Qed.

Lemma inert_acc kd o ok : inert (acc kd o ok).
Proof. repeat split; intros; intros e [<-|[]]; reflexivity. Qed.

Lemma inert_acc_cli kd o ok n args :
  is_rlock1 (EvCli n args) = false -> is_runlock0 (EvCli n args) = false -> (forall p, is_hold p (EvCli n args) = false) ->
  (forall p, is_retire p (EvCli n args) = false) ->
  (forall p, is_touch p (EvCli n args) = false) -> inert [EvAcc kd o ok; EvCli n args].
Proof. intros. repeat split; intros; intros e [<-|[<-|[]]]; auto. Qed.

Lemma inert_cli n args :
  is_rlock1 (EvCli n args) = false -> is_runlock0 (EvCli n args) = false -> (forall p, is_hold p (EvCli n args) = false) ->
  (forall p, is_retire p (EvCli n args) = false) ->
  (forall p, is_touch p (EvCli n args) = false) -> inert (cli n args).
Proof. intros. repeat split; intros; intros e [<-|[]]; auto. Qed.

(** ** steps that change only what the state group constrains *)

(** same shared container state, same ghost state *)
Lemma InvS_base g g' a : pg_head g' = pg_head g -> pg_mark g' = pg_mark g -> pg_next g' = pg_next g -> InvS g a -> InvS g' a.
Proof. intros E1 E2 E3 [A1 A2 A3 A4 A5 A6 A7 A8 A9 A10 A11]. constructor; rewrite ?E1, ?E2, ?E3; assumption. Qed.

(** thread [t] changes its view in [v_seen], [v_mk], the flag of [v_x], and may forget [v_cs]-independent data *)
Lemma InvS_view g a t l' :
  v_live l' = v_live (a_loc a t) -> v_batch l' = v_batch (a_loc a t) ->
  (forall p m, v_mk l' = Some (p, m) -> v_mk (a_loc a t) = Some (p, m) \/ (pg_mark g p = m /\ m <> 0)) ->
  (forall p, v_seen l' = Some p -> v_seen (a_loc a t) = Some p \/ 0 < p < pg_next g) ->
  (forall p u b, v_x l' = Some (p, u, b) -> exists b0, v_x (a_loc a t) = Some (p, u, b0) /\ (b = true -> b0 = true \/ a_gone a p = true)) ->
  InvS g a -> InvS g (mkA2 (updL (a_loc a) t l') (a_gone a) (a_owner a)).
Proof.
  intros E1 E2 Hm Hs Hx [A1 A2 A3 A4 A5 A6 A7 A8 A9 A10 A11]. constructor; cbn [a_loc a_gone a_owner]; auto.
  - intros x p m. unfold updL. destruct (Nat.eqb_spec x t) as [->|]; [|apply A7]. intros H. destruct (Hm p m H) as [H'|H']; [eapply A7; eauto|exact H'].
  - intros x p. unfold updL. destruct (Nat.eqb_spec x t) as [->|]; [|apply A8]. intros H. destruct (Hs p H) as [H'|H']; [eapply A8; eauto|exact H'].
  - intros x p u. unfold updL. destruct (Nat.eqb_spec x t) as [->|]; [rewrite E1|]; apply A9.
  - intros x p u b. unfold updL. destruct (Nat.eqb_spec x t) as [->|]; [|apply A10]. intros H.
    destruct (Hx p u b H) as (b0 & H0 & Hb). destruct (A10 t p u b0 H0) as (B1 & B2). split; [exact B1|].
    intros Eb. destruct (Hb Eb) as [X|X]; [apply B2; exact X|exact X].
  - intros x p u r. unfold updL. destruct (Nat.eqb_spec x t) as [->|]; [rewrite E2|]; apply A11.
Qed.
