(** * MichaelListFromModel: the MichaelList<HP> model with searches that start at an arbitrary anchor node.

    LV.Model.MichaelList starts every search at m_pHead.  cds::intrusive::SplitListSet calls the same list code with
    a bucket head: the search starts at an auxiliary ("dummy") node that is on the chain and is never unlinked.
    This file is LV.Model.MichaelList with one change: [search_from h] re-starts ( try_again: ) at the next cell of
    the node [h] instead of m_pHead; state, atomic accesses, link_node, unlink_node and the guard traffic are those
    of LV.Model.MichaelList, literally (same types, same [act]s), so that the structural invariant [IS] and every
    step lemma of the C13 development apply unchanged.

    Which keys belong to anchors is a parameter [ak : Z -> bool] (split-list: the even split-order keys).  The
    client protocol that makes an anchor permanent is part of the model: an erasing call (erase, unlink, extract)
    on a key with [ak k = true] is not executed.  Anchors can be inserted at any time by any thread (insert /
    update with an [ak] key).

    How a call obtains its start node.  Client operation [code; k; x; s]: when [ak s = true] and [s < k] the call
    first looks the anchor with key [s] up with an ordinary search from m_pHead; if it finds a node with key [s] the
    operation proper runs from that node, otherwise from m_pHead.  (SplitListSet reads the anchor from its bucket
    table instead; what the proofs need from either source is the same: the thread knows that the start node was
    published with a key [s < k], [ak s = true].)  [search_from LHead] is [search], clause by clause. *)
From Coq Require Import ZArith List String Bool Lia PeanoNat.
From LV Require Import Base.Conc Base.Events.
From LV Require Import Model.MichaelList.
Import ListNotations.
Local Open Scope Z_scope.

Notation "x <- p ;; q" := (Conc.bind p (fun x => q)) (at level 61, p at next level, right associativity).

(** [st = None]: at try_again; [Some (pPrev, pCur)]: at the head of the while loop *)
Fixpoint search_from (h : loc) (fuel : nat) (t g0 g1 g2 : nat) (k : Z) (st : option (loc * V)) : prog (option (bool * pos)) :=
  match fuel with
  | O => Ret None
  | S f =>
      match st with
      | None =>
          ov <- protect f t g1 h ;;
          match ov with
          | None => Ret None
          | Some v => search_from h f t g0 g1 g2 k (Some (h, v))
          end
      | Some (pPrev, pCur) =>
          if Nat.eqb (vptr pCur) 0 then Ret (Some (false, mkPos pPrev 0 0))
          else
            ov <- protect f t g2 (LNext (vptr pCur)) ;;
            match ov with
            | None => Ret None
            | Some pNext =>
                Act (a_ld pPrev) (fun pv =>
                  if negb (Nat.eqb (vptr pv) (vptr pCur) && negb (vmark pv)) then search_from h f t g0 g1 g2 k None
                  else if vmark pNext then
                    Act (a_cas pPrev (vptr pCur) (vptr pNext) false) (fun r =>
                      if vmark r then
                        _ <- retire t ;;
                        _ <- copy_guard t g1 g2 ;;
                        search_from h f t g0 g1 g2 k (Some (pPrev, pNext))
                      else search_from h f t g0 g1 g2 k None)
                  else if Z.leb k (vkey pCur) then
                    Ret (Some (Z.eqb (vkey pCur) k, mkPos pPrev (vptr pCur) (vptr pNext)))
                  else
                    _ <- copy_guard t g0 g1 ;;
                    _ <- copy_guard t g1 g2 ;;
                    search_from h f t g0 g1 g2 k (Some (LNext (vptr pCur), pNext)))
            end
      end
  end.

Fixpoint insert_loop_from (h : loc) (fuel sf : nat) (ic withf : bool) (t g0 g1 g2 : nat) (k : Z) (fr : list nat) (own : option nat)
  : prog (out (bool * option nat)) :=
  match fuel with
  | O => Ret None
  | S f =>
      r <- search_from h sf t g0 g1 g2 k None ;;
      match r with
      | None => Ret None
      | Some (true, _) => Ret (Some (false, None))
      | Some (false, p) =>
          if withf then
            let (g, fr') := alloc1 fr in
            _ <- assign_guard t g ;;
            ln <- link_node own k p ;;
            if fst ln then
              Emit [ev_fn 2 1 k] (_ <- cnt_inc ic ;; _ <- clear_guard t g ;; Ret (Some (true, Some (snd ln))))
            else
              _ <- clear_guard t g ;; insert_loop_from h f sf ic withf t g0 g1 g2 k fr (Some (snd ln))
          else
            ln <- link_node own k p ;;
            if fst ln then _ <- cnt_inc ic ;; Ret (Some (true, Some (snd ln)))
            else insert_loop_from h f sf ic withf t g0 g1 g2 k fr (Some (snd ln))
      end
  end.

Fixpoint update_loop_from (h : loc) (fuel sf : nat) (ic allow : bool) (t g0 g1 g2 : nat) (k : Z) (fr : list nat) (own : option nat)
  : prog (out (bool * bool * option nat)) :=
  match fuel with
  | O => Ret None
  | S f =>
      r <- search_from h sf t g0 g1 g2 k None ;;
      match r with
      | None => Ret None
      | Some (true, p) =>
          Act (a_ld (LNext (pcur p))) (fun v =>
            if vmark v then update_loop_from h f sf ic allow t g0 g1 g2 k fr own
            else Emit [ev_fn 3 0 k] (Ret (Some (true, false, None))))
      | Some (false, p) =>
          if negb allow then Ret (Some (false, false, None))
          else
            let (g, fr') := alloc1 fr in
            _ <- assign_guard t g ;;
            ln <- link_node own k p ;;
            if fst ln then
              _ <- cnt_inc ic ;;
              Emit [ev_fn 3 1 k] (_ <- clear_guard t g ;; Ret (Some (true, true, Some (snd ln))))
            else
              _ <- clear_guard t g ;; update_loop_from h f sf ic allow t g0 g1 g2 k fr (Some (snd ln))
      end
  end.

Fixpoint erase_loop_from (h : loc) (fuel sf : nat) (ic : bool) (code : Z) (mine : nat) (t g0 g1 g2 : nat) (k : Z) : prog (out bool) :=
  match fuel with
  | O => Ret None
  | S f =>
      r <- search_from h sf t g0 g1 g2 k None ;;
      match r with
      | None => Ret None
      | Some (false, _) => Ret (Some false)
      | Some (true, p) =>
          if Z.eqb code 6 && negb (Nat.eqb (pcur p) mine) then Ret (Some false)
          else
            ok <- unlink_node t p ;;
            if ok then
              (if Z.eqb code 5 then Emit [ev_fn 5 1 k] (_ <- cnt_dec ic ;; Ret (Some true))
               else _ <- cnt_dec ic ;; Ret (Some true))
            else erase_loop_from h f sf ic code mine t g0 g1 g2 k
      end
  end.

Section From.
  Variable ak : Z -> bool.

  (** the operation proper, from the start cell [h] (the body of LV.Model.MichaelList.run_op after the invocation event) *)
  Definition op_body (h : loc) (fuel sf : nat) (ic : bool) (t : nat) (code k x : Z) (g0 g1 g2 : nat) (fr1 : list nat)
             (own : list (Z * nat)) : prog (out lstate) :=
    if (Z.eqb code 1) || (Z.eqb code 2) then
      r <- insert_loop_from h fuel sf ic (Z.eqb code 2) t g0 g1 g2 k fr1 None ;;
      match r with
      | None => give_up
      | Some (b, on) =>
          fr2 <- free_guards t [g0; g1; g2] fr1 ;;
          Emit [ev_ret (zb b) 0] (Ret (Some (fr2, match on with Some n => own_set k n own | None => own end)))
      end
    else if Z.eqb code 3 then
      r <- update_loop_from h fuel sf ic (Z.odd x) t g0 g1 g2 k fr1 None ;;
      match r with
      | None => give_up
      | Some (a, b, on) =>
          fr2 <- free_guards t [g0; g1; g2] fr1 ;;
          Emit [ev_ret (zb a) (zb b)] (Ret (Some (fr2, match on with Some n => own_set k n own | None => own end)))
      end
    else if (Z.eqb code 4) || (Z.eqb code 5) || (Z.eqb code 6) then
      let mine := own_find k own in
      r <- erase_loop_from h fuel sf ic code mine t g0 g1 g2 k ;;
      match r with
      | None => give_up
      | Some b =>
          fr2 <- free_guards t [g0; g1; g2] fr1 ;;
          Emit [ev_ret (zb b) (if Z.eqb code 6 then zb (negb (Nat.eqb mine 0)) else 0)]
            (Ret (Some (fr2, if (Z.eqb code 6) && b then own_del k own else own)))
      end
    else if Z.eqb code 7 then
      r <- erase_loop_from h fuel sf ic 7 0 t g0 g1 g2 k ;;
      match r with
      | None => give_up
      | Some true =>
          fr2 <- free_guards t [g0; g2] fr1 ;;
          _ <- use_guarded t g1 ;;
          fr3 <- free_guards t [g1] fr2 ;;
          Emit [ev_ret 1 (k + 1)] (Ret (Some (fr3, own)))
      | Some false =>
          fr2 <- free_guards t [g0; g1; g2] fr1 ;;
          Emit [ev_ret 0 0] (Ret (Some (fr2, own)))
      end
    else
      r <- search_from h sf t g0 g1 g2 k None ;;
      match r with
      | None => give_up
      | Some (found, _) =>
          if (Z.eqb code 8) && found then
            fr2 <- free_guards t [g0; g2] fr1 ;;
            _ <- use_guarded t g1 ;;
            fr3 <- free_guards t [g1] fr2 ;;
            Emit [ev_ret 1 (k + 1)] (Ret (Some (fr3, own)))
          else if (Z.eqb code 10) && found then
            Emit [ev_fn 10 1 k]
              (fr2 <- free_guards t [g0; g1; g2] fr1 ;;
               Emit [ev_ret 1 0] (Ret (Some (fr2, own))))
          else
            fr2 <- free_guards t [g0; g1; g2] fr1 ;;
            Emit [ev_ret (zb found) 0] (Ret (Some (fr2, own)))
      end.

  Definition erasing (code : Z) : bool := Z.leb 4 code && Z.leb code 7.

  (** one client operation [code; k; x; s]; [s]: key of the anchor to start from *)
  Definition run_op_from (fuel sf : nat) (ic : bool) (t : nat) (o : list Z) (ls : lstate) : prog (out lstate) :=
    let code := nth 0 o 0 in
    let k := nth 1 o 0 in
    let x := nth 2 o 0 in
    let s := nth 3 o 0 in
    let '(fr, own) := ls in
    let '((g0, g1, g2), fr1) := alloc3 fr in
    if Z.leb 1 code && Z.leb code 10 && negb (erasing code && ak k) then
      Emit [ev_inv o]
      (if ak s && Z.ltb s k then
         r <- search sf t g0 g1 g2 s None ;;
         match r with
         | None => give_up
         | Some (true, p) => op_body (LNext (pcur p)) fuel sf ic t code k x g0 g1 g2 fr1 own
         | Some (false, _) => op_body LHead fuel sf ic t code k x g0 g1 g2 fr1 own
         end
       else op_body LHead fuel sf ic t code k x g0 g1 g2 fr1 own)
    else Ret (Some ls).

  Fixpoint run_ops_from (fuel sf : nat) (ic : bool) (t : nat) (os : list (list Z)) (ls : lstate) : prog unit :=
    match os with
    | [] => Ret tt
    | o :: r =>
        x <- run_op_from fuel sf ic t o ls ;;
        match x with
        | None => Ret tt
        | Some ls' => run_ops_from fuel sf ic t r ls'
        end
    end.

  Definition thread_prog_from (fuel sf : nat) (ic : bool) (t : nat) (os : list (list Z)) : Conc.thread G V ev :=
    Act a_begin (fun _ => run_ops_from fuel sf ic t os init_ls).

  Fixpoint thread_progs_from (fuel sf : nat) (ic : bool) (t : nat) (ths : list (list (list Z))) : list (Conc.thread G V ev) :=
    match ths with
    | [] => []
    | os :: r => thread_prog_from fuel sf ic t os :: thread_progs_from fuel sf ic (S t) r
    end.

  Definition init_cfg_from (fuel sf : nat) (ic : bool) (ths : list (list (list Z))) : Conc.config G V ev :=
    Conc.Cfg init (thread_progs_from fuel sf ic 0 ths) [].
End From.
