(** * DhpLiveGxJ: C02, second sentence for DHP -- the allocator discipline [cell_disc].  Part X-J: the atomic accesses,
      non-atomic code and library programs of the model that touch neither thread_id_ / thread_list_ / next_ of a thread
      record nor free_head_ / guard::next_ keep the invariant [InvC3] and leave the thread's view alone ([NeuC]). *)
From Coq Require Import ZArith NArith List String Bool Lia PeanoNat.
From LV Require Import Base.Conc Base.Events Model.DhpLang Model.Dhp Proofs.DhpBase Proofs.DhpHist
  Proofs.DhpLangProofs Proofs.DhpInvA Proofs.DhpStepsA Proofs.DhpQuietA Proofs.DhpLiveA Proofs.DhpLiveB
  Proofs.DhpLiveGcRule Proofs.DhpLiveGcA Proofs.DhpLiveGcB Proofs.DhpLiveGcC Proofs.DhpLiveGcD Proofs.DhpLiveGxA Proofs.DhpLiveGxE Proofs.DhpLiveGxF
  Proofs.DhpLiveGxG Proofs.DhpLiveGxH Proofs.DhpLiveGxI.
Import ListNotations.
Local Open Scope string_scope.
Local Open Scope list_scope.

Lemma piX_upd_rec_keep g r f :
  (forall x, r_tid (f x) = r_tid x /\ r_next (f x) = r_next x /\ r_fhead (f x) = r_fhead x /\ r_snext (f x) = r_snext x) -> piX g (upd_rec g r f).
Proof.
  intros Hf. assert (Hr : forall r', r_tid (grec (upd_rec g r f) r') = r_tid (grec g r') /\ r_next (grec (upd_rec g r f) r') = r_next (grec g r') /\
                          r_fhead (grec (upd_rec g r f) r') = r_fhead (grec g r') /\ r_snext (grec (upd_rec g r f) r') = r_snext (grec g r')).
  { intros r'. rewrite grec_upd_rec_any. destruct (Nat.eqb r' r && Nat.ltb r (List.length (recs g))) eqn:E; [|auto].
    apply andb_true_iff in E. destruct E as (E & _). apply Nat.eqb_eq in E. subst. apply Hf. }
  split.
  - split; [reflexivity|]. split; [apply len_upd_rec|]. intros r'. destruct (Hr r') as (A & B & _). auto.
  - split; [apply len_upd_rec|]. split; [reflexivity|]. split; [|intros b; reflexivity]. intros r'. destruct (Hr r') as (A & _ & C & D). auto.
Qed.
Lemma piX_triv g g' : tlist g' = tlist g -> recs g' = recs g -> gbs g' = gbs g -> piX g g'.
Proof.
  intros E1 E2 E3. assert (Hr : forall r, grec g' r = grec g r) by (intros r; unfold grec; now rewrite E2).
  assert (Hb : forall b, ggb g' b = ggb g b) by (intros b; unfold ggb; now rewrite E3).
  split.
  - split; [exact E1|]. split; [now rewrite E2|]. intros r. now rewrite Hr.
  - split; [now rewrite E2|]. split; [now rewrite E3|]. split; [intros r; now rewrite Hr|intros b; now rewrite Hb].
Qed.
Lemma piX_upd_rb g b f : piX g (upd_rb g b f). Proof. now apply piX_triv. Qed.
Lemma piX_set_rbs g v : piX g (set_rbs g v). Proof. now apply piX_triv. Qed.
Lemma piX_set_hp_head g v : piX g (set_hp_head g v). Proof. now apply piX_triv. Qed.
Lemma piX_set_rt_head g v : piX g (set_rt_head g v). Proof. now apply piX_triv. Qed.
Lemma piX_set_srcs g v : piX g (set_srcs g v). Proof. now apply piX_triv. Qed.
Lemma piX_set_oob g v : piX g (set_oob g v). Proof. now apply piX_triv. Qed.
Lemma piX_upd_gb_keep g b f : (forall y, gb_snext (f y) = gb_snext y) -> piX g (upd_gb g b f).
Proof.
  intros Hf. split.
  - split; [reflexivity|]. split; [reflexivity|]. intros r. auto.
  - split; [reflexivity|]. split; [unfold upd_gb; cbn; apply upd_nth_length|]. split; [intros r; auto|]. intros b'. rewrite ggb_upd_gb_any.
    destruct (Nat.eqb b' b && Nat.ltb b (List.length (gbs g))) eqn:E; [|reflexivity].
    apply andb_true_iff in E. destruct E as (E & _). apply Nat.eqb_eq in E. subst. apply Hf.
Qed.
Lemma piX_slot_set g s v : piX g (slot_set g s v).
Proof. destruct s; cbn [slot_set]; [apply piX_upd_rec_keep; intros; cbn; auto|apply piX_upd_gb_keep; reflexivity]. Qed.
Lemma piX_fl_set_head g f v : piX g (fl_set_head g f v). Proof. destruct f; now apply piX_triv. Qed.
Lemma piX_fl_set_refs g f n v : piX g (fl_set_refs g f n v).
Proof. destruct f; cbn [fl_set_refs]; [apply piX_upd_gb_keep; reflexivity|apply piX_upd_rb]. Qed.
Lemma piX_fl_set_next g f n v : piX g (fl_set_next g f n v).
Proof. destruct f; cbn [fl_set_next]; [apply piX_upd_gb_keep; reflexivity|apply piX_upd_rb]. Qed.
Lemma piX_new_rblock c g : piX g (fst (new_rblock c g)). Proof. now apply piX_triv. Qed.

Lemma piX_rs_cur g r cb cc : piX g (upd_rec g r (rs_cur cb cc)). Proof. apply piX_upd_rec_keep. intros; cbn; auto. Qed.
Lemma piX_rs_ret g r cb cc hd tl bc : piX g (upd_rec g r (rs_ret cb cc hd tl bc)). Proof. apply piX_upd_rec_keep. intros; cbn; auto. Qed.

Lemma piX_rt_push c r p g : piX g (fst (rt_push c r p g)).
Proof.
  unfold rt_push. destruct (r_cb (grec g r)) as [b|]; [|apply piX_set_oob].
  set (g1 := if Nat.ltb (r_cc (grec g r)) (c_RB c) then _ else _).
  assert (E : piX g g1) by (unfold g1; destruct (Nat.ltb _ _); [apply piX_upd_rb|apply piX_set_oob]).
  destruct (Nat.eqb _ _); [destruct (rb_next (grb g1 b))|]; cbn [fst]; (eapply piX_trans; [exact E|apply piX_rs_cur]).
Qed.
Lemma piX_retire_data c r pl b : forall n i g racc cnt, piX g (fst (fst (retire_data c r pl b i n g racc cnt))).
Proof.
  induction n as [|n IH]; intros i g racc cnt; cbn [retire_data]; [apply piX_refl|].
  destruct (memb _ pl); [|apply IH]. eapply piX_trans; [apply piX_rt_push|apply IH].
Qed.
Lemma piX_stage2_blocks c r pl lastb lastc : forall fuel block g racc f rc,
  piX g (fst (fst (fst (stage2_blocks c fuel r pl block lastb lastc g racc f rc)))).
Proof.
  induction fuel as [|fuel IH]; intros block g racc f rc; destruct block as [b|]; cbn [stage2_blocks]; try apply piX_refl.
  pose proof (piX_retire_data c r pl b (if oeqb (Some b) lastb then lastc else c_RB c) 0 g racc 0) as K.
  destruct (retire_data c r pl b 0 _ g racc 0) as [[g1 racc1] c1]. cbn [fst] in K.
  destruct (oeqb (Some b) lastb); cbn [fst]; [exact K|]. eapply piX_trans; [exact K|apply IH].
Qed.
Lemma piX_stage2 c r pl g : piX g (fst (stage2 c r pl g)).
Proof.
  unfold stage2.
  pose proof (piX_stage2_blocks c r pl (r_cb (grec g r)) (r_cc (grec g r)) (Datatypes.S (List.length (rbs g))) (r_head (grec g r))
                (upd_rec g r (rs_cur (r_head (grec g r)) 0)) [] 0 0) as K.
  destruct (stage2_blocks _ _ _ _ _ _ _ _ _ _ _) as [[[g1 racc] f] rc]. cbn [fst] in *. eapply piX_trans; [apply piX_rs_cur|exact K].
Qed.
Lemma piX_rt_do_extend c r b g : piX g (fst (rt_do_extend c r b g)).
Proof.
  unfold rt_do_extend. destruct (r_tail (grec g r)); destruct (c_old c || _); cbn [fst];
    try (eapply piX_trans; [apply piX_upd_rb|apply piX_rs_ret]); apply piX_rs_ret.
Qed.

#[export] Hint Resolve piX_refl piX_upd_rb piX_set_rbs piX_set_hp_head piX_set_rt_head piX_set_srcs piX_set_oob piX_slot_set piX_fl_set_head
  piX_fl_set_refs piX_fl_set_next piX_new_rblock piX_rs_cur piX_rs_ret piX_rt_push piX_stage2 piX_rt_do_extend : pxdb.

Lemma quietC_acc k o ok : quietC (EvAcc k o ok) = true.
Proof. unfold quietC. destruct (gcls_acc_cases k o ok) as [-> | ->]; reflexivity. Qed.
Lemma quietC_slot s v : quietC (ev_slot s v) = true. Proof. unfold quietC. now rewrite gcls_slot. Qed.

Notation qCA f := (forall g, piX g (fst (fst (f g))) /\ Forall (fun e => quietC e = true) (snd (f g))).
Ltac qcacc := intros g; cbn; repeat match goal with |- context [if ?b then _ else _] => destruct b; cbn end;
  (split; [auto with pxdb; try (apply piX_upd_rec_keep; intros; cbn; auto)|repeat constructor; try apply quietC_acc]).

Lemma c_begin : qCA a_begin. Proof. qcacc. Qed.
Lemma c_ld_tlist : qCA a_ld_tlist. Proof. qcacc. Qed.
Lemma c_ld_tid r : qCA (a_ld_tid r). Proof. qcacc. Qed.
Lemma c_ld_free r : qCA (a_ld_free r). Proof. qcacc. Qed.
Lemma c_st_free r v : qCA (a_st_free r v). Proof. qcacc. Qed.
Lemma c_faa_sync r : qCA (a_faa_sync r). Proof. qcacc. Qed.
Lemma c_ld_ext r : qCA (a_ld_ext r). Proof. qcacc. Qed.
Lemma c_st_ext r v : qCA (a_st_ext r v). Proof. qcacc. Qed.
Lemma c_ld_slot s : qCA (a_ld_slot s). Proof. intros g. cbn [a_ld_slot fst snd]. split; [apply piX_refl|repeat constructor; apply quietC_acc]. Qed.
Lemma c_ld_src k : qCA (a_ld_src k). Proof. qcacc. Qed.
Lemma c_st_src k v : qCA (a_st_src k v). Proof. qcacc. Qed.
Lemma c_ld_head f : qCA (a_ld_head f). Proof. intros g. cbn [a_ld_head fst snd]. split; [apply piX_refl|repeat constructor; apply quietC_acc]. Qed.
Lemma c_cas_head f e n : qCA (a_cas_head f e n).
Proof. intros g. unfold a_cas_head. destruct (oeqb _ _); cbn [fst snd]; (split; [auto with pxdb|repeat constructor; apply quietC_acc]). Qed.
Lemma c_ld_refs f n : qCA (a_ld_refs f n). Proof. intros g. cbn [a_ld_refs fst snd]. split; [apply piX_refl|repeat constructor; apply quietC_acc]. Qed.
Lemma c_st_refs f n v : qCA (a_st_refs f n v). Proof. intros g. cbn [a_st_refs fst snd]. split; [auto with pxdb|repeat constructor; apply quietC_acc]. Qed.
Lemma c_cas_refs f n e v : qCA (a_cas_refs f n e v).
Proof. intros g. unfold a_cas_refs. destruct (N.eqb _ _); cbn [fst snd]; (split; [auto with pxdb|repeat constructor; apply quietC_acc]). Qed.
Lemma c_faa_refs f n d : qCA (a_faa_refs f n d). Proof. intros g. cbn [a_faa_refs fst snd]. split; [auto with pxdb|repeat constructor; apply quietC_acc]. Qed.
Lemma c_fas_refs f n d : qCA (a_fas_refs f n d). Proof. intros g. cbn [a_fas_refs fst snd]. split; [auto with pxdb|repeat constructor; apply quietC_acc]. Qed.
Lemma c_ld_flnext f n : qCA (a_ld_flnext f n). Proof. intros g. cbn [a_ld_flnext fst snd]. split; [apply piX_refl|repeat constructor; apply quietC_acc]. Qed.
Lemma c_st_flnext f n v : qCA (a_st_flnext f n v). Proof. intros g. cbn [a_st_flnext fst snd]. split; [auto with pxdb|repeat constructor; apply quietC_acc]. Qed.
Lemma c_st_slot s v : qCA (a_st_slot s v).
Proof.
  intros g. unfold a_st_slot. cbn [fst snd]. split; [auto with pxdb|]. unfold acc. cbn [app]. constructor; [apply quietC_acc|].
  destruct (slot_valid g s); [constructor; [apply quietC_slot|constructor]|constructor].
Qed.
#[export] Hint Resolve c_begin c_ld_tlist c_ld_tid c_ld_free c_st_free c_faa_sync c_ld_ext c_st_ext c_ld_slot c_ld_src c_st_src c_ld_head c_cas_head
  c_ld_refs c_st_refs c_cas_refs c_faa_refs c_fas_refs c_ld_flnext c_st_flnext c_st_slot : cdb.

Lemma qC_alloc_rt b : quietC (ev_alloc FRt b) = true. Proof. reflexivity. Qed.
Lemma qC_new_rt b : quietC (ev_new FRt b) = true. Proof. reflexivity. Qed.
Lemma qC_free f b : quietC (ev_free f b) = true. Proof. destruct f; reflexivity. Qed.
Lemma qC_rel s : quietC (ev_rel s) = true. Proof. destruct s; reflexivity. Qed.
Lemma qC_scanb r : quietC (ev_scanb r) = true. Proof. reflexivity. Qed.
Lemma qC_scane r : quietC (ev_scane r) = true. Proof. reflexivity. Qed.
Lemma qC_dispose p : quietC (ev_dispose p) = true. Proof. reflexivity. Qed.
Lemma qC_disposes ps : Forall (fun e => quietC e = true) (map ev_dispose ps).
Proof. induction ps; constructor; auto. Qed.
#[export] Hint Resolve qC_alloc_rt qC_new_rt qC_free qC_rel qC_scanb qC_scane qC_dispose qC_disposes : cdb.

Section CProgs.
  Variable c : cfg.
  Notation NeuP := (NeuC c).

  Ltac nc :=
    repeat match goal with
      | |- NeuC _ (ret _) => apply NeuC_ret
      | |- NeuC _ fuel_out => apply NeuC_fuel_out
      | |- NeuC _ (xbind _ _) => apply NeuC_xbind; [|intros]
      | |- NeuC _ (act _) => apply NeuC_act; solve [auto with cdb]
      | |- NeuC _ (emit _) => apply NeuC_emit; solve [auto with cdb | repeat constructor; auto with cdb]
      | |- NeuC _ (loc _) => apply NeuC_loc; let g := fresh "g" in intros g; cbn [fst snd];
          solve [auto with pxdb | repeat match goal with |- context [match ?x with _ => _ end] => destruct x; cbn [fst snd] end; auto with pxdb]
      | |- NeuC _ (if ?b then _ else _) => destruct b
      | |- NeuC _ (match ?o with Some _ => _ | None => _ end) => destruct o
      end.

  Lemma C_add_knowing sp : forall f n head, NeuP (add_knowing sp f n head).
  Proof. induction sp as [|sp IH]; intros f n head; cbn [add_knowing]; nc. apply IH. Qed.
  Lemma C_fl_add sp f n : NeuP (fl_add sp f n).
  Proof. unfold fl_add. nc. apply C_add_knowing. Qed.
  Lemma C_fl_put sp f n : NeuP (fl_put sp f n).
  Proof. unfold fl_put. nc. apply C_fl_add. Qed.
  Lemma C_fl_get_loop sp : forall f head, NeuP (fl_get_loop sp f head).
  Proof.
    induction sp as [|sp IH]; intros f head; destruct head as [h|]; cbn [fl_get_loop]; nc; try apply IH; try apply C_fl_add.
  Qed.
  Lemma C_fl_get sp f : NeuP (fl_get sp f).
  Proof. unfold fl_get. nc. apply C_fl_get_loop. Qed.
  Lemma C_rt_alloc : NeuP (rt_alloc c).
  Proof. unfold rt_alloc. nc; apply C_fl_get. Qed.
  Lemma C_rt_free b : NeuP (rt_free c b).
  Proof. unfold rt_free. nc. apply C_fl_put. Qed.
  Lemma C_rt_init r : NeuP (rt_init c r).
  Proof. unfold rt_init. nc. apply C_rt_alloc. Qed.
  Lemma C_free_rblocks : forall fuel p, NeuP (free_rblocks c fuel p).
  Proof. induction fuel as [|f IH]; intros [b|]; cbn [free_rblocks]; nc; try apply C_rt_free; apply IH. Qed.
  Lemma C_rt_fini r : NeuP (rt_fini c r).
  Proof. unfold rt_fini. nc. apply C_free_rblocks. Qed.
  Lemma C_rt_extend r : NeuP (rt_extend c r).
  Proof. unfold rt_extend. nc. apply C_rt_alloc. Qed.
  Lemma C_copy_hazards mk : forall n i pl, NeuP (copy_hazards mk i n pl).
  Proof. induction n as [|n IH]; intros i pl; cbn [copy_hazards]; nc. apply IH. Qed.
  Lemma C_scan_blocks : forall fuel b pl, NeuP (scan_blocks c fuel b pl).
  Proof. induction fuel as [|f IH]; intros [b|] pl; cbn [scan_blocks]; nc; try apply C_copy_hazards; apply IH. Qed.
  Lemma C_scan_recs : forall fuel node pl, NeuP (scan_recs c fuel node pl).
  Proof.
    induction fuel as [|f IH]; intros [n|] pl; cbn [scan_recs]; nc; try apply C_copy_hazards; try apply C_scan_blocks; apply IH.
  Qed.
  Lemma C_scan r : NeuP (Dhp.scan c r).
  Proof. unfold Dhp.scan. nc; try apply C_scan_recs; try apply C_rt_extend. Qed.
  Lemma C_move_cells me b : forall n i, NeuP (move_cells c me b i n).
  Proof. induction n as [|n IH]; intros i; cbn [move_cells]; nc; try apply C_scan. apply IH. Qed.
  Lemma C_move_blocks me src : forall fuel block, NeuP (move_blocks c fuel me src block).
  Proof. induction fuel as [|f IH]; intros [b|]; cbn [move_blocks]; nc; try apply C_move_cells; apply IH. Qed.
  Lemma C_ftd_go r : forall fuel p,
    NeuP ((fix go (fuel : nat) (p : option nat) : P unit :=
          match p with
          | None => ret tt
          | Some b =>
              match fuel with
              | O => fuel_out
              | Datatypes.S f =>
                  nx <- loc (fun g => (g, rb_next (grb g b))) ;;
                  rt_free c b ;;;
                  loc (fun g => (upd_rec g r (fun x => rs_ret (r_cb x) (r_cc x) (r_head x) (r_tail x) (pred (r_bcount x)) x), tt)) ;;;
                  go f nx
              end
          end) fuel p).
  Proof.
    induction fuel as [|f IH]; intros [b|]; nc; try apply C_rt_free; try apply IH.
    apply NeuC_loc. intros g. cbn [fst]. apply piX_upd_rec_keep. intros; cbn; auto.
  Qed.
  Lemma C_wait_loop k v : forall fuel, NeuP (wait_loop fuel k v).
  Proof. induction fuel as [|fuel IH]; cbn [wait_loop]; nc. apply IH. Qed.
  Lemma C_clear_slots r : forall n i, NeuP (clear_slots r i n).
  Proof. induction n as [|n IH]; intros i; cbn [clear_slots]; nc. apply IH. Qed.
  Lemma C_protect_loop r s k : forall fuel p, NeuP (protect_loop fuel r s k p).
  Proof. induction fuel as [|fuel IH]; intros p; cbn [protect_loop]; nc. apply IH. Qed.
  Lemma C_hp_free b : NeuP (hp_free c b).
  Proof. unfold hp_free. nc. apply C_fl_put. Qed.
  Lemma C_free_gblocks : forall fuel p, NeuP (free_gblocks c fuel p).
  Proof. induction fuel as [|f IH]; intros [b|]; cbn [free_gblocks]; nc; try apply C_hp_free; apply IH. Qed.
End CProgs.
