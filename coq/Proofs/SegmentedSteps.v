(** * SegmentedQueue: preservation of the invariant by each kind of atomic step. *)
From Coq Require Import ZArith List String Bool Lia PeanoNat.
From LV Require Import Base.Conc Base.Events Model.Segmented Proofs.SegmentedBase.
Import ListNotations.
Local Open Scope string_scope.
Local Open Scope list_scope.

(** ** states that differ only in hazard slots, counter, retired arrays *)
Definition same_cells (g g' : G) : Prop := forall s i, cells g' s i = cells g s i.

Definition same_core (g g' : G) : Prop :=
  tailp g' = tailp g /\ headp g' = headp g /\ slist g' = slist g /\ nalloc g' = nalloc g /\
  lockw g' = lockw g /\ same_cells g g'.

Lemma cptr_ext g g' s i : same_cells g g' -> cptr g' s i = cptr g s i.
Proof. intros H. unfold cptr. now rewrite H. Qed.
Lemma cmark_ext g g' s i : same_cells g g' -> cmark g' s i = cmark g s i.
Proof. intros H. unfold cmark. now rewrite H. Qed.
Lemma lo_ext g g' : slist g' = slist g -> nalloc g' = nalloc g -> lo g' = lo g.
Proof. intros A B. unfold lo. now rewrite A, B. Qed.
Lemma inserted_ext g g' x : same_cells g g' -> inserted g' x <-> inserted g x.
Proof. intros H. unfold inserted. split; intros (s & i & K); exists s, i; [rewrite <- (cptr_ext g g') by exact H|rewrite (cptr_ext g g') by exact H]; exact K. Qed.
Lemma marked_ext g g' x : same_cells g g' -> marked g' x <-> marked g x.
Proof. intros H. unfold marked. split; intros (s & i & K); exists s, i; [rewrite <- H|rewrite H]; exact K. Qed.
Lemma same_cells_evolve t g g' : same_cells g g' -> cells_evolve t g g'.
Proof. intros H s i. left. apply H. Qed.

Lemma SI_ext qf g g' : SI qf g -> same_core g g' -> SI qf g'.
Proof.
  intros [A1 A2 A3 A4 A5 A6 A7 A8 A9 A10] (Et & Eh & El & En & _ & Ec).
  pose proof (lo_ext _ _ El En) as Elo.
  split; intros; rewrite ?Elo, ?El, ?En, ?Et, ?Eh in *; rewrite ?(cptr_ext g g'), ?(cmark_ext g g') in * by exact Ec; eauto.
Qed.

Lemma TI_ext g g' tr : TI g tr -> same_cells g g' -> TI g' tr.
Proof.
  intros [B1 B2 B3 B4 B5] Ec. split.
  - intros x H. apply (inserted_ext g g'); auto.
  - intros x H. apply B2. apply (inserted_ext g g'); auto.
  - intros x y sx ix sy iy C K1 K2. rewrite (cptr_ext g g') in K1, K2 by exact Ec. eauto.
  - intros t k y H C. apply (marked_ext g g'); eauto.
  - intros x H. destruct (B5 x H). split; auto. apply (marked_ext g g'); auto.
Qed.

(** an access event changes nothing the history invariants see *)
Lemma count_ret_snoc x tr te : count_ret x (tr ++ [te]) = count_ret x tr + (if is_ret_got x (snd te) then 1 else 0).
Proof. rewrite count_ret_app. unfold count_ret at 2. cbn. destruct (is_ret_got x (snd te)); reflexivity. Qed.

Lemma evs_snoc tr te : evs (tr ++ [te]) = evs tr ++ [snd te].
Proof. now rewrite evs_app. Qed.

Lemma in_evs_snoc tr te e : In e (evs (tr ++ [te])) <-> In e (evs tr) \/ e = snd te.
Proof. rewrite evs_snoc, in_app_iff. cbn. intuition. Qed.

Lemma TI_acc g tr t k o b : TI g tr -> TI g (tr ++ [(t, EvAcc k o b)]).
Proof.
  intros [B1 B2 B3 B4 B5]. split.
  - intros x H. apply in_evs_snoc in H. destruct H as [H|H]; [auto|]. destruct x as [[? ?] ?]; discriminate.
  - intros x H. apply in_evs_snoc. auto.
  - intros x y sx ix sy iy C. apply cb_snoc_other in C; [eauto|]. destruct x as [[? ?] ?]; discriminate.
  - intros t0 k0 y H C. apply in_evs_snoc in H. destruct H as [H|H]; [|discriminate].
    apply cb_snoc_other in C; [eauto|discriminate].
  - intros x. rewrite count_ret_snoc. cbn. rewrite Nat.add_0_r. auto.
Qed.

Lemma te_acc t' tr t k o b : trace_evolve t' tr (tr ++ [(t, EvAcc k o b)]).
Proof. right. eexists. split; [reflexivity|]. intros k0. cbn. discriminate. Qed.

Definition hp0_free (ph : phase) : Prop :=
  match ph with
  | PDeq _ _ _ _ _ _ _ => False
  | PGot _ false => False
  | _ => True
  end.

Lemma PH_hp0_free g tr t idx ph g' tr' :
  hp0_free ph -> PH g tr t idx ph -> (hp g t 0 = hp g t 0 -> PH g' tr' t idx ph) -> PH g' tr' t idx ph.
Proof. auto. Qed.

(** *** S1: a step that changes neither the core state nor the stepping thread's view *)
Lemma Inv_silent qf g a tr t g' k o b :
  Inv qf g a tr -> same_core g g' ->
  (forall t', t' <> t -> hp g' t' 0 = hp g t' 0) ->
  (hp g' t 0 = hp g t 0 \/ hp0_free (v_ph (a t))) ->
  Inv qf g' (upd a t (a t)) (tr ++ [(t, EvAcc k o b)]).
Proof.
  intros HI HC Hhp Hhp0. pose proof HC as (Et & Eh & El & En & Elk & Ec).
  pose proof (inv_si _ _ _ _ HI) as HS. pose proof (inv_ti _ _ _ _ HI) as HT.
  eapply Inv_step_plain; [exact HI| | | | | | | | | | | | | | ].
  - eapply SI_ext; eauto.
  - apply TI_acc. eapply TI_ext; eauto.
  - pose proof (inv_vi _ _ _ _ HI t) as HV.
    destruct Hhp0 as [E|F].
    + eapply VI_stable; eauto using same_cells_evolve, te_acc; try lia.
      rewrite (lo_ext _ _ El En). lia.
    + (* the view does not mention slot 0 *)
      destruct HV as [V1 V2 Vh V3]. split.
      * intros t' e k0 Hin Hop. apply in_app_or in Hin. destruct Hin as [Hin|[E|[]]]; [eauto|]. inversion E; subst. discriminate.
      * intros l n E. rewrite Elk, El, En. auto.
      * intros E. rewrite Eh. auto.
      * destruct (v_ph (a t)) as [|x lb sg vis ins|Sn sg vis hadNull emp hp0 cur|x [|]]; try destruct F.
        -- exact I.
        -- eapply (PH_stable qf g tr t (v_idx (a t)) (PEnq x lb sg vis ins) (mkG (tailp g') (headp g') (slist g') (nalloc g') (lockw g') (cells g') (counter g') (hp g) (retired g'))); eauto using te_acc; try (cbn; lia).
           ++ unfold lo; cbn. rewrite El, En. lia.
           ++ apply same_cells_evolve. exact Ec.
        -- cbn in *. destruct V3 as (P1 & P2 & _). split; [apply in_evs_snoc; auto|]. split; [|discriminate].
           apply (marked_ext g g'); auto.
  - exact Hhp.
  - rewrite En; lia.
  - rewrite (lo_ext _ _ El En). lia.
  - intros t' N. apply same_cells_evolve. exact Ec.
  - intros t' N. apply te_acc.
  - right. repeat split; auto.
  - intros Hf. rewrite Elk in Hf. split; [|auto]. apply (inv_lock_free _ _ _ _ HI Hf).
  - intros H. left. exact H.
  - intros x. tauto.
  - intros x. rewrite count_ret_snoc. cbn. lia.
  - intros x H. apply (marked_ext g g'); auto.
Qed.

(** the stepping thread's own view after a step whose event is not a client event *)
Lemma VI_own g tr t vw g' te hd' lk' ph' :
  VI g tr t vw ->
  ev_op (snd te) = None ->
  (v_ph vw <> PIdle -> ph' <> PIdle) ->
  (forall l n, lk' = Some (l, n) -> lockw g' = true /\ slist g' = l /\ nalloc g' = n) ->
  (hd' = true -> lk' <> None /\ headp g' <> None) ->
  PH g' (tr ++ [te]) t (v_idx vw) ph' ->
  VI g' (tr ++ [te]) t (mkV hd' (v_idx vw) lk' ph').
Proof.
  intros [V1 V2 Vh V3] Hop Hid Hlk Hhd HP. split; cbn; auto.
  intros t' e k Hin Ho. apply in_app_or in Hin. destruct Hin as [Hin|[E|[]]].
  - destruct (V1 t' e k Hin Ho) as [K|(K1 & K2 & K3)]; auto.
  - subst te. cbn in Hop. congruence.
Qed.

(** PH of the stepping thread carried to the new state/trace (slot 0 re-read from the new state) *)
Lemma PH_own_acc qf g a tr t g' k o b :
  Inv qf g a tr -> same_core g g' ->
  (forall x, v_ph (a t) = PGot x false -> hp g' t 0 = hp g t 0) ->
  PH g' (tr ++ [(t, EvAcc k o b)]) t (v_idx (a t)) (set_hp0 (v_ph (a t)) (hp g' t 0)).
Proof.
  intros HI (Et & Eh & El & En & Elk & Ec) Hhp.
  eapply PH_stable_hp; eauto using (inv_si _ _ _ _ HI), (inv_ti _ _ _ _ HI), same_cells_evolve, te_acc.
  - apply (vi_ph _ _ _ _ (inv_vi _ _ _ _ HI t)).
  - lia.
  - rewrite (lo_ext _ _ El En). lia.
Qed.

(** *** S2: the core state is unchanged, the stepping thread learns something (its view changes) *)
Lemma Inv_view qf g a tr t g' k o b ph' :
  Inv qf g a tr -> same_core g g' ->
  (forall t', t' <> t -> hp g' t' 0 = hp g t' 0) ->
  (v_ph (a t) <> PIdle -> ph' <> PIdle) ->
  PH g' (tr ++ [(t, EvAcc k o b)]) t (v_idx (a t)) ph' ->
  (forall x, taker (mkV (v_hd (a t)) (v_idx (a t)) (v_lock (a t)) ph') x <-> taker (a t) x) ->
  Inv qf g' (upd a t (mkV (v_hd (a t)) (v_idx (a t)) (v_lock (a t)) ph')) (tr ++ [(t, EvAcc k o b)]).
Proof.
  intros HI HC Hhp Hid HP Htk. pose proof HC as (Et & Eh & El & En & Elk & Ec).
  pose proof (inv_si _ _ _ _ HI) as HS. pose proof (inv_ti _ _ _ _ HI) as HT.
  eapply Inv_step_plain; [exact HI| | | | | | | | | | | | | | ].
  - eapply SI_ext; eauto.
  - apply TI_acc. eapply TI_ext; eauto.
  - apply (VI_own g tr t (a t)); [apply (inv_vi _ _ _ _ HI t)|reflexivity|exact Hid| | |exact HP].
    + intros l n E. rewrite Elk, El, En. apply (vi_lock _ _ _ _ (inv_vi _ _ _ _ HI t)). exact E.
    + intros E. rewrite Eh. apply (vi_hd _ _ _ _ (inv_vi _ _ _ _ HI t) E).
  - exact Hhp.
  - rewrite En; lia.
  - rewrite (lo_ext _ _ El En). lia.
  - intros t' N. apply same_cells_evolve. exact Ec.
  - intros t' N. apply te_acc.
  - right. repeat split; auto.
  - intros Hf. rewrite Elk in Hf. cbn. split; [|auto]. apply (inv_lock_free _ _ _ _ HI Hf).
  - cbn. intros H. left. exact H.
  - exact Htk.
  - intros x. rewrite count_ret_snoc. cbn. lia.
  - intros x H. apply (marked_ext g g'); auto.
Qed.

Lemma taker_iff_ph vw hd idx lk ph' :
  (forall x rd, ph' <> PGot x rd) -> (forall x rd, v_ph vw <> PGot x rd) ->
  forall x, taker (mkV hd idx lk ph') x <-> taker vw x.
Proof. intros A B x. split; intros (rd & E); cbn in E; exfalso; [eapply A|eapply B]; eauto. Qed.

(** *** S3: stores to m_pTail / m_pHead *)
Lemma SI_set_tail qf g p : SI qf g -> (forall s, p = Some s -> s < nalloc g) -> SI qf (set_tail g p).
Proof. intros [A1 A2 A3 A4 A5 A6 A7 A8 A9 A10] H. split; cbn; auto. Qed.

Lemma SI_set_head qf g p :
  SI qf g -> (forall s, p = Some s -> s <= lo g) -> (p = None -> slist g = []) -> SI qf (set_head g p).
Proof. intros [A1 A2 A3 A4 A5 A6 A7 A8 A9 A10] H H0. split; cbn; auto. Qed.

Lemma Inv_st_tail qf g a tr t p :
  Inv qf g a tr -> (forall s, p = Some s -> s < nalloc g) ->
  Inv qf (set_tail g p) (upd a t (a t)) (tr ++ [(t, EvAcc KSt obj_tail true)]).
Proof.
  intros HI H.
  pose proof (inv_si _ _ _ _ HI) as HS. pose proof (inv_ti _ _ _ _ HI) as HT.
  assert (Ec : same_cells g (set_tail g p)) by (intros s i; reflexivity).
  eapply Inv_step_plain; [exact HI| | | | | | | | | | | | | | ].
  - apply SI_set_tail; auto.
  - apply TI_acc. eapply TI_ext; eauto.
  - eapply VI_stable; eauto using (inv_vi _ _ _ _ HI t), same_cells_evolve, te_acc.
  - intros; reflexivity.
  - cbn; lia.
  - unfold lo; cbn; lia.
  - intros t' N. apply same_cells_evolve. exact Ec.
  - intros t' N. apply te_acc.
  - right. cbn. auto.
  - cbn. intros Hf. split; [|auto]. apply (inv_lock_free _ _ _ _ HI Hf).
  - intros H0. left. exact H0.
  - intros x. tauto.
  - intros x. rewrite count_ret_snoc. cbn. lia.
  - intros x H0. exact H0.
Qed.

(** m_pHead is only stored by the thread that holds the lock *)
Lemma Inv_st_head qf g a tr t p hd' :
  Inv qf g a tr -> v_lock (a t) <> None ->
  (forall s, p = Some s -> s <= lo g) -> (p = None -> slist g = []) ->
  (hd' = true -> p <> None) ->
  Inv qf (set_head g p) (upd a t (mkV hd' (v_idx (a t)) (v_lock (a t)) (v_ph (a t)))) (tr ++ [(t, EvAcc KSt obj_head true)]).
Proof.
  intros HI Hlk H H0 Hhd.
  pose proof (inv_si _ _ _ _ HI) as HS. pose proof (inv_ti _ _ _ _ HI) as HT. pose proof (inv_vi _ _ _ _ HI t) as HV.
  assert (Ec : same_cells g (set_head g p)) by (intros s i; reflexivity).
  eapply Inv_step_plain; [exact HI| | | | | | | | | | | | | | ].
  - apply SI_set_head; auto.
  - apply TI_acc. eapply TI_ext; eauto.
  - apply (VI_own g tr t (a t)); [exact HV|reflexivity|auto| | | ].
    + intros l n E. apply (vi_lock _ _ _ _ HV). exact E.
    + intros E. split; [exact Hlk|]. cbn. auto.
    + eapply (PH_stable qf g tr); [exact HS|exact HT|apply (vi_ph _ _ _ _ HV)|reflexivity|cbn; lia|unfold lo; cbn; lia|apply same_cells_evolve; exact Ec|apply te_acc].
  - intros; reflexivity.
  - cbn; lia.
  - unfold lo; cbn; lia.
  - intros t' N. apply same_cells_evolve. exact Ec.
  - intros t' N. apply te_acc.
  - left. intros t' N. destruct (v_lock (a t')) eqn:E; [|reflexivity]. exfalso. apply N.
    eapply (inv_lock_uniq _ _ _ _ HI); congruence.
  - cbn. intros Hf. split; [|auto]. apply (inv_lock_free _ _ _ _ HI Hf).
  - cbn. intros H1. left. exact H1.
  - intros x. unfold taker. cbn. tauto.
  - intros x. rewrite count_ret_snoc. cbn. lia.
  - intros x H1. exact H1.
Qed.

(** *** S4/S5: the lock word *)
Lemma SI_set_lock qf g b : SI qf g -> SI qf (set_lock g b).
Proof. intros [A1 A2 A3 A4 A5 A6 A7 A8 A9 A10]. split; cbn; auto. Qed.

Lemma Inv_lock_step qf g a tr t b lk' k :
  Inv qf g a tr ->
  (b = true -> lk' = Some (slist g, nalloc g) /\ lockw g = false) ->
  (b = false -> lk' = None /\ v_lock (a t) <> None) ->
  Inv qf (set_lock g b) (upd a t (mkV false (v_idx (a t)) lk' (v_ph (a t)))) (tr ++ [(t, EvAcc k obj_lock true)]).
Proof.
  intros HI Hb1 Hb0.
  pose proof (inv_si _ _ _ _ HI) as HS. pose proof (inv_ti _ _ _ _ HI) as HT.
  assert (Hoth : forall t', t' <> t -> v_lock (a t') = None).
  { intros t' N. destruct b.
    - destruct (Hb1 eq_refl) as (_ & Hf). apply (inv_lock_free _ _ _ _ HI Hf).
    - destruct (Hb0 eq_refl) as (_ & Hh). destruct (v_lock (a t')) eqn:E; [|reflexivity].
      exfalso. apply N. eapply (inv_lock_uniq _ _ _ _ HI); congruence. }
  eapply Inv_step_plain; [exact HI| | | | | | | | | | | | | | ].
  - apply SI_set_lock; auto.
  - apply TI_acc. eapply TI_ext; eauto. intros s i; reflexivity.
  - apply (VI_own g tr t (a t)); [apply (inv_vi _ _ _ _ HI t)|reflexivity|auto| |discriminate| ].
    + intros l n E. destruct b.
      * destruct (Hb1 eq_refl) as (E1 & _). rewrite E1 in E. inversion E; subst. cbn. auto.
      * destruct (Hb0 eq_refl) as (E1 & _). congruence.
    + eapply (PH_stable qf g tr); [exact HS|exact HT|apply (vi_ph _ _ _ _ (inv_vi _ _ _ _ HI t))|reflexivity|cbn; lia|unfold lo; cbn; lia|apply same_cells_evolve; intros ? ?; reflexivity|apply te_acc].
  - intros; reflexivity.
  - cbn; lia.
  - unfold lo; cbn. lia.
  - intros t' N. apply same_cells_evolve; intros ? ?; reflexivity.
  - intros t' N. apply te_acc.
  - left. exact Hoth.
  - cbn. intros E. subst b. destruct (Hb0 eq_refl). auto.
  - cbn. intros E. destruct b.
    + right. apply (Hb1 eq_refl).
    + destruct (Hb0 eq_refl). congruence.
  - intros x. unfold taker. cbn. tauto.
  - intros x. rewrite count_ret_snoc. cbn. lia.
  - intros x H. exact H.
Qed.

(** *** general rule for a step that emits an access event *)
Lemma Inv_step_acc qf g a tr t g' k o b vw' :
  Inv qf g a tr ->
  SI qf g' -> TI g' tr -> VI g' (tr ++ [(t, EvAcc k o b)]) t vw' ->
  (forall t', t' <> t -> hp g' t' 0 = hp g t' 0) ->
  nalloc g <= nalloc g' -> lo g <= lo g' ->
  (forall t', t' <> t -> cells_evolve t' g g') ->
  ((forall t', t' <> t -> v_lock (a t') = None) \/ (lockw g' = lockw g /\ slist g' = slist g /\ nalloc g' = nalloc g /\ headp g' = headp g)) ->
  (lockw g' = false -> v_lock vw' = None /\ (lockw g = false \/ v_lock (a t) <> None)) ->
  (v_lock vw' <> None -> v_lock (a t) <> None \/ lockw g = false) ->
  (forall x, taker vw' x -> taker (a t) x \/ ~ marked g x) ->
  (forall x, taker (a t) x -> taker vw' x) ->
  (forall x, marked g' x -> marked g x \/ taker vw' x) ->
  Inv qf g' (upd a t vw') (tr ++ [(t, EvAcc k o b)]).
Proof.
  intros HI HS' HT' HV' Hhp Hna Hlo Hce HL3 HL1 HL2 HTnew HTkeep HTmk.
  assert (Hc : forall x, count_ret x (tr ++ [(t, EvAcc k o b)]) = count_ret x tr).
  { intros x. rewrite count_ret_snoc. cbn. lia. }
  eapply Inv_step; [exact HI|exact HS'|apply TI_acc; exact HT'|exact HV'|exact Hhp|exact Hna|exact Hlo|exact Hce| |exact HL3|exact HL1|exact HL2|exact HTnew| | | |exact HTmk].
  - intros t' N. apply te_acc.
  - intros x H. rewrite Hc. destruct (HTnew x H) as [K|K].
    + eapply (inv_tk_cnt _ _ _ _ HI); eauto.
    + destruct (count_ret x tr) eqn:E; [reflexivity|]. exfalso. apply K.
      apply (ti_cnt _ _ (inv_ti _ _ _ _ HI) x). lia.
  - intros x. left. apply Hc.
  - intros x H. left. auto.
Qed.

(** ** cells after a write *)
Lemma cells_set_same g s i c : cells (set_cell g s i c) s i = c.
Proof. cbn. now rewrite !Nat.eqb_refl. Qed.

Lemma cells_set_other g s i c s' i' : (s', i') <> (s, i) -> cells (set_cell g s i c) s' i' = cells g s' i'.
Proof.
  intros N. cbn. destruct (Nat.eqb_spec s' s), (Nat.eqb_spec i' i); cbn; try reflexivity. subst. congruence.
Qed.

Lemma cells_set_cases g s i c s' i' :
  (s' = s /\ i' = i /\ cells (set_cell g s i c) s' i' = c) \/
  ((s', i') <> (s, i) /\ cells (set_cell g s i c) s' i' = cells g s' i').
Proof.
  destruct (Nat.eq_dec s' s) as [->|N]; [destruct (Nat.eq_dec i' i) as [->|N]|].
  - left. repeat split. apply cells_set_same.
  - right. split; [congruence|]. apply cells_set_other. congruence.
  - right. split; [congruence|]. apply cells_set_other. congruence.
Qed.

Lemma cell_eqb_eq (c d : cell) : cell_eqb c d = true <-> c = d.
Proof.
  destruct c as [p m], d as [p' m']. unfold cell_eqb. cbn. rewrite andb_true_iff, eqb_true_iff. split.
  - intros [A ->]. f_equal. destruct p as [x|], p' as [y|]; cbn in A; try discriminate; auto.
    apply item_eqb_eq in A. now subst.
  - intros E. inversion E; subst. split; [|reflexivity]. destruct p' as [y|]; cbn; auto. apply item_eqb_refl.
Qed.

Ltac cell_cases g s i c s' i' E :=
  let N := fresh "N" in
  destruct (cells_set_cases g s i c s' i') as [(-> & -> & E)|(N & E)].

Lemma lo_set_cell g s i c : lo (set_cell g s i c) = lo g.
Proof. reflexivity. Qed.

(** *** S8: the CAS that stores an item into an empty cell *)
Lemma Inv_insert qf g a tr t s i x lb vis :
  Inv qf g a tr ->
  v_ph (a t) = PEnq x lb (Some s) vis false ->
  cells g s i = null_cell -> i < qf ->
  Inv qf (set_cell g s i (Some x, false))
      (upd a t (mkV (v_hd (a t)) (v_idx (a t)) (v_lock (a t)) (PEnq x lb (Some s) vis true)))
      (tr ++ [(t, EvAcc KCas (obj_cell s i) true)]).
Proof.
  intros HI Hph Hnull Hi.
  pose proof (inv_si _ _ _ _ HI) as HS. pose proof (inv_ti _ _ _ _ HI) as HT.
  pose proof (inv_vi _ _ _ _ HI t) as HV. pose proof (vi_ph _ _ _ _ HV) as HP. rewrite Hph in HP. cbn in HP.
  destruct HP as ((v & Hx) & Pinv & Plb & Pcb & Pins & Psg & Pvis).
  specialize (Pcb eq_refl). pose proof (Psg s eq_refl) as Hs.
  assert (Hlast : S s = nalloc g).
  { destruct (Nat.eq_dec (S s) (nalloc g)) as [E|N]; [exact E|]. exfalso.
    apply (si_full _ _ HS s i); [lia|exact Hi|]. unfold cptr. now rewrite Hnull. }
  set (g' := set_cell g s i (Some x, false)).
  assert (Hptr : forall s' i' y, cptr g s' i' = Some y -> cptr g' s' i' = Some y).
  { intros s' i' y K. unfold cptr, g' in *. cell_cases g s i (Some x, false) s' i' E.
    - rewrite Hnull in K. discriminate.
    - now rewrite E. }
  assert (Hback : forall s' i' y, cptr g' s' i' = Some y -> cptr g s' i' = Some y \/ (y = x /\ s' = s /\ i' = i)).
  { intros s' i' y K. unfold cptr, g' in *. cell_cases g s i (Some x, false) s' i' E.
    - rewrite E in K. cbn in K. inversion K. auto.
    - rewrite E in K. auto. }
  assert (Hmk : forall y, marked g' y -> marked g y).
  { intros y (s' & i' & K). unfold g' in K. cell_cases g s i (Some x, false) s' i' E.
    - rewrite E in K. discriminate.
    - rewrite E in K. exists s', i'. exact K. }
  assert (Hmk' : forall y, marked g y -> marked g' y).
  { intros y (s' & i' & K). exists s', i'. unfold g'. cell_cases g s i (Some x, false) s' i' E.
    - rewrite Hnull in K. discriminate.
    - now rewrite E. }
  assert (Hins' : forall y, inserted g y -> inserted g' y).
  { intros y (s' & i' & K). exists s', i'. auto. }
  assert (HS' : SI qf g').
  { destruct HS as [A1 A2 A3 A4 A5 A6 A7 A8 A9 A10]. split; try exact A1; try exact A8; try exact A9; try exact A10.
    - intros s' i'. unfold cptr, cmark, g'. cell_cases g s i (Some x, false) s' i' E; rewrite E; [discriminate|apply A2].
    - intros s' i'. unfold cptr, g'. cell_cases g s i (Some x, false) s' i' E; rewrite E; [intros _; split; [exact Hs|exact Hi]|apply A3].
    - intros y s1 i1 s2 i2 K1 K2.
      destruct (Hback _ _ _ K1) as [B1|(E1 & -> & ->)]; destruct (Hback _ _ _ K2) as [B2|(E2 & -> & ->)]; auto.
      + eapply A4; eauto.
      + subst y. exfalso. apply Pins. exists s1, i1. exact B1.
      + subst y. exfalso. apply Pins. exists s2, i2. exact B2.
    - intros s' i' L1 L2 K. apply (A5 s' i' L1 L2). unfold cptr, g' in *.
      cell_cases g s i (Some x, false) s' i' E; [cbn in L1; lia|now rewrite <- E].
    - intros s' i' L1 L2. unfold cmark, g'. cell_cases g s i (Some x, false) s' i' E.
      + exfalso. pose proof (A6 s i L1 L2) as K. unfold cmark in K. rewrite Hnull in K. discriminate.
      + rewrite E. apply A6; auto.
    - intros s' i'. unfold cmark, g'. cell_cases g s i (Some x, false) s' i' E; rewrite E; [discriminate|apply A7]. }
  assert (HT' : TI g' tr).
  { destruct HT as [B1 B2 B3 B4 B5]. split.
    - intros y H. apply Hins'. auto.
    - intros y (s' & i' & K). destruct (Hback _ _ _ K) as [K0|(-> & _)]; [apply B2; exists s', i'; exact K0|exact Pinv].
    - intros x1 y sx ix sy iy C K1 K2.
      destruct (Hback _ _ _ K2) as [K2'|(-> & _ & _)].
      + destruct (Hback _ _ _ K1) as [K1'|(-> & -> & ->)]; [eauto|].
        specialize (Pcb y sy iy C K2'). lia.
      + exfalso. apply Pins. apply B1. eapply cb_in1; eauto.
    - intros t0 k0 y H C. apply Hmk'. eauto.
    - intros y H. destruct (B5 y H). split; auto. }
  eapply Inv_step_acc; [exact HI|exact HS'|exact HT'| | | | | | | | | | | ].
  - apply (VI_own g tr t (a t)); [exact HV|reflexivity|intros _; discriminate| | | ].
    + intros l n E. apply (vi_lock _ _ _ _ HV). exact E.
    + intros E. apply (vi_hd _ _ _ _ HV E).
    + cbn. repeat split.
      * eauto.
      * apply in_evs_snoc. auto.
      * exact Plb.
      * discriminate.
      * exists s, i. unfold cptr, g'. now rewrite cells_set_same.
      * intros s0 E. inversion E; subst. exact Hs.
      * intros s0 i0 E Hin. inversion E; subst. intros K. apply (Pvis s0 i0 eq_refl Hin).
        destruct (cptr g s0 i0) as [y|] eqn:Ey; [|reflexivity]. rewrite (Hptr _ _ _ Ey) in K. discriminate.
  - intros; reflexivity.
  - cbn; lia.
  - unfold g'. rewrite lo_set_cell. lia.
  - intros t' N s' i'. unfold g'. cell_cases g s i (Some x, false) s' i' E.
    + right. left. split; [unfold cptr; now rewrite Hnull|]. exists x. split; [exact E|]. split; [exact Pins|].
      subst x. cbn. congruence.
    + left. exact E.
  - right. repeat split; auto.
  - cbn. intros Hf. split; [apply (inv_lock_free _ _ _ _ HI Hf)|auto].
  - cbn. auto.
  - intros y (rd & E). cbn in E. discriminate.
  - intros y (rd & E). rewrite Hph in E. discriminate.
  - intros y H. left. auto.
Qed.

(** *** S9: the CAS that marks a cell as deleted *)
Lemma Inv_mark qf g a tr t s i x Sn vis hn emp cur :
  Inv qf g a tr ->
  v_ph (a t) = PDeq Sn (Some s) vis hn emp (HItem x) cur ->
  cells g s i = (Some x, false) ->
  Inv qf (set_cell g s i (Some x, true))
      (upd a t (mkV (v_hd (a t)) (v_idx (a t)) (v_lock (a t)) (PGot x false)))
      (tr ++ [(t, EvAcc KCas (obj_cell s i) true)]).
Proof.
  intros HI Hph Hc.
  pose proof (inv_si _ _ _ _ HI) as HS. pose proof (inv_ti _ _ _ _ HI) as HT.
  pose proof (inv_vi _ _ _ _ HI t) as HV. pose proof (vi_ph _ _ _ _ HV) as HP. rewrite Hph in HP. cbn in HP.
  destruct HP as (Pinv & _ & _ & Psg & _ & _ & _ & Php & _).
  pose proof (Psg s eq_refl) as Hs.
  set (g' := set_cell g s i (Some x, true)).
  assert (Hptr : forall s' i', cptr g' s' i' = cptr g s' i').
  { intros s' i'. unfold cptr, g'. cell_cases g s i (Some x, true) s' i' E; rewrite E; [now rewrite Hc|reflexivity]. }
  assert (Hmk' : forall y, marked g y -> marked g' y).
  { intros y (s' & i' & K). exists s', i'. unfold g'. cell_cases g s i (Some x, true) s' i' E.
    - rewrite Hc in K. discriminate.
    - now rewrite E. }
  assert (Hmkx : marked g' x).
  { exists s, i. unfold g'. apply cells_set_same. }
  assert (Hmk : forall y, marked g' y -> marked g y \/ y = x).
  { intros y (s' & i' & K). unfold g' in K. cell_cases g s i (Some x, true) s' i' E; rewrite E in K.
    - inversion K. auto.
    - left. exists s', i'. exact K. }
  assert (Hnm : ~ marked g x).
  { intros (s' & i' & K). destruct (si_uniq _ _ HS x s i s' i') as [-> ->].
    - unfold cptr. now rewrite Hc.
    - unfold cptr. now rewrite K.
    - rewrite Hc in K. discriminate. }
  assert (Hins : forall y, inserted g' y <-> inserted g y).
  { intros y. unfold inserted. split; intros (s' & i' & K); exists s', i'; [rewrite <- Hptr|rewrite Hptr]; exact K. }
  assert (HS' : SI qf g').
  { destruct HS as [A1 A2 A3 A4 A5 A6 A7 A8 A9 A10]. split; try exact A1; try exact A8; try exact A9; try exact A10.
    - intros s' i'. rewrite Hptr. unfold cmark, g'. cell_cases g s i (Some x, true) s' i' E.
      + unfold cptr. rewrite Hc. discriminate.
      + rewrite E. apply A2.
    - intros s' i'. rewrite Hptr. apply A3.
    - intros y s1 i1 s2 i2. rewrite !Hptr. apply A4.
    - intros s' i'. rewrite Hptr. apply A5.
    - intros s' i' L1 L2. unfold cmark, g'. cell_cases g s i (Some x, true) s' i' E; rewrite E; [reflexivity|apply A6; auto].
    - intros s' i'. unfold cmark, g'. cell_cases g s i (Some x, true) s' i' E; rewrite E; [intros _; exact Hs|apply A7]. }
  assert (HT' : TI g' tr).
  { destruct HT as [B1 B2 B3 B4 B5]. split.
    - intros y H. apply Hins. auto.
    - intros y H. apply B2. apply Hins. exact H.
    - intros x1 y sx ix sy iy C. rewrite !Hptr. eauto.
    - intros t0 k0 y H C. apply Hmk'. eauto.
    - intros y H. destruct (B5 y H). split; auto. }
  eapply Inv_step_acc; [exact HI|exact HS'|exact HT'| | | | | | | | | | | ].
  - apply (VI_own g tr t (a t)); [exact HV|reflexivity|intros _; discriminate| | | ].
    + intros l n E. apply (vi_lock _ _ _ _ HV). exact E.
    + intros E. apply (vi_hd _ _ _ _ HV E).
    + cbn. split; [apply in_evs_snoc; auto|]. split; [exact Hmkx|]. intros _. exact Php.
  - intros; reflexivity.
  - cbn; lia.
  - unfold g'. rewrite lo_set_cell. lia.
  - intros t' N s' i'. unfold g'. cell_cases g s i (Some x, true) s' i' E.
    + right. right. exists x. auto.
    + left. exact E.
  - right. repeat split; auto.
  - cbn. intros Hf. split; [apply (inv_lock_free _ _ _ _ HI Hf)|auto].
  - cbn. auto.
  - intros y (rd & E). cbn in E. inversion E; subst. right. exact Hnm.
  - intros y (rd & E). rewrite Hph in E. discriminate.
  - intros y H. destruct (Hmk y H) as [K| ->]; [left; exact K|right; exists false; reflexivity].
Qed.

(** ** the segment list *)
Lemma last_opt_seq lo n : last_opt (seq lo (S n)) = Some (lo + n).
Proof.
  unfold last_opt. rewrite seq_S. destruct (seq lo n ++ [lo + n]) eqn:E.
  - destruct (seq lo n); discriminate.
  - rewrite <- E. now rewrite last_last.
Qed.

Lemma slist_last qf g b : SI qf g -> last_opt (slist g) = Some b -> S b = nalloc g.
Proof.
  intros HS H. destruct (si_list _ _ HS) as (E & L). rewrite E in H.
  destruct (List.length (slist g)) as [|m] eqn:El; [discriminate|].
  rewrite last_opt_seq in H. inversion H. unfold lo in *. rewrite El in *. lia.
Qed.

Lemma slist_front qf g f rest : SI qf g -> slist g = f :: rest -> f = lo g /\ (forall f2 r, rest = f2 :: r -> f2 = S (lo g)).
Proof.
  intros HS H. destruct (si_list _ _ HS) as (E & L). rewrite H in E. cbn [List.length] in E. cbn in E.
  injection E as E1 E2. split; [exact E1|]. intros f2 r Er. rewrite Er in E2. cbn in E2. injection E2 as E3 _. exact E3.
Qed.

(** the last segment is full when the enqueuer that probed all its cells, or that found the list empty, holds the lock *)
Lemma full_last qf g a tr t x lb sg vis :
  Inv qf g a tr ->
  v_ph (a t) = PEnq x lb sg vis false ->
  (slist g = [] \/ (sg <> None /\ sg = last_opt (slist g) /\ covers qf vis)) ->
  forall s i, S s = nalloc g -> i < qf -> cptr g s i <> None.
Proof.
  intros HI Hph Hor s i Hs Hi K.
  pose proof (inv_si _ _ _ _ HI) as HS.
  destruct Hor as [El|(Hn & El & Hc)].
  - assert (L : s < lo g) by (unfold lo; rewrite El; cbn; lia).
    pose proof (si_exh _ _ HS s i L Hi) as M. rewrite (si_wf _ _ HS s i K) in M. discriminate.
  - pose proof (vi_ph _ _ _ _ (inv_vi _ _ _ _ HI t)) as HP. rewrite Hph in HP. cbn in HP.
    destruct HP as (_ & _ & _ & _ & _ & _ & Pvis).
    destruct sg as [b|]; [|congruence]. symmetry in El. pose proof (slist_last _ _ _ HS El) as Eb.
    assert (b = s) by lia. subst b. apply (Pvis s i eq_refl (Hc i Hi)). exact K.
Qed.

(** *** S6: push_back of the new segment + m_pTail.store *)
Lemma Inv_push qf g a tr t x lb sg vis l n :
  Inv qf g a tr ->
  v_lock (a t) = Some (l, n) ->
  v_ph (a t) = PEnq x lb sg vis false ->
  headp g <> None ->
  (l = [] \/ (sg <> None /\ sg = last_opt l /\ covers qf vis)) ->
  Inv qf (set_tail (set_list g (slist g ++ [n]) (S n)) (Some n))
      (upd a t (mkV false (v_idx (a t)) (Some (l ++ [n], S n)) (PEnq x lb (Some n) [] false)))
      (tr ++ [(t, EvAcc KSt obj_tail true)]).
Proof.
  intros HI Hlk Hph Hhd Hor.
  pose proof (inv_si _ _ _ _ HI) as HS. pose proof (inv_ti _ _ _ _ HI) as HT.
  pose proof (inv_vi _ _ _ _ HI t) as HV. destruct (vi_lock _ _ _ _ HV l n Hlk) as (Hw & El & En).
  pose proof (vi_ph _ _ _ _ HV) as HP. rewrite Hph in HP. cbn in HP.
  destruct HP as (Px & Pinv & Plb & Pcb & Pins & Psg & Pvis).
  subst l n.
  pose proof (full_last _ _ _ _ _ _ _ _ _ HI Hph Hor) as Hfull.
  set (g' := set_tail (set_list g (slist g ++ [nalloc g]) (S (nalloc g))) (Some (nalloc g))).
  assert (Ec : same_cells g g') by (intros s i; reflexivity).
  assert (Elo : lo g' = lo g).
  { unfold lo, g'. cbn [nalloc slist set_tail set_list]. rewrite app_length. cbn [List.length]. destruct (si_list _ _ HS). lia. }
  assert (HS' : SI qf g').
  { destruct HS as [A1 A2 A3 A4 A5 A6 A7 A8 A9 A10]. split; rewrite ?Elo; try exact A2; try exact A4; try exact A6; try exact A7; try exact A8.
    - destruct A1 as (E & L). unfold g'. cbn. rewrite app_length. cbn. split; [|lia].
      rewrite Nat.add_1_r, seq_S. rewrite <- E. f_equal. f_equal. unfold lo. lia.
    - intros s i K. destruct (A3 s i K). cbn. split; [lia|auto].
    - cbn. intros s i L1 L2. destruct (Nat.eq_dec (S s) (nalloc g)) as [E|N]; [apply Hfull; auto|apply A5; [lia|auto]].
    - cbn. intros H. contradiction.
    - cbn. intros s E. inversion E. lia. }
  eapply Inv_step_acc; [exact HI|exact HS'|eapply TI_ext; eauto| | | | | | | | | | | ].
  - apply (VI_own g tr t (a t)); [exact HV|reflexivity|intros _; discriminate| |discriminate| ].
    + intros l n E. inversion E; subst. cbn. auto.
    + cbn. repeat split.
      * exact Px.
      * apply in_evs_snoc. auto.
      * lia.
      * intros _ y s i C K. apply cb_snoc_other in C; [|destruct x as [[? ?] ?]; discriminate]. eapply Pcb; eauto.
      * exact Pins.
      * intros s E. inversion E. lia.
      * intros s i _ [].
  - intros; reflexivity.
  - cbn; lia.
  - rewrite Elo. lia.
  - intros t' N. apply same_cells_evolve. exact Ec.
  - left. intros t' N. destruct (v_lock (a t')) eqn:E; [|reflexivity]. exfalso. apply N.
    eapply (inv_lock_uniq _ _ _ _ HI); congruence.
  - cbn. intros Hf. congruence.
  - cbn. intros _. left. congruence.
  - intros y (rd & E). cbn in E. discriminate.
  - intros y (rd & E). rewrite Hph in E. discriminate.
  - intros y H. left. apply (marked_ext g g'); auto.
Qed.

(** every item stored in a cell is marked once no segment is left in the list *)
Lemma all_marked_when_empty qf g y : SI qf g -> slist g = [] -> inserted g y -> marked g y.
Proof.
  intros HS El (s & i & K). exists s, i.
  destruct (si_range _ _ HS s i) as (L1 & L2); [rewrite K; discriminate|].
  assert (L : s < lo g) by (unfold lo; rewrite El; cbn; lia).
  pose proof (si_exh _ _ HS s i L L2) as M. unfold cptr, cmark in *. destruct (cells g s i); cbn in *; subst. reflexivity.
Qed.

Definition hd_opt (l : list nat) : option nat := match l with [] => None | x :: _ => Some x end.
Definition is_nil (l : list nat) : bool := match l with [] => true | _ => false end.

(** *** S7: pop_front of the exhausted head segment + the guard's slot store *)
Lemma Inv_pop qf g a tr t f rest n Sn vis emp hp0 cur h :
  Inv qf g a tr ->
  v_lock (a t) = Some (f :: rest, n) ->
  v_ph (a t) = PDeq Sn (Some f) vis false emp hp0 cur ->
  covers qf vis ->
  Inv qf (set_hp (set_list g (tl (slist g)) (nalloc g)) t 1 h)
      (upd a t (mkV (v_hd (a t)) (v_idx (a t)) (Some (rest, n)) (PDeq Sn (hd_opt rest) [] false (emp || is_nil rest) hp0 None)))
      (tr ++ [(t, EvAcc KSt (obj_hp t 1) true)]).
Proof.
  intros HI Hlk Hph Hcov.
  pose proof (inv_si _ _ _ _ HI) as HS. pose proof (inv_ti _ _ _ _ HI) as HT.
  pose proof (inv_vi _ _ _ _ HI t) as HV. destruct (vi_lock _ _ _ _ HV _ _ Hlk) as (Hw & El & En).
  pose proof (vi_ph _ _ _ _ HV) as HP. rewrite Hph in HP. cbn in HP.
  destruct HP as (Pinv & PS1 & PS2 & Psg & Pvis & Pnull & Pemp & Php & Pcur).
  destruct (slist_front _ _ _ _ HS El) as (Ef & Ef2).
  set (g' := set_hp (set_list g (tl (slist g)) (nalloc g)) t 1 h).
  assert (Ec : same_cells g g') by (intros s i; reflexivity).
  assert (Elo : lo g' = S (lo g)).
  { unfold lo, g'. cbn [nalloc slist set_hp set_list]. rewrite El. cbn [tl List.length]. destruct (si_list _ _ HS) as (_ & L). rewrite El in L. cbn in L. lia. }
  assert (Hexh : forall i, i < qf -> cmark g f i = true).
  { intros i Hi. destruct (Pvis f i eq_refl (Hcov i Hi)) as [K|[K _]]; [exact K|discriminate]. }
  assert (HS' : SI qf g').
  { destruct HS as [A1 A2 A3 A4 A5 A6 A7 A8 A9 A10]. split; rewrite ?Elo; try exact A2; try exact A3; try exact A4; try exact A5; try exact A10.
    - destruct A1 as (E & L). unfold g'. cbn [nalloc slist set_hp set_list]. rewrite El in *. cbn [tl List.length] in *. cbn in E.
      injection E as E1 E2. split; [exact E2|lia].
    - intros s i L1 L2. change (cmark g s i = true). destruct (Nat.eq_dec s (lo g)) as [->|N]; [rewrite <- Ef; apply Hexh; auto|apply A6; [lia|auto]].
    - intros s i K. specialize (A7 s i K). lia.
    - intros s E. specialize (A8 s E). lia.
    - intros E. change (headp g = None) in E. rewrite (A9 E) in El. discriminate. }
  eapply Inv_step_acc; [exact HI|exact HS'|eapply TI_ext; eauto| | | | | | | | | | | ].
  - apply (VI_own g tr t (a t)); [exact HV|reflexivity|intros _; discriminate| | | ].
    + intros l n0 E. inversion E; subst. unfold g'. cbn. rewrite El. auto.
    + intros E. split; [discriminate|]. apply (vi_hd _ _ _ _ HV E).
    + cbn [PH]. repeat split.
      * apply in_evs_snoc. auto.
      * intros y C. apply PS1. apply cb_snoc_other in C; [exact C|discriminate].
      * intros y Hy. apply (inserted_ext g g'); auto.
      * intros s E. rewrite Elo. destruct rest as [|f2 r]; [discriminate|]. cbn in E. inversion E; subst.
        rewrite (Ef2 s r eq_refl). lia.
      * intros s i _ [].
      * discriminate.
      * intros He y Hy. apply (marked_ext g g'); [exact Ec|]. apply orb_true_iff in He. destruct He as [He|He]; [auto|].
        destruct rest; [|discriminate].
        eapply (all_marked_when_empty qf g'); [exact HS'| |apply (inserted_ext g g'); auto].
        unfold g'. cbn. now rewrite El.
      * unfold g'. cbn. rewrite andb_false_r. exact Php.
      * discriminate.
  - intros. unfold g'. cbn. now rewrite andb_false_r.
  - cbn; lia.
  - rewrite Elo. lia.
  - intros t' N. apply same_cells_evolve. exact Ec.
  - left. intros t' N. destruct (v_lock (a t')) eqn:E; [|reflexivity]. exfalso. apply N.
    eapply (inv_lock_uniq _ _ _ _ HI); congruence.
  - cbn. intros Hf. congruence.
  - cbn. intros _. left. congruence.
  - intros y (rd & E). cbn in E. discriminate.
  - intros y (rd & E). rewrite Hph in E. discriminate.
  - intros y H. left. apply (marked_ext g g'); auto.
Qed.

(** ** client events *)
Lemma Inv_emit qf g a tr t e vw' :
  Inv qf g a tr ->
  TI g (tr ++ [(t, e)]) -> VI g (tr ++ [(t, e)]) t vw' ->
  (forall t' k, t' <> t -> ev_op e <> Some (t', k)) ->
  v_lock vw' = v_lock (a t) ->
  (forall x, taker vw' x -> taker (a t) x) ->
  (forall x, taker vw' x -> count_ret x (tr ++ [(t, e)]) = 0) ->
  (forall x, count_ret x (tr ++ [(t, e)]) = count_ret x tr \/ (taker (a t) x /\ count_ret x (tr ++ [(t, e)]) = 1)) ->
  (forall x, taker (a t) x -> taker vw' x \/ count_ret x (tr ++ [(t, e)]) = 1) ->
  Inv qf g (upd a t vw') (tr ++ [(t, e)]).
Proof.
  intros HI HT' HV' Hop Hlk Htk Hc0 Hcnt Hdrop.
  eapply Inv_step; [exact HI|apply (inv_si _ _ _ _ HI)|exact HT'|exact HV'| | | | | | | | | |exact Hc0|exact Hcnt|exact Hdrop| ]; auto.
  - intros t' N. apply ce_refl.
  - intros t' N. right. eexists. split; [reflexivity|]. intros k. cbn. apply Hop. exact N.
  - rewrite Hlk. intros Hf. split; [|auto]. apply (inv_lock_free _ _ _ _ HI Hf).
  - rewrite Hlk. auto.
Qed.

(** an event that is neither a response nor an invocation the history invariants look at *)
Lemma count_ret_snoc_false x tr te : is_ret_got x (snd te) = false -> count_ret x (tr ++ [te]) = count_ret x tr.
Proof. intros H. rewrite count_ret_snoc, H. lia. Qed.

Lemma idle_no_events g tr t vw t' e :
  VI g tr t vw -> v_ph vw = PIdle -> In (t', e) tr -> ev_op e <> Some (t, v_idx vw).
Proof.
  intros HV Hid Hin Hop. destruct (vi_ops _ _ _ _ HV t' e _ Hin Hop) as [K|(_ & K & _)]; [lia|congruence].
Qed.

Lemma in_evs tr e : In e (evs tr) -> exists t', In (t', e) tr.
Proof. unfold evs. rewrite in_map_iff. intros ((t' & e') & E & H). cbn in E. subst. eauto. Qed.

Lemma vi_ops_next g tr t vw te :
  VI g tr t vw -> ev_op (snd te) = Some (t, v_idx vw) ->
  forall t' e k, In (t', e) (tr ++ [te]) -> ev_op e = Some (t, k) -> k < S (v_idx vw) \/ (k = S (v_idx vw) /\ PIdle <> PIdle /\ ev_is_ret e = false).
Proof.
  intros HV Hop t' e k Hin Ho. left. apply in_app_or in Hin. destruct Hin as [Hin|[E|[]]].
  - destruct (vi_ops _ _ _ _ HV t' e k Hin Ho) as [K|(K & _)]; lia.
  - subst te. cbn in Hop. rewrite Hop in Ho. inversion Ho. lia.
Qed.

(** *** E1: invocation of an enqueue *)
Lemma Inv_inv_enq qf g a tr t v :
  Inv qf g a tr -> v_ph (a t) = PIdle ->
  Inv qf g (upd a t (mkV (v_hd (a t)) (v_idx (a t)) (v_lock (a t)) (PEnq (t, v_idx (a t), v) (nalloc g) None [] false)))
      (tr ++ [(t, ev_inv_enq (t, v_idx (a t), v))]).
Proof.
  intros HI Hid. set (x := (t, v_idx (a t), v)).
  pose proof (inv_si _ _ _ _ HI) as HS. pose proof (inv_ti _ _ _ _ HI) as HT. pose proof (inv_vi _ _ _ _ HI t) as HV.
  assert (Hfresh : ~ In (ev_inv_enq x) (evs tr)).
  { intros H. destruct (in_evs _ _ H) as (t' & Hin). eapply idle_no_events; eauto. apply ev_op_inv_enq. }
  assert (Hnins : ~ inserted g x) by (intros H; apply Hfresh; apply (ti_inv _ _ HT); exact H).
  apply Inv_emit; auto.
  - destruct HT as [B1 B2 B3 B4 B5]. split.
    + intros y H. apply in_evs_snoc in H. destruct H as [H|H]; [auto|]. destruct y as [[? ?] ?]; discriminate.
    + intros y H. apply in_evs_snoc. auto.
    + intros x1 y sx ix sy iy C K1 K2. destruct (cb_snoc _ _ _ _ C) as [C0|(E & _ & _)]; [eauto|].
      cbn [snd] in E. apply ev_inv_enq_inj in E. subst x1. exfalso. apply Hnins. exists sx, ix. exact K1.
    + intros t0 k0 y H C. apply in_evs_snoc in H. destruct H as [H|H]; [|discriminate].
      apply cb_snoc_other in C; [eauto|discriminate].
    + intros y. rewrite count_ret_snoc_false by apply is_ret_got_inv_enq. auto.
  - split; cbn [v_hd v_idx v_lock v_ph].
    + intros t' e k Hin Ho. apply in_app_or in Hin. destruct Hin as [Hin|[E|[]]].
      * left. destruct (vi_ops _ _ _ _ HV t' e k Hin Ho) as [K|(_ & K & _)]; [exact K|congruence].
      * injection E as E1 E2. subst e. change (ev_op (ev_inv_enq (t, v_idx (a t), v)) = Some (t, k)) in Ho.
        rewrite ev_op_inv_enq in Ho. inversion Ho. right. repeat split; discriminate.
    + apply (vi_lock _ _ _ _ HV).
    + apply (vi_hd _ _ _ _ HV).
    + cbn [PH]. repeat split.
      * exists v. reflexivity.
      * apply in_evs_snoc. auto.
      * lia.
      * intros _ y s i _ K. apply (si_range _ _ HS s i). rewrite K. discriminate.
      * exact Hnins.
      * discriminate.
      * intros s i _ [].
  - intros t' k N. unfold x. rewrite ev_op_inv_enq. congruence.
  - intros y (rd & E). discriminate.
  - intros y (rd & E). discriminate.
  - intros y. left. apply count_ret_snoc_false. apply is_ret_got_inv_enq.
  - intros y (rd & E). rewrite Hid in E. discriminate.
Qed.

(** *** E2: response of an enqueue *)
Lemma Inv_ret_enq qf g a tr t x lb sg vis :
  Inv qf g a tr -> v_ph (a t) = PEnq x lb sg vis true ->
  Inv qf g (upd a t (mkV (v_hd (a t)) (S (v_idx (a t))) (v_lock (a t)) PIdle)) (tr ++ [(t, ev_ret_enq x)]).
Proof.
  intros HI Hph.
  pose proof (inv_si _ _ _ _ HI) as HS. pose proof (inv_ti _ _ _ _ HI) as HT. pose proof (inv_vi _ _ _ _ HI t) as HV.
  pose proof (vi_ph _ _ _ _ HV) as HP. rewrite Hph in HP. cbn in HP. destruct HP as ((v & Hx) & _ & _ & _ & Pins & _).
  apply Inv_emit; auto.
  - destruct HT as [B1 B2 B3 B4 B5]. split.
    + intros y H. apply in_evs_snoc in H. destruct H as [H|H]; [auto|]. cbn [snd] in H. apply ev_ret_enq_inj in H. now subst.
    + intros y H. apply in_evs_snoc. auto.
    + intros x1 y sx ix sy iy C. apply cb_snoc_other in C; [eauto|]. subst x. destruct x1 as [[? ?] ?]; discriminate.
    + intros t0 k0 y H C. apply in_evs_snoc in H. destruct H as [H|H]; [|subst x; discriminate].
      apply cb_snoc_other in C; [eauto|subst x; discriminate].
    + intros y. rewrite count_ret_snoc_false by apply is_ret_got_ret_enq. auto.
  - split; cbn [v_hd v_idx v_lock v_ph].
    + apply (vi_ops_next g); auto. subst x. apply ev_op_ret_enq.
    + apply (vi_lock _ _ _ _ HV).
    + apply (vi_hd _ _ _ _ HV).
    + exact I.
  - intros t' k N. subst x. rewrite ev_op_ret_enq. congruence.
  - intros y (rd & E). discriminate.
  - intros y (rd & E). discriminate.
  - intros y. left. apply count_ret_snoc_false. apply is_ret_got_ret_enq.
  - intros y (rd & E). rewrite Hph in E. discriminate.
Qed.

(** *** E3: invocation of a dequeue *)
Lemma Inv_inv_deq qf g a tr t :
  Inv qf g a tr -> v_ph (a t) = PIdle ->
  Inv qf g (upd a t (mkV (v_hd (a t)) (v_idx (a t)) (v_lock (a t)) (PDeq (inserted g) None [] false false (hp g t 0) None)))
      (tr ++ [(t, ev_inv_deq t (v_idx (a t)))]).
Proof.
  intros HI Hid.
  pose proof (inv_si _ _ _ _ HI) as HS. pose proof (inv_ti _ _ _ _ HI) as HT. pose proof (inv_vi _ _ _ _ HI t) as HV.
  apply Inv_emit; auto.
  - destruct HT as [B1 B2 B3 B4 B5]. split.
    + intros y H. apply in_evs_snoc in H. destruct H as [H|H]; [auto|]. destruct y as [[? ?] ?]; discriminate.
    + intros y H. apply in_evs_snoc. auto.
    + intros x1 y sx ix sy iy C. apply cb_snoc_other in C; [eauto|]. destruct x1 as [[? ?] ?]; discriminate.
    + intros t0 k0 y H C. apply in_evs_snoc in H. destruct H as [H|H]; [|discriminate].
      destruct (cb_snoc _ _ _ _ C) as [C0|(E & _ & _)]; [eauto|].
      cbn [snd] in E. apply ev_inv_deq_inj in E. destruct E as (<- & <-). exfalso.
      destruct (in_evs _ _ H) as (t' & Hin). eapply idle_no_events; eauto. apply ev_op_ret_deq_empty.
    + intros y. rewrite count_ret_snoc_false by apply is_ret_got_inv_deq. auto.
  - split; cbn [v_hd v_idx v_lock v_ph].
    + intros t' e k Hin Ho. apply in_app_or in Hin. destruct Hin as [Hin|[E|[]]].
      * left. destruct (vi_ops _ _ _ _ HV t' e k Hin Ho) as [K|(_ & K & _)]; [exact K|congruence].
      * injection E as E1 E2. subst e. change (ev_op (ev_inv_deq t (v_idx (a t))) = Some (t, k)) in Ho.
        rewrite ev_op_inv_deq in Ho. inversion Ho. right. repeat split; discriminate.
    + apply (vi_lock _ _ _ _ HV).
    + apply (vi_hd _ _ _ _ HV).
    + cbn [PH]. split; [apply in_evs_snoc; auto|]. split.
      { intros y C. apply (ti_ret _ _ HT). destruct (cb_snoc _ _ _ _ C) as [C0|(_ & _ & K)]; [eapply cb_in1; eauto|exact K]. }
      split; [auto|]. split; [discriminate|]. split; [intros s i _ []|]. repeat split; discriminate.
  - intros t' k N. rewrite ev_op_inv_deq. congruence.
  - intros y (rd & E). discriminate.
  - intros y (rd & E). discriminate.
  - intros y. left. apply count_ret_snoc_false. apply is_ret_got_inv_deq.
  - intros y (rd & E). rewrite Hid in E. discriminate.
Qed.

Lemma ev_ret_deq_empty_inj t k t' k' : ev_ret_deq_empty t k = ev_ret_deq_empty t' k' -> t = t' /\ k = k'.
Proof. cbn. intros H. inversion H. apply Nat2Z.inj in H1, H2. auto. Qed.

Lemma ev_got_not_empty t k x t' k' : ev_ret_deq_got t k x <> ev_ret_deq_empty t' k'.
Proof. destruct x as [[? ?] ?]. discriminate. Qed.

(** *** E4: response of a dequeue that returns an item *)
Lemma Inv_ret_deq_got qf g a tr t x :
  Inv qf g a tr -> v_ph (a t) = PGot x true ->
  Inv qf g (upd a t (mkV (v_hd (a t)) (S (v_idx (a t))) (v_lock (a t)) PIdle)) (tr ++ [(t, ev_ret_deq_got t (v_idx (a t)) x)]).
Proof.
  intros HI Hph.
  pose proof (inv_si _ _ _ _ HI) as HS. pose proof (inv_ti _ _ _ _ HI) as HT. pose proof (inv_vi _ _ _ _ HI t) as HV.
  pose proof (vi_ph _ _ _ _ HV) as HP. rewrite Hph in HP. cbn in HP. destruct HP as (_ & Pmk & _).
  assert (Htk : taker (a t) x) by (exists true; exact Hph).
  pose proof (inv_tk_cnt _ _ _ _ HI x t Htk) as Hc0.
  assert (Hcx : count_ret x (tr ++ [(t, ev_ret_deq_got t (v_idx (a t)) x)]) = 1).
  { rewrite count_ret_snoc. cbn [snd]. rewrite is_ret_got_got, item_eqb_refl. lia. }
  assert (Hcy : forall y, y <> x -> count_ret y (tr ++ [(t, ev_ret_deq_got t (v_idx (a t)) x)]) = count_ret y tr).
  { intros y N. apply count_ret_snoc_false. cbn [snd]. rewrite is_ret_got_got.
    destruct (item_eqb y x) eqn:E; [apply item_eqb_eq in E; contradiction|reflexivity]. }
  apply Inv_emit; auto.
  - destruct HT as [B1 B2 B3 B4 B5]. split.
    + intros y H. apply in_evs_snoc in H. destruct H as [H|H]; [auto|]. destruct y as [[? ?] ?], x as [[? ?] ?]; discriminate.
    + intros y H. apply in_evs_snoc. auto.
    + intros x1 y sx ix sy iy C. apply cb_snoc_other in C; [eauto|]. destruct x1 as [[? ?] ?], x as [[? ?] ?]; discriminate.
    + intros t0 k0 y H C. apply in_evs_snoc in H. destruct H as [H|H]; [|symmetry in H; apply ev_got_not_empty in H; destruct H].
      apply cb_snoc_other in C; [eauto|destruct x as [[? ?] ?]; discriminate].
    + intros y H. destruct (item_eq_dec y x) as [->|N].
      * split; [exact Pmk|exact Hcx].
      * rewrite Hcy in * by exact N. auto.
  - split; cbn [v_hd v_idx v_lock v_ph].
    + apply (vi_ops_next g); auto. apply ev_op_ret_deq_got.
    + apply (vi_lock _ _ _ _ HV).
    + apply (vi_hd _ _ _ _ HV).
    + exact I.
  - intros t' k N. rewrite ev_op_ret_deq_got. congruence.
  - intros y (rd & E). discriminate.
  - intros y (rd & E). discriminate.
  - intros y. destruct (item_eq_dec y x) as [->|N]; [right; auto|left; auto].
  - intros y (rd & E). rewrite Hph in E. inversion E; subst. right. exact Hcx.
Qed.

(** *** E5: response of a dequeue that reports empty *)
Lemma Inv_ret_deq_empty qf g a tr t Sn sg vis hn hp0 cur :
  Inv qf g a tr -> v_ph (a t) = PDeq Sn sg vis hn true hp0 cur ->
  Inv qf g (upd a t (mkV (v_hd (a t)) (S (v_idx (a t))) (v_lock (a t)) PIdle)) (tr ++ [(t, ev_ret_deq_empty t (v_idx (a t)))]).
Proof.
  intros HI Hph.
  pose proof (inv_si _ _ _ _ HI) as HS. pose proof (inv_ti _ _ _ _ HI) as HT. pose proof (inv_vi _ _ _ _ HI t) as HV.
  pose proof (vi_ph _ _ _ _ HV) as HP. rewrite Hph in HP. cbn in HP. destruct HP as (_ & PS1 & _ & _ & _ & _ & Pemp & _).
  apply Inv_emit; auto.
  - destruct HT as [B1 B2 B3 B4 B5]. split.
    + intros y H. apply in_evs_snoc in H. destruct H as [H|H]; [auto|]. destruct y as [[? ?] ?]; discriminate.
    + intros y H. apply in_evs_snoc. auto.
    + intros x1 y sx ix sy iy C. apply cb_snoc_other in C; [eauto|]. destruct x1 as [[? ?] ?]; discriminate.
    + intros t0 k0 y H C. apply cb_snoc_other in C; [|discriminate].
      apply in_evs_snoc in H. destruct H as [H|H]; [eauto|].
      cbn [snd] in H. apply ev_ret_deq_empty_inj in H. destruct H as (-> & ->). apply (Pemp eq_refl). apply PS1. exact C.
    + intros y. rewrite count_ret_snoc_false by apply is_ret_got_empty. auto.
  - split; cbn [v_hd v_idx v_lock v_ph].
    + apply (vi_ops_next g); auto. apply ev_op_ret_deq_empty.
    + apply (vi_lock _ _ _ _ HV).
    + apply (vi_hd _ _ _ _ HV).
    + exact I.
  - intros t' k N. rewrite ev_op_ret_deq_empty. congruence.
  - intros y (rd & E). discriminate.
  - intros y (rd & E). discriminate.
  - intros y. left. apply count_ret_snoc_false. apply is_ret_got_empty.
  - intros y (rd & E). rewrite Hph in E. discriminate.
Qed.

(** *** E6: an event outside the vocabulary of the statements (out of fuel) *)
Lemma Inv_emit_other qf g a tr t name :
  Inv qf g a tr -> ev_op (EvCli name []) = None ->
  Inv qf g (upd a t (a t)) (tr ++ [(t, EvCli name [])]).
Proof.
  intros HI Hop.
  pose proof (inv_si _ _ _ _ HI) as HS. pose proof (inv_ti _ _ _ _ HI) as HT. pose proof (inv_vi _ _ _ _ HI t) as HV.
  assert (Hr : forall y, is_ret_got y (EvCli name []) = false).
  { intros y. cbn. destruct (String.eqb name "ret_deq"); reflexivity. }
  apply Inv_emit; [exact HI| | | | | | | | ].
  - destruct HT as [B1 B2 B3 B4 B5]. split.
    + intros y H. apply in_evs_snoc in H. destruct H as [H|H]; [auto|]. destruct y as [[? ?] ?]; discriminate.
    + intros y H. apply in_evs_snoc. auto.
    + intros x1 y sx ix sy iy C. apply cb_snoc_other in C; [eauto|]. destruct x1 as [[? ?] ?]; discriminate.
    + intros t0 k0 y H C. apply in_evs_snoc in H. destruct H as [H|H]; [|discriminate].
      apply cb_snoc_other in C; [eauto|discriminate].
    + intros y. rewrite count_ret_snoc_false by apply Hr. auto.
  - eapply VI_stable; eauto using ce_refl.
    right. eexists. split; [reflexivity|]. intros k. cbn [snd]. rewrite Hop. discriminate.
  - intros t' k N. rewrite Hop. discriminate.
  - reflexivity.
  - auto.
  - intros y H. rewrite count_ret_snoc_false by apply Hr. eapply (inv_tk_cnt _ _ _ _ HI); eauto.
  - intros y. left. apply count_ret_snoc_false. apply Hr.
  - auto.
Qed.
