(** * SplitListOrdReach: consequences of [split_sorted_reach] in terms of reachability along m_pNext:
      no duplicate key among the nodes reachable from the list head, every published bucket pointer is reachable from the
      head and from its parent bucket's dummy, and (growth) whatever m_nBucketCountLog2 currently is, a node carrying the
      key [okey (hash k) k] is reachable from the dummy of the bucket that the CURRENT table size selects for [hash k]
      whenever that bucket is published. *)
From Coq Require Import ZArith List Bool Lia PeanoNat.
From LV Require Import Base.Conc Base.Events.
From LV Require Import Proofs.MichaelListProofs.      (* zsorted *)
From LV Require Model.SplitList Proofs.SplitListInv.
From LV Require Import Proofs.SplitListOrdArith Proofs.SplitListLinSim Proofs.SplitListLinOps Proofs.SplitListLinThm.
Import ListNotations.
Local Open Scope Z_scope.

(** nodes reachable from node [n] by following m_pNext (the definition used in Properties_C14) *)
Inductive lreach (g : SL.G) : nat -> nat -> Prop :=
| lreach_refl n : lreach g n n
| lreach_step n m : n <> 0%nat -> lreach g (SL.nnext (SL.heap g n)) m -> lreach g n m.

Lemma lreach_in g : forall L a n, slinked g a L 0 -> lreach g a n -> n <> 0%nat -> In n (a :: L).
Proof.
  induction L as [|x L IH]; intros a n Hl Hr Hn; cbn [slinked] in Hl.
  - inversion Hr as [|? ? Ha Hr']; subst; [left; reflexivity|]. rewrite Hl in Hr'.
    inversion Hr' as [|? ? H0 _]; subst; congruence.
  - destruct Hl as [E Hl]. inversion Hr as [|? ? Ha Hr']; subst; [left; reflexivity|].
    right. apply IH; assumption.
Qed.

Lemma in_lreach g : forall L1 a n L2 q, slinked g a (L1 ++ n :: L2) q -> (forall x, In x (a :: L1) -> x <> 0%nat) -> lreach g a n.
Proof.
  induction L1 as [|x L1 IH]; intros a n L2 q Hl Hnz; cbn [app slinked] in Hl; destruct Hl as [E Hl].
  - apply lreach_step; [apply Hnz; left; reflexivity|]. rewrite E. apply lreach_refl.
  - apply lreach_step; [apply Hnz; left; reflexivity|]. rewrite E. eapply IH; [exact Hl|].
    intros y Hy. apply Hnz. right. exact Hy.
Qed.

Lemma slinked_app g : forall L1 a x L2 q, slinked g a (L1 ++ x :: L2) q -> slinked g x L2 q.
Proof. induction L1 as [|y L1 IH]; intros a x L2 q H; cbn [app slinked] in H; destruct H as [_ H]; [exact H|eapply IH; exact H]. Qed.

Lemma zsorted_lt_all x r : zsorted (x :: r) -> forall y, In y r -> x < y.
Proof.
  revert x. induction r as [|z r IH]; intros x H y Hy; [destruct Hy|].
  destruct H as [H1 H2]. destruct Hy as [->|Hy]; [exact H1|]. specialize (IH z H2 y Hy). lia.
Qed.
Lemma zsorted_tail x r : zsorted (x :: r) -> zsorted r.
Proof. cbn. tauto. Qed.
Lemma zsorted_app_r l1 l2 : zsorted (l1 ++ l2) -> zsorted l2.
Proof. induction l1 as [|x l1 IH]; cbn [app]; auto. intros H. apply IH. eapply zsorted_tail; eauto. Qed.

(** in a strictly sorted chain a node with a larger key comes later *)
Lemma sorted_later g (C : list nat) d n :
  zsorted (skeys g C) -> In d C -> In n C -> SL.nkey (SL.heap g d) < SL.nkey (SL.heap g n) ->
  exists C1 C2 C3, C = C1 ++ d :: C2 ++ n :: C3.
Proof.
  intros Hs Hd Hn Hlt. apply in_split in Hd. destruct Hd as (C1 & R & ->).
  assert (HnR : In n R).
  { apply in_app_or in Hn. destruct Hn as [Hn|[->|Hn]]; [|lia|exact Hn]. exfalso.
    apply in_split in Hn. destruct Hn as (A & B & ->). unfold skeys in Hs. rewrite <- app_assoc in Hs. cbn [app] in Hs.
    rewrite map_app in Hs. apply zsorted_app_r in Hs. cbn [map] in Hs.
    assert (K : SL.nkey (SL.heap g n) < SL.nkey (SL.heap g d)).
    { apply (zsorted_lt_all _ _ Hs). rewrite map_app. apply in_or_app. right. left. reflexivity. }
    lia. }
  apply in_split in HnR. destruct HnR as (C2 & C3 & ->). exists C1, C2, C3. reflexivity.
Qed.

Lemma sorted_key_inj g (C : list nat) n m :
  zsorted (skeys g C) -> In n C -> In m C -> SL.nkey (SL.heap g n) = SL.nkey (SL.heap g m) -> n = m.
Proof.
  induction C as [|x C IH]; intros Hs Hn Hm E; [destruct Hn|].
  pose proof (zsorted_lt_all _ _ Hs) as Hlt. unfold skeys in Hlt. cbn [map] in Hlt.
  destruct Hn as [->|Hn]; destruct Hm as [->|Hm]; auto.
  - exfalso. specialize (Hlt _ (in_map _ _ _ Hm)). cbn beta in Hlt. lia.
  - exfalso. specialize (Hlt _ (in_map _ _ _ Hn)). cbn beta in Hlt. lia.
  - apply IH; auto. eapply zsorted_tail; exact Hs.
Qed.

Section Reach.
Variables (cap : nat) (hs : list Z).
Hypothesis Hcap : Z.of_nat cap <= 2 ^ 62.

(** reachability from [d] to a later node of the chain *)
Lemma chain_reach g L d n :
  slinked g 1 L 0 -> (forall x, In x (1%nat :: L) -> x <> 0%nat) -> zsorted (skeys g (1%nat :: L)) ->
  In d (1%nat :: L) -> In n (1%nat :: L) -> SL.nkey (SL.heap g d) < SL.nkey (SL.heap g n) -> lreach g d n.
Proof.
  intros Hl Hnz Hs Hd Hn Hlt.
  destruct (sorted_later g _ d n Hs Hd Hn Hlt) as (C1 & C2 & C3 & E).
  assert (Hd' : slinked g d (C2 ++ n :: C3) 0).
  { destruct C1 as [|c C1]; cbn [app] in E; inversion E; subst.
    - exact Hl.
    - eapply slinked_app. exact Hl. }
  eapply in_lreach; [exact Hd'|]. intros x Hx. apply Hnz. rewrite E. apply in_or_app. right.
  destruct Hx as [->|Hx]; [left; reflexivity|]. right. apply in_or_app. left. exact Hx.
Qed.

Theorem split_nodup_reach f ths c :
  ops_ok ths -> Conc.reach (SL.init_cfg cap hs f ths) c ->
  forall n m, lreach (Conc.shared c) 1 n -> lreach (Conc.shared c) 1 m -> n <> 0%nat -> m <> 0%nat ->
    SL.nkey (SL.heap (Conc.shared c) n) = SL.nkey (SL.heap (Conc.shared c) m) -> n = m.
Proof.
  intros Hok Hr n m Hn Hm Hn0 Hm0 E.
  destruct (split_sorted_reach cap hs Hcap f ths c Hok Hr) as (L & Hl & Hnz & Hs & _).
  eapply sorted_key_inj; [exact Hs| | |exact E]; eapply lreach_in; eauto.
Qed.

Theorem split_bucket_init_reach f ths c :
  ops_ok ths -> Conc.reach (SL.init_cfg cap hs f ths) c ->
  forall b, SL.table (Conc.shared c) b <> 0%nat ->
    SL.nkey (SL.heap (Conc.shared c) (SL.table (Conc.shared c) b)) = SL.dkey b /\
    SL.nmark (SL.heap (Conc.shared c) (SL.table (Conc.shared c) b)) = false /\
    lreach (Conc.shared c) 1 (SL.table (Conc.shared c) b) /\
    (b <> 0%nat -> SL.table (Conc.shared c) (SL.parent_bucket b) <> 0%nat /\
                   lreach (Conc.shared c) (SL.table (Conc.shared c) (SL.parent_bucket b)) (SL.table (Conc.shared c) b)).
Proof.
  intros Hok Hr b Hb. set (g := Conc.shared c) in *.
  destruct (split_sorted_reach cap hs Hcap f ths c Hok Hr) as (L & Hl & Hnz & Hs & _ & HT & Hz). fold g in Hl, Hnz, Hs, HT, Hz.
  assert (Hnz' : forall x, In x (1%nat :: L) -> x <> 0%nat) by (intros x Hx; apply Hnz; exact Hx).
  destruct (HT b Hb) as (Hin & Hk & Hm & Hb63).
  split; [exact Hk|]. split; [exact Hm|]. split.
  - destruct (HT 0%nat Hz) as (Hin0 & Hk0 & _).
    destruct Hin as [<-|Hin]; [apply lreach_refl|].
    destruct Hin0 as [E0|Hin0].
    + (* table 0 = node 1 *)
      apply in_split in Hin. destruct Hin as (L1 & L2 & EL). rewrite EL in Hl.
      eapply in_lreach; [exact Hl|]. intros x Hx. apply Hnz'. rewrite EL.
      destruct Hx as [->|Hx]; [left; reflexivity|]. right. apply in_or_app. left. exact Hx.
    + apply in_split in Hin. destruct Hin as (L1 & L2 & EL). rewrite EL in Hl.
      eapply in_lreach; [exact Hl|]. intros x Hx. apply Hnz'. rewrite EL.
      destruct Hx as [->|Hx]; [left; reflexivity|]. right. apply in_or_app. left. exact Hx.
  - intros Hb0.
    destruct (@SplitListInv.split_table_reach cap hs f ths c Hr b Hb) as (_ & _ & Hpar). specialize (Hpar Hb0). fold g in Hpar.
    split; [exact Hpar|].
    destruct (HT _ Hpar) as (Hinp & Hkp & _).
    apply (chain_reach g L); auto. rewrite Hkp, Hk. apply parent_dkey_lt; assumption.
Qed.

(** growth: the bucket selected by the CURRENT m_nBucketCountLog2 (whatever it is, and however often it has been
    doubled since the node was inserted) leads to every node carrying a key of that bucket *)
Theorem split_growth_lookup_reach f ths c :
  ops_ok ths -> Conc.reach (SL.init_cfg cap hs f ths) c ->
  forall k n, 0 <= k -> lreach (Conc.shared c) 1 n -> n <> 0%nat ->
    SL.nkey (SL.heap (Conc.shared c) n) = SL.okey (SL.hash hs k) k ->
    forall b, b = SL.bucket_no (SL.hash hs k) (SL.log2 (Conc.shared c)) -> SL.table (Conc.shared c) b <> 0%nat ->
      lreach (Conc.shared c) (SL.table (Conc.shared c) b) n.
Proof.
  intros Hok Hr k n Hk Hrn Hn0 Hkey b Eb Hb. set (g := Conc.shared c) in *.
  destruct (split_sorted_reach cap hs Hcap f ths c Hok Hr) as (L & Hl & Hnz & Hs & _ & HT & Hz). fold g in Hl, Hnz, Hs, HT, Hz.
  assert (Hnz' : forall x, In x (1%nat :: L) -> x <> 0%nat) by (intros x Hx; apply Hnz; exact Hx).
  destruct (HT b Hb) as (Hin & Hkb & _).
  apply (chain_reach g L); auto; [eapply lreach_in; eauto|].
  rewrite Hkb, Hkey, Eb. apply dkey_lt_okey. exact Hk.
Qed.

End Reach.
