(** * TreiberStack with empty() and clear() (LV.Model.TreiberFull): linearizability to the LIFO stack with
      empty / clear for every schedule, and the disposal discipline of clear().

    Same proof rule and auxiliary state as LV.Proofs.TreiberProofs (whose invariant is re-proved here over the
    extended specification [StackX] and the extended phase type), plus
      - [popd] / [clrd]  the nodes removed from the stack by a pop CAS / by a clear CAS so far,
      - ownership: [owned (ph a t)] = the nodes thread t has detached and not yet retired (the node of a
        successful pop until its retire; the not yet walked part of the chain detached by clear()),
      - [cnt]: the number of invocations / responses of each thread in the history = operations started / done,
      - [cons] (conservation): the node of every linearized push of the client program [ths] is in the stack,
        in a retired array or owned.
    Linearization points: push / non-empty pop: the successful CAS on m_Top; empty pop: the validating load of
    Guard::protect that returned null; empty(): its load of m_Top; clear(): its successful CAS of m_Top to null,
    or its load of m_Top when that returned null.

    MEMORY SAFETY IS A HYPOTHESIS BUILT INTO THE MODEL (nodes never reused), exactly as in TreiberProofs.
    Note that clear() holds no hazard pointer; its CAS succeeding on a recycled address would be benign in the
    real code too (it detaches whatever chain currently starts there) -- not needed here. *)
From Coq Require Import ZArith List String Bool Lia PeanoNat.
From LV Require Import Base.Conc Base.Events Base.Lin Spec.Specs Proofs.LinProofs Model.Treiber Model.TreiberFull.
Import ListNotations.
Local Open Scope Z_scope.
Local Open Scope string_scope.
Local Open Scope list_scope.

(** ** the invoke/response history read off a trace *)
Definition hev_of (t : nat) (e : ev) : history StackX :=
  match e with
  | EvCli name args =>
      if String.eqb name "inv_push" then match args with [v] => [@HInv StackX t (XPush v)] | _ => [] end
      else if String.eqb name "ret_push" then
        match args with [b] => [@HRes StackX t (RBool (negb (Z.eqb b 0)))] | _ => [] end
      else if String.eqb name "inv_pop" then [@HInv StackX t XPop]
      else if String.eqb name "ret_pop" then
        match args with [b; v] => [@HRes StackX t (RVal (if Z.eqb b 0 then None else Some v))] | _ => [] end
      else if String.eqb name "inv_empty" then [@HInv StackX t XEmpty]
      else if String.eqb name "ret_empty" then
        match args with [b] => [@HRes StackX t (RBool (negb (Z.eqb b 0)))] | _ => [] end
      else if String.eqb name "inv_clear" then [@HInv StackX t XClear]
      else if String.eqb name "ret_clear" then [@HRes StackX t RUnit]
      else []
  | _ => []
  end.

Definition hist (tr : list (nat * ev)) : history StackX :=
  flat_map (fun te => hev_of (fst te) (snd te)) tr.

Lemma hist_app tr tr' : hist (tr ++ tr') = hist tr ++ hist tr'.
Proof. unfold hist. apply flat_map_app. Qed.

(** ** nodes *)
Lemma node_eqb_spec (a b : node) : node_eqb a b = true <-> a = b.
Proof.
  destruct a as [a1 a2], b as [b1 b2]. unfold node_eqb; cbn. rewrite andb_true_iff, !Nat.eqb_eq.
  split; [intros [-> ->]; reflexivity|intros H; inversion H; auto].
Qed.

Lemma node_eqb_refl a : node_eqb a a = true.
Proof. now apply node_eqb_spec. Qed.

Lemma node_eqb_neq a b : a <> b -> node_eqb a b = false.
Proof. intros H. destruct (node_eqb a b) eqn:E; auto. apply node_eqb_spec in E. contradiction. Qed.

Lemma node_eq_dec (a b : node) : {a = b} + {a <> b}.
Proof. decide equality; apply Nat.eq_dec. Qed.

Lemma ptr_eqb_spec (a b : ptr) : ptr_eqb a b = true <-> a = b.
Proof.
  destruct a as [a|], b as [b|]; cbn; try (split; [discriminate|discriminate]); try tauto.
  rewrite node_eqb_spec. split; [intros ->; reflexivity|intros H; inversion H; auto].
Qed.

Notation SIdle := (@Idle StackX).
Notation SPend o := (@Pending StackX o).
Notation SLin o r := (@Linearized StackX o r).
Notation EInv t o := (@AInv StackX t o).
Notation ELin t := (@ALin StackX t).
Notation ERes t r := (@ARes StackX t r).

(** ** auxiliary state *)
Inductive phase :=
| PIdle (k : nat)                           (* between operations; [k] = index of the next one *)
| PPush (k : nat) (v : Z)                   (* push invoked, node (t,k) not yet initialised *)
| PPushL (k : nat) (v : Z) (p : ptr)        (* node (t,k) private, its next = p and its value = v *)
| PPushed (k : nat) (v : Z)                 (* the CAS succeeded: linearized *)
| PPop (k : nat)                            (* pop invoked, nothing known *)
| PPopH (k : nat) (p : ptr)                 (* the hazard slot holds p *)
| PPopV (k : nat) (n : node)                (* protect returned n: it was the top at the validating load *)
| PPopR (k : nat) (n : node) (nx : ptr)     (* ... and m_pNext of n was read as nx *)
| PPopG (k : nat) (n : node) (v : Z)        (* the CAS succeeded: linearized, n is mine *)
| PPopE (k : nat)                           (* validated null: linearized as empty *)
| PPopD (k : nat) (v : Z)                   (* popped node retired *)
| PEmp (k : nat)                            (* empty() invoked *)
| PEmpD (k : nat) (b : bool)                (* empty() linearized with result b *)
| PClr (k : nat)                            (* clear() invoked, nothing detached yet *)
| PClrW (k : nat) (p : ptr) (l : list node) (* clear() linearized; pTop = p heads the detached, still owned chain l *)
| PClrW1 (k : nat) (n : node) (nx : ptr) (l : list node).   (* p = n being disposed, pTop = nx heads the rest l *)

Definition lim (p : phase) : nat :=
  match p with
  | PIdle k | PPush k _ | PPushL k _ _ | PPop k | PPopH k _ | PPopV k _ | PPopR k _ _ | PPopG k _ _ | PPopE k
  | PPopD k _ | PEmp k | PEmpD k _ | PClr k | PClrW k _ _ | PClrW1 k _ _ _ => k
  | PPushed k _ => S k
  end.

Definition status_of (p : phase) : status StackX :=
  match p with
  | PIdle _ => SIdle
  | PPush _ v | PPushL _ v _ => SPend (XPush v)
  | PPushed _ v => SLin (XPush v) (RBool true)
  | PPop _ | PPopH _ _ | PPopV _ _ | PPopR _ _ _ => SPend XPop
  | PPopG _ _ v | PPopD _ v => SLin XPop (RVal (Some v))
  | PPopE _ => SLin XPop (RVal None)
  | PEmp _ => SPend XEmpty
  | PEmpD _ b => SLin XEmpty (RBool b)
  | PClr _ => SPend XClear
  | PClrW _ _ _ | PClrW1 _ _ _ _ => SLin XClear RUnit
  end.

(** the nodes a thread has detached from the stack and not yet handed to gc::retire *)
Definition owned (p : phase) : list node :=
  match p with
  | PPopG _ n _ => [n]
  | PClrW _ _ l => l
  | PClrW1 _ n _ l => n :: l
  | _ => []
  end.

Record Aux := mkA { stk : list node; atr : list (aev StackX); ph : nat -> phase;
                    popd : list node; clrd : list node }.
Definition view (a : Aux) (t : nat) : phase := ph a t.

Definition set_ph (f : nat -> phase) (t : nat) (p : phase) : nat -> phase :=
  fun x => if Nat.eqb x t then p else f x.

Lemma set_ph_same f t p : set_ph f t p t = p.
Proof. unfold set_ph. now rewrite Nat.eqb_refl. Qed.
Lemma set_ph_other f t p u : u <> t -> set_ph f t p u = f u.
Proof. unfold set_ph. intros H. destruct (Nat.eqb_spec u t); congruence. Qed.

(** a node is published once its push was linearized (nodes of thread t below t's allocation limit) *)
Definition published (a : Aux) (n : node) : Prop := (snd n < lim (ph a (fst n)))%nat.

Fixpoint chain (nx : node -> ptr) (p : ptr) (l : list node) : Prop :=
  match l with
  | [] => p = None
  | n :: r => p = Some n /\ chain nx (nx n) r
  end.

Definition held (a : Aux) (l : list node) : Prop :=
  forall n, In n l -> published a n /\ ~ In n (stk a).

Definition phase_ok (g : G) (a : Aux) (t : nat) (p : phase) : Prop :=
  match p with
  | PPushL k v q => next g (t, k) = q /\ val g (t, k) = v
  | PPopH k q => hp g t = q
  | PPopV k n => published a n /\ hp g t = Some n
  | PPopR k n nx => published a n /\ hp g t = Some n /\ (In n (stk a) -> next g n = nx)
  | PPopG k n v => published a n /\ ~ In n (stk a) /\ val g n = v
  | PClrW k q l => chain (next g) q l /\ NoDup l /\ held a l
  | PClrW1 k n nx l => chain (next g) nx l /\ NoDup (n :: l) /\ held a (n :: l)
  | _ => True
  end.

Lemma owned_facts g a t p n : phase_ok g a t p -> In n (owned p) -> published a n /\ ~ In n (stk a).
Proof.
  destruct p; cbn; try contradiction.
  - intros (H1 & H2 & _) [<-|[]]. auto.
  - intros (_ & _ & H) Hin. apply H; exact Hin.
  - intros (_ & _ & H) Hin. apply H; exact Hin.
Qed.

Definition disjoint_owned (a : Aux) : Prop :=
  forall t u n, t <> u -> In n (owned (ph a t)) -> ~ In n (owned (ph a u)).

Definition core (g : G) (a : Aux) (tr : list (nat * ev)) : Prop :=
  chain (next g) (top g) (stk a) /\
  NoDup (stk a) /\
  (forall n, In n (stk a) -> published a n) /\
  (forall t, phase_ok g a t (ph a t)) /\
  (exists sts, @lp_run StackX lp_init (atr a) = Some (map (val g) (stk a), sts) /\
               forall t, sts t = status_of (ph a t)) /\
  erase (atr a) = hist tr /\
  disjoint_owned a.

(** counting the invocations / responses of a thread in a history *)
Definition is_inv_of (t : nat) (e : hev StackX) : bool :=
  match e with HInv u _ => Nat.eqb u t | HRes _ _ => false end.
Definition is_res_of (t : nat) (e : hev StackX) : bool :=
  match e with HRes u _ => Nat.eqb u t | HInv _ _ => false end.
Definition ninv (t : nat) (h : history StackX) : nat := List.length (filter (is_inv_of t) h).
Definition nres (t : nat) (h : history StackX) : nat := List.length (filter (is_res_of t) h).

Lemma ninv_app t h h' : ninv t (h ++ h') = (ninv t h + ninv t h')%nat.
Proof. unfold ninv. now rewrite filter_app, app_length. Qed.
Lemma nres_app t h h' : nres t (h ++ h') = (nres t h + nres t h')%nat.
Proof. unfold nres. now rewrite filter_app, app_length. Qed.

(** index of the current (or next) operation; operations started / completed *)
Definition opk (p : phase) : nat := match p with PPushed k _ => k | q => lim q end.
Definition started (p : phase) : nat := match p with PIdle k => k | q => S (opk q) end.
Definition done (p : phase) : nat := opk p.

Definition counts_ok (t : nat) (p p' : phase) (ae : list (aev StackX)) : Prop :=
  started p' = (started p + ninv t (erase ae))%nat /\
  done p' = (done p + nres t (erase ae))%nat /\
  forall u, u <> t -> ninv u (erase ae) = O /\ nres u (erase ae) = O.

Lemma counts_silent t p p' ae :
  started p' = started p -> done p' = done p -> (ae = [] \/ ae = [ELin t]) -> counts_ok t p p' ae.
Proof. intros H1 H2 [->| ->]; unfold counts_ok, ninv, nres; cbn; repeat split; auto; lia. Qed.

Lemma counts_inv t p p' o :
  started p' = S (started p) -> done p' = done p -> counts_ok t p p' [EInv t o].
Proof.
  intros H1 H2. unfold counts_ok, ninv, nres. cbn. rewrite Nat.eqb_refl. cbn. repeat split; try lia.
  destruct (Nat.eqb_spec t u); [congruence|reflexivity].
Qed.

Lemma counts_res t p p' r :
  started p' = started p -> done p' = S (done p) -> counts_ok t p p' [ERes t r].
Proof.
  intros H1 H2. unfold counts_ok, ninv, nres. cbn. rewrite Nat.eqb_refl. cbn. repeat split; try lia.
  destruct (Nat.eqb_spec t u); [congruence|reflexivity].
Qed.

Section Progs.
Variable ths : list (list fop).
Definition prog_of (t : nat) : list fop := nth t ths [].

(** where a node is: in the stack, in some thread's retired array, or owned by a thread *)
Definition loc (g : G) (a : Aux) (n : node) : Prop :=
  In n (stk a) \/ exists u, In n (retired g u) \/ In n (owned (ph a u)).

(** conservation: the node of every linearized push is somewhere *)
Definition cons (g : G) (a : Aux) : Prop :=
  forall t k v, nth_error (prog_of t) k = Some (FPush v) -> (k < lim (ph a t))%nat -> loc g a (t, k).

Definition cnt (a : Aux) (tr : list (nat * ev)) : Prop :=
  (forall t, ninv t (hist tr) = started (ph a t)) /\ (forall t, nres t (hist tr) = done (ph a t)).

(** disposal bookkeeping *)
Definition disp (g : G) (a : Aux) (tr : list (nat * ev)) : Prop :=
  (forall t n, In n (retired g t) -> published a n /\ ~ In n (stk a) /\ forall u, ~ In n (owned (ph a u))) /\
  (forall t, NoDup (retired g t)) /\
  (forall t u n, t <> u -> In n (retired g t) -> ~ In n (retired g u)) /\
  (forall n, In n (clrd a) -> exists t, In n (retired g t) \/ In n (owned (ph a t))) /\
  (forall n, In n (stk a) -> ~ In n (popd a) /\ ~ In n (clrd a)) /\
  (forall n, In n (popd a) -> ~ In n (clrd a)) /\
  (forall n, In n (popd a) \/ In n (clrd a) -> published a n) /\
  cnt a tr /\ cons g a.

Definition Inv (g : G) (a : Aux) (tr : list (nat * ev)) : Prop := core g a tr /\ disp g a tr.

Notation safe := (@Conc.safe G V ev Aux phase view Inv).

Definition upd_a (a : Aux) (t : nat) (p : phase) (ae : list (aev StackX)) : Aux :=
  mkA (stk a) (atr a ++ ae) (set_ph (ph a) t p) (popd a) (clrd a).

Lemma frame_upd_a a t p ae : Conc.frame view t a (upd_a a t p ae).
Proof. intros u H. unfold view, upd_a; cbn. now apply set_ph_other. Qed.

Lemma chain_ext nx nx' p l :
  (forall n, In n l -> nx' n = nx n) -> chain nx p l -> chain nx' p l.
Proof.
  revert p. induction l as [|n r IH]; intros p H C; cbn in *; auto.
  destruct C as [-> C]. split; auto. rewrite H by auto. apply IH; auto.
Qed.

Lemma chain_head nx p l n : chain nx p l -> p = Some n -> exists r, l = n :: r /\ chain nx (nx n) r.
Proof.
  destruct l as [|m r]; cbn; intros C E.
  - congruence.
  - destruct C as [E' C]. assert (m = n) by congruence. subst m. eauto.
Qed.

Lemma chain_nil nx l : chain nx None l -> l = [].
Proof. destruct l; cbn; auto. intros [H _]; discriminate. Qed.

(** ** what a step may touch: [touches g g' t m] — besides m_Top-preserving bookkeeping (the hazard slot and
    retired array of thread t) only the fields of node [m] *)
Definition touches (g g' : G) (t : nat) (m : node) : Prop :=
  top g' = top g /\
  (forall x, x <> m -> next g' x = next g x /\ val g' x = val g x) /\
  (forall u, u <> t -> hp g' u = hp g u).

(** transitions of the linearization-point automaton of thread [t], abstract state unchanged *)
Definition lp_ok (t : nat) (s : list Z) (so sn : status StackX) (ae : list (aev StackX)) : Prop :=
  forall sts, sts t = so ->
    exists sts', @lp_run StackX (s, sts) ae = Some (s, sts') /\ sts' t = sn /\ forall u, u <> t -> sts' u = sts u.

Lemma lp_ok_nil t s so : lp_ok t s so so [].
Proof. intros sts H. exists sts. cbn. auto. Qed.

Lemma lp_ok_inv t s o : lp_ok t s SIdle (SPend o) [EInv t o].
Proof.
  intros sts H. exists (Lin.upd sts t (SPend o)). cbn. rewrite H. repeat split.
  - apply upd_same.
  - intros u Hu. now apply upd_other.
Qed.

Lemma lp_ok_res t s o r : lp_ok t s (SLin o r) SIdle [ERes t r].
Proof.
  intros sts H. exists (Lin.upd sts t SIdle). cbn. rewrite H.
  assert (E : res_beq r r = true) by now apply res_beq_ok. rewrite E. repeat split.
  - apply upd_same.
  - intros u Hu. now apply upd_other.
Qed.

Lemma lp_ok_empty t : lp_ok t [] (SPend XPop) (SLin XPop (RVal None)) [ELin t].
Proof.
  intros sts H. exists (Lin.upd sts t (SLin XPop (RVal None))). cbn. rewrite H. cbn. repeat split.
  - apply upd_same.
  - intros u Hu. now apply upd_other.
Qed.

(** empty(): the load is the linearization point, whatever the stack holds *)
Lemma lp_ok_isempty t s : lp_ok t s (SPend XEmpty) (SLin XEmpty (RBool (is_nil s))) [ELin t].
Proof.
  intros sts H. exists (Lin.upd sts t (SLin XEmpty (RBool (is_nil s)))). cbn. rewrite H. cbn. repeat split.
  - apply upd_same.
  - intros u Hu. now apply upd_other.
Qed.

(** clear() of an empty stack: the load that returned null is the linearization point *)
Lemma lp_ok_clear_nil t : lp_ok t [] (SPend XClear) (SLin XClear RUnit) [ELin t].
Proof.
  intros sts H. exists (Lin.upd sts t (SLin XClear RUnit)). cbn. rewrite H. cbn. repeat split.
  - apply upd_same.
  - intros u Hu. now apply upd_other.
Qed.

Lemma published_mono a t p ae n :
  (lim (ph a t) <= lim p)%nat -> published a n -> published (upd_a a t p ae) n.
Proof.
  unfold published, upd_a; cbn. intros L H. destruct (Nat.eq_dec (fst n) t) as [E|E].
  - rewrite E in *. rewrite set_ph_same. lia.
  - now rewrite set_ph_other.
Qed.

Lemma held_mono a a' l :
  (forall n, published a n -> published a' n) -> (forall n, In n (stk a') -> In n (stk a) \/ ~ published a n) ->
  held a l -> held a' l.
Proof.
  intros Hp Hs H n Hin. destruct (H n Hin) as [H1 H2]. split; auto.
  intros Hn. destruct (Hs n Hn); auto.
Qed.

(** the other threads' facts survive a step of [t] that touches only node [m], where [m] is either
    private to [t] (not yet published) or a node [t] owns (detached, not in the stack) *)
Lemma others_ok g g' a t m p' ae :
  touches g g' t m ->
  ((fst m = t /\ snd m = lim (ph a t)) \/ published a m) ->
  (lim (ph a t) <= lim p')%nat ->
  forall u, u <> t -> ~ In m (owned (ph a u)) -> ~ In m (stk a) ->
    phase_ok g a u (ph a u) -> phase_ok g' (upd_a a t p' ae) u (ph a u).
Proof.
  intros (Ht & Hn & Hh) Hm L u Hu Hno Hnin H.
  assert (Hpub : forall n, published a n -> published (upd_a a t p' ae) n)
    by (intros; now apply published_mono).
  assert (Hpriv : forall k, lim (ph a u) = k -> (u, k) <> m).
  { intros k Hk E. subst m. cbn in Hm. destruct Hm as [[E _]|P]; [congruence|].
    unfold published in P; cbn in P. lia. }
  assert (Hheld : forall l, held a l -> held (upd_a a t p' ae) l).
  { intros l Hl. eapply held_mono; [exact Hpub| |exact Hl]. cbn. auto. }
  destruct (ph a u) as [k|k v|k v q|k v|k|k q|k n|k n nx|k n v|k|k v|k|k b|k|k q l|k n nx l] eqn:Ep;
    cbn in *; auto.
  - destruct (Hn (u, k)) as [E1 E2]; [apply Hpriv; reflexivity|]. now rewrite E1, E2.
  - now rewrite Hh.
  - destruct H as [H1 H2]. split; auto. now rewrite Hh.
  - destruct H as (H1 & H2 & H3). repeat split; auto; [now rewrite Hh|].
    intros Hin. destruct (Hn n) as [E1 _]; [intros ->; contradiction|]. rewrite E1. auto.
  - destruct H as (H1 & H2 & H3). repeat split; auto.
    destruct (Hn n) as [_ E2]; [intros ->; apply Hno; left; reflexivity|]. now rewrite E2.
  - destruct H as (H1 & H2 & H3). split; [|split; auto].
    eapply chain_ext; [|exact H1]. intros x Hx. apply Hn. intros ->. contradiction.
  - destruct H as (H1 & H2 & H3). split; [|split; auto].
    eapply chain_ext; [|exact H1]. intros x Hx. apply Hn. intros ->. apply Hno. right; exact Hx.
Qed.

Lemma owned_upd_a a t p' ae u :
  owned (ph (upd_a a t p' ae) u) = if Nat.eqb u t then owned p' else owned (ph a u).
Proof. cbn. unfold set_ph. destruct (Nat.eqb u t); reflexivity. Qed.

(** ** the general preservation lemma (core part) for steps that do not change the stack *)
Lemma core_keep g g' a tr t m p' ae es :
  core g a tr ->
  touches g g' t m ->
  ((fst m = t /\ snd m = lim (ph a t)) \/ In m (owned (ph a t))) ->
  (lim (ph a t) <= lim p')%nat ->
  phase_ok g' (upd_a a t p' ae) t p' ->
  lp_ok t (map (val g) (stk a)) (status_of (ph a t)) (status_of p') ae ->
  erase ae = hist (Conc.tag t es) ->
  incl (owned p') (owned (ph a t)) ->
  core g' (upd_a a t p' ae) (tr ++ Conc.tag t es).
Proof.
  intros (I1 & I2 & I3 & I4 & (sts & I5 & I5') & I6 & IJ) Ht Hm L Hown Hlp Her Hinc.
  assert (Hnin : ~ In m (stk a)).
  { destruct Hm as [[E1 E2]|H].
    - intros Hin. apply I3 in Hin. unfold published in Hin. rewrite E1, E2 in Hin. lia.
    - apply (owned_facts g a t _ m (I4 t) H). }
  assert (Hm' : (fst m = t /\ snd m = lim (ph a t)) \/ published a m).
  { destruct Hm as [H|H]; [left; exact H|right]. apply (owned_facts g a t _ m (I4 t) H). }
  assert (Hno : forall u, u <> t -> ~ In m (owned (ph a u))).
  { intros u Hu Hin. destruct Hm as [[E1 E2]|H].
    - destruct (owned_facts g a u _ m (I4 u) Hin) as [P _]. unfold published in P. rewrite E1, E2 in P. lia.
    - apply (IJ u t m Hu Hin H). }
  pose proof Ht as (Ht1 & Ht2 & Ht3).
  assert (Hsame : forall n, In n (stk a) -> next g' n = next g n /\ val g' n = val g n).
  { intros n Hin. apply Ht2. intros ->. contradiction. }
  unfold core. cbn [stk atr ph upd_a]. repeat split.
  - rewrite Ht1. eapply chain_ext; [|exact I1]. intros n Hin. apply Hsame; auto.
  - exact I2.
  - intros n Hin. apply (published_mono a t p' ae n L). auto.
  - intros u. destruct (Nat.eq_dec u t) as [->|Hu].
    + rewrite set_ph_same. exact Hown.
    + rewrite set_ph_other by exact Hu.
      exact (others_ok g g' a t m p' ae Ht Hm' L u Hu (Hno u Hu) Hnin (I4 u)).
  - destruct (Hlp sts (I5' t)) as (sts' & R1 & R2 & R3).
    exists sts'. split.
    + rewrite lp_run_app, I5.
      replace (map (val g') (stk a)) with (map (val g) (stk a)); [exact R1|].
      apply map_ext_in. intros n Hin. symmetry. apply Hsame; auto.
    + intros u. destruct (Nat.eq_dec u t) as [->|Hu].
      * now rewrite set_ph_same.
      * rewrite set_ph_other by exact Hu. rewrite R3 by exact Hu. apply I5'.
  - rewrite erase_app, hist_app, I6, Her. reflexivity.
  - intros u1 u2 n Hne H1 H2. rewrite owned_upd_a in H1, H2.
    destruct (Nat.eqb_spec u1 t) as [->|Hu1]; destruct (Nat.eqb_spec u2 t) as [->|Hu2]; try congruence.
    + apply (IJ t u2 n Hne (Hinc n H1) H2).
    + apply (IJ u1 t n Hne H1 (Hinc n H2)).
    + apply (IJ u1 u2 n Hne H1 H2).
Qed.

Lemma cnt_step a a' tr t p' ae es :
  cnt a tr -> erase ae = hist (Conc.tag t es) -> counts_ok t (ph a t) p' ae ->
  (forall u, ph a' u = set_ph (ph a) t p' u) -> cnt a' (tr ++ Conc.tag t es).
Proof.
  intros [K0 K1] Her (N0 & N1 & N2) Hph. split; intros u; rewrite hist_app, <- Her, Hph.
  - rewrite ninv_app, K0. destruct (Nat.eq_dec u t) as [->|Hu].
    + rewrite set_ph_same. lia.
    + rewrite set_ph_other by exact Hu. destruct (N2 u Hu) as [-> _]. lia.
  - rewrite nres_app, K1. destruct (Nat.eq_dec u t) as [->|Hu].
    + rewrite set_ph_same. lia.
    + rewrite set_ph_other by exact Hu. destruct (N2 u Hu) as [_ ->]. lia.
Qed.

Lemma loc_mono g g' a a' n :
  (forall x, In x (stk a) -> In x (stk a') \/ exists u, In x (owned (ph a' u))) ->
  (forall u x, In x (retired g u) -> In x (retired g' u)) ->
  (forall u x, In x (owned (ph a u)) -> (exists u', In x (owned (ph a' u'))) \/ exists u', In x (retired g' u')) ->
  loc g a n -> loc g' a' n.
Proof.
  intros Hs Hr Ho [H|(u & [H|H])].
  - destruct (Hs n H) as [H'|(u & H')]; [left; exact H'|right; exists u; right; exact H'].
  - right. exists u. left. apply Hr, H.
  - destruct (Ho u n H) as [(u' & H')|(u' & H')]; right; exists u'; [right|left]; exact H'.
Qed.

Lemma cons_step g g' a a' t :
  cons g a ->
  (forall n, loc g a n -> loc g' a' n) ->
  (forall u, u <> t -> lim (ph a' u) = lim (ph a u)) ->
  (lim (ph a' t) = lim (ph a t) \/
   ((lim (ph a' t) <= S (lim (ph a t)))%nat /\
    forall v, nth_error (prog_of t) (lim (ph a t)) = Some (FPush v) -> loc g' a' (t, lim (ph a t)))) ->
  cons g' a'.
Proof.
  intros K Hl Hu Ht u k v Hp Hk. destruct (Nat.eq_dec u t) as [->|Hne].
  - destruct Ht as [E|[Hle Hnew]].
    + apply Hl, (K t k v Hp). lia.
    + destruct (Nat.eq_dec k (lim (ph a t))) as [->|Hk'].
      * apply (Hnew v Hp).
      * apply Hl, (K t k v Hp). lia.
  - apply Hl, (K u k v Hp). rewrite <- Hu by exact Hne. exact Hk.
Qed.

(** disposal bookkeeping is untouched by a step that changes neither the stack, the retired arrays nor what
    the stepping thread owns *)
Lemma disp_keep g g' a tr t p' ae es :
  disp g a tr ->
  (forall u, retired g' u = retired g u) ->
  (lim (ph a t) <= lim p')%nat ->
  owned p' = owned (ph a t) ->
  erase ae = hist (Conc.tag t es) ->
  counts_ok t (ph a t) p' ae ->
  (lim p' = lim (ph a t) \/
   ((lim p' <= S (lim (ph a t)))%nat /\ forall v, nth_error (prog_of t) (lim (ph a t)) <> Some (FPush v))) ->
  disp g' (upd_a a t p' ae) (tr ++ Conc.tag t es).
Proof.
  intros (R1 & R2 & R3 & C1 & C2 & C3 & C4 & KC & K) Hr L Ho Her Hcnt Hlim.
  assert (Hpub : forall n, published a n -> published (upd_a a t p' ae) n)
    by (intros; now apply published_mono).
  assert (Hown : forall u, owned (ph (upd_a a t p' ae) u) = owned (ph a u)).
  { intros u. rewrite owned_upd_a. destruct (Nat.eqb_spec u t) as [->|]; auto. }
  unfold disp. cbn [stk popd clrd]. repeat split.
  - apply Hpub. rewrite Hr in H. apply (R1 _ _ H).
  - rewrite Hr in H. apply (R1 _ _ H).
  - intros u. rewrite Hown. rewrite Hr in H. apply (R1 _ _ H).
  - intros u. rewrite Hr. apply R2.
  - intros u1 u2 n Hne. rewrite !Hr. apply R3; exact Hne.
  - intros n Hn. destruct (C1 n Hn) as (u & H). exists u. rewrite Hr, Hown. exact H.
  - apply (C2 _ H).
  - apply (C2 _ H).
  - apply C3.
  - intros n Hn. apply Hpub, C4, Hn.
  - eapply cnt_step; eauto.
  - eapply cnt_step; eauto.
  - apply (cons_step g g' a _ t K).
    + intros n. apply loc_mono.
      * intros x Hx. left. exact Hx.
      * intros u x Hx. now rewrite Hr.
      * intros u x Hx. left. exists u. now rewrite Hown.
    + intros u Hu. cbn. now rewrite set_ph_other.
    + cbn. rewrite set_ph_same. destruct Hlim as [E|[Hle Hnp]]; [left; exact E|right].
      split; [exact Hle|]. intros v Hv. destruct (Hnp v Hv).
Qed.

Lemma Inv_keep g g' a tr t m p' ae es :
  Inv g a tr ->
  touches g g' t m ->
  ((fst m = t /\ snd m = lim (ph a t)) \/ In m (owned (ph a t))) ->
  (lim (ph a t) <= lim p')%nat ->
  phase_ok g' (upd_a a t p' ae) t p' ->
  lp_ok t (map (val g) (stk a)) (status_of (ph a t)) (status_of p') ae ->
  erase ae = hist (Conc.tag t es) ->
  owned p' = owned (ph a t) ->
  (forall u, retired g' u = retired g u) ->
  counts_ok t (ph a t) p' ae ->
  (lim p' = lim (ph a t) \/
   ((lim p' <= S (lim (ph a t)))%nat /\ forall v, nth_error (prog_of t) (lim (ph a t)) <> Some (FPush v))) ->
  Inv g' (upd_a a t p' ae) (tr ++ Conc.tag t es).
Proof.
  intros [Hc Hd] Ht Hm L Hown Hlp Her Ho Hr Hcnt Hlim. split.
  - eapply core_keep; eauto. rewrite Ho. apply incl_refl.
  - eapply disp_keep; eauto.
Qed.

Lemma touches_refl g t m : touches g g t m.
Proof. repeat split; auto. Qed.

(** dummy node for steps that write no node: the next private node of [t] *)
Definition own (a : Aux) (t : nat) : node := (t, lim (ph a t)).
Lemma own_ok a t : (fst (own a t) = t /\ snd (own a t) = lim (ph a t)).
Proof. split; reflexivity. Qed.

Lemma hist_acc t k o b : hist (Conc.tag t [EvAcc k o b]) = [].
Proof. reflexivity. Qed.

(** a step that only moves m_Top and changes the abstract stack: what the other threads know survives when
    every node of the new stack is an old one or a not yet published one *)
Lemma phase_ok_stk g a a' u q topv :
  (forall n, published a n -> published a' n) ->
  (forall n, In n (stk a') -> In n (stk a) \/ ~ published a n) ->
  phase_ok g a u q -> phase_ok (set_top g topv) a' u q.
Proof.
  intros Hp Hs H.
  assert (Hheld : forall l, held a l -> held a' l) by (intros l; apply held_mono; auto).
  destruct q as [k|k v|k v q|k v|k|k q|k n|k n nx|k n v|k|k v|k|k b|k|k q l|k n nx l]; cbn in *; auto.
  - destruct H; auto.
  - destruct H as (H1 & H2 & H3). repeat split; auto.
    intros Hin. destruct (Hs n Hin); [auto|contradiction].     (* (ABA): a published node is not a fresh one *)
  - destruct H as (H1 & H2 & H3). repeat split; auto.
    intros Hin. destruct (Hs n Hin); contradiction.
  - destruct H as (H1 & H2 & H3). split; [|split]; auto.
  - destruct H as (H1 & H2 & H3). split; [|split]; auto.
Qed.

(** ** linearization point of push: the successful CAS *)
Lemma Inv_push_lp g a tr t k v p :
  Inv g a tr -> ph a t = PPushL k v p -> top g = p ->
  Inv (set_top g (Some (t, k)))
      (mkA ((t, k) :: stk a) (atr a ++ [ELin t]) (set_ph (ph a) t (PPushed k v)) (popd a) (clrd a))
      (tr ++ Conc.tag t [EvAcc KCas obj_top true]).
Proof.
  intros [(I1 & I2 & I3 & I4 & (sts & I5 & I5') & I6 & IJ) (R1 & R2 & R3 & C1 & C2 & C3 & C4 & KC & K)] Hp Htop.
  pose proof (I4 t) as Hme. rewrite Hp in Hme. cbn in Hme. destruct Hme as [Hnx Hval].
  assert (Hunpub : ~ published a (t, k)).
  { unfold published; cbn. rewrite Hp. cbn. lia. }
  assert (Hnin : ~ In (t, k) (stk a)) by (intros H; apply Hunpub, I3, H).
  set (a' := mkA ((t, k) :: stk a) (atr a ++ [ELin t]) (set_ph (ph a) t (PPushed k v)) (popd a) (clrd a)).
  assert (Hpub : forall n, published a n -> published a' n).
  { intros n H. apply (published_mono a t (PPushed k v) [ELin t] n); auto. rewrite Hp. cbn. lia. }
  assert (Hstk : forall n, In n (stk a') -> In n (stk a) \/ ~ published a n).
  { intros n [<-|H]; auto. }
  assert (Hown : forall u, owned (ph a' u) = owned (ph a u)).
  { intros u. cbn. unfold set_ph. destruct (Nat.eqb_spec u t) as [->|]; auto. now rewrite Hp. }
  split.
  - unfold core. cbn [stk atr ph a' set_top top next val hp]. repeat split.
    + rewrite Hnx, <- Htop. exact I1.
    + constructor; auto.
    + intros n [<-|Hin]; [|apply Hpub; auto].
      unfold published; cbn. rewrite set_ph_same. cbn. lia.
    + intros u. destruct (Nat.eq_dec u t) as [->|Hu].
      * rewrite set_ph_same. exact I.
      * rewrite set_ph_other by exact Hu. apply (phase_ok_stk g a a'); auto.
    + exists (Lin.upd sts t (SLin (XPush v) (RBool true))). split.
      * rewrite lp_run_app, I5. cbn. rewrite (I5' t), Hp. cbn. rewrite Hval. reflexivity.
      * intros u. destruct (Nat.eq_dec u t) as [->|Hu].
        -- rewrite upd_same, set_ph_same. reflexivity.
        -- rewrite upd_other, set_ph_other by exact Hu. apply I5'.
    + rewrite erase_app, hist_app, I6. cbn. reflexivity.
    + intros u1 u2 n Hne. fold a'. rewrite !Hown. apply IJ; exact Hne.
  - unfold disp. cbn [stk popd clrd set_top retired]. fold a'. repeat split.
    + apply Hpub, (R1 _ _ H).
    + intros [E|Hin]; [|apply (R1 _ _ H); exact Hin].
      apply Hunpub. rewrite E. apply (R1 _ _ H).
    + intros u. rewrite Hown. apply (R1 _ _ H).
    + apply R2.
    + apply R3.
    + intros n Hn. destruct (C1 n Hn) as (u & H). exists u. rewrite Hown. exact H.
    + destruct H as [<-|H]; [|apply (C2 _ H)]. intros Hin. apply Hunpub, C4. left; exact Hin.
    + destruct H as [<-|H]; [|apply (C2 _ H)]. intros Hin. apply Hunpub, C4. right; exact Hin.
    + apply C3.
    + intros n Hn. apply Hpub, C4, Hn.
    + apply (cnt_step a a' tr t (PPushed k v) [ELin t] [EvAcc KCas obj_top true] KC); auto.
      apply counts_silent; [now rewrite Hp|now rewrite Hp|auto].
    + apply (cnt_step a a' tr t (PPushed k v) [ELin t] [EvAcc KCas obj_top true] KC); auto.
      apply counts_silent; [now rewrite Hp|now rewrite Hp|auto].
    + apply (cons_step g _ a a' t K).
      * intros n. apply loc_mono.
        -- intros x Hx. left. right. exact Hx.
        -- intros u x Hx. exact Hx.
        -- intros u x Hx. left. exists u. now rewrite Hown.
      * intros u Hu. cbn. now rewrite set_ph_other.
      * right. cbn [ph a']. rewrite set_ph_same, Hp. cbn [lim]. split; [lia|].
        intros _ _. left. left. reflexivity.
Qed.

(** ** a thread that owns nothing detaches [taken] (a part of the stack) at its linearization point:
       ownership and disposal bookkeeping ([pop]: taken = the top node; [clear]: taken = the whole stack) *)
Lemma take_ok g a tr t p' s' taken pd cd ae topv es :
  Inv g a tr ->
  owned (ph a t) = [] -> owned p' = taken ->
  (forall n, In n s' -> In n (stk a)) ->
  (forall n, In n taken -> In n (stk a) /\ ~ In n s') ->
  (forall n, In n (stk a) -> In n s' \/ In n taken) ->
  lim p' = lim (ph a t) ->
  ((pd = taken ++ popd a /\ cd = clrd a) \/ (pd = popd a /\ cd = taken ++ clrd a)) ->
  erase ae = hist (Conc.tag t es) -> counts_ok t (ph a t) p' ae ->
  let a' := mkA s' (atr a ++ ae) (set_ph (ph a) t p') pd cd in
  disjoint_owned a' /\ disp (set_top g topv) a' (tr ++ Conc.tag t es).
Proof.
  intros [(I1 & I2 & I3 & I4 & _ & _ & IJ) (R1 & R2 & R3 & C1 & C2 & C3 & C4 & KC & K)] Ho Ho' Hs Ht Hall Hlim Hpc
         Her Hcnt a'.
  assert (L : (lim (ph a t) <= lim p')%nat) by lia.
  assert (Hpub : forall n, published a n -> published a' n).
  { intros n H. apply (published_mono a t p' ae n); auto. }
  assert (Hown : forall u, u <> t -> owned (ph a' u) = owned (ph a u)).
  { intros u Hu. cbn. now rewrite set_ph_other. }
  assert (Hownt : owned (ph a' t) = taken).
  { cbn. now rewrite set_ph_same. }
  assert (Hfree : forall n u, In n (stk a) -> ~ In n (owned (ph a u))).
  { intros n u Hin Hn. apply (owned_facts g a u _ n (I4 u) Hn). exact Hin. }
  split.
  - intros u1 u2 n Hne H1 H2.
    destruct (Nat.eq_dec u1 t) as [->|Hu1]; destruct (Nat.eq_dec u2 t) as [->|Hu2]; try congruence.
    + rewrite Hownt in H1. rewrite Hown in H2 by exact Hu2. apply (Hfree n u2); auto. apply Ht, H1.
    + rewrite Hownt in H2. rewrite Hown in H1 by exact Hu1. apply (Hfree n u1); auto. apply Ht, H2.
    + rewrite Hown in H1 by exact Hu1. rewrite Hown in H2 by exact Hu2. apply (IJ u1 u2 n Hne H1 H2).
  - unfold disp. cbn [stk popd clrd set_top retired a']. fold a'. repeat split.
    + apply Hpub, (R1 _ _ H).
    + intros Hin. apply (R1 _ _ H). apply Hs, Hin.
    + intros u Hin. destruct (Nat.eq_dec u t) as [->|Hu].
      * rewrite Hownt in Hin. apply (R1 _ _ H). apply Ht, Hin.
      * rewrite Hown in Hin by exact Hu. apply (R1 _ _ H) in Hin. exact Hin.
    + apply R2.
    + apply R3.
    + intros n Hn. destruct Hpc as [[-> ->]|[-> ->]].
      * destruct (C1 n Hn) as (u & H). exists u. destruct H as [H|H]; [left; exact H|right].
        destruct (Nat.eq_dec u t) as [->|Hu]; [rewrite Ho in H; contradiction|].
        now rewrite Hown.
      * apply in_app_or in Hn. destruct Hn as [Hn|Hn].
        -- exists t. right. now rewrite Hownt.
        -- destruct (C1 n Hn) as (u & H). exists u. destruct H as [H|H]; [left; exact H|right].
           destruct (Nat.eq_dec u t) as [->|Hu]; [rewrite Ho in H; contradiction|].
           now rewrite Hown.
    + destruct (C2 n (Hs n H)) as [Ca Cb]. destruct Hpc as [[-> ->]|[-> ->]]; [|exact Ca].
      intros Hin. apply in_app_or in Hin. destruct Hin as [Hin|Hin]; [|exact (Ca Hin)].
      apply (proj2 (Ht _ Hin)); exact H.
    + destruct (C2 n (Hs n H)) as [Ca Cb]. destruct Hpc as [[-> ->]|[-> ->]]; [exact Cb|].
      intros Hin. apply in_app_or in Hin. destruct Hin as [Hin|Hin]; [|exact (Cb Hin)].
      apply (proj2 (Ht _ Hin)); exact H.
    + intros n Hn. destruct Hpc as [[-> ->]|[-> ->]].
      * apply in_app_or in Hn. destruct Hn as [Hn|Hn]; [|apply C3; exact Hn].
        apply (proj2 (C2 n (proj1 (Ht n Hn)))).
      * intros Hin. apply in_app_or in Hin. destruct Hin as [Hin|Hin]; [|apply (C3 n Hn); exact Hin].
        apply (proj1 (C2 n (proj1 (Ht n Hin)))). exact Hn.
    + intros n Hn. apply Hpub. destruct Hpc as [[-> ->]|[-> ->]].
      * destruct Hn as [Hn|Hn]; [|apply C4; right; exact Hn].
        apply in_app_or in Hn. destruct Hn as [Hn|Hn]; [apply I3, Ht, Hn|apply C4; left; exact Hn].
      * destruct Hn as [Hn|Hn]; [apply C4; left; exact Hn|].
        apply in_app_or in Hn. destruct Hn as [Hn|Hn]; [apply I3, Ht, Hn|apply C4; right; exact Hn].
    + apply (cnt_step a a' tr t p' ae es KC); auto.
    + apply (cnt_step a a' tr t p' ae es KC); auto.
    + apply (cons_step g _ a a' t K).
      * intros n. apply loc_mono.
        -- intros x Hx. destruct (Hall x Hx) as [H|H]; [left; exact H|right].
           exists t. now rewrite Hownt.
        -- intros u x Hx. exact Hx.
        -- intros u x Hx. left. exists u. destruct (Nat.eq_dec u t) as [->|Hu].
           ++ rewrite Ho in Hx. contradiction.
           ++ now rewrite Hown.
      * intros u Hu. cbn. now rewrite set_ph_other.
      * left. cbn. rewrite set_ph_same. exact Hlim.
Qed.

(** ** linearization point of a non-empty pop: the successful CAS.
    (ABA) m_Top = Some n at the CAS means n is the head of [stk] NOW; since nodes are never reused, n has been
    in the stack ever since its next field was read, so the value read is still its successor. *)
Lemma Inv_pop_lp g a tr t k n nx :
  Inv g a tr -> ph a t = PPopR k n nx -> top g = Some n ->
  Inv (set_top g nx)
      (mkA (tl (stk a)) (atr a ++ [ELin t]) (set_ph (ph a) t (PPopG k n (val g n))) (n :: popd a) (clrd a))
      (tr ++ Conc.tag t [EvAcc KCas obj_top true]).
Proof.
  intros Hi Hp Htop. pose proof Hi as [(I1 & I2 & I3 & I4 & (sts & I5 & I5') & I6 & IJ) _].
  pose proof (I4 t) as Hme. rewrite Hp in Hme. cbn in Hme. destruct Hme as (Hpubn & Hhp & Hnx).
  destruct (chain_head _ _ _ n I1 Htop) as (r & Hs & Hc).
  assert (Hin : In n (stk a)) by (rewrite Hs; left; reflexivity).
  specialize (Hnx Hin).
  pose proof I2 as I2'. rewrite Hs in I2'. apply NoDup_cons_iff in I2'. destruct I2' as [Hnotin Hnd].
  destruct (take_ok g a tr t (PPopG k n (val g n)) r [n] (n :: popd a) (clrd a) [ELin t] nx
                    [EvAcc KCas obj_top true] Hi) as [HJ HD].
  { now rewrite Hp. } { reflexivity. }
  { intros x Hx. rewrite Hs. right; exact Hx. }
  { intros x [<-|[]]. split; auto. }
  { intros x Hx. rewrite Hs in Hx. destruct Hx as [<-|Hx]; [right; left; reflexivity|left; exact Hx]. }
  { now rewrite Hp. }
  { left. split; reflexivity. }
  { reflexivity. }
  { apply counts_silent; [now rewrite Hp|now rewrite Hp|auto]. }
  rewrite Hs. cbn [tl].
  set (a' := mkA r (atr a ++ [ELin t]) (set_ph (ph a) t (PPopG k n (val g n))) (n :: popd a) (clrd a)) in *.
  assert (Hpub : forall x, published a x -> published a' x).
  { intros x H. apply (published_mono a t (PPopG k n (val g n)) [ELin t] x); auto. rewrite Hp. cbn. lia. }
  assert (Hstk : forall x, In x (stk a') -> In x (stk a) \/ ~ published a x).
  { intros x H. left. rewrite Hs. right; exact H. }
  split; [|exact HD].
  unfold core. cbn [stk atr ph a' set_top top next val hp]. repeat split.
  - rewrite <- Hnx. exact Hc.
  - exact Hnd.
  - intros x Hx. apply Hpub, I3. rewrite Hs. right; exact Hx.
  - intros u. destruct (Nat.eq_dec u t) as [->|Hu].
    + rewrite set_ph_same. cbn. repeat split; auto.
    + rewrite set_ph_other by exact Hu. apply (phase_ok_stk g a a'); auto.
  - exists (Lin.upd sts t (SLin XPop (RVal (Some (val g n))))). split.
    + rewrite lp_run_app, I5. rewrite Hs. cbn. rewrite (I5' t), Hp. cbn. reflexivity.
    + intros u. destruct (Nat.eq_dec u t) as [->|Hu].
      * rewrite upd_same, set_ph_same. reflexivity.
      * rewrite upd_other, set_ph_other by exact Hu. apply I5'.
  - rewrite erase_app, hist_app, I6. cbn. reflexivity.
  - exact HJ.
Qed.

(** ** linearization point of clear() on a non-empty stack: the successful CAS of m_Top from the value just
       loaded to null.  Whatever chain starts at m_Top NOW is detached as a whole and becomes the caller's. *)
Lemma Inv_clear_lp g a tr t k n :
  Inv g a tr -> ph a t = PClr k -> top g = Some n ->
  Inv (set_top g None)
      (mkA [] (atr a ++ [ELin t]) (set_ph (ph a) t (PClrW k (Some n) (stk a))) (popd a) (stk a ++ clrd a))
      (tr ++ Conc.tag t [EvAcc KCas obj_top true]).
Proof.
  intros Hi Hp Htop. pose proof Hi as [(I1 & I2 & I3 & I4 & (sts & I5 & I5') & I6 & IJ) _].
  destruct (take_ok g a tr t (PClrW k (Some n) (stk a)) [] (stk a) (popd a) (stk a ++ clrd a) [ELin t] None
                    [EvAcc KCas obj_top true] Hi) as [HJ HD].
  { now rewrite Hp. } { reflexivity. }
  { intros x []. }
  { intros x Hx. split; auto. }
  { intros x Hx. right; exact Hx. }
  { now rewrite Hp. }
  { right. split; reflexivity. }
  { reflexivity. }
  { apply counts_silent; [now rewrite Hp|now rewrite Hp|auto]. }
  set (a' := mkA [] (atr a ++ [ELin t]) (set_ph (ph a) t (PClrW k (Some n) (stk a))) (popd a) (stk a ++ clrd a)) in *.
  assert (Hpub : forall x, published a x -> published a' x).
  { intros x H. apply (published_mono a t (PClrW k (Some n) (stk a)) [ELin t] x); auto. rewrite Hp. cbn. lia. }
  assert (Hstk : forall x, In x (stk a') -> In x (stk a) \/ ~ published a x).
  { intros x []. }
  split; [|exact HD].
  unfold core. cbn [stk atr ph a' set_top top next val hp]. repeat split.
  - constructor.
  - intros x [].
  - intros u. destruct (Nat.eq_dec u t) as [->|Hu].
    + rewrite set_ph_same. cbn. split; [|split].
      * rewrite <- Htop. exact I1.
      * exact I2.
      * intros x Hx. split; [apply Hpub, I3, Hx|intros []].
    + rewrite set_ph_other by exact Hu. apply (phase_ok_stk g a a'); auto.
  - exists (Lin.upd sts t (SLin XClear RUnit)). split.
    + rewrite lp_run_app, I5. cbn. rewrite (I5' t), Hp. cbn. reflexivity.
    + intros u. destruct (Nat.eq_dec u t) as [->|Hu].
      * rewrite upd_same, set_ph_same. reflexivity.
      * rewrite upd_other, set_ph_other by exact Hu. apply I5'.
  - rewrite erase_app, hist_app, I6. cbn. reflexivity.
  - exact HJ.
Qed.

(** ** small facts used by the per-step proofs *)
Lemma view_upd_a a t p ae : view (upd_a a t p ae) t = p.
Proof. unfold view, upd_a; cbn. apply set_ph_same. Qed.

Lemma frame_set_ph a t s x p pd cd : Conc.frame view t a (mkA s x (set_ph (ph a) t p) pd cd).
Proof. intros u H. unfold view; cbn. now apply set_ph_other. Qed.

Lemma phase_ok_upd g a t p' ae u q :
  (lim (ph a t) <= lim p')%nat -> phase_ok g a u q -> phase_ok g (upd_a a t p' ae) u q.
Proof.
  intros L H. assert (P : forall n, published a n -> published (upd_a a t p' ae) n)
    by (intros; now apply published_mono).
  assert (Hheld : forall l, held a l -> held (upd_a a t p' ae) l).
  { intros l Hl. eapply held_mono; [exact P| |exact Hl]. cbn. auto. }
  destruct q; cbn in *; auto.
  - destruct H; auto.
  - destruct H as (H1 & H2 & H3); auto.
  - destruct H as (H1 & H2 & H3); auto.
  - destruct H as (H1 & H2 & H3); auto.
  - destruct H as (H1 & H2 & H3); auto.
Qed.

Lemma touches_set_next g t n p : touches g (set_next g n p) t n.
Proof.
  repeat split; auto. cbn. rewrite node_eqb_neq; auto.
Qed.

Lemma touches_node_init g t n v : touches g (set_val (set_next g n None) n v) t n.
Proof.
  repeat split; auto; cbn; rewrite node_eqb_neq; auto.
Qed.

Lemma touches_set_hp g t p m : touches g (set_hp g t p) t m.
Proof.
  repeat split; auto. intros u Hu. cbn. destruct (Nat.eqb_spec u t); congruence.
Qed.

Lemma touches_add_retired g t n m : touches g (add_retired g t n) t m.
Proof. repeat split; auto. Qed.

Lemma Inv_phase g a tr t : Inv g a tr -> phase_ok g a t (ph a t).
Proof. intros [(_ & _ & _ & I4 & _) _]. apply I4. Qed.

Lemma hp_set_same g t p : hp (set_hp g t p) t = p.
Proof. cbn. now rewrite Nat.eqb_refl. Qed.

(** a step of thread [t] that changes neither the shared state nor anything but [t]'s phase *)
Lemma Inv_rephase g a tr t p' es :
  Inv g a tr ->
  (lim (ph a t) <= lim p')%nat ->
  phase_ok g (upd_a a t p' []) t p' ->
  status_of p' = status_of (ph a t) ->
  hist (Conc.tag t es) = [] ->
  owned p' = owned (ph a t) ->
  started p' = started (ph a t) -> done p' = done (ph a t) -> lim p' = lim (ph a t) ->
  Inv g (upd_a a t p' []) (tr ++ Conc.tag t es).
Proof.
  intros Hi L Hok Hst Hh Ho Hn0 Hn1 Hl.
  apply (Inv_keep g g a tr t (own a t)); [exact Hi| | |exact L|exact Hok| | |exact Ho|reflexivity| |left; exact Hl].
  - apply touches_refl.
  - left. apply own_ok.
  - rewrite Hst. apply lp_ok_nil.
  - rewrite Hh. reflexivity.
  - apply counts_silent; auto.
Qed.

(** ** gc::retire( n ): the retired_.push load of current_ (the append to the thread's retired array).
       The retiring thread owns n; afterwards nobody does. *)
Lemma Inv_retire g a tr t n p' :
  Inv g a tr ->
  owned (ph a t) = n :: owned p' -> ~ In n (owned p') ->
  (lim (ph a t) <= lim p')%nat ->
  status_of p' = status_of (ph a t) ->
  phase_ok (add_retired g t n) (upd_a a t p' []) t p' ->
  started p' = started (ph a t) -> done p' = done (ph a t) -> lim p' = lim (ph a t) ->
  Inv (add_retired g t n) (upd_a a t p' []) (tr ++ Conc.tag t [EvAcc KLd (obj_ret t) true]).
Proof.
  intros Hi Ho Hnn L Hst Hok Hn0 Hn1 Hl. pose proof Hi as [Hc (R1 & R2 & R3 & C1 & C2 & C3 & C4 & KC & K)].
  pose proof Hc as (_ & _ & _ & I4 & _ & _ & IJ).
  assert (Hmine : In n (owned (ph a t))) by (rewrite Ho; left; reflexivity).
  destruct (owned_facts g a t _ n (I4 t) Hmine) as [Hpn Hsn].
  assert (Hnr : forall u, ~ In n (retired g u)).
  { intros u H. apply (R1 _ _ H) in Hmine. exact Hmine. }
  assert (Hpub : forall x, published a x -> published (upd_a a t p' []) x)
    by (intros; now apply published_mono).
  assert (Hret : forall u x, In x (retired (add_retired g t n) u) ->
                   (u = t /\ x = n) \/ In x (retired g u)).
  { intros u x H. cbn in H. destruct (Nat.eqb_spec u t) as [->|Hu].
    - destruct H as [<-|H]; [left; split; reflexivity|right; exact H].
    - right; exact H. }
  assert (Hown : forall u x, In x (owned (ph (upd_a a t p' []) u)) -> In x (owned (ph a u)) /\ (u = t -> x <> n)).
  { intros u x H. rewrite owned_upd_a in H. destruct (Nat.eqb_spec u t) as [->|Hu].
    - split; [rewrite Ho; right; exact H|]. intros _ ->. contradiction.
    - split; [exact H|intros E; contradiction]. }
  split.
  - apply (core_keep g _ a tr t (own a t)); [exact Hc| | |exact L|exact Hok| |reflexivity|].
    + apply touches_add_retired.
    + left. apply own_ok.
    + rewrite Hst. apply lp_ok_nil.
    + rewrite Ho. intros x Hx. right; exact Hx.
  - unfold disp. cbn [stk popd clrd upd_a]. repeat split.
    + apply Hpub. destruct (Hret _ _ H) as [[_ ->]|H']; auto. apply (R1 _ _ H').
    + destruct (Hret _ _ H) as [[_ ->]|H']; auto. apply (R1 _ _ H').
    + intros u Hin. destruct (Hown _ _ Hin) as [Hin' Hne].
      destruct (Hret _ _ H) as [[_ ->]|H'].
      * destruct (Nat.eq_dec u t) as [->|Hu]; [apply Hne; reflexivity|].
        apply (IJ u t n Hu Hin' Hmine).
      * apply (R1 _ _ H') in Hin'. exact Hin'.
    + intros u. cbn. destruct (Nat.eqb_spec u t) as [->|]; [|apply R2].
      constructor; [apply Hnr|apply R2].
    + intros u1 u2 x Hne H1 H2.
      destruct (Hret _ _ H1) as [[-> ->]|H1']; destruct (Hret _ _ H2) as [[-> E]|H2']; try congruence.
      * apply (Hnr _ H2').
      * subst x. apply (Hnr _ H1').
      * apply (R3 u1 u2 x Hne H1' H2').
    + intros x Hx. destruct (C1 x Hx) as (u & [H|H]).
      * exists u. left. cbn. destruct (Nat.eqb_spec u t); [right|]; exact H.
      * destruct (Nat.eq_dec u t) as [->|Hu].
        -- rewrite Ho in H. destruct H as [<-|H].
           ++ exists t. left. cbn. rewrite Nat.eqb_refl. left; reflexivity.
           ++ exists t. right. rewrite owned_upd_a, Nat.eqb_refl. exact H.
        -- exists u. right. rewrite owned_upd_a. destruct (Nat.eqb_spec u t); [contradiction|exact H].
    + apply (C2 _ H).
    + apply (C2 _ H).
    + apply C3.
    + intros x Hx. apply Hpub, C4, Hx.
    + apply (cnt_step a _ tr t p' [] [EvAcc KLd (obj_ret t) true] KC); auto. apply counts_silent; auto.
    + apply (cnt_step a _ tr t p' [] [EvAcc KLd (obj_ret t) true] KC); auto. apply counts_silent; auto.
    + apply (cons_step g _ a _ t K).
      * intros x. apply loc_mono.
        -- intros y Hy. left. exact Hy.
        -- intros u y Hy. cbn. destruct (Nat.eqb_spec u t); [right|]; exact Hy.
        -- intros u y Hy. destruct (Nat.eq_dec u t) as [->|Hu].
           ++ rewrite Ho in Hy. destruct Hy as [<-|Hy].
              ** right. exists t. cbn. rewrite Nat.eqb_refl. left; reflexivity.
              ** left. exists t. rewrite owned_upd_a, Nat.eqb_refl. exact Hy.
           ++ left. exists u. rewrite owned_upd_a. destruct (Nat.eqb_spec u t); [contradiction|exact Hy].
      * intros u Hu. cbn. now rewrite set_ph_other.
      * left. cbn. rewrite set_ph_same. exact Hl.
Qed.

(** ** push *)
Lemma safe_push_loop fuel : forall t k v p p0 (Q : bool -> phase -> Prop),
  Q true (PPushed k v) -> (forall l, Q false l) ->
  safe t (push_loop fuel (t, k) p) (PPushL k v p0) Q.
Proof.
  induction fuel as [|f IH]; intros t k v p p0 Q Q1 Q2; cbn [push_loop Conc.safe]; [apply Q2|].
  (* pNew->m_pNext.store( t ) *)
  intros g a tr Hi Hv. unfold view in Hv. cbn [a_st_next fst snd].
  pose proof (Inv_phase _ _ _ t Hi) as Hme. rewrite Hv in Hme. cbn in Hme. destruct Hme as [_ Hval].
  exists (upd_a a t (PPushL k v p) []). split; [|split; [apply frame_upd_a|]].
  { apply (Inv_keep g _ a tr t (t, k)); [exact Hi| | | | | |reflexivity|now rewrite Hv|intros; reflexivity|apply counts_silent; [now rewrite Hv|now rewrite Hv|auto]|left; now rewrite Hv].
    - apply touches_set_next.
    - left. rewrite Hv. split; reflexivity.
    - rewrite Hv. cbn. lia.
    - cbn. rewrite node_eqb_refl. auto.
    - rewrite Hv. apply lp_ok_nil. }
  rewrite view_upd_a. cbn [Conc.safe]. clear g a tr Hi Hv Hval.
  (* m_Top.compare_exchange_weak( t, pNew ) *)
  intros g a tr Hi Hv. unfold view in Hv. unfold a_cas_top.
  destruct (ptr_eqb (top g) p) eqn:E; cbn [fst snd].
  - apply ptr_eqb_spec in E.
    exists (mkA ((t, k) :: stk a) (atr a ++ [ELin t]) (set_ph (ph a) t (PPushed k v)) (popd a) (clrd a)).
    split; [apply (Inv_push_lp g a tr t k v p); auto|]. split; [apply frame_set_ph|].
    unfold view; cbn. rewrite set_ph_same. exact Q1.
  - exists (upd_a a t (PPushL k v p) []). split; [|split; [apply frame_upd_a|]].
    { apply Inv_rephase; [exact Hi| | | |reflexivity|now rewrite Hv|now rewrite Hv|now rewrite Hv|now rewrite Hv].
      - rewrite Hv. cbn. lia.
      - apply phase_ok_upd; [rewrite Hv; cbn; lia|]. rewrite <- Hv. exact (Inv_phase _ _ _ t Hi).
      - now rewrite Hv. }
    rewrite view_upd_a. cbn [ptr_of]. apply IH; auto.
Qed.

Lemma safe_push fuel t k v (Q : bool -> phase -> Prop) :
  Q true (PPushed k v) -> (forall l, Q false l) ->
  safe t (push fuel (t, k) v) (PPush k v) Q.
Proof.
  intros Q1 Q2. unfold push. cbn [Conc.safe].
  (* node constructor *)
  intros g a tr Hi Hv. unfold view in Hv. cbn [a_node_init fst snd].
  exists (upd_a a t (PPushL k v None) []). split; [|split; [apply frame_upd_a|]].
  { apply (Inv_keep g _ a tr t (t, k)); [exact Hi| | | | | |reflexivity|now rewrite Hv|intros; reflexivity|apply counts_silent; [now rewrite Hv|now rewrite Hv|auto]|left; now rewrite Hv].
    - apply touches_node_init.
    - left. rewrite Hv. split; reflexivity.
    - rewrite Hv. cbn. lia.
    - cbn. rewrite !node_eqb_refl. auto.
    - rewrite Hv. apply lp_ok_nil. }
  rewrite view_upd_a. cbn [Conc.safe]. clear g a tr Hi Hv.
  (* m_Top.load *)
  intros g a tr Hi Hv. unfold view in Hv. cbn [a_ld_top fst snd].
  exists (upd_a a t (PPushL k v None) []). split; [|split; [apply frame_upd_a|]].
  { apply Inv_rephase; [exact Hi| | | |reflexivity|now rewrite Hv|now rewrite Hv|now rewrite Hv|now rewrite Hv].
    - rewrite Hv. cbn. lia.
    - apply phase_ok_upd; [rewrite Hv; cbn; lia|]. rewrite <- Hv. exact (Inv_phase _ _ _ t Hi).
    - now rewrite Hv. }
  rewrite view_upd_a. cbn [ptr_of]. apply safe_push_loop; auto.
Qed.

(** ** Guard::protect( m_Top ) *)
Definition Qprot (k : nat) : option ptr -> phase -> Prop :=
  fun r l => match r with
             | None => True
             | Some None => l = PPopE k
             | Some (Some n) => l = PPopV k n
             end.

Lemma safe_protect_loop fuel : forall t k pCur,
  safe t (protect_loop fuel t pCur) (PPop k) (Qprot k).
Proof.
  induction fuel as [|f IH]; intros t k pCur; cbn [protect_loop Conc.safe]; [exact I|].
  (* hazard slot store *)
  intros g a tr Hi Hv. unfold view in Hv. cbn [a_st_hp fst snd].
  exists (upd_a a t (PPopH k pCur) []). split; [|split; [apply frame_upd_a|]].
  { apply (Inv_keep g _ a tr t (own a t)); [exact Hi| | | | | |reflexivity|now rewrite Hv|intros; reflexivity|apply counts_silent; [now rewrite Hv|now rewrite Hv|auto]|left; now rewrite Hv].
    - apply touches_set_hp.
    - left. apply own_ok.
    - rewrite Hv. cbn. lia.
    - cbn. now rewrite Nat.eqb_refl.
    - rewrite Hv. apply lp_ok_nil. }
  rewrite view_upd_a. cbn [Conc.safe]. clear g a tr Hi Hv.
  (* sync_.fetch_add *)
  intros g a tr Hi Hv. unfold view in Hv. cbn [a_faa_sync fst snd].
  exists (upd_a a t (PPopH k pCur) []). split; [|split; [apply frame_upd_a|]].
  { apply Inv_rephase; [exact Hi| | | |reflexivity|now rewrite Hv|now rewrite Hv|now rewrite Hv|now rewrite Hv].
    - rewrite Hv. cbn. lia.
    - apply phase_ok_upd; [rewrite Hv; cbn; lia|]. rewrite <- Hv. exact (Inv_phase _ _ _ t Hi).
    - now rewrite Hv. }
  rewrite view_upd_a. cbn [Conc.safe]. clear g a tr Hi Hv.
  (* validating load *)
  intros g a tr Hi Hv. unfold view in Hv. cbn [a_ld_top fst snd ptr_of].
  pose proof (Inv_phase _ _ _ t Hi) as Hme. rewrite Hv in Hme. cbn in Hme.
  destruct (ptr_eqb pCur (top g)) eqn:E.
  - apply ptr_eqb_spec in E. subst pCur. destruct (top g) as [n|] eqn:Etop.
    + (* validated a node *)
      exists (upd_a a t (PPopV k n) []). split; [|split; [apply frame_upd_a|]].
      { apply Inv_rephase; [exact Hi| | | |reflexivity|now rewrite Hv|now rewrite Hv|now rewrite Hv|now rewrite Hv].
        - rewrite Hv. cbn. lia.
        - cbn. split; auto. apply published_mono; [rewrite Hv; cbn; lia|].
          destruct Hi as [(I1 & _ & I3 & _) _]. destruct (chain_head _ _ _ n I1 Etop) as (r & Hs & _).
          apply I3. rewrite Hs. left; reflexivity.
        - now rewrite Hv. }
      rewrite view_upd_a. reflexivity.
    + (* validated null: the linearization point of an empty pop *)
      exists (upd_a a t (PPopE k) [ELin t]). split; [|split; [apply frame_upd_a|]].
      { apply (Inv_keep g g a tr t (own a t)); [exact Hi| | | | | |reflexivity|now rewrite Hv|intros; reflexivity|apply counts_silent; [now rewrite Hv|now rewrite Hv|auto]|left; now rewrite Hv].
        - apply touches_refl.
        - left. apply own_ok.
        - rewrite Hv. cbn. lia.
        - exact I.
        - rewrite Hv. cbn [status_of]. destruct Hi as [(I1 & _) _]. rewrite Etop in I1.
          apply chain_nil in I1. rewrite I1. apply lp_ok_empty. }
      rewrite view_upd_a. reflexivity.
  - exists (upd_a a t (PPop k) []). split; [|split; [apply frame_upd_a|]].
    { apply Inv_rephase; [exact Hi| | | |reflexivity|now rewrite Hv|now rewrite Hv|now rewrite Hv|now rewrite Hv].
      - rewrite Hv. cbn. lia.
      - exact I.
      - now rewrite Hv. }
    rewrite view_upd_a. apply IH.
Qed.

Lemma safe_protect fuel t k : safe t (protect fuel t) (PPop k) (Qprot k).
Proof.
  unfold protect. cbn [Conc.safe].
  intros g a tr Hi Hv. unfold view in Hv. cbn [a_ld_top fst snd ptr_of].
  exists (upd_a a t (PPop k) []). split; [|split; [apply frame_upd_a|]].
  { apply Inv_rephase; [exact Hi| | | |reflexivity|now rewrite Hv|now rewrite Hv|now rewrite Hv|now rewrite Hv].
    - rewrite Hv. cbn. lia.
    - exact I.
    - now rewrite Hv. }
  rewrite view_upd_a. apply safe_protect_loop.
Qed.

(** ** pop *)
Definition Qpop (k : nat) : pop_res -> phase -> Prop :=
  fun r l => match r with
             | PopFuel => True
             | PopEmpty => l = PPopE k
             | Popped v => l = PPopD k v
             end.

Lemma safe_pop_loop fuel : forall t k, safe t (pop_loop fuel t) (PPop k) (Qpop k).
Proof.
  induction fuel as [|f IH]; intros t k; cbn [pop_loop]; [exact I|].
  apply Conc.safe_bind. eapply Conc.safe_weaken; [|apply safe_protect].
  intros [[n|]|] l Hl; cbn in Hl; [| |exact I]; subst l.
  - (* a node was validated: t->m_pNext.load *)
    cbn [Conc.safe]. intros g a tr Hi Hv. unfold view in Hv. cbn [a_ld_next fst snd ptr_of].
    pose proof (Inv_phase _ _ _ t Hi) as Hme. rewrite Hv in Hme. cbn in Hme. destruct Hme as [Hpub Hhp].
    exists (upd_a a t (PPopR k n (next g n)) []). split; [|split; [apply frame_upd_a|]].
    { apply Inv_rephase; [exact Hi| | | |reflexivity|now rewrite Hv|now rewrite Hv|now rewrite Hv|now rewrite Hv].
      - rewrite Hv. cbn. lia.
      - cbn. repeat split; auto. apply published_mono; [rewrite Hv; cbn; lia|auto].
      - now rewrite Hv. }
    rewrite view_upd_a. cbn [Conc.safe]. remember (next g n) as nx eqn:Enx. clear g a tr Hi Hv Hpub Hhp Enx.
    (* m_Top.compare_exchange_weak( t, pNext ) *)
    intros g a tr Hi Hv. unfold view in Hv. unfold a_cas_top.
    destruct (ptr_eqb (top g) (Some n)) eqn:E; cbn [fst snd].
    + apply ptr_eqb_spec in E.
      exists (mkA (tl (stk a)) (atr a ++ [ELin t]) (set_ph (ph a) t (PPopG k n (val g n))) (n :: popd a) (clrd a)).
      split; [apply (Inv_pop_lp g a tr t k n nx); auto|]. split; [apply frame_set_ph|].
      unfold view; cbn [ph]. rewrite set_ph_same. cbn [Conc.safe].
      remember (val g n) as v eqn:Ev. clear g a tr Hi Hv E Ev.
      (* clear_links *)
      intros g a tr Hi Hv. unfold view in Hv. cbn [a_st_next fst snd].
      pose proof (Inv_phase _ _ _ t Hi) as Hme. rewrite Hv in Hme. cbn in Hme. destruct Hme as (Hpub & Hnin & Hval).
      exists (upd_a a t (PPopG k n v) []). split; [|split; [apply frame_upd_a|]].
      { apply (Inv_keep g _ a tr t n); [exact Hi| | | | | |reflexivity|now rewrite Hv|intros; reflexivity|apply counts_silent; [now rewrite Hv|now rewrite Hv|auto]|left; now rewrite Hv].
        - apply touches_set_next.
        - right. rewrite Hv. left; reflexivity.
        - rewrite Hv. cbn. lia.
        - cbn. repeat split; auto. apply published_mono; [rewrite Hv; cbn; lia|auto].
        - rewrite Hv. apply lp_ok_nil. }
      rewrite view_upd_a. cbn [Conc.safe]. clear g a tr Hi Hv Hpub Hnin Hval.
      (* ~Guard, value read *)
      intros g a tr Hi Hv. unfold view in Hv. cbn [a_st_hp_rd fst snd].
      pose proof (Inv_phase _ _ _ t Hi) as Hme. rewrite Hv in Hme. cbn in Hme. destruct Hme as (Hpub & Hnin & Hval).
      exists (upd_a a t (PPopG k n v) []). split; [|split; [apply frame_upd_a|]].
      { apply (Inv_keep g _ a tr t (own a t)); [exact Hi| | | | | |reflexivity|now rewrite Hv|intros; reflexivity|apply counts_silent; [now rewrite Hv|now rewrite Hv|auto]|left; now rewrite Hv].
        - apply touches_set_hp.
        - left. apply own_ok.
        - rewrite Hv. cbn. lia.
        - cbn. repeat split; auto. apply published_mono; [rewrite Hv; cbn; lia|auto].
        - rewrite Hv. apply lp_ok_nil. }
      rewrite view_upd_a. cbn [Conc.safe z_of]. rewrite Hval. clear g a tr Hi Hv Hpub Hnin Hval.
      (* retire: load of current_ *)
      intros g a tr Hi Hv. unfold view in Hv. cbn [a_ld_ret fst snd].
      exists (upd_a a t (PPopD k v) []). split; [|split; [apply frame_upd_a|]].
      { apply Inv_retire; [exact Hi|now rewrite Hv|intros []|rewrite Hv; cbn; lia|now rewrite Hv|exact I|now rewrite Hv|now rewrite Hv|now rewrite Hv]. }
      rewrite view_upd_a. cbn [Conc.safe]. clear g a tr Hi Hv.
      (* retire: store of current_ *)
      intros g a tr Hi Hv. unfold view in Hv. cbn [a_st_ret fst snd].
      exists (upd_a a t (PPopD k v) []). split; [|split; [apply frame_upd_a|]].
      { apply Inv_rephase; [exact Hi| | | |reflexivity|now rewrite Hv|now rewrite Hv|now rewrite Hv|now rewrite Hv].
        - rewrite Hv. cbn. lia.
        - exact I.
        - now rewrite Hv. }
      rewrite view_upd_a. cbn. reflexivity.
    + (* CAS failed: try again *)
      exists (upd_a a t (PPop k) []). split; [|split; [apply frame_upd_a|]].
      { apply Inv_rephase; [exact Hi| | | |reflexivity|now rewrite Hv|now rewrite Hv|now rewrite Hv|now rewrite Hv].
        - rewrite Hv. cbn. lia.
        - exact I.
        - now rewrite Hv. }
      rewrite view_upd_a. apply IH.
  - (* empty: ~Guard *)
    cbn [Conc.safe]. intros g a tr Hi Hv. unfold view in Hv. cbn [a_st_hp fst snd].
    exists (upd_a a t (PPopE k) []). split; [|split; [apply frame_upd_a|]].
    { apply (Inv_keep g _ a tr t (own a t)); [exact Hi| | | | | |reflexivity|now rewrite Hv|intros; reflexivity|apply counts_silent; [now rewrite Hv|now rewrite Hv|auto]|left; now rewrite Hv].
      - apply touches_set_hp.
      - left. apply own_ok.
      - rewrite Hv. cbn. lia.
      - exact I.
      - rewrite Hv. apply lp_ok_nil. }
    rewrite view_upd_a. reflexivity.
Qed.

(** ** empty(): one load of m_Top, which is the linearization point *)
Lemma chain_is_nil nx p l : chain nx p l -> is_nil l = is_null p.
Proof. destruct l; cbn; [intros ->; reflexivity|intros [-> _]; reflexivity]. Qed.

Lemma safe_empty t k : safe t empty_prog (PEmp k) (fun b l => l = PEmpD k b).
Proof.
  unfold empty_prog. cbn [Conc.safe].
  intros g a tr Hi Hv. unfold view in Hv. cbn [a_ld_top fst snd ptr_of].
  exists (upd_a a t (PEmpD k (is_null (top g))) [ELin t]). split; [|split; [apply frame_upd_a|]].
  { apply (Inv_keep g g a tr t (own a t)); [exact Hi| | | | | |reflexivity|now rewrite Hv|intros; reflexivity|apply counts_silent; [now rewrite Hv|now rewrite Hv|auto]|left; now rewrite Hv].
    - apply touches_refl.
    - left. apply own_ok.
    - rewrite Hv. cbn. lia.
    - exact I.
    - rewrite Hv. cbn [status_of]. destruct Hi as [(I1 & _) _].
      rewrite <- (chain_is_nil _ _ _ I1).
      replace (is_nil (stk a)) with (is_nil (map (val g) (stk a))) by (destruct (stk a); reflexivity).
      apply lp_ok_isempty. }
  rewrite view_upd_a. reflexivity.
Qed.

(** ** clear(): the load / CAS loop *)
Definition Qclr (k : nat) : option ptr -> phase -> Prop :=
  fun r l => match r with
             | None => True
             | Some p => exists s, l = PClrW k p s
             end.

Lemma safe_clear_loop fuel : forall t k, safe t (clear_loop fuel) (PClr k) (Qclr k).
Proof.
  induction fuel as [|f IH]; intros t k; cbn [clear_loop Conc.safe]; [exact I|].
  (* pTop = m_Top.load *)
  intros g a tr Hi Hv. unfold view in Hv. cbn [a_ld_top fst snd ptr_of].
  destruct (top g) as [n|] eqn:Etop.
  - exists (upd_a a t (PClr k) []). split; [|split; [apply frame_upd_a|]].
    { apply Inv_rephase; [exact Hi| | | |reflexivity|now rewrite Hv|now rewrite Hv|now rewrite Hv|now rewrite Hv].
      - rewrite Hv. cbn. lia.
      - exact I.
      - now rewrite Hv. }
    rewrite view_upd_a. cbn [Conc.safe]. clear g a tr Hi Hv Etop.
    (* m_Top.compare_exchange_weak( pTop, nullptr ) *)
    intros g a tr Hi Hv. unfold view in Hv. unfold a_cas_top.
    destruct (ptr_eqb (top g) (Some n)) eqn:E; cbn [fst snd].
    + apply ptr_eqb_spec in E.
      exists (mkA [] (atr a ++ [ELin t]) (set_ph (ph a) t (PClrW k (Some n) (stk a))) (popd a) (stk a ++ clrd a)).
      split; [apply (Inv_clear_lp g a tr t k n); auto|]. split; [apply frame_set_ph|].
      unfold view; cbn [ph]. rewrite set_ph_same. cbn. eexists. reflexivity.
    + exists (upd_a a t (PClr k) []). split; [|split; [apply frame_upd_a|]].
      { apply Inv_rephase; [exact Hi| | | |reflexivity|now rewrite Hv|now rewrite Hv|now rewrite Hv|now rewrite Hv].
        - rewrite Hv. cbn. lia.
        - exact I.
        - now rewrite Hv. }
      rewrite view_upd_a. apply IH.
  - (* the stack is empty: linearization point of a clear() that detaches nothing *)
    exists (upd_a a t (PClrW k None []) [ELin t]). split; [|split; [apply frame_upd_a|]].
    { apply (Inv_keep g g a tr t (own a t)); [exact Hi| | | | | |reflexivity|now rewrite Hv|intros; reflexivity|apply counts_silent; [now rewrite Hv|now rewrite Hv|auto]|left; now rewrite Hv].
      - apply touches_refl.
      - left. apply own_ok.
      - rewrite Hv. cbn. lia.
      - cbn. split; [reflexivity|split; [constructor|intros x []]].
      - rewrite Hv. cbn [status_of]. destruct Hi as [(I1 & _) _]. rewrite Etop in I1.
        apply chain_nil in I1. rewrite I1. apply lp_ok_clear_nil. }
    rewrite view_upd_a. cbn. eexists. reflexivity.
Qed.

(** ** clear(): the dispose walk over the detached chain *)
Definition Qwalk (k : nat) : bool -> phase -> Prop :=
  fun ok l => ok = true -> exists s, l = PClrW k None s.

Lemma safe_clear_walk fuel : forall t k p s, safe t (clear_walk fuel t p) (PClrW k p s) (Qwalk k).
Proof.
  induction fuel as [|f IH]; intros t k [n|] s; cbn [clear_walk Conc.safe];
    try (intros _; eexists; reflexivity); try (intros H; discriminate).
  (* pTop = p->m_pNext.load *)
  intros g a tr Hi Hv. unfold view in Hv. cbn [a_ld_next fst snd ptr_of].
  pose proof (Inv_phase _ _ _ t Hi) as Hme. rewrite Hv in Hme. cbn in Hme. destruct Hme as (Hch & Hnd & Hheld).
  destruct (chain_head _ _ _ n Hch eq_refl) as (r & -> & Hc).
  exists (upd_a a t (PClrW1 k n (next g n) r) []). split; [|split; [apply frame_upd_a|]].
  { apply Inv_rephase; [exact Hi| | | |reflexivity|now rewrite Hv|now rewrite Hv|now rewrite Hv|now rewrite Hv].
    - rewrite Hv. cbn. lia.
    - cbn. split; [exact Hc|split; [exact Hnd|]].
      eapply held_mono; [| |exact Hheld]; [intros x Hx; apply published_mono; [rewrite Hv; cbn; lia|exact Hx]|].
      cbn. auto.
    - now rewrite Hv. }
  rewrite view_upd_a. cbn [Conc.safe]. remember (next g n) as nx eqn:Enx. clear g a tr Hi Hv Hch Hnd Hheld Hc Enx.
  (* clear_links( p ) *)
  intros g a tr Hi Hv. unfold view in Hv. cbn [a_st_next fst snd].
  pose proof (Inv_phase _ _ _ t Hi) as Hme. rewrite Hv in Hme. cbn in Hme. destruct Hme as (Hch & Hnd & Hheld).
  exists (upd_a a t (PClrW1 k n nx r) []). split; [|split; [apply frame_upd_a|]].
  { apply (Inv_keep g _ a tr t n); [exact Hi| | | | | |reflexivity|now rewrite Hv|intros; reflexivity|apply counts_silent; [now rewrite Hv|now rewrite Hv|auto]|left; now rewrite Hv].
    - apply touches_set_next.
    - right. rewrite Hv. left; reflexivity.
    - rewrite Hv. cbn. lia.
    - cbn. split; [|split; [exact Hnd|]].
      + eapply chain_ext; [|exact Hch]. intros x Hx. rewrite node_eqb_neq; auto.
        intros ->. apply NoDup_cons_iff in Hnd. destruct Hnd; contradiction.
      + eapply held_mono; [| |exact Hheld]; [intros x Hx; apply published_mono; [rewrite Hv; cbn; lia|exact Hx]|].
        cbn. auto.
    - rewrite Hv. apply lp_ok_nil. }
  rewrite view_upd_a. cbn [Conc.safe]. clear g a tr Hi Hv Hch Hnd Hheld.
  (* gc::retire( p ): load of current_ (p joins the retired array) *)
  intros g a tr Hi Hv. unfold view in Hv. cbn [a_ld_ret fst snd].
  pose proof (Inv_phase _ _ _ t Hi) as Hme. rewrite Hv in Hme. cbn in Hme. destruct Hme as (Hch & Hnd & Hheld).
  apply NoDup_cons_iff in Hnd. destruct Hnd as [Hnr Hnd].
  exists (upd_a a t (PClrW k nx r) []). split; [|split; [apply frame_upd_a|]].
  { apply Inv_retire; [exact Hi|now rewrite Hv|exact Hnr|rewrite Hv; cbn; lia|now rewrite Hv| |now rewrite Hv|now rewrite Hv|now rewrite Hv].
    cbn. split; [exact Hch|split; [exact Hnd|]].
    eapply held_mono; [| |intros x Hx; apply Hheld; right; exact Hx];
      [intros x Hx; apply published_mono; [rewrite Hv; cbn; lia|exact Hx]|].
    cbn. auto. }
  rewrite view_upd_a. cbn [Conc.safe]. clear g a tr Hi Hv Hch Hnr Hnd Hheld.
  (* gc::retire( p ): store of current_ *)
  intros g a tr Hi Hv. unfold view in Hv. cbn [a_st_ret fst snd].
  exists (upd_a a t (PClrW k nx r) []). split; [|split; [apply frame_upd_a|]].
  { apply Inv_rephase; [exact Hi| | | |reflexivity|now rewrite Hv|now rewrite Hv|now rewrite Hv|now rewrite Hv].
    - rewrite Hv. cbn. lia.
    - apply phase_ok_upd; [rewrite Hv; cbn; lia|]. rewrite <- Hv. exact (Inv_phase _ _ _ t Hi).
    - now rewrite Hv. }
  rewrite view_upd_a. cbn [ptr_of]. apply IH.
Qed.

Lemma safe_clear fuel t k : safe t (clear_prog fuel t) (PClr k) (Qwalk k).
Proof.
  unfold clear_prog. apply Conc.safe_bind. eapply Conc.safe_weaken; [|apply safe_clear_loop].
  intros [p|] l Hl; cbn in Hl.
  - destruct Hl as [s ->]. apply safe_clear_walk.
  - cbn. intros H; discriminate.
Qed.

(** ** client operations *)
Definition Qop (k : nat) : bool -> phase -> Prop := fun ok l => ok = true -> l = PIdle (S k).

Lemma safe_emit_fuel t l (Q : bool -> phase -> Prop) :
  (forall l', Q false l') -> safe t (Emit [EvCli "outoffuel" []] (Ret false)) l Q.
Proof.
  intros HQ. cbn [Conc.safe]. intros g a tr Hi Hv. unfold view in Hv.
  exists (upd_a a t (ph a t) []). split; [|split; [apply frame_upd_a|]].
  { apply Inv_rephase; [exact Hi| | | |reflexivity|reflexivity|reflexivity|reflexivity|reflexivity].
    - lia.
    - apply phase_ok_upd; [lia|]. exact (Inv_phase _ _ _ t Hi).
    - reflexivity. }
  apply HQ.
Qed.

(** invocation and response events *)
Lemma safe_invoke t k p' o es (R : Type) (q : prog R) (Q : R -> phase -> Prop) :
  status_of p' = SPend o -> lim p' = k -> started p' = S k -> done p' = k -> owned p' = [] ->
  (forall g a, phase_ok g a t p') ->
  hist (Conc.tag t es) = [@HInv StackX t o] ->
  safe t q p' Q ->
  safe t (Emit es q) (PIdle k) Q.
Proof.
  intros Hst Hl Hn0 Hn1 Ho Hok Hh Hq. cbn [Conc.safe]. intros g a tr Hi Hv. unfold view in Hv.
  exists (upd_a a t p' [EInv t o]). split; [|split; [apply frame_upd_a|]].
  { apply (Inv_keep g g a tr t (own a t)); [exact Hi| | | | | | | |intros; reflexivity| |].
    - apply touches_refl.
    - left. apply own_ok.
    - rewrite Hv, Hl. cbn. lia.
    - apply Hok.
    - rewrite Hv, Hst. apply lp_ok_inv.
    - rewrite Hh. reflexivity.
    - now rewrite Hv, Ho.
    - apply counts_inv; rewrite Hv; cbn; lia.
    - left. now rewrite Hv, Hl. }
  rewrite view_upd_a. exact Hq.
Qed.

Lemma safe_respond t k p o r es :
  status_of p = SLin o r -> started p = S k -> done p = k ->
  (lim p = S k \/ (lim p = k /\ forall v, nth_error (prog_of t) k <> Some (FPush v))) ->
  (forall g a, phase_ok g a t p -> owned p = []) ->
  hist (Conc.tag t es) = [@HRes StackX t r] ->
  safe t (Emit es (Ret true)) p (Qop k).
Proof.
  intros Hst Hn0 Hn1 Hl Ho Hh. cbn [Conc.safe]. intros g a tr Hi Hv. unfold view in Hv.
  exists (upd_a a t (PIdle (S k)) [ERes t r]). split; [|split; [apply frame_upd_a|]].
  { apply (Inv_keep g g a tr t (own a t)); [exact Hi| | | | | | | |intros; reflexivity| |].
    - apply touches_refl.
    - left. apply own_ok.
    - rewrite Hv. cbn. destruct Hl as [->|[-> _]]; lia.
    - exact I.
    - rewrite Hv, Hst. apply lp_ok_res.
    - rewrite Hh. reflexivity.
    - pose proof (Inv_phase _ _ _ t Hi) as Hme. rewrite Hv in *. symmetry. apply (Ho g a Hme).
    - apply counts_res; rewrite Hv; cbn; lia.
    - rewrite Hv. cbn [lim]. destruct Hl as [->|[-> Hnp]]; [left; reflexivity|right]. split; [lia|exact Hnp]. }
  rewrite view_upd_a. intros _. reflexivity.
Qed.

Lemma safe_run_fop fuel t k o :
  nth_error (prog_of t) k = Some o -> safe t (run_fop fuel t k o) (PIdle k) (Qop k).
Proof.
  intros Hprog.
  assert (Hnp : match o with FPush _ => True | _ => forall v, nth_error (prog_of t) k <> Some (FPush v) end).
  { destruct o; auto; intros v' E; rewrite E in Hprog; discriminate. }
  destruct o as [v| | |]; cbn [run_fop run_op].
  - (* push *)
    apply (safe_invoke t k (PPush k v) (XPush v)); try reflexivity; try (intros; exact I).
    apply Conc.safe_bind.
    apply (safe_push fuel t k v (fun ok l => safe t (if ok then Emit [EvCli "ret_push" [1]] (Ret true)
                                                     else Emit [EvCli "outoffuel" []] (Ret false)) l (Qop k))).
    + apply (safe_respond t k (PPushed k v) (XPush v) (RBool true)); try reflexivity. left; reflexivity.
    + intros l. apply safe_emit_fuel. intros l' H. discriminate.
  - (* pop *)
    apply (safe_invoke t k (PPop k) XPop); try reflexivity; try (intros; exact I).
    apply Conc.safe_bind. eapply Conc.safe_weaken; [|apply safe_pop_loop].
    intros [| |v] l Hl; cbn in Hl.
    + apply safe_emit_fuel. intros l' H. discriminate.
    + subst l. apply (safe_respond t k (PPopE k) XPop (RVal None)); try reflexivity. right; auto.
    + subst l. apply (safe_respond t k (PPopD k v) XPop (RVal (Some v))); try reflexivity. right; auto.
  - (* empty *)
    apply (safe_invoke t k (PEmp k) XEmpty); try reflexivity; try (intros; exact I).
    apply Conc.safe_bind. eapply Conc.safe_weaken; [|apply safe_empty].
    intros b l ->. apply (safe_respond t k (PEmpD k b) XEmpty (RBool b)); try reflexivity; [right; auto|].
    destruct b; reflexivity.
  - (* clear *)
    apply (safe_invoke t k (PClr k) XClear); try reflexivity; try (intros; exact I).
    apply Conc.safe_bind. eapply Conc.safe_weaken; [|apply safe_clear].
    intros [|] l Hl.
    + destruct (Hl eq_refl) as [s ->].
      apply (safe_respond t k (PClrW k None s) XClear RUnit); try reflexivity; [right; auto|].
      intros g a (Hc & _). cbn. apply chain_nil in Hc. exact Hc.
    + apply safe_emit_fuel. intros l' H. discriminate.
Qed.

Lemma safe_run_fops fuel t os : forall k,
  (forall j o, nth_error os j = Some o -> nth_error (prog_of t) (k + j) = Some o) ->
  safe t (run_fops fuel t k os) (PIdle k) (@Conc.QTrue phase).
Proof.
  induction os as [|o r IH]; intros k Hos; cbn [run_fops]; [exact I|].
  apply Conc.safe_bind. eapply Conc.safe_weaken; [|apply safe_run_fop].
  - intros [|] l Hl; [|exact I]. rewrite (Hl eq_refl). apply IH.
    intros j o' Hj. replace (S k + j)%nat with (k + S j)%nat by lia. apply Hos. exact Hj.
  - rewrite <- (Nat.add_0_r k). apply Hos. reflexivity.
Qed.

Lemma safe_thread fuel t : safe t (fthread_prog fuel t (prog_of t)) (PIdle 0) (@Conc.QTrue phase).
Proof.
  unfold fthread_prog. cbn [Conc.safe]. intros g a tr Hi Hv. unfold view in Hv. cbn [a_begin fst snd].
  exists (upd_a a t (PIdle 0) []). split; [|split; [apply frame_upd_a|]].
  { apply Inv_rephase; [exact Hi| | | |reflexivity|now rewrite Hv|now rewrite Hv|now rewrite Hv|now rewrite Hv].
    - rewrite Hv. cbn. lia.
    - exact I.
    - now rewrite Hv. }
  rewrite view_upd_a. apply safe_run_fops. intros j o Hj. exact Hj.
Qed.

Definition aux0 : Aux := mkA [] [] (fun _ => PIdle 0) [] [].

Lemma Inv_init : Inv init aux0 [].
Proof.
  split.
  - cbn. repeat split; auto.
    + constructor.
    + intros n [].
    + exists (fun _ => SIdle). split; reflexivity.
    + intros t u n _ [].
  - unfold disp. cbn [aux0 init retired stk popd clrd ph].
    split; [intros t n []|]. split; [intros t; constructor|]. split; [intros t u n _ []|].
    split; [intros n []|]. split; [intros n []|]. split; [intros n []|]. split; [intros n [[]|[]]|].
    split; [split; intros t; reflexivity|].
    intros t k v _ Hk. cbn in Hk. lia.
Qed.

End Progs.

Lemma nth_fthread_progs fuel ths : forall t0 i p,
  nth_error (fthread_progs fuel t0 ths) i = Some p ->
  exists os, nth_error ths i = Some os /\ p = fthread_prog fuel (t0 + i) os.
Proof.
  induction ths as [|os r IH]; intros t0 [|i] p H; cbn in H; try discriminate.
  - inversion H. exists os. split; [reflexivity|]. now rewrite Nat.add_0_r.
  - destruct (IH (S t0) i p H) as (os' & Hn & ->). exists os'. split; [exact Hn|]. f_equal. lia.
Qed.

Lemma init_ok fuel ths : Conc.cfg_ok view (Inv ths) (finit_cfg fuel ths).
Proof.
  exists aux0. split.
  - apply Inv_init.
  - intros t p Hp. cbn [finit_cfg Conc.threads] in Hp.
    destruct (nth_fthread_progs _ _ _ _ _ Hp) as (os & Hn & ->). cbn [Nat.add].
    replace os with (prog_of ths t); [apply safe_thread|].
    unfold prog_of. now apply nth_error_nth.
Qed.

Lemma done_le_lim p : (done p <= lim p)%nat.
Proof. destruct p; cbn; lia. Qed.

Lemma owned_busy p : owned p <> [] -> started p <> done p.
Proof. destruct p; cbn; try congruence; intros; lia. Qed.

(** ** the theorems: in every reachable configuration (every schedule, any number of threads, any client
       program of push / pop / empty / clear operations, any loop fuel) the invoke/response history is the
       erasure of a trace annotated with valid linearization points of the LIFO stack with empty and clear *)
Theorem treiberfull_invariant fuel ths c :
  Conc.reach (finit_cfg fuel ths) c -> exists a, Inv ths (Conc.shared c) a (Conc.trace c).
Proof. intros Hr. exact (Conc.reach_Inv (init_ok fuel ths) Hr). Qed.

Theorem treiberfull_lp_valid fuel ths c :
  Conc.reach (finit_cfg fuel ths) c ->
  exists atr, lp_valid StackX atr /\ erase atr = hist (Conc.trace c).
Proof.
  intros Hr. destruct (treiberfull_invariant fuel ths c Hr) as (a & (_ & _ & _ & _ & (sts & H & _) & He & _) & _).
  exists (atr a). split; [|exact He]. eexists. exact H.
Qed.

Theorem treiberfull_linearizable fuel ths c :
  Conc.reach (finit_cfg fuel ths) c -> linearizable StackX (hist (Conc.trace c)).
Proof.
  intros Hr. destruct (treiberfull_lp_valid fuel ths c Hr) as (atr & Hv & He).
  rewrite <- He. now apply lp_valid_linearizable.
Qed.

(** AT MOST ONCE: no node is handed to gc::retire twice (by pop or by clear, by the same or by different
    threads), and a retired node is not reachable from m_Top any more; the chain from m_Top is well formed *)
Theorem treiberfull_retire_once fuel ths c :
  Conc.reach (finit_cfg fuel ths) c ->
  let g := Conc.shared c in
  exists l, chain (next g) (top g) l /\ NoDup l /\
    (forall t, NoDup (retired g t)) /\
    (forall t u n, t <> u -> In n (retired g t) -> ~ In n (retired g u)) /\
    (forall t n, In n (retired g t) -> ~ In n l).
Proof.
  intros Hr g. destruct (treiberfull_invariant fuel ths c Hr) as (a & (I1 & I2 & _) & (R1 & R2 & R3 & _)).
  exists (stk a). repeat split; auto. intros t n H. apply (R1 _ _ H).
Qed.

(** AT LEAST ONCE (conservation, no leak): the node (t,k) of the k-th operation of thread t, when that is a push
    that has returned, is in the stack or in some thread's retired array -- unless some thread is inside an
    operation (it has an invocation without response); [l] is THE chain from m_Top. *)
Theorem treiberfull_conservation fuel ths c :
  Conc.reach (finit_cfg fuel ths) c ->
  let g := Conc.shared c in
  let h := hist (Conc.trace c) in
  exists l, chain (next g) (top g) l /\
    forall t k v, nth_error (nth t ths []) k = Some (FPush v) -> (k < nres t h)%nat ->
      In (t, k) l \/ (exists u, In (t, k) (retired g u)) \/ (exists u, ninv u h <> nres u h).
Proof.
  intros Hr g h.
  destruct (treiberfull_invariant fuel ths c Hr) as (a & (I1 & _) & (_ & _ & _ & _ & _ & _ & _ & [K0 K1] & K)).
  exists (stk a). split; [exact I1|]. intros t k v Hp Hk.
  assert (Hlim : (k < lim (ph a t))%nat).
  { unfold h in Hk. rewrite K1 in Hk. pose proof (done_le_lim (ph a t)). lia. }
  destruct (K t k v Hp Hlim) as [H|(u & [H|H])]; [left; exact H|right; left; eauto|right; right].
  exists u. unfold h. rewrite K0, K1. apply owned_busy. intros E. rewrite E in H. contradiction.
Qed.

(** clear(): with the proof's ghost bookkeeping made visible.  [clrd] / [popd] = the nodes detached so far by a
    clear CAS / by a pop CAS (Inv_clear_lp / Inv_pop_lp), [own u] = the nodes thread u has detached and not yet
    retired.  Every node detached by clear is in some retired array or still owned by a thread that is inside
    its clear(); it was never detached by a pop; a thread between operations owns nothing. *)
Theorem treiberfull_clear_disposal fuel ths c :
  Conc.reach (finit_cfg fuel ths) c ->
  let g := Conc.shared c in
  let h := hist (Conc.trace c) in
  exists (l popd clrd : list node) (own : nat -> list node),
    chain (next g) (top g) l /\
    (forall n, In n clrd -> exists t, In n (retired g t) \/ In n (own t)) /\
    (forall n, In n l -> ~ In n popd /\ ~ In n clrd) /\
    (forall n, In n popd -> ~ In n clrd) /\
    (forall t n, In n (retired g t) -> ~ In n l /\ forall u, ~ In n (own u)) /\
    (forall t u n, t <> u -> In n (own t) -> ~ In n (own u)) /\
    (forall u, ninv u h = nres u h -> own u = []).
Proof.
  intros Hr g h.
  destruct (treiberfull_invariant fuel ths c Hr)
    as (a & (I1 & _ & _ & _ & _ & _ & IJ) & (R1 & _ & _ & C1 & C2 & C3 & _ & [K0 K1] & _)).
  exists (stk a), (popd a), (clrd a), (fun u => owned (ph a u)). repeat split; auto.
  - apply (C2 _ H).
  - apply (C2 _ H).
  - apply (R1 _ _ H).
  - apply (R1 _ _ H).
  - intros u E. unfold h in E. rewrite K0, K1 in E.
    destruct (owned (ph a u)) eqn:Eo; [reflexivity|]. exfalso. apply (owned_busy (ph a u)); [congruence|exact E].
Qed.
