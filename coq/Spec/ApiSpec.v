(** * ApiSpec: executable sequential API specifications of the libcds containers (property C20).

    DEFINITIONS ONLY (no proofs), so the file always compiles and extracts; every law about these
    definitions is in [LV.Proofs.ApiSpecLaws] and restated in [LV.Properties.Properties_C20].

    The specification is the reference model of C20: [checks/C20.py] runs the extracted [krun] / [qrun] /
    [segq_run] and the real containers on the same operation sequences and compares, per operation,
    the return value, the log of user-functor calls (with arguments and the new-item flag), and the number
    of disposer calls.

    It builds on [LV.Spec.Specs]: the state of a keyed container is the association list of [MapSpec]
    ([mfind]/[mdel]/[mhas]); queue, stack, deque and priority-queue operations are the step functions
    [fifo_step]/[bfifo_step]/[stack_step]/[deque_step]/[pq_step]/[bpq_step] of Specs, to which
    [size]/[empty]/[clear] and the disposer accounting of the intrusive forms are added.

    Items are pairs (key, value).  In the harness the value doubles as the client id of the object (the
    generator gives every inserted object a fresh value), so "which object" is observable without pointers. *)

Require Import List Arith Bool ZArith Lia.
Require Import LV.Base.Lin LV.Spec.Specs.
Import ListNotations.
Local Open Scope Z_scope.

(** ** Keyed containers: sets and maps, container and intrusive forms *)

Definition item := (Z * Z)%type.

(** A call of a user functor, with what the functor saw. *)
Inductive call :=
| CIns (k v : Z)                     (* insert functor: f(item), item = (k,v)                                 *)
| CUpd (new : bool) (k seen v : Z)   (* update functor: new-item flag, key, value seen in the container item
                                        (the old value if the key existed, v for a new item), argument value  *)
| CErase (k v : Z)                   (* erase functor: f(item) with the item being removed                    *)
| CFind (k v : Z).                   (* find functor: f(item, key)                                            *)

Inductive kres :=
| KBool (b : bool)
| KPair (ok inserted : bool)         (* update: (succeeded, inserted)                                         *)
| KItem (i : option item)            (* extract / get / extract_min / extract_max: the item or null           *)
| KNat (n : nat)                     (* size()                                                                *)
| KList (l : list item)              (* iteration begin()..end(), sorted by key before comparison             *)
| KUnit.

(** Output of one operation.  [ko_held]: disposer calls observed while the caller still holds the
    extracted item (guarded_ptr / exempt_ptr not yet released): always 0.  [ko_disp]: disposer calls
    made by the time the operation is complete, every returned pointer released and reclamation quiescent
    (HP/DHP force_dispose, RCU synchronize). *)
Record kout := mkout { ko_res : kres; ko_calls : list call; ko_held : nat; ko_disp : nat }.

(** Disposer policy.  [DNone]: container form, no user disposer.  [DGc]: intrusive container over a
    garbage collector (HP, DHP, RCU): every erased / unlinked / cleared / replaced / released-after-extract item
    is passed to the disposer exactly once, as is every item still linked when the container is destroyed.
    [DManual]: intrusive containers without GC (CuckooSet, StripedSet): erase and unlink hand the item back to
    the caller and never call the disposer; only clear_and_dispose does. *)
Inductive dpolicy := DNone | DGc | DManual.

Record kcfg := mkcfg {
  kc_counted : bool;         (* a real item counter is configured; otherwise size() is always 0          *)
  kc_empty_by_size : bool;   (* empty() is implemented as size() == 0 (MichaelHashSet, SplitList, Feldman,
                                IterableList, Cuckoo, Striped) rather than structurally                  *)
  kc_replace : bool;         (* update() of an existing key links the new item in place of the old one
                                (IterableList, FeldmanHashSet); the old one is disposed                   *)
  kc_disp : dpolicy
}.

Inductive kop :=
| KInsert (k v : Z)                   (* insert(val) / insert(key, val) / emplace                         *)
| KInsertF (k v : Z)                  (* insert(val, f) / insert_with(key, f)                             *)
| KUpdate (k v : Z) (allow : bool)    (* update(val, f, bAllowInsert)                                     *)
| KUpsert (k v : Z) (allow : bool)    (* upsert / update without functor                                  *)
| KErase (k : Z)                      (* erase(key)                                                       *)
| KEraseF (k : Z)                     (* erase(key, f)                                                    *)
| KUnlink (k : Z)                     (* intrusive unlink(item) with the very item linked under key k      *)
| KUnlinkForeign (k : Z)              (* intrusive unlink(item) with an equal-keyed object that is not linked *)
| KExtract (k : Z)                    (* extract(key) -> guarded_ptr / exempt_ptr                         *)
| KContains (k : Z)
| KFindF (k : Z)                      (* find(key, f)                                                     *)
| KGet (k : Z)                        (* get(key) -> guarded_ptr / raw_ptr                                *)
| KSize | KEmpty | KClear
| KExtractMin | KExtractMax           (* ordered containers                                               *)
| KIter.                              (* iterate the whole container                                      *)

Definition keys (s : list item) : list Z := map fst s.

(** smallest / greatest key with its value *)
Definition kmin (s : list item) : option item :=
  match s with
  | [] => None
  | (k0, _) :: l => let m := zmin k0 (keys l) in
                    match mfind m s with Some v => Some (m, v) | None => None end
  end.

Definition kmax (s : list item) : option item :=
  match s with
  | [] => None
  | (k0, _) :: l => let m := zmax k0 (keys l) in
                    match mfind m s with Some v => Some (m, v) | None => None end
  end.

(** insertion sort by key *)
Fixpoint kins (i : item) (l : list item) : list item :=
  match l with
  | [] => [i]
  | j :: l' => if fst i <=? fst j then i :: l else j :: kins i l'
  end.

Definition ksort (l : list item) : list item := fold_right kins [] l.

Definition d_gc (c : kcfg) : nat := match kc_disp c with DGc => 1%nat | _ => 0%nat end.
Definition d_clear (c : kcfg) (n : nat) : nat := match kc_disp c with DNone => 0%nat | _ => n end.

Definition out0 (r : kres) : kout := mkout r [] 0 0.

Definition kstep (c : kcfg) (s : list item) (o : kop) : list item * kout :=
  match o with
  | KInsert k v =>
      if mhas k s then (s, out0 (KBool false)) else ((k, v) :: s, out0 (KBool true))
  | KInsertF k v =>
      if mhas k s then (s, out0 (KBool false))
      else ((k, v) :: s, mkout (KBool true) [CIns k v] 0 0)
  | KUpdate k v allow =>
      match mfind k s with
      | Some old => ((k, v) :: mdel k s,
                     mkout (KPair true false) [CUpd false k old v] 0 (if kc_replace c then d_gc c else 0%nat))
      | None => if allow then ((k, v) :: s, mkout (KPair true true) [CUpd true k v v] 0 0)
                else (s, out0 (KPair false false))
      end
  | KUpsert k v allow =>
      match mfind k s with
      | Some old => ((k, v) :: mdel k s,
                     mkout (KPair true false) [] 0 (if kc_replace c then d_gc c else 0%nat))
      | None => if allow then ((k, v) :: s, out0 (KPair true true))
                else (s, out0 (KPair false false))
      end
  | KErase k =>
      if mhas k s then (mdel k s, mkout (KBool true) [] 0 (d_gc c)) else (s, out0 (KBool false))
  | KEraseF k =>
      match mfind k s with
      | Some v => (mdel k s, mkout (KBool true) [CErase k v] 0 (d_gc c))
      | None => (s, out0 (KBool false))
      end
  | KUnlink k =>
      if mhas k s then (mdel k s, mkout (KBool true) [] 0 (d_gc c)) else (s, out0 (KBool false))
  | KUnlinkForeign k => (s, out0 (KBool false))
  | KExtract k =>
      match mfind k s with
      | Some v => (mdel k s, mkout (KItem (Some (k, v))) [] 0 (d_gc c))
      | None => (s, out0 (KItem None))
      end
  | KContains k => (s, out0 (KBool (mhas k s)))
  | KFindF k =>
      match mfind k s with
      | Some v => (s, mkout (KBool true) [CFind k v] 0 0)
      | None => (s, out0 (KBool false))
      end
  | KGet k => (s, out0 (KItem (match mfind k s with Some v => Some (k, v) | None => None end)))
  | KSize => (s, out0 (KNat (if kc_counted c then length s else 0%nat)))
  | KEmpty =>
      (s, out0 (KBool (if kc_empty_by_size c && negb (kc_counted c) then true
                       else match s with [] => true | _ => false end)))
  | KClear => ([], mkout KUnit [] 0 (d_clear c (length s)))
  | KExtractMin =>
      match kmin s with
      | Some (k, v) => (mdel k s, mkout (KItem (Some (k, v))) [] 0 (d_gc c))
      | None => (s, out0 (KItem None))
      end
  | KExtractMax =>
      match kmax s with
      | Some (k, v) => (mdel k s, mkout (KItem (Some (k, v))) [] 0 (d_gc c))
      | None => (s, out0 (KItem None))
      end
  | KIter => (s, out0 (KList (ksort s)))
  end.

(** running a sequence: final state and the outputs, one per operation *)
Fixpoint krun (c : kcfg) (s : list item) (ops : list kop) : list item * list kout :=
  match ops with
  | [] => (s, [])
  | o :: ops' => let (s1, r) := kstep c s o in
                 let (s2, rs) := krun c s1 ops' in (s2, r :: rs)
  end.

Definition kstate (c : kcfg) (ops : list kop) : list item := fst (krun c [] ops).
Definition kouts (c : kcfg) (ops : list kop) : list kout := snd (krun c [] ops).

(** disposer calls made by the destructor of the container *)
Definition kfinal (c : kcfg) (s : list item) : nat :=
  match kc_disp c with DGc => length s | _ => 0%nat end.

(** what the check compares for one sequence: per-operation outputs and the destructor's disposer count *)
Definition krun_case (c : kcfg) (ops : list kop) : list kout * nat :=
  let (s, outs) := krun c [] ops in (outs, kfinal c s).

(** [linked r]: the output says a new object was linked into the container by this operation *)
Definition linked (c : kcfg) (o : kop) (r : kout) : nat :=
  match o, ko_res r with
  | (KInsert _ _ | KInsertF _ _), KBool true => 1%nat
  | (KUpdate _ _ _ | KUpsert _ _ _), KPair true true => 1%nat
  | (KUpdate _ _ _ | KUpsert _ _ _), KPair true false => if kc_replace c then 1%nat else 0%nat
  | _, _ => 0%nat
  end.

(** [handed r]: the output says an object was handed back to the caller for good (DManual erase/unlink) *)
Definition handed (o : kop) (r : kout) : nat :=
  match o, ko_res r with
  | (KErase _ | KEraseF _ | KUnlink _), KBool true => 1%nat
  | (KExtract _ | KExtractMin | KExtractMax), KItem (Some _) => 1%nat
  | _, _ => 0%nat
  end.

(** ** Queues, stacks, deques, priority queues *)

Inductive qkind := QFifo | QStack | QDeque | QPrio.

(** Disposer policy of intrusive queues/stacks.  [QDNone]: no disposer observable (container forms).
    [QDLag]: MSQueue family (MSQueue, MoirQueue, BasketQueue, OptimisticQueue): the dequeued item stays in the
    queue as its dummy node, the disposer is called for the *previous* dummy, i.e. one dequeue late; the
    destructor disposes the last one.  [QDClear]: the disposer is called only for items removed by clear()
    (and by the destructor), never for items returned by pop (TreiberStack, FCQueue/FCStack, SegmentedQueue,
    intrusive forms).  [QDManual]: as [QDClear] for clear(), but the destructor does not dispose what is still
    inside (intrusive FCQueue / FCStack with clear( true ), VyukovMPMCCycleQueue).  [QDTotal]: BasketQueue
    unlinks dequeued nodes lazily in batches, so the instant of a disposer call is not specified; what is
    specified (and compared) is the total: by the time the queue is destroyed every item that was ever
    enqueued has been disposed exactly once.  Per-operation counts are reported as 0. *)
Inductive qdpolicy := QDNone | QDLag | QDClear | QDManual | QDTotal.

Record qcfg := mkqcfg {
  qc_kind : qkind;
  qc_cap : option nat;        (* bounded: push fails when [cap] items are stored                          *)
  qc_counted : bool;          (* real item counter; otherwise size() is always 0                          *)
  qc_empty_by_size : bool;    (* empty() is size() == 0                                                   *)
  qc_disp : qdpolicy
}.

Inductive aop :=
| APush (x : Z)               (* push / enqueue / emplace / push_with; deque: push_back                    *)
| APop                        (* pop / dequeue / pop_with; deque: pop_front                                *)
| APushFront (x : Z)          (* deque only                                                               *)
| APopBack                    (* deque only                                                               *)
| ASize | AEmpty | AClear.

Inductive qres :=
| QR (r : res)                (* result of the underlying Specs step                                      *)
| QNat (n : nat)
| QNa.                        (* operation not offered by this kind                                       *)

Record qout := mkqout { qo_res : qres; qo_disp : nat }.

Record qst := mkqst { q_items : list Z; q_pending : bool; q_npush : nat }.
(* q_pending: QDLag only - an item has been dequeued and not yet disposed (it is the dummy node);
   q_npush: number of successful pushes so far *)

Definition qinit : qst := mkqst [] false 0.

Definition b2n (b : bool) : nat := if b then 1%nat else 0%nat.

Definition has_room (c : qcfg) (l : list Z) : bool :=
  match qc_cap c with Some cap => (length l <? cap)%nat | None => true end.

(** the push / pop of the kind, from Specs *)
Definition core_push (c : qcfg) (l : list Z) (x : Z) : list Z * res :=
  match qc_kind c, qc_cap c with
  | QFifo, None => fifo_step l (Enq x)
  | QFifo, Some cap => bfifo_step cap l (Enq x)
  | QStack, _ => if has_room c l then stack_step l (Push x) else (l, RBool false)
  | QDeque, _ => if has_room c l then deque_step l (PushBack x) else (l, RBool false)
  | QPrio, None => pq_step l (Push x)
  | QPrio, Some cap => bpq_step cap l (Push x)
  end.

Definition core_pop (c : qcfg) (l : list Z) : list Z * res :=
  match qc_kind c with
  | QFifo => fifo_step l Deq
  | QStack => stack_step l Pop
  | QDeque => deque_step l PopFront
  | QPrio => pq_step l Pop
  end.

Definition popped_some (r : res) : bool := match r with RVal (Some _) => true | _ => false end.

Definition qstep (c : qcfg) (s : qst) (o : aop) : qst * qout :=
  let l := q_items s in
  match o with
  | APush x => let (l', r) := core_push c l x in
               (mkqst l' (q_pending s) (q_npush s + match r with RBool true => 1 | _ => 0 end), mkqout (QR r) 0)
  | APop =>
      let (l', r) := core_pop c l in
      if popped_some r then
        match qc_disp c with
        | QDLag => (mkqst l' true (q_npush s), mkqout (QR r) (b2n (q_pending s)))
        | _ => (mkqst l' (q_pending s) (q_npush s), mkqout (QR r) 0)
        end
      else (mkqst l' (q_pending s) (q_npush s), mkqout (QR r) 0)
  | APushFront x =>
      match qc_kind c with
      | QDeque => if has_room c l then let (l', r) := deque_step l (PushFront x) in
                                        (mkqst l' (q_pending s) (S (q_npush s)), mkqout (QR r) 0)
                  else (s, mkqout (QR (RBool false)) 0)
      | _ => (s, mkqout QNa 0)
      end
  | APopBack =>
      match qc_kind c with
      | QDeque => let (l', r) := deque_step l PopBack in (mkqst l' (q_pending s) (q_npush s), mkqout (QR r) 0)
      | _ => (s, mkqout QNa 0)
      end
  | ASize => (s, mkqout (QNat (if qc_counted c then length l else 0%nat)) 0)
  | AEmpty => (s, mkqout (QR (RBool (if qc_empty_by_size c && negb (qc_counted c) then true
                                     else match l with [] => true | _ => false end))) 0)
  | AClear =>
      match qc_disp c with
      | QDNone | QDTotal => (mkqst [] (q_pending s) (q_npush s), mkqout (QR RUnit) 0)
      | QDClear | QDManual => (mkqst [] (q_pending s) (q_npush s), mkqout (QR RUnit) (length l))
      | QDLag =>   (* clear() = repeated dequeue: every dequeue but the first disposes its predecessor *)
          match l with
          | [] => (s, mkqout (QR RUnit) 0)
          | _ :: t => (mkqst [] true (q_npush s), mkqout (QR RUnit) (length t + b2n (q_pending s)))
          end
      end
  end.

Fixpoint qrun (c : qcfg) (s : qst) (ops : list aop) : qst * list qout :=
  match ops with
  | [] => (s, [])
  | o :: ops' => let (s1, r) := qstep c s o in
                 let (s2, rs) := qrun c s1 ops' in (s2, r :: rs)
  end.

(** disposer calls made by the destructor *)
Definition qfinal (c : qcfg) (s : qst) : nat :=
  match qc_disp c with
  | QDNone | QDManual => 0%nat
  | QDClear => length (q_items s)
  | QDLag => (length (q_items s) + b2n (q_pending s))%nat
  | QDTotal => q_npush s
  end.

Definition qrun_case (c : qcfg) (ops : list aop) : list qout * nat :=
  let (s, outs) := qrun c qinit ops in (outs, qfinal c s).

(** ** SegmentedQueue, sequentially (cds/intrusive/segmented_queue.h, enqueue / do_dequeue).

    The queue is a list of segments of [Q] cells (Q = quasi factor, a power of two >= 2).  enqueue() puts
    the item into a free cell of the tail segment chosen by a random permutation, or appends a new segment
    when the tail segment has no free cell; cells are never reused.  dequeue() takes an item from *some*
    occupied cell of the head segment; when every cell of the head segment has been consumed the segment is
    removed and the next one becomes the head; when the head segment holds no item but still has a free cell
    the queue is empty.  So one thread sees FIFO order between segments and an arbitrary order inside a
    segment: the specification is nondeterministic in which item of the head segment a pop returns.  It is
    made executable by giving the *observed* answer to the step function, which accepts it (and continues from
    the corresponding state) or rejects it.

    A segment is (number of cells used so far, items still present). *)

Definition seg := (nat * list Z)%type.

Inductive sop :=
| SPush (x : Z)
| SPop (observed : option Z)   (* the value the implementation returned, None = "empty" *)
| SSize | SEmpty | SClear.

Inductive sres :=
| SOk                          (* push succeeded / observed pop accepted *)
| SReject (allowed : list Z)   (* observed pop is not allowed: the items that were (empty list = only "empty") *)
| SNat (n : nat)
| SBool (b : bool).

Fixpoint seg_push (q : nat) (segs : list seg) (x : Z) : list seg :=
  match segs with
  | [] => [(1%nat, [x])]
  | [(u, l)] => if (u <? q)%nat then [(S u, l ++ [x])] else [(u, l); (1%nat, [x])]
  | sg :: rest => sg :: seg_push q rest x
  end.

(** the head segment that a dequeue looks at: exhausted segments (all cells used, no item left) are removed *)
Fixpoint seg_head (q : nat) (segs : list seg) : list seg :=
  match segs with
  | (u, []) :: rest => if (u <? q)%nat then segs else seg_head q rest
  | _ => segs
  end.

Definition seg_count (segs : list seg) : nat := fold_right (fun sg n => (length (snd sg) + n)%nat) 0%nat segs.

Definition segq_step (q : nat) (segs : list seg) (o : sop) : list seg * sres :=
  match o with
  | SPush x => (seg_push q segs x, SOk)
  | SPop obs =>
      let h := seg_head q segs in
      match h, obs with
      | [], None => (h, SOk)
      | [], Some _ => (h, SReject [])
      | (u, l) :: rest, None => match l with [] => (h, SOk) | _ => (h, SReject l) end
      | (u, l) :: rest, Some x => if zmem x l then ((u, remove_one x l) :: rest, SOk) else (h, SReject l)
      end
  | SSize => (segs, SNat (seg_count segs))
  | SEmpty => (segs, SBool (Nat.eqb (seg_count segs) 0))
  | SClear => (seg_head q (map (fun sg => (fst sg, [])) segs), SOk)
      (* clear() = dequeue until empty: a partly used tail segment stays, with its used cells consumed *)
  end.

Fixpoint segq_run (q : nat) (segs : list seg) (ops : list sop) : list seg * list sres :=
  match ops with
  | [] => (segs, [])
  | o :: ops' => let (s1, r) := segq_step q segs o in
                 let (s2, rs) := segq_run q s1 ops' in (s2, r :: rs)
  end.

Definition segq_run_case (q : nat) (ops : list sop) : list sres := snd (segq_run q [] ops).
