(** * Specs: sequential specifications of the containers, as total step functions over [Z].

    Every specification has results in the single type [res], so one boolean equality
    (and one proof about it) serves all of them.  State representations are plain lists. *)

Require Import List Arith Bool ZArith Lia.
Require Import LV.Base.Lin.
Import ListNotations.
Local Open Scope Z_scope.

(** ** Results *)

Inductive res :=
| RUnit
| RBool (b : bool)
| RVal (v : option Z)            (* a value / key, or "empty" / "absent" *)
| RPair (b1 b2 : bool).          (* (succeeded, inserted) for update     *)

Definition oz_eqb (a b : option Z) : bool :=
  match a, b with
  | Some x, Some y => Z.eqb x y
  | None, None => true
  | _, _ => false
  end.

Definition res_beq (a b : res) : bool :=
  match a, b with
  | RUnit, RUnit => true
  | RBool x, RBool y => Bool.eqb x y
  | RVal x, RVal y => oz_eqb x y
  | RPair x1 x2, RPair y1 y2 => Bool.eqb x1 y1 && Bool.eqb x2 y2
  | _, _ => false
  end.

Lemma res_beq_ok : forall a b, res_beq a b = true <-> a = b.
Proof.
  intros a b; split.
  - destruct a as [|x|[x|]|x1 x2], b as [|y|[y|]|y1 y2]; simpl; try discriminate; auto.
    + intros H; apply Bool.eqb_prop in H; congruence.
    + intros H; apply Z.eqb_eq in H; congruence.
    + intros H; apply andb_true_iff in H; destruct H as [H1 H2];
        apply Bool.eqb_prop in H1; apply Bool.eqb_prop in H2; congruence.
  - intros <-; destruct a as [|x|[x|]|x1 x2]; simpl; auto.
    + apply Bool.eqb_reflx.
    + apply Z.eqb_refl.
    + now rewrite !Bool.eqb_reflx.
Qed.

Definition mkSpec (state op : Type) (init : state) (step : state -> op -> state * res) : Spec :=
  {| St := state; Op := op; Res := res; sinit := init; sstep := step;
     res_eqb := res_beq; res_eqb_spec := res_beq_ok |}.
Arguments mkSpec {state op} init step.

(** ** FIFO queues.  State: the queued values, oldest first. *)

Inductive qop := Enq (x : Z) | Deq.

Definition fifo_step (q : list Z) (o : qop) : list Z * res :=
  match o with
  | Enq x => (q ++ [x], RBool true)
  | Deq => match q with
           | [] => ([], RVal None)
           | x :: q' => (q', RVal (Some x))
           end
  end.

Definition Fifo : Spec := mkSpec [] fifo_step.

(** Bounded FIFO: [Enq] fails (returns [RBool false], state unchanged) when [cap] items are queued. *)

Definition bfifo_step (cap : nat) (q : list Z) (o : qop) : list Z * res :=
  match o with
  | Enq x => if (length q <? cap)%nat then (q ++ [x], RBool true) else (q, RBool false)
  | Deq => fifo_step q Deq
  end.

Definition BFifo (cap : nat) : Spec := mkSpec [] (bfifo_step cap).

(** ** Stack.  State: top first. *)

Inductive pop_op := Push (x : Z) | Pop.

Definition stack_step (s : list Z) (o : pop_op) : list Z * res :=
  match o with
  | Push x => (x :: s, RBool true)
  | Pop => match s with
           | [] => ([], RVal None)
           | x :: s' => (s', RVal (Some x))
           end
  end.

Definition Stack : Spec := mkSpec [] stack_step.

(** ** Double-ended queue.  State: front first. *)

Inductive dop := PushFront (x : Z) | PushBack (x : Z) | PopFront | PopBack.

Definition deque_step (d : list Z) (o : dop) : list Z * res :=
  match o with
  | PushFront x => (x :: d, RBool true)
  | PushBack x => (d ++ [x], RBool true)
  | PopFront => match d with
                | [] => ([], RVal None)
                | x :: d' => (d', RVal (Some x))
                end
  | PopBack => match rev d with
               | [] => ([], RVal None)
               | x :: r => (rev r, RVal (Some x))
               end
  end.

Definition Deque : Spec := mkSpec [] deque_step.

(** ** Max-priority queue with multiset semantics.  State: the items, in any order. *)

(** maximum / minimum of a non-empty list given as head and tail *)
Definition zmax (x : Z) (l : list Z) : Z := fold_left Z.max l x.
Definition zmin (x : Z) (l : list Z) : Z := fold_left Z.min l x.

(** remove the first occurrence of [x] *)
Fixpoint remove_one (x : Z) (l : list Z) : list Z :=
  match l with
  | [] => []
  | y :: l' => if Z.eqb x y then l' else y :: remove_one x l'
  end.

Definition pq_pop (s : list Z) : list Z * res :=
  match s with
  | [] => ([], RVal None)
  | x :: l => let m := zmax x l in (remove_one m s, RVal (Some m))
  end.

Definition pq_step (s : list Z) (o : pop_op) : list Z * res :=
  match o with
  | Push x => (x :: s, RBool true)
  | Pop => pq_pop s
  end.

Definition PQueue : Spec := mkSpec [] pq_step.

Definition bpq_step (cap : nat) (s : list Z) (o : pop_op) : list Z * res :=
  match o with
  | Push x => if (length s <? cap)%nat then (x :: s, RBool true) else (s, RBool false)
  | Pop => pq_pop s
  end.

Definition BPQueue (cap : nat) : Spec := mkSpec [] (bpq_step cap).

(** ** Sets of keys.  State: a duplicate-free list of keys (every step preserves that:
    a key is added only when absent). *)

Inductive set_op :=
| SInsert (k : Z)                       (* RBool fresh                                   *)
| SErase (k : Z)                        (* RBool was_present                             *)
| SContains (k : Z)                     (* RBool present                                 *)
| SUpdate (k : Z) (allow_insert : bool) (* RPair ok inserted, see below                  *)
| SExtractMin                           (* RVal (smallest key, removed) / RVal None      *)
| SExtractMax.

Definition zmem (k : Z) (s : list Z) : bool := existsb (Z.eqb k) s.
Definition zdel (k : Z) (s : list Z) : list Z := filter (fun x => negb (Z.eqb k x)) s.

Definition set_step (s : list Z) (o : set_op) : list Z * res :=
  match o with
  | SInsert k => if zmem k s then (s, RBool false) else (k :: s, RBool true)
  | SErase k => if zmem k s then (zdel k s, RBool true) else (s, RBool false)
  | SContains k => (s, RBool (zmem k s))
  | SUpdate k allow =>
      if zmem k s then (s, RPair true false)              (* key existed             *)
      else if allow then (k :: s, RPair true true)        (* inserted                *)
      else (s, RPair false false)                         (* absent, may not insert  *)
  | SExtractMin => match s with
                   | [] => ([], RVal None)
                   | x :: l => let m := zmin x l in (zdel m s, RVal (Some m))
                   end
  | SExtractMax => match s with
                   | [] => ([], RVal None)
                   | x :: l => let m := zmax x l in (zdel m s, RVal (Some m))
                   end
  end.

Definition SetSpec : Spec := mkSpec [] set_step.

(** ** Maps key -> value.  State: an association list with at most one binding per key. *)

Inductive map_op :=
| MInsert (k v : Z)                       (* RBool fresh; an existing binding is kept     *)
| MUpdate (k v : Z) (allow_insert : bool) (* upsert = MUpdate k v true; RPair ok inserted *)
| MErase (k : Z)                          (* RBool was_present                            *)
| MFind (k : Z)                           (* RVal (the value bound to k, if any)          *)
| MContains (k : Z).                      (* RBool present                                *)

Fixpoint mfind (k : Z) (m : list (Z * Z)) : option Z :=
  match m with
  | [] => None
  | (k', v) :: m' => if Z.eqb k k' then Some v else mfind k m'
  end.

Definition mdel (k : Z) (m : list (Z * Z)) : list (Z * Z) :=
  filter (fun kv => negb (Z.eqb k (fst kv))) m.

Definition mhas (k : Z) (m : list (Z * Z)) : bool :=
  match mfind k m with Some _ => true | None => false end.

Definition map_step (m : list (Z * Z)) (o : map_op) : list (Z * Z) * res :=
  match o with
  | MInsert k v => if mhas k m then (m, RBool false) else ((k, v) :: m, RBool true)
  | MUpdate k v allow =>
      if mhas k m then ((k, v) :: mdel k m, RPair true false)
      else if allow then ((k, v) :: m, RPair true true)
      else (m, RPair false false)
  | MErase k => if mhas k m then (mdel k m, RBool true) else (m, RBool false)
  | MFind k => (m, RVal (mfind k m))
  | MContains k => (m, RBool (mhas k m))
  end.

Definition MapSpec : Spec := mkSpec [] map_step.

(** ** Boolean equality and hash of abstract states, for [Lin.lincheck_memo].
    [zlist_eqb], [zlist_hash] serve every specification above except [MapSpec], which uses
    [zzlist_eqb], [zzlist_hash].  Only the soundness of the equalities matters for the
    correctness of [lincheck_memo]; the hashes merely spread its cache. *)

Fixpoint zlist_eqb (a b : list Z) : bool :=
  match a, b with
  | [], [] => true
  | x :: a', y :: b' => Z.eqb x y && zlist_eqb a' b'
  | _, _ => false
  end.

Fixpoint zzlist_eqb (a b : list (Z * Z)) : bool :=
  match a, b with
  | [], [] => true
  | (x1, x2) :: a', (y1, y2) :: b' => Z.eqb x1 y1 && Z.eqb x2 y2 && zzlist_eqb a' b'
  | _, _ => false
  end.

Lemma zlist_eqb_sound : forall a b, zlist_eqb a b = true -> a = b.
Proof.
  induction a as [|x a IH]; destruct b as [|y b]; simpl; try discriminate; auto.
  intros H; apply andb_true_iff in H; destruct H as [H1 H2].
  apply Z.eqb_eq in H1; apply IH in H2; congruence.
Qed.

Lemma zzlist_eqb_sound : forall a b, zzlist_eqb a b = true -> a = b.
Proof.
  induction a as [|[x1 x2] a IH]; destruct b as [|[y1 y2] b]; simpl; try discriminate; auto.
  intros H; apply andb_true_iff in H; destruct H as [H H3].
  apply andb_true_iff in H; destruct H as [H1 H2].
  apply Z.eqb_eq in H1; apply Z.eqb_eq in H2; apply IH in H3; congruence.
Qed.

Definition zhash (x : Z) : positive :=
  match x with Z0 => xH | Zpos p => xO p | Zneg p => xI p end.

Fixpoint zlist_hash_from (acc : positive) (l : list Z) : positive :=
  match l with
  | [] => acc
  | x :: l' => zlist_hash_from (pmix acc (zhash x)) l'
  end.

Definition zlist_hash (l : list Z) : positive := zlist_hash_from 1 l.

Definition zzlist_hash (l : list (Z * Z)) : positive :=
  zlist_hash_from 1 (flat_map (fun kv => [fst kv; snd kv]) l).
