"""Model-guided window schedules, second generation (used by checks C13, C14, C15, C16, C19).

lib/conc_check.py:window_schedules() works from the solo profile of a thread's FIRST operation on an EMPTY container.
The ordered lists / hash sets / trees need more: the container has to be pre-filled (a set-up thread that runs to
completion first), the interesting writes of an operation depend on what the other thread has done already, and the
algorithms are multi-phase (mark, then unlink; flag, then help; lock, validate, then write), so the actor has to be
stopped right AFTER one of its writes while the victim (and a third thread) run.

expand(model_exe, workdir, templates, ...) does everything on the extracted Coq model (cheap, one process per round):
  round 1  run the set-up thread alone                                   -> its exact length L0
  round 2  set-up, then each participant solo                            -> length and write positions of the participant
  round 3  set-up, victim stalled right before its k-th write, actor solo -> the actor's write positions and length IN THAT
           STATE (they differ from the solo profile when the victim has already marked / flagged / locked something)
  final    the schedules
             pre  [v]*(pv-1)  [a]*pa  [v]*r  [a]*rest  others  [v]*rest            ("va": actor finishes before the victim resumes for good)
             pre  [v]*(pv-1)  [a]*pa  [v]*r  others    [v]*rest  [a]*rest          ("vo": a third thread runs after the victim's r steps)
             pre  [v]*(pv-1)  [a]*pa  others [v]*r     [a]*rest  [v]*rest          ("mid": a third thread runs between the actor's write
                                                                                     and the victim's next steps)
           staged=True: the same again with  pre := pre [s]*ps  for every participant s and each of its writes ps (s is parked
           right after its write: a node is marked but not yet unlinked, a flag is set but not yet helped, a lock is held);
           the victim's stall points are then the writes of its helping / retry path in that state.
           pa ranges over the actor's write positions measured in round 3 (the actor stops right after that write) and the
           actor's whole program ("full"); r is swept.
These are ordinary schedules for model and implementation alike; nothing is assumed about them, they only make the rare
interleavings frequent.  Everything is deterministic; sub-sampling takes a vcheck.SplitMix64."""
import os
import vcheck, conc_check

WRITE_KINDS = ("cas", "xchg")
BIG = 500          # longer than any thread program of the templates (probe schedules "run this thread to its end")


def _run_model(model_exe, workdir, cases, tag, fuel, timeout=600):
    if not cases:
        return {}
    cf = os.path.join(workdir, "%s.txt" % tag)
    conc_check.write_cases(cf, cases)
    rc, out = vcheck.sh("%s %d < %s" % (model_exe, fuel, cf), timeout=timeout)
    return conc_check.parse_logs(out)


def _steps(log, tid, limit=None):
    """the access lines (incl. the pseudo access 'begin') of thread tid, in order"""
    if log is None:
        return []
    st = conc_check.thread_steps(log["lines"], tid)
    return st if limit is None else st[:limit]


def _writes(steps, kinds):
    return [i + 1 for i, l in enumerate(steps) if l.split(" ")[1] in kinds]


def expand(model_exe, workdir, templates, prefix, fuel=20000, r_values=tuple(range(0, 13)), max_wv=8, max_wa=5, slack=6,
           kinds=WRITE_KINDS, shapes=("va", "vo", "mid"), read_points=False, max_rp=400, staged=False, max_ws=4,
           staged_r_values=None, staged_shapes=("va", "vo"), staged_max_wa=None, lazy=False, spin_cap=40, big=None, profiler=None):
    """templates: list of {"name": str, "cfg": [...], "threads": [[op...]...], "setup": 0|1}
       ("setup": 1 = thread 0 is a set-up thread: it runs to completion before anything else and takes no part in the windows).
       read_points: the victim is also stalled before every step that is NOT a write (load-load windows: "an `if` that is
       reached only when a concurrent operation completed between two loads"); for those points only shape "va" with the
       first r value is generated (the actor runs through each of its writes / its whole program, then everything finishes).
       staged: additionally, for every participant s and each of its first max_ws writes, the whole construction is repeated in
       the state "set-up done, s stopped right after that write" (a node is marked but not unlinked, a flag is set but the
       operation is not helped yet, a lock is held): the victim's stall points are the writes it performs IN THAT STATE (its
       helping / retry path), the actor may be s itself (it resumes) or a third thread.
    -> (cases, info)   cases: {"id","cfg","threads","sched","kind":"window","tpl":name,"solo":{tid: solo length},"solo_w":{tid: solo writes}}"""
    os.makedirs(workdir, exist_ok=True)
    if profiler is not None:
        # IMPLEMENTATION-guided windows (variants without a step model): the probe cases are run on the real code by
        # profiler(cases, tag) -> logs in the format of conc_check.parse_logs (see pseudo_log below); model_exe is unused
        _run = lambda exe, wd, cs, tag, fl: profiler(cs, tag) if cs else {}
    else:
        _run = _run_model
    BIG = big or globals()["BIG"]          # "run this thread to its end" in the probe schedules (lock-based models: keep it small,
                                           # a thread that spins on a lock held by a parked thread spins for BIG steps)
    # round 1: length of the set-up thread
    probes = []
    for ti, t in enumerate(templates):
        if t.get("setup"):
            probes.append({"id": "%sp1_%d" % (prefix, ti), "cfg": t["cfg"], "threads": t["threads"], "sched": [0] * (3 * BIG)})
    lg = _run(model_exe, workdir, probes, prefix + "p1", min(fuel, 3 * BIG + 2))     # probes stop when their schedule ends
    nprobe = len(probes)
    # entries: one per (template, stage); stage 0 = right after the set-up
    entries = []
    for ti, t in enumerate(templates):
        L0 = len(_steps(lg.get("%sp1_%d" % (prefix, ti)), 0)) if t.get("setup") else 0
        entries.append({"ti": ti, "t": t, "pre": [0] * L0, "stager": None, "tag": "%d" % ti, "name": t.get("name", str(ti))})
    cases = []
    info = {"templates": len(templates), "per_template": {}}
    base_solo = {}

    def profile(ents, rtag):
        """round 2 for the entries: every participant solo in the entry's state -> ent["solo"][p] = (steps, write positions)"""
        probes = []
        for e in ents:
            t = e["t"]
            e["parts"] = list(range(1 if t.get("setup") else 0, len(t["threads"])))
            for p in e["parts"]:
                probes.append({"id": "%s%s_%s_%d" % (prefix, rtag, e["tag"], p), "cfg": t["cfg"], "threads": t["threads"], "sched": e["pre"] + [p] * BIG})
        lg = _run(model_exe, workdir, probes, prefix + rtag, min(fuel, max([len(p_["sched"]) for p_ in probes] + [0]) + 2))
        for e in ents:
            e["solo"] = {}
            e["rp"] = {}
            pre_n = {}
            for x in e["pre"]:
                pre_n[x] = pre_n.get(x, 0) + 1
            for p in e["parts"]:
                st = _steps(lg.get("%s%s_%s_%d" % (prefix, rtag, e["tag"], p)), p)[pre_n.get(p, 0):]     # the steps AFTER the prefix
                if e["ti"] in base_solo:
                    # a parked stager may hold a lock: the others spin on it for as long as they are scheduled; never schedule a
                    # thread for much longer than its program takes solo (the loop fuel of the models is finite)
                    st = st[:base_solo[e["ti"]][p][0] + spin_cap]
                w = _writes(st, kinds)
                e["solo"][p] = (len(st), w)
                e["rp"][p] = [i for i in range(2 if pre_n.get(p, 0) == 0 else 1, len(st) + 1) if i not in w][:max_rp] if (read_points and e["stager"] is None) else []
        return len(probes)

    def windows(ents, rtag, rvals, shps, max_wa=max_wa):
        """round 3 + schedules for the entries"""
        probes = []
        for e in ents:
            t = e["t"]
            for v in e["parts"]:
                if v == e["stager"]:
                    continue
                for pv in e["solo"][v][1][:max_wv] + e["rp"][v]:
                    for a in e["parts"]:
                        if a != v:
                            probes.append({"id": "%s%s_%s_%d_%d_%d" % (prefix, rtag, e["tag"], v, pv, a), "cfg": t["cfg"], "threads": t["threads"],
                                           "sched": e["pre"] + [v] * (pv - 1) + [a] * (e["solo"][a][0] + 60)})
        # the run of a probe stops when its schedule ends (the models are slow when threads spin on a lock of a parked thread)
        lg = _run(model_exe, workdir, probes, prefix + rtag, min(fuel, max([len(p_["sched"]) for p_ in probes] + [0]) + 2))
        for e in ents:
            t = e["t"]
            pre = e["pre"]
            pre_n = {}
            for x in pre:
                pre_n[x] = pre_n.get(x, 0) + 1
            n0 = len(cases)
            pre_rle = []
            for x in pre:
                if pre_rle and pre_rle[-1][0] == x:
                    pre_rle[-1] = (x, pre_rle[-1][1] + 1)
                else:
                    pre_rle.append((x, 1))
            # the statistics compare with the solo run of the whole program (stage 0)
            sololen = {str(p): base_solo[e["ti"]][p][0] for p in e["parts"]}
            solow = {str(p): len(base_solo[e["ti"]][p][1]) for p in e["parts"]}
            for v in e["parts"]:
                if v == e["stager"]:
                    continue
                Lv = e["solo"][v][0]
                for pv in e["solo"][v][1][:max_wv] + e["rp"][v]:
                    isw = pv in e["solo"][v][1]
                    for a in e["parts"]:
                        if a == v:
                            continue
                        cap = e["solo"][a][0] + 60
                        plog = lg.get("%s%s_%s_%d_%d_%d" % (prefix, rtag, e["tag"], v, pv, a))
                        allst = _steps(plog, a)[pre_n.get(a, 0):]
                        ast = allst[:cap]
                        finished = plog is not None and len(allst) < cap      # scheduled for cap steps: fewer = its program ended
                        pas = [("w%d" % x, x) for x in _writes(ast, kinds)[:max_wa]]
                        if finished and ast:
                            pas.append(("full", len(ast)))
                        others = [x for x in e["parts"] if x not in (v, a)]
                        orun = [(x, e["solo"][x][0] + slack) for x in others]
                        vrest = [(v, Lv + 3 * slack)]
                        arest = [(a, e["solo"][a][0] + 3 * slack)]
                        for pname, pa in pas:
                            head = pre_rle + [(v, pv - 1), (a, pa)]
                            for shape in (shps if isw else ("va",)):
                                if shape != "va" and not others:
                                    continue
                                for r in (rvals if isw else rvals[:1]):
                                    if shape == "va":
                                        if pname == "full" and not others and r != rvals[0]:
                                            continue        # the victim's steps are contiguous anyway
                                        s = head + [(v, r)] + arest + orun + vrest
                                    elif shape == "vo":
                                        s = head + [(v, r)] + orun + vrest + arest
                                    else:
                                        s = head + orun + [(v, r)] + arest + vrest
                                    cases.append({"id": "%st%s_v%d@%s%d_a%d@%s_%s_r%d" % (prefix, e["tag"], v, "" if isw else "rd", pv, a, pname, shape, r),
                                                  "cfg": t["cfg"], "threads": t["threads"], "rle": s, "kind": "window", "tpl": e["name"],
                                                  "staged": e["stager"] is not None, "solo": sololen, "solo_w": solow})
            pt = info["per_template"].setdefault(e["name"], {"schedules": 0, "staged_schedules": 0})
            if e["stager"] is None:
                pt.update({"setup_steps": len(pre), "solo": {str(p): list(e["solo"][p]) for p in e["parts"]}})
                pt["schedules"] += len(cases) - n0
            else:
                pt["staged_schedules"] += len(cases) - n0
        return len(probes)

    nprobe += profile(entries, "p2")
    for e in entries:
        base_solo[e["ti"]] = e["solo"]
    nprobe += windows(entries, "p3", tuple(r_values), tuple(shapes))
    if staged:
        sents = []
        for e in entries:
            for s_ in e["parts"]:
                for ps in e["solo"][s_][1][:max_ws]:
                    if ps >= e["solo"][s_][0]:
                        continue                    # the write is the last step: the stager would simply be finished
                    sents.append({"ti": e["ti"], "t": e["t"], "pre": e["pre"] + [s_] * ps, "stager": s_, "tag": "%ds%d@%d" % (e["ti"], s_, ps), "name": e["name"]})
        nprobe += profile(sents, "q2")
        nprobe += windows(sents, "q3", tuple(staged_r_values if staged_r_values is not None else r_values), tuple(staged_shapes),
                          max_wa=staged_max_wa or max_wa)
        info["staged_states"] = len(sents)
    info["probe_runs_on_the_model"] = nprobe
    if not lazy:
        finalize(cases)
    return cases, info


def pseudo_log(tsteps, twrites):
    """log (format of conc_check.parse_logs) that carries only what expand() reads: per thread the number of scheduled steps
    and which of them are CAS / exchange accesses.  tsteps: {tid: n}; twrites: {tid: [1-based step indices]}"""
    lines = []
    for t in sorted(tsteps):
        w = set(twrites.get(t, ()))
        for i in range(1, tsteps[t] + 1):
            lines.append("%d %s o0 1" % (t, "cas" if i in w else "ld") if i > 1 or i in w else "%d begin" % t)
    return {"lines": lines, "end": "finished", "extra": []}


def finalize(cases):
    """expand the run-length form of the schedules (lazy=True: call this after sub-sampling)"""
    for c in cases:
        rle = c.pop("rle", None)
        if rle is not None:
            s = []
            for tid, n in rle:
                s += [tid] * n
            c["sched"] = s
    return cases


def subsample(rng, cases, k):
    """deterministic subsample (order preserved) of at most k cases; k <= 0 or k >= len: everything"""
    if k <= 0 or len(cases) <= k:
        return list(cases)
    idx = list(range(len(cases)))
    for i in range(len(idx) - 1, 0, -1):
        j = rng.below(i + 1)
        idx[i], idx[j] = idx[j], idx[i]
    return [cases[i] for i in sorted(idx[:k])]


def stratified(rng, cases, k, key=lambda c: (c.get("tpl"), bool(c.get("staged")))):
    """subsample of about k cases with (almost) equal shares per template (staged / not staged separately), so that no
    template is starved"""
    if k <= 0 or len(cases) <= k:
        return list(cases)
    groups = {}
    for c in cases:
        groups.setdefault(key(c), []).append(c)
    share = max(1, k // max(1, len(groups)))
    out = []
    for g in sorted(groups, key=str):
        out += subsample(rng, groups[g], share)
    return out


def event_stats(cases, logs):
    """count what the window cases reached: cases with a failed CAS, cases in which a thread executed more CAS / exchange
    accesses than in its solo run (= it took a retry / helping / lock-spinning path), cases in which a thread ran longer than
    solo (weaker: also a longer search), total failed CAS events.  logs: conc_check.parse_logs of either side"""
    st = {"window_cases": 0, "with_failed_cas": 0, "with_retry_path": 0, "with_longer_path": 0, "failed_cas_events": 0, "with_failed_cas_or_retry": 0, "templates": {}}
    for c in cases:
        if c.get("kind") != "window":
            continue
        lg = logs.get(c["id"])
        if lg is None:
            continue
        st["window_cases"] += 1
        nf = 0
        per = {}
        perw = {}
        for l in lg["lines"]:
            t = l.split(" ")
            if len(t) >= 4 and t[1] != "ev":
                per[t[0]] = per.get(t[0], 0) + 1
                if t[1] in WRITE_KINDS:
                    perw[t[0]] = perw.get(t[0], 0) + 1
                if t[1] == "cas" and t[3] == "0":
                    nf += 1
        longer = any(per.get(tid, 0) > n - 1 for tid, n in (c.get("solo") or {}).items())      # solo counts the pseudo access 'begin' too
        retry = any(perw.get(tid, 0) > n for tid, n in (c.get("solo_w") or {}).items())
        st["with_longer_path"] += 1 if longer else 0
        st["failed_cas_events"] += nf
        st["with_failed_cas"] += 1 if nf else 0
        st["with_retry_path"] += 1 if retry else 0
        st["with_failed_cas_or_retry"] += 1 if (nf or retry) else 0
        tp = st["templates"].setdefault(c.get("tpl", "?"), [0, 0])
        tp[0] += 1
        tp[1] += 1 if (nf or retry) else 0
    return st


# ---------------------------------------------------------------------------------------------------------
# Model-guided SELECTION for the quick tier.  The enumeration is much larger than what the quick tier can run on the real
# code, and the rare paths (an `if` taken only when a concurrent operation completed between two loads) are hit by a handful
# of its schedules only.  The extracted model is ~20x cheaper than the harness: all candidates are run on the model first, the
# path every thread takes (sequence of access kind + success flag, repetitions collapsed = spinning) is read off the log,
# and the schedules to run on the real code are chosen greedily so that every distinct (template, thread, path) is covered;
# the rest of the budget is filled with a stratified random sample.

def model_paths(model_exe, workdir, cases, tag, fuel=20000, nproc=4, timeout=900):
    """-> {case id: (frozenset of (thread, path hash), out_of_fuel: bool)} from a run of the candidates on the model"""
    from concurrent.futures import ThreadPoolExecutor
    os.makedirs(workdir, exist_ok=True)
    chunks = [cases[i::nproc] for i in range(nproc)]

    def one(j):
        if not chunks[j]:
            return {}
        cf = os.path.join(workdir, "%s_sel%d.txt" % (tag, j))
        conc_check.write_cases(cf, finalize([dict(c) for c in chunks[j]]))
        rc, out = vcheck.sh("%s %d < %s" % (model_exe, fuel, cf), timeout=timeout)
        res = {}
        per = None
        cid = None
        oof = False
        for line in out.split("\n"):
            if line.startswith("case "):
                per = {}
                cid = line[5:].strip()
                oof = False
            elif line.startswith("endcase"):
                if cid is not None:
                    res[cid] = (frozenset((t, hash(tuple(v))) for t, v in per.items()), oof)
                cid = None
            elif cid is not None and line:
                t = line.split(" ")
                if len(t) >= 2 and t[1] == "ev":
                    if "outoffuel" in line:
                        oof = True
                    continue
                k = (t[1], t[-1])
                v = per.setdefault(t[0], [])
                if not v or v[-1] != k:
                    v.append(k)
        return res
    out = {}
    with ThreadPoolExecutor(max_workers=nproc) as ex:
        for r in ex.map(one, range(nproc)):
            out.update(r)
    return out


def select_by_cover(rng, cases, paths, budget, tplkey=lambda c: c.get("tpl")):
    """greedy cover of the (template, thread, path) items by at most `budget` cases, filled up with a stratified sample.
    Candidates on which the model ran out of loop fuel are dropped.  -> (selected cases, info)"""
    cand = []
    for c in cases:
        p = paths.get(c["id"])
        if p is None or p[1]:
            continue
        cand.append((c, frozenset((tplkey(c), t, h) for t, h in p[0])))
    idx = list(range(len(cand)))
    for i in range(len(idx) - 1, 0, -1):          # random order = random tie-breaking
        j = rng.below(i + 1)
        idx[i], idx[j] = idx[j], idx[i]
    allitems = set()
    for _, it in cand:
        allitems |= it
    covered = set()
    chosen = []
    chosen_set = set()
    gain = {i: len(cand[i][1]) for i in idx}
    while len(chosen) < budget and len(covered) < len(allitems):
        best, bg = None, 0
        for i in idx:
            if i in chosen_set or gain[i] <= bg:
                continue
            g = len(cand[i][1] - covered)         # lazy evaluation: gains only shrink
            gain[i] = g
            if g > bg:
                best, bg = i, g
        if best is None:
            break
        chosen.append(best)
        chosen_set.add(best)
        covered |= cand[best][1]
    info = {"candidates_run_on_the_model": len(cases), "dropped_model_out_of_fuel": len(cases) - len(cand),
            "distinct_thread_paths": len(allitems), "thread_paths_covered": len(covered), "chosen_for_cover": len(chosen)}
    sel = [cand[i][0] for i in sorted(chosen)]
    if len(sel) < budget:
        rest = [cand[i][0] for i in range(len(cand)) if i not in chosen_set]
        sel += stratified(rng, rest, budget - len(sel))
    info["selected"] = len(sel)
    return sel, info
