"""Shared machinery of /verif checks (see DESIGN.md section 5).

A check is a module checks/<ID>.py with a function run(ctx).  It uses the helpers below to
  1. regenerate Gen/*.v from /repo (translator) and build the Coq obligations of the property,
  2. build the C++ harness from /repo's *current working tree* (hook on) and the extracted OCaml model,
  3. run the correspondence / search and report violations,
  4. write evidence/<ID>.json.
Nothing here caches anything that is not keyed by the content of the inputs it was built from.
"""
import hashlib, json, os, re, shutil, subprocess, sys, time, glob

VERIF = os.path.dirname(os.path.dirname(os.path.abspath(__file__)))
REPO = os.environ.get("VERIF_REPO", "/repo")
COQ = os.path.join(VERIF, "coq")
WORK = os.path.join(VERIF, "_work")
if REPO != "/repo":
    # checks run against a scratch copy of the repository (mutation experiments) get their own build area, so that
    # they never disturb a run against /repo itself
    WORK = os.path.join(VERIF, "_work", "alt-" + hashlib.sha256(REPO.encode()).hexdigest()[:8])
GUARD = "KHIZMAX_LIBCDS_VERIF"
NCPU = os.cpu_count() or 4

FORBIDDEN = re.compile(r"\b(Admitted|admit|Axiom|Axioms|Parameter|Parameters|Conjecture|Conjectures|Hypothesis|Hypotheses|Variable|Variables|Admit Obligations|Unset Guard Checking|Unset Positivity Checking|Unset Universe Checking|bypass_check|native_compute|type-in-type|impredicative-set)\b")


class SplitMix64:
    def __init__(self, seed):
        self.s = seed & 0xFFFFFFFFFFFFFFFF

    def next(self):
        self.s = (self.s + 0x9E3779B97F4A7C15) & 0xFFFFFFFFFFFFFFFF
        z = self.s
        z = ((z ^ (z >> 30)) * 0xBF58476D1CE4E5B9) & 0xFFFFFFFFFFFFFFFF
        z = ((z ^ (z >> 27)) * 0x94D049BB133111EB) & 0xFFFFFFFFFFFFFFFF
        return z ^ (z >> 31)

    def below(self, n):
        return self.next() % n if n > 0 else 0

    def choice(self, xs):
        return xs[self.below(len(xs))]

    def chance(self, num, den):
        return self.below(den) < num

    def fork(self):
        return SplitMix64(self.next())


def sh(cmd, timeout=600, cwd=None, env=None, input=None):
    """Run a command (list or string); returns (rc, combined output). rc 124 on timeout."""
    e = dict(os.environ)
    if env:
        e.update(env)
    try:
        p = subprocess.run(cmd, shell=isinstance(cmd, str), cwd=cwd, env=e, input=input,
                           stdout=subprocess.PIPE, stderr=subprocess.STDOUT, timeout=timeout, text=True, errors="replace")
        return p.returncode, p.stdout
    except subprocess.TimeoutExpired as ex:
        out = ex.stdout or ""
        if isinstance(out, bytes):
            out = out.decode(errors="replace")
        return 124, out + "\n[timeout after %ss]" % timeout


def file_hash(paths):
    h = hashlib.sha256()
    for p in sorted(paths):
        h.update(p.encode())
        try:
            with open(p, "rb") as f:
                h.update(f.read())
        except OSError:
            h.update(b"<missing>")
    return h.hexdigest()[:16]


def repo_tree_hash(subdirs=("cds", "src")):
    files = []
    for d in subdirs:
        for root, _, fs in os.walk(os.path.join(REPO, d)):
            for f in fs:
                files.append(os.path.join(root, f))
    return file_hash(files)


# --------------------------------------------------------------------------------------------------
# Coq project handling

def coq_sources():
    out = []
    for sub in ("Base", "Spec", "Gen", "Model", "Proofs", "Properties"):
        out += sorted(glob.glob(os.path.join(COQ, sub, "**", "*.v"), recursive=True))
    return [os.path.relpath(p, COQ) for p in out]


def coq_makefile():
    """(Re)generate _CoqProject and Makefile when the file list changed."""
    srcs = coq_sources()
    proj = "-Q . LV\n-arg -w -arg -notation-overridden,-deprecated-hint-without-locality,-deprecated-instance-without-locality,-ambiguous-paths,-undeclared-scope,-deprecated-syntactic-definition\n" + "\n".join(srcs) + "\n"
    pf = os.path.join(COQ, "_CoqProject")
    old = open(pf).read() if os.path.exists(pf) else None
    if old != proj or not os.path.exists(os.path.join(COQ, "Makefile")):
        with open(pf, "w") as f:
            f.write(proj)
        rc, out = sh(["coq_makefile", "-f", "_CoqProject", "-o", "Makefile"], cwd=COQ)
        if rc != 0:
            raise RuntimeError("coq_makefile failed:\n" + out)


def theorems_in(vfile):
    """Names of the obligations (Theorem ...) stated in a Properties file, in order."""
    txt = open(vfile).read()
    txt = re.sub(r"\(\*.*?\*\)", "", txt, flags=re.S)
    return re.findall(r"^\s*(?:Theorem|Example)\s+([A-Za-z0-9_']+)", txt, flags=re.M)


def forbidden_scan():
    """The grep gate of DESIGN section 5: nothing in coq/ declares an axiom or disables a check."""
    bad = []
    for rel in coq_sources() + [os.path.relpath(p, COQ) for p in glob.glob(os.path.join(COQ, "Extract", "*.v"))]:
        txt = open(os.path.join(COQ, rel)).read()
        txt = re.sub(r"\(\*.*?\*\)", "", txt, flags=re.S)
        depth = 0
        for ln, line in enumerate(txt.split("\n"), 1):
            if re.match(r"\s*Section\b", line):
                depth += 1
            if re.match(r"\s*End\b", line) and depth > 0:
                depth -= 1
            for m in FORBIDDEN.finditer(line):
                w = m.group(1)
                if w in ("Variable", "Variables", "Hypothesis", "Hypotheses") and depth > 0:
                    continue  # section-local, discharged at End
                if w == "Parameter" and re.search(r"Parameter", line) and depth > 0 and False:
                    continue
                bad.append("%s:%d: %s" % (rel, ln, line.strip()))
    return bad


class CoqResult:
    def __init__(self):
        self.ok = False
        self.obligations = []      # theorem names stated
        self.discharged = []       # theorem names whose file compiled
        self.failed = []           # (file, line, theorem or None, message)
        self.assumptions = {}      # theorem -> "Closed under the global context" | [axioms]
        self.log = ""
        self.wall_s = 0.0


def _theorem_at(vpath, line):
    name = None
    try:
        for i, l in enumerate(open(vpath), 1):
            m = re.match(r"\s*(?:Theorem|Lemma|Example|Definition|Fixpoint|Corollary|Fact|Remark|Proposition|Instance)\s+([A-Za-z0-9_']+)", l)
            if m:
                if i <= line:
                    name = m.group(1)
    except OSError:
        pass
    return name


def with_companions(prop_files):
    """Properties/Properties_Cnn.v -> itself plus its companion files Properties/Properties_Cnn_*.v (further theorems of
    the same property kept in separate files).  Only companions tracked by git count: a file an engineer is still
    writing is not an obligation yet (without git every companion present counts)."""
    out = []
    for p in prop_files:
        if p not in out:
            out.append(p)
        m = re.fullmatch(r"Properties/Properties_(C\d\d)\.v", p)
        if not m:
            continue
        comps = sorted("Properties/" + os.path.basename(f)
                       for f in glob.glob(os.path.join(COQ, "Properties", "Properties_%s_*.v" % m.group(1))))
        try:
            rc, o = sh(["git", "-C", VERIF, "ls-files", "coq/Properties"], timeout=30)
            tracked = set(l.strip()[4:] for l in o.splitlines()) if rc == 0 and o.strip() else None
        except Exception:
            tracked = None
        for c in comps:
            if (tracked is None or c in tracked) and c not in out:
                out.append(c)
    return out


def coq_build(prop_files, timeout=1500, jobs=None):
    """make the .vo of the given Properties files (paths relative to coq/, '.v').
    Obligations = Theorem/Example statements in those files."""
    t0 = time.time()
    res = CoqResult()
    prop_files = with_companions(prop_files)
    coq_makefile()
    bad = forbidden_scan()
    targets = [p[:-2] + ".vo" for p in prop_files]
    for p in prop_files:
        res.obligations += theorems_in(os.path.join(COQ, p))
    # remove stale .vo of the property files so Print Assumptions output is regenerated
    for t in targets:
        for ext in ("", "k", "s"):
            try:
                os.remove(os.path.join(COQ, t + ext))
            except OSError:
                pass
    # every coqc runs under its own time limit (COQC_TIMEOUT seconds, default 1200): one file that no longer terminates
    # is reported as a broken obligation instead of stalling the whole check
    rc, out = sh(["make", "-k", "-j%d" % (jobs or NCPU), "COQC=timeout %s coqc" % os.environ.get("COQC_TIMEOUT", "1200")] + targets,
                 cwd=COQ, timeout=timeout)
    res.log = out
    # failures
    for m in re.finditer(r'File "\./([^"]+)", line (\d+), characters [\d-]+:\n(Error:?.*?)(?=\n\S*make|\nFile |\Z)', out, flags=re.S):
        f, ln, msg = m.group(1), int(m.group(2)), m.group(3).strip()
        res.failed.append((f, ln, _theorem_at(os.path.join(COQ, f), ln), msg[:600]))
    if rc != 0 and not res.failed:
        res.failed.append(("?", 0, None, out[-800:]))
    for b in bad:
        res.failed.append((b.split(":")[0], 0, None, "forbidden construct: " + b))
    # discharged obligations: those in property files whose .vo exists
    for p in prop_files:
        if os.path.exists(os.path.join(COQ, p[:-2] + ".vo")):
            res.discharged += theorems_in(os.path.join(COQ, p))
    # Print Assumptions output: "Closed under the global context" or "Axioms:\n name : type ..."
    cur = None
    chunks = re.split(r"\n(?=COQC |make)", out)
    for ch in chunks:
        pass
    res.assumptions = parse_assumptions(out, prop_files)
    res.ok = (rc == 0 and not res.failed and len(res.discharged) == len(res.obligations) and len(res.obligations) > 0)
    res.wall_s = time.time() - t0
    return res


def parse_assumptions(out, prop_files):
    """Collect the answers of the `Print Assumptions` commands, in order, per property file.
    coqc prints them in file order; we pair them with the `Print Assumptions X.` commands of the file.
    With make -j output of different files may interleave only at line granularity per file; to be
    robust each property file is re-run sequentially only if pairing fails."""
    res = {}
    answers = re.findall(r"(Closed under the global context|Axioms:\n(?:.+\n?(?:  .+\n?)*)+?)(?=\n(?:Closed under|Axioms:|COQC|make|File|\Z)|\Z)", out)
    names = []
    for p in prop_files:
        txt = open(os.path.join(COQ, p)).read()
        txt = re.sub(r"\(\*.*?\*\)", "", txt, flags=re.S)
        names += re.findall(r"Print Assumptions\s+([A-Za-z0-9_'.]+)\s*\.", txt)
    if len(answers) == len(names) and len(prop_files) == 1:
        for n, a in zip(names, answers):
            res[n] = "closed" if a.startswith("Closed") else [l.split(":")[0].strip() for l in a.split("\n")[1:] if l and not l.startswith(" ") and ":" in l]
    else:
        # fall back: per-file sequential query through coqc on the .v (cheap: dependencies are compiled)
        for p in prop_files:
            if not os.path.exists(os.path.join(COQ, p[:-2] + ".vo")):
                continue
            rc, o = sh(["coqc", "-Q", ".", "LV", "-w", "none", p, "-o", os.path.join(WORK, "pa.vo")], cwd=COQ, timeout=900)
            ans = re.findall(r"(Closed under the global context|Axioms:\n(?:.+\n?(?:  .+\n?)*)+?)(?=\n(?:Closed under|Axioms:)|\Z)", o)
            txt = re.sub(r"\(\*.*?\*\)", "", open(os.path.join(COQ, p)).read(), flags=re.S)
            nm = re.findall(r"Print Assumptions\s+([A-Za-z0-9_'.]+)\s*\.", txt)
            for n, a in zip(nm, ans):
                res[n] = "closed" if a.startswith("Closed") else [l.split(":")[0].strip() for l in a.split("\n")[1:] if l and not l.startswith(" ") and ":" in l]
    return res


def coqchk(module, timeout=1800):
    rc, out = sh(["coqchk", "-o", "-silent", "-Q", ".", "LV", module], cwd=COQ, timeout=timeout)
    return rc, out


# --------------------------------------------------------------------------------------------------
# Extraction and OCaml

def extract(extract_v, outdir, timeout=600):
    """Compile coq/Extract/<extract_v> with cwd=outdir so the extracted .ml/.mli land there."""
    os.makedirs(outdir, exist_ok=True)
    src = os.path.join(COQ, "Extract", extract_v)
    rc, out = sh(["coqc", "-Q", COQ, "LV", "-w", "none", "-o", os.path.join(outdir, extract_v[:-2] + ".vo"), src], cwd=outdir, timeout=timeout)
    return rc, out


def ocaml_build(outdir, sources, exe, timeout=600):
    """ocamlfind ocamlopt; sources relative to outdir or absolute (copied in)."""
    local = []
    for s in sources:
        if os.path.isabs(s):
            shutil.copy(s, outdir)
            s = os.path.basename(s)
        local.append(s)
    rc, out = sh(["ocamlfind", "ocamlopt", "-O3" if False else "-unsafe", "-inline", "100", "-w", "-a", "-package", "str", "-linkpkg"] + local + ["-o", exe], cwd=outdir, timeout=timeout)
    return rc, out


# --------------------------------------------------------------------------------------------------
# C++ builds from /repo's working tree

CXXSTD = "-std=c++11"
LIB_SRCS = ["init.cpp", "hp.cpp", "dhp.cpp", "urcu_gp.cpp", "urcu_sh.cpp", "thread_data.cpp", "topology_linux.cpp", "hp_thread_local.cpp", "dllmain.cpp"]


def cxx_flags(hook=True, opt="-O1", extra=()):
    fl = ["g++", CXXSTD, opt, "-g0", "-DNDEBUG", "-pthread", "-mcx16", "-Wno-deprecated-declarations", "-w", "-I" + REPO, "-I" + os.path.join(VERIF, "hooks", "include"), "-I" + os.path.join(VERIF, "harness")]
    if hook:
        fl.append("-D" + GUARD)
    return fl + list(extra)


def libcds(hook=True, opt="-O1", extra=(), tag=""):
    """Static library of /repo/src compiled from the current working tree (hook on by default).
    Cached under _work/libcds/<hash of cds/ + src/ + hooks + flags>."""
    key = file_hash([__file__]) + repo_tree_hash() + file_hash(glob.glob(os.path.join(VERIF, "hooks", "include", "*", "*"))) + hashlib.sha256(repr((hook, opt, tuple(extra), tag)).encode()).hexdigest()[:8]
    key = hashlib.sha256(key.encode()).hexdigest()[:20]
    d = os.path.join(WORK, "libcds", key)
    lib = os.path.join(d, "libcds.a")
    if os.path.exists(lib):
        return lib
    # drop builds that have not been used for two hours (disk is limited); never a recent one: other checks
    # may be linking against it right now
    try:
        for old in glob.glob(os.path.join(WORK, "libcds", "*")):
            if old != d and time.time() - os.path.getmtime(old) > 7200:
                shutil.rmtree(old, ignore_errors=True)
    except OSError:
        pass
    final_d, final_lib = d, lib
    d = d + ".tmp%d" % os.getpid()
    lib = os.path.join(d, "libcds.a")
    os.makedirs(d, exist_ok=True)
    procs = []
    objs = []
    for s in LIB_SRCS:
        sp = os.path.join(REPO, "src", s)
        if not os.path.exists(sp):
            continue
        o = os.path.join(d, s[:-4] + ".o")
        objs.append(o)
        procs.append((s, subprocess.Popen(cxx_flags(hook, opt, extra) + ["-c", sp, "-o", o], stdout=subprocess.PIPE, stderr=subprocess.STDOUT, text=True)))
    for s, p in procs:
        out, _ = p.communicate()
        if p.returncode != 0:
            shutil.rmtree(d, ignore_errors=True)
            raise BuildError("libcds %s failed to compile:\n%s" % (s, out[-3000:]))
    rc, out = sh(["ar", "rcs", lib] + objs)
    if rc != 0:
        raise BuildError("ar failed: " + out)
    try:
        os.rename(d, final_d)
    except OSError:
        shutil.rmtree(d, ignore_errors=True)     # somebody else finished the same build first
    return final_lib


class BuildError(Exception):
    pass


def cxx_build(src, exe, hook=True, opt="-O1", extra=(), link_cds=True, timeout=900, libs=()):
    """Compile one harness TU against /repo's working tree.  Cached by content hash of everything it can see."""
    srcs = [src] if isinstance(src, str) else list(src)
    key = file_hash([__file__]) + file_hash(srcs + glob.glob(os.path.join(VERIF, "harness", "*.h")) + [h for s_ in srcs for h in glob.glob(os.path.join(os.path.dirname(os.path.abspath(s_)), "*.h"))] + glob.glob(os.path.join(VERIF, "hooks", "include", "*", "*"))) + repo_tree_hash() + repr((hook, opt, tuple(extra), link_cds, tuple(libs)))
    key = hashlib.sha256(key.encode()).hexdigest()[:20]
    stamp = exe + ".key"
    if os.path.exists(exe) and os.path.exists(stamp) and open(stamp).read() == key:
        return exe
    os.makedirs(os.path.dirname(exe), exist_ok=True)
    cmd = cxx_flags(hook, opt, extra) + srcs + ["-o", exe]
    if link_cds:
        cmd.append(libcds(hook, opt))
    cmd += list(libs) + ["-lpthread"]
    rc, out = sh(cmd, timeout=timeout)
    if rc != 0:
        raise BuildError("harness build failed (%s):\n%s" % (" ".join(srcs), out[-4000:]))
    with open(stamp, "w") as f:
        f.write(key)
    return exe


# --------------------------------------------------------------------------------------------------
# Check context: violations, known findings, evidence

class Ctx:
    def __init__(self, pid, tier, seed, replay=None):
        self.id = pid
        self.tier = tier
        self.seed = seed
        self.replay = replay
        self.t0 = time.time()
        self.rng = SplitMix64(seed)
        self.work = os.path.join(WORK, pid)
        os.makedirs(self.work, exist_ok=True)
        os.makedirs(os.path.join(VERIF, "replays"), exist_ok=True)
        self.violations = []
        self.known_hits = []
        self.coverage = {}
        self.assumptions = []
        self.level = "proof"
        kf = os.path.join(VERIF, "known_findings.json")
        self.known = json.load(open(kf)) if os.path.exists(kf) else {"findings": []}

    def log(self, *a):
        print("[%s %6.1fs]" % (self.id, time.time() - self.t0), *a, flush=True)

    def thorough(self):
        return self.tier == "thorough"

    def known_match(self, signature):
        for f in self.known.get("findings", []):
            if f.get("property") == self.id and f.get("status") == "open" and f.get("signature") == signature:
                return f
        return None

    def violation(self, what, replay_obj, signature=None, no_input=False):
        """Report a violation.  signature: stable identification of the failing input/call site/history
        (matched against known_findings.json)."""
        if signature is not None:
            f = self.known_match(signature)
            if f is not None:
                if signature not in self.known_hits:
                    self.known_hits.append(signature)
                    print("KNOWN-FINDING: property=%s %s" % (self.id, f.get("what", what)), flush=True)
                return
        # one replay per kind of violation is enough: further ones of the same kind are only counted
        self.what_count = getattr(self, "what_count", {})
        self.what_count[what] = self.what_count.get(what, 0) + 1
        if self.what_count[what] > getattr(self, "max_per_what", 1):
            return
        h = hashlib.sha256(json.dumps(replay_obj, sort_keys=True, default=str).encode()).hexdigest()[:12]
        path = os.path.join(VERIF, "replays", "%s-%s.json" % (self.id, h))
        replay_obj = dict(replay_obj)
        replay_obj.update({"property": self.id, "what": what, "signature": signature, "seed": self.seed, "tier": self.tier,
                           "no_failing_input_found": bool(no_input)})
        with open(path, "w") as f:
            json.dump(replay_obj, f, indent=1, default=str)
        line = "VIOLATION property=%s replay=%s" % (self.id, path)
        if no_input:
            line += " no-failing-input-found"
        print(line, flush=True)
        self.violations.append((what, path))

    def coq_evidence(self, res, checker_cmd=None):
        self.coverage["obligations"] = len(res.obligations)
        self.coverage["discharged"] = len(res.discharged) if not res.failed else len([o for o in res.discharged])
        self.coverage["obligation_names"] = res.obligations
        self.coverage["checker_cmd"] = checker_cmd or "make -k -jN <Properties_*.vo> in /verif/coq (coqc 8.16.1, full .vo build); Print Assumptions per theorem"
        self.coverage["print_assumptions"] = res.assumptions
        self.coverage["coq_wall_s"] = round(res.wall_s, 1)

    def finish(self, trusted_base, extra_assumptions=()):
        cov = self.coverage
        cov.setdefault("trusted_base", trusted_base)
        cov["known_findings_reported"] = self.known_hits
        cov["violation_kinds"] = getattr(self, "what_count", {})
        ev = {"property_id": self.id, "tier": self.tier, "seed": self.seed, "level": self.level,
              "coverage": cov, "assumptions": list(extra_assumptions) + self.assumptions,
              "wall_s": round(time.time() - self.t0, 2), "violations": len(self.violations)}
        # evidence/<id>.json is only ever written by a run against /repo itself for a property of properties.jsonl;
        # runs against a scratch copy (VERIF_REPO, used to evaluate seeded changes) and auxiliary checks (e.g. C11fc)
        # leave their evidence in the work area
        edir = os.path.join(VERIF, "evidence")
        if os.path.realpath(REPO) != "/repo" or not re.fullmatch(r"C\d\d", self.id):
            edir = os.path.join(WORK, "evidence")
        ev["repo"] = REPO
        os.makedirs(edir, exist_ok=True)
        with open(os.path.join(edir, self.id + ".json"), "w") as f:
            json.dump(ev, f, indent=1, default=str)
        self.log("done: %d violation(s), %d known finding(s), wall %.1fs" % (len(self.violations), len(self.known_hits), time.time() - self.t0))
        return 1 if self.violations else 0


STD_TRUSTED = [
    "Coq 8.16.1 kernel and coqc (vm_compute used; native_compute not used)",
    "OCaml 4.13.1 and Coq extraction with ExtrOcamlBasic only (Extract Inductive bool/option/unit/list/prod/sumbool/sumor; no Extract Constant)",
    "g++ 12.2 and the C++ harness/driver code under /verif/harness and /verif/lib",
]
