"""Model-guided window schedules, context-measured (companion of lib/conc_check.py: solo_profile / window_schedules).

conc_check.window_schedules works from the profile of each thread's FIRST operation measured solo.  The generator here
measures every position on the extracted model IN THE CONTEXT it is used in, so that templates may have a set-up
prefix (a queue filled to its capacity, a stack with one node, a lock already taken ...), several operations per
thread, and stalls in a later operation of a thread:

  pass 0  the template's threads are run one at a time after the set-up prefix: the kind of every step of thread t;
  pass 1  for every victim v and stall point pv (v executed pv-1 steps after the prefix; its next step is a write, or
          any step when stall="all") and every actor a: the schedule  prefix + [v]*(pv-1) + [a]*N  is run on the model
          to learn at which of ITS steps the actor writes in that very state, and where its operations end;
  pass 2  the schedules
             prefix + [v]*(pv-1) + [a]*pa + [v]*r + others + [v]... + [a]...                              ("w")
             prefix + [v]*(pv-1) + [a]*pa + [c]*pc + [v]*r + remaining others + [v]... + [a]...          ("m", a third
                      thread c runs through one of its writes / to its end between the actor's write and the victim)
             prefix + [v]*(pv-1) + [u]*(pu-1) + [a]*pa + [v]*r + [u]*r2 + others + [u]... [v]... [a]...  ("d", two victims)
          for every r in 0..max_r.

A "write" is a step whose kind is in `kinds` (default: CAS, exchange; checks whose algorithms publish with plain
stores or fetch-and-add pass kinds=("cas","xchg","st","faa",...)).  All of these are ordinary schedules for model and
implementation alike: they only make rare interleavings frequent (a CAS failing on a retry path, a validation passed
just before the state changes, an `if` reached only when another operation completed between two loads).
Nothing here draws random numbers except `subsample`, which takes the rng of the caller (ctx.rng)."""
import os
import vcheck, conc_check

WRITE_KINDS = ("cas", "xchg")
ALL_WRITE_KINDS = ("cas", "xchg", "st", "faa", "fas", "fand", "for", "fxor")
RUN = 400          # steps a probed thread is given (more than any single template thread needs)


def steps_of(lines):
    """(tid, kind, ok) of every scheduled step of a model log ('begin' pseudo access included), in global order"""
    out = []
    for l in lines:
        t = l.split(" ")
        if len(t) >= 2 and t[1] != "ev":
            out.append((int(t[0]), t[1], t[3] if len(t) > 3 else ""))
    return out


def run_model(model_exe, workdir, cases, tag, fuel=20000, timeout=300):
    """fuel: global step limit of each probe run (models whose run time grows fast with it - MsPq - pass a small one)"""
    cf = os.path.join(workdir, "%s.txt" % tag)
    conc_check.write_cases(cf, cases)
    rc, out = vcheck.sh("%s %d < %s" % (model_exe, fuel, cf), timeout=timeout)
    if rc == 124:
        raise vcheck.BuildError("model probe %s did not finish within %d s (window schedule generation)" % (cf, timeout))
    return conc_check.parse_logs(out)


def _thread_kinds(log, tid, skip_global):
    """kinds of the steps thread `tid` executes after the first skip_global global steps, up to the point where another
    thread is scheduled after it (the probed thread has finished) or the log ends"""
    st = steps_of(log["lines"])[skip_global:]
    out = []
    for (t, k, ok) in st:
        if t == tid:
            out.append(k)
        elif out:
            break
    return out


def _thread_op_ends(log, tid, skip_global, ret_prefix="ret_"):
    """numbers of steps thread `tid` has executed (after the first skip_global global steps) when each of its operations
    responds (client event `ret_...`); same stopping rule as _thread_kinds"""
    n_glob = 0
    mine = 0
    started = False
    out = []
    for l in log["lines"]:
        t = l.split(" ")
        if len(t) < 2:
            continue
        if t[1] == "ev":
            if started and int(t[0]) == tid and len(t) >= 3 and t[2].startswith(ret_prefix) and mine > 0:
                out.append(mine)
            continue
        n_glob += 1
        if n_glob <= skip_global:
            continue
        if int(t[0]) == tid:
            mine += 1
            started = True
        elif started:
            break
    return out


def _actor_points(ak, ends, actor_kinds, actor_stops, actor_extra, max_actor):
    """positions (numbers of steps) at which the actor is stopped"""
    pas = []
    if actor_stops in ("writes", "both"):
        pas += [i + 1 for i, k in enumerate(ak) if k in actor_kinds]
        if max_actor is not None:
            pas = pas[:max_actor]           # an actor spinning on a lock the victim holds writes for ever
    if actor_stops in ("ops", "both"):
        pas += [e for e in ends if e not in pas]
    spinning = len(ak) >= 200               # did not finish within the probe: it waits for the stalled victim
    if ak and not spinning and len(ak) not in pas:
        pas.append(len(ak))                 # the actor runs to the end of its program
    if spinning and actor_extra:
        base = ends[-1] if ends else 0
        pas += [base + x for x in actor_extra if base + x < len(ak) and base + x not in pas]
    return sorted(set(pas))


def setup_prefix(model_exe, workdir, cfg, threads, setup, tag="wsetup", fuel=20000):
    """threads[0] is to run `setup` operations first: -> (threads with the set-up prepended to thread 0, the schedule
    prefix [0]*k that runs exactly 'begin' + the set-up operations of thread 0)"""
    if not setup:
        return threads, []
    probe = [list(setup)] + [list(t) for t in threads[1:]]
    lg = run_model(model_exe, workdir, [{"id": tag, "cfg": cfg, "threads": probe, "sched": [0] * RUN}], tag, fuel=fuel).get(tag)
    k = 0
    if lg:
        for (t, kind, ok) in steps_of(lg["lines"]):
            if t != 0:
                break
            k += 1
    if len(probe) == 1 and lg:
        k = len(steps_of(lg["lines"]))
    return [list(setup) + list(threads[0])] + [list(t) for t in threads[1:]], [0] * k


def windows(model_exe, workdir, cfg, threads, setup=(), kinds=WRITE_KINDS, max_r=12, slack=8, stall="writes",
            actor_kinds=None, third=False, rs=None, tag="wp", max_stalls=None, double=False, rs2=None, max_actor=None, rs_d=None, double_stalls=3,
            actor_stops="writes", actor_extra=(), ret_prefix="ret_", fuel=20000, finish_rounds=0):
    """-> (threads of the case, list of (name, schedule), info dict).
    threads: the template's operations per thread; setup: operations thread 0 executes first (scheduled to completion
    before anything else).  stall: "writes" (victim stalled right before each of its writes) | "all" (before each of
    its steps after 'begin').  actor_kinds: write kinds of the actor (default = kinds).  third: also the "m" schedules.
    rs: explicit list of r values (default 0..max_r).  max_stalls / max_actor: only the first so many stall points of
    a victim / write positions of an actor (locks: a thread spinning on a taken lock writes for ever).
    double: also the "d" schedules with TWO victims v, u stalled before their writes, the actor through one of its
    writes, then r steps of v, then r2 steps of u (r2 in rs2), then the rest: both victims fail and meet on their retry
    paths (helping / elimination / second-level races); r in rs_d (default rs), only the first double_stalls stall
    points of each victim.
    actor_stops: "writes" (the actor is stopped after each of its writes and at its end) | "ops" (after each of its
    operations) | "both".  actor_extra: when the actor does not finish in the probe (it WAITS for the stalled victim: a
    lock, a tag), also the run lengths last-operation-end + x for x in actor_extra - on the unchanged code it spins
    there, a broken implementation that no longer waits uses these steps to go on.
    finish_rounds: append that many rounds of bursts of varying lengths (see below) to every schedule."""
    actor_kinds = actor_kinds or kinds
    rs = list(range(max_r + 1)) if rs is None else list(rs)
    threads, pre = setup_prefix(model_exe, workdir, cfg, threads, list(setup), tag + "_s", fuel=fuel)
    n = len(threads)
    npre = len(pre)
    # pass 0
    p0 = [{"id": "%s_p0_%d" % (tag, t), "cfg": cfg, "threads": threads, "sched": pre + [t] * RUN} for t in range(n)]
    l0 = run_model(model_exe, workdir, p0, tag + "_p0", fuel=fuel)
    solo = []
    solo_ends = []
    for t in range(n):
        lg = l0.get("%s_p0_%d" % (tag, t))
        solo.append(_thread_kinds(lg, t, npre) if lg else [])
        solo_ends.append(_thread_op_ends(lg, t, npre, ret_prefix) if lg else [])
    # when thread 0 ran the set-up, its 'begin' is part of the prefix: every position below counts steps after the prefix
    stalls = {}
    for v in range(n):
        ks = solo[v]
        if stall == "all":
            pts = [i + 1 for i, k in enumerate(ks) if k != "begin"]
        else:
            pts = [i + 1 for i, k in enumerate(ks) if k in kinds]
        if max_stalls is not None and len(pts) > max_stalls:
            pts = pts[:max_stalls]
        stalls[v] = pts
    # pass 1
    p1 = []
    for v in range(n):
        for pv in stalls[v]:
            for a in range(n):
                if a != v:
                    p1.append({"id": "%s_p1_%d_%d_%d" % (tag, v, pv, a), "cfg": cfg, "threads": threads,
                               "sched": pre + [v] * (pv - 1) + [a] * RUN})
    l1 = run_model(model_exe, workdir, p1, tag + "_p1", fuel=fuel) if p1 else {}
    out = []
    nprobe = len(p0) + len(p1)
    for v in range(n):
        for pv in stalls[v]:
            for a in range(n):
                if a == v:
                    continue
                lg = l1.get("%s_p1_%d_%d_%d" % (tag, v, pv, a))
                if not lg:
                    continue
                ak = _thread_kinds(lg, a, npre + pv - 1)
                pas = _actor_points(ak, _thread_op_ends(lg, a, npre + pv - 1, ret_prefix), actor_kinds, actor_stops, actor_extra, max_actor)
                others = [t for t in range(n) if t not in (v, a)]
                tail = [v] * (min(len(solo[v]), 150) + 3 * slack) + [a] * (min(len(ak), 150) + 3 * slack)
                for pa in pas:
                    head = pre + [v] * (pv - 1) + [a] * pa
                    for r in rs:
                        s = head + [v] * r
                        for t in others:
                            s += [t] * (min(len(solo[t]), 150) + slack)
                        out.append(("w_v%d@%d_a%d@%d_r%d" % (v, pv, a, pa, r), s + tail))
                    if third:
                        for c in others:
                            ck = solo[c]
                            pcs = _actor_points(ck, solo_ends[c], actor_kinds, actor_stops, (), max_actor)
                            if actor_extra:
                                # in the context the third thread may have to wait where it did not when run alone
                                pcs = sorted(set(pcs + [len(ck) + x for x in actor_extra]))
                            rest = [t for t in others if t != c]
                            for pc in pcs:
                                for r in rs:
                                    s = head + [c] * pc + [v] * r
                                    for t in rest:
                                        s += [t] * (min(len(solo[t]), 150) + slack)
                                    s += [c] * (min(len(ck), 150) + slack)
                                    out.append(("m_v%d@%d_a%d@%d_c%d@%d_r%d" % (v, pv, a, pa, c, pc, r), s + tail))
    if double and n >= 3:
        rs2 = list(rs2) if rs2 is not None else [0, 2, 4, 6, 9, 12]
        rs_d = list(rs_d) if rs_d is not None else rs
        p2 = []
        for v in range(n):
            for pv in stalls[v][:double_stalls]:
                for v2 in range(n):
                    if v2 == v:
                        continue
                    for pv2 in stalls[v2][:double_stalls]:
                        for a in range(n):
                            if a not in (v, v2):
                                p2.append({"id": "%s_p2_%d_%d_%d_%d_%d" % (tag, v, pv, v2, pv2, a), "cfg": cfg, "threads": threads,
                                           "sched": pre + [v] * (pv - 1) + [v2] * (pv2 - 1) + [a] * RUN, "key": (v, pv, v2, pv2, a)})
        l2 = run_model(model_exe, workdir, p2, tag + "_p2", fuel=fuel) if p2 else {}
        nprobe += len(p2)
        for c in p2:
            v, pv, v2, pv2, a = c["key"]
            lg = l2.get(c["id"])
            if not lg:
                continue
            ak = _thread_kinds(lg, a, npre + pv - 1 + pv2 - 1)
            pas = _actor_points(ak, _thread_op_ends(lg, a, npre + pv - 1 + pv2 - 1, ret_prefix), actor_kinds, actor_stops, actor_extra, max_actor)
            rest = [t for t in range(n) if t not in (v, v2, a)]
            tail = [v2] * (min(len(solo[v2]), 150) + 3 * slack) + [v] * (min(len(solo[v]), 150) + 3 * slack) + [a] * (min(len(ak), 150) + 3 * slack)
            for pa in pas:
                head = pre + [v] * (pv - 1) + [v2] * (pv2 - 1) + [a] * pa
                for r in rs_d:
                    for r2 in rs2:
                        sch = head + [v] * r + [v2] * r2
                        for t in rest:
                            sch += [t] * (min(len(solo[t]), 150) + slack)
                        out.append(("d_v%d@%d_u%d@%d_a%d@%d_r%d_%d" % (v, pv, v2, pv2, a, pa, r, r2), sch + tail))
    if finish_rounds:
        # lock-based code: once the schedule is exhausted the scheduler goes round-robin, and two threads in lock step can
        # starve each other for ever (TATAS: the waiter sees the lock free, the holder's loop retakes it before the
        # waiter's exchange).  Bursts of varying lengths break the symmetry; deterministic.
        fin = []
        for k in range(finish_rounds):
            for t in range(n):
                fin += [t] * (1 + (5 * k + 3 * t + (k * k) % 7) % 6)
        out = [(name, sch + fin) for (name, sch) in out]
    info = {"threads": n, "prefix_steps": npre, "solo_steps": [len(x) for x in solo], "stall_points": {str(v): stalls[v] for v in stalls},
            "model_probes": nprobe, "schedules": len(out)}
    return threads, out, info


def subsample(rng, items, k):
    """deterministic (seeded) subsample of k items, original order kept"""
    if k is None or len(items) <= k:
        return list(items)
    idx = list(range(len(items)))
    for i in range(len(idx) - 1, 0, -1):
        j = rng.below(i + 1)
        idx[i], idx[j] = idx[j], idx[i]
    keep = sorted(idx[:k])
    return [items[i] for i in keep]


def failed_cas(lines):
    """number of failed CAS accesses in a (model or implementation) log"""
    n = 0
    for l in lines:
        t = l.split(" ")
        if len(t) >= 4 and t[1] == "cas" and t[3] == "0":
            n += 1
    return n


def op_lengths(lines, inv_prefix="inv_", ret_prefix="ret_", outcome=None):
    """-> list of (operation name, outcome, number of scheduled steps between invoke and response) for every
    completed operation of a log whose client events are named inv_<op> ... / ret_<op> ...
    outcome(name, response args) -> hashable (default: the first response argument)"""
    open_ = {}
    out = []
    for l in lines:
        t = l.split(" ")
        if len(t) < 2:
            continue
        if t[1] == "ev":
            if len(t) >= 3 and t[2].startswith(inv_prefix):
                open_[t[0]] = [t[2][len(inv_prefix):], 0]
            elif len(t) >= 3 and t[2].startswith(ret_prefix) and t[0] in open_:
                o = open_.pop(t[0])
                out.append((o[0], outcome(o[0], t[3:]) if outcome else " ".join(t[3:4]), o[1]))
        elif t[0] in open_:
            open_[t[0]][1] += 1
    return out


class RetryStats:
    """counts, over the cases added, those with a failed CAS and those in which some operation took more steps than
    the shortest operation of the same name and outcome seen anywhere (= it went round a retry / helping / back-off
    path at least once).  Two passes: add() every log, then summary()."""
    def __init__(self, inv_prefix="inv_", ret_prefix="ret_", outcome=None):
        self.cases = []
        self.minlen = {}
        self.ip, self.rp, self.outcome = inv_prefix, ret_prefix, outcome

    def add(self, lines, group=None):
        """group: anything that changes the straight-line length of an operation (variant, item counter, ...)"""
        ops = [((group, name), ret, k) for (name, ret, k) in op_lengths(lines, self.ip, self.rp, self.outcome)]
        for (name, ret, k) in ops:
            key = (name, ret)
            if key not in self.minlen or k < self.minlen[key]:
                self.minlen[key] = k
        self.cases.append((failed_cas(lines), ops))

    def summary(self):
        with_failed = sum(1 for f, _ in self.cases if f > 0)
        failed = sum(f for f, _ in self.cases)
        with_retry = 0
        retry_ops = 0
        for _, ops in self.cases:
            k = sum(1 for (name, ret, n) in ops if n > self.minlen[(name, ret)])
            retry_ops += k
            with_retry += 1 if k else 0
        return {"logs_analysed": len(self.cases), "cases_with_failed_cas": with_failed, "failed_cas_events": failed,
                "cases_with_retry_path": with_retry, "operations_on_retry_path": retry_ops,
                "retry_rule": "an operation is on a retry path when it takes more scheduled steps than the shortest operation of the same name and outcome in this run"}
