import os, sys, glob, time
sys.path.insert(0, os.path.dirname(os.path.abspath(__file__)))
import vcheck
t0 = time.time()
os.makedirs(vcheck.WORK, exist_ok=True)
# 1. regenerate Gen/*.v from /repo
gen = os.path.join(vcheck.VERIF, "tools", "cxx2v", "gen_all.py")
if os.path.exists(gen):
    # units.json (C25) plus the per-property unit lists units_<id>.json
    for uf in sorted(glob.glob(os.path.join(vcheck.VERIF, "tools", "cxx2v", "units*.json"))):
        rc, out = vcheck.sh([sys.executable, gen], timeout=900, env={"CXX2V_UNITS": uf})
        print(out[-1500:])
        if rc != 0:
            print("setup: translator failed on %s (rc=%d) - the checks will report it" % (os.path.basename(uf), rc))
# 2. full Coq build
vcheck.coq_makefile()
rc, out = vcheck.sh(["make", "-k", "-j%d" % vcheck.NCPU, "COQC=timeout %s coqc" % os.environ.get("COQC_TIMEOUT", "1200")],
                    cwd=vcheck.COQ, timeout=3300)
print(out[-3000:])
print("setup: coq make rc=%d (%.0fs)" % (rc, time.time() - t0))
# 3. hooked libcds
try:
    if os.path.exists(os.path.join(vcheck.VERIF, "hooks", "include", "khizmax_libcds_verif", "atomic.h")):
        print("setup: libcds (hook on) ->", vcheck.libcds(True))
    print("setup: libcds (hook off) ->", vcheck.libcds(False))
except vcheck.BuildError as e:
    print("setup: libcds build failed:", str(e)[-1500:])
print("setup done in %.0fs" % (time.time() - t0))
sys.exit(0)
