"""Step-correspondence helper shared by the concurrent-model checks (DESIGN 3.2).

run_correspondence(ctx, extract_v, harness_src, cases) builds the extracted model behind ocaml/conc_main.ml
and the C++ harness (hook on, against /repo's working tree), feeds both the same case file and compares the
event logs line by line."""
import os, re, json
import vcheck


def coq_closure(rel):
    """.v files (relative to coq/) that `rel` depends on inside the LV project, transitively (by scanning
    Require lines) - used to key build caches on exactly what a model is made of."""
    seen = {}
    todo = [rel]
    while todo:
        r = todo.pop()
        if r in seen:
            continue
        path = os.path.join(vcheck.COQ, r)
        if not os.path.exists(path):
            continue
        seen[r] = True
        txt = open(path).read()
        for stmt in re.split(r"\.\s", txt):
            if "Require" in stmt:
                for name in re.findall(r"(?:LV\.)?\b((?:Base|Spec|Gen|Model|Proofs)\.[A-Za-z0-9_]+)", stmt):
                    todo.append(name.replace(".", "/") + ".v")
    return sorted(seen)


def build_model(ctx, extract_v, tag="model"):
    d = os.path.join(ctx.work, tag)
    os.makedirs(d, exist_ok=True)
    deps = coq_closure(os.path.join("Extract", extract_v))
    key = vcheck.file_hash([os.path.join(vcheck.VERIF, "ocaml", "conc_main.ml")] + [os.path.join(vcheck.COQ, p) for p in deps])
    exe = os.path.join(d, "model_exe")
    stamp = exe + ".key"
    if os.path.exists(exe) and os.path.exists(stamp) and open(stamp).read() == key:
        return exe
    # the Base/Model .vo files must exist: build them through make
    vcheck.coq_makefile()
    deps = re.findall(r"Model\.([A-Za-z0-9_]+)", open(os.path.join(vcheck.COQ, "Extract", extract_v)).read())
    targets = ["Model/%s.vo" % m for m in sorted(set(deps))]
    rc, out = vcheck.sh(["make", "-j%d" % vcheck.NCPU] + targets, cwd=vcheck.COQ, timeout=900)
    if rc != 0:
        raise vcheck.BuildError("coq model does not build:\n" + out[-3000:])
    rc, out = vcheck.extract(extract_v, d)
    if rc != 0:
        raise vcheck.BuildError("extraction failed:\n" + out[-3000:])
    rc, out = vcheck.ocaml_build(d, ["model.mli", "model.ml", os.path.join(vcheck.VERIF, "ocaml", "conc_main.ml")], exe)
    if rc != 0:
        raise vcheck.BuildError("ocaml build failed:\n" + out[-3000:])
    open(stamp, "w").write(key)
    return exe


def write_cases(path, cases):
    """cases: list of dicts {id, cfg:[int], threads:[[ [int]... ]], sched:[int]}"""
    with open(path, "w") as f:
        for c in cases:
            f.write("case %s\n" % c["id"])
            f.write("cfg %s\n" % " ".join(map(str, c["cfg"])))
            for th in c["threads"]:
                f.write("thread %s\n" % " ; ".join(" ".join(map(str, op)) for op in th))
            f.write("sched %s\n" % " ".join(map(str, c["sched"])))
            f.write("end\n")


def parse_logs(text):
    """-> {case id: {"lines": [...], "end": "finished"|"fuel", "extra": [non-log lines e.g. monitor ...]}}"""
    res = {}
    cur = None
    for line in text.split("\n"):
        line = line.rstrip()
        if line.startswith("case "):
            cur = {"lines": [], "end": None, "extra": []}
            res[line[5:].strip()] = cur
        elif cur is None:
            continue
        elif line.startswith("endcase"):
            cur["end"] = line[8:].strip()
        elif cur["end"] is not None:
            if line:
                cur["extra"].append(line)
        elif line:
            cur["lines"].append(line)
    return res


def norm_impl_line(l):
    """C++ access lines carry values after the 4th token; the model prints only '<tid> <kind> o<id> <ok>'."""
    t = l.split(" ")
    if len(t) >= 2 and t[1] in ("ev", "begin"):
        return l
    return " ".join(t[:4])


def compare(model_log, impl_log):
    """first divergence or None"""
    m = model_log["lines"]
    i = [norm_impl_line(x) for x in impl_log["lines"]]
    n = min(len(m), len(i))
    for k in range(n):
        if m[k] != i[k]:
            return {"index": k, "model": m[k], "impl": i[k], "prefix": m[max(0, k - 12):k]}
    if len(m) != len(i):
        if model_log["end"] == "fuel" or impl_log["end"] == "fuel":
            return None     # one side ran out of steps: prefix agreement is all that can be asked
        return {"index": n, "model": m[n] if n < len(m) else "<end>", "impl": i[n] if n < len(i) else "<end>", "prefix": m[max(0, n - 12):n]}
    return None


def run_both(ctx, model_exe, impl_exe, cases, tag="cases", timeout=600, fuel=20000):
    cf = os.path.join(ctx.work, tag + ".txt")
    write_cases(cf, cases)
    rc1, out1 = vcheck.sh("%s %d < %s" % (model_exe, fuel, cf), timeout=timeout)
    rc2, out2 = vcheck.sh([impl_exe, cf], timeout=timeout)
    return rc1, parse_logs(out1), rc2, parse_logs(out2), out2


# ---------------------------------------------------------------------------------------------------------
# Model-guided "window" schedules (aimed at the case splits of the proofs): the extracted model is run solo on each
# operation kind to learn at which of its steps it writes shared memory (CAS / exchange); the generated schedules then
# stall a victim thread right before such a write, let an actor thread run exactly through one of its own writes,
# give the victim r more steps (r swept), let the remaining threads run, and finally let victim and actor finish.
# These are ordinary schedules for model and implementation alike; they only make the rare interleavings (a CAS that
# fails on a retry path, a validation that is passed just before the state changes) frequent.

WRITE_KINDS = ("cas", "xchg")


def thread_steps(lines, tid):
    """the access lines (incl. the pseudo access 'begin') of thread tid, in order"""
    p = "%d " % tid
    return [l for l in lines if l.startswith(p) and l.split(" ")[1] != "ev"]


def solo_profile(model_exe, workdir, cfg, setup_ops, op, fuel=20000, tag="probe"):
    """Runs the model with thread 0 = setup_ops (scheduled first, to completion) and thread 1 = [op].
    -> (number of steps of thread 1, 1-based indices of its steps that are CAS / exchange accesses)"""
    threads = [list(setup_ops) if setup_ops else [], [op]]
    if not threads[0]:
        threads = [[op]]
        tid = 0
    else:
        tid = 1
    case = {"id": tag, "cfg": cfg, "threads": threads, "sched": [0] * 400 + [1] * 400}
    cf = os.path.join(workdir, "%s.txt" % tag)
    write_cases(cf, [case])
    rc, out = vcheck.sh("%s %d < %s" % (model_exe, fuel, cf), timeout=120)
    lg = parse_logs(out).get(tag)
    if not lg:
        return 0, []
    st = thread_steps(lg["lines"], tid)
    return len(st), [i + 1 for i, l in enumerate(st) if l.split(" ")[1] in WRITE_KINDS]


def window_schedules(nthreads, prof, max_r=12, slack=8):
    """prof[t] = (steps of thread t's whole program run solo, write positions of its FIRST operation).
    Yields (name, schedule) for every ordered pair victim/actor, every pair of write positions and r in 0..max_r."""
    for v in range(nthreads):
        for a in range(nthreads):
            if a == v:
                continue
            others = [t for t in range(nthreads) if t not in (v, a)]
            for pv in prof[v][1]:
                for pa in prof[a][1]:
                    for r in range(max_r + 1):
                        s = [v] * (pv - 1) + [a] * pa + [v] * r
                        for t in others:
                            s += [t] * (prof[t][0] + slack)
                        s += [v] * (prof[v][0] + 3 * slack) + [a] * (prof[a][0] + 3 * slack)
                        yield "w_v%d@%d_a%d@%d_r%d" % (v, pv, a, pa, r), s


def phased_schedules(model_exe, workdir, cases_phases, fuel=40000, tag="phase"):
    """Model-guided construction of schedules that run a scenario phase by phase.
    cases_phases: list of (case, phases) with case = {id, cfg, threads} and phases = [(tid, upto)] meaning 'run thread
    tid until it has completed its first `upto` operations'.  The number of steps each phase needs is measured on the
    extracted model: phase i is measured by running the case with every program truncated to the operations completed
    so far (the truncated thread runs to its end, everything else already has).  All cases are advanced together: one
    model process per phase index.  Returns {case id: schedule} (threads run to completion in index order afterwards)."""
    state = {}
    for c, ph in cases_phases:
        n = len(c["threads"])
        state[c["id"]] = {"c": c, "ph": list(ph), "done": [0] * n, "used": [0] * n, "sched": [], "inprog": [0] * n}
    rnd = 0
    while True:
        batch = []
        for cid, s in state.items():
            if rnd < len(s["ph"]):
                t, upto = s["ph"][rnd]
                if isinstance(upto, tuple):
                    # ("raw", r): r more steps of thread t inside its next operation (no measurement needed)
                    s["sched"] += [t] * upto[1]
                    s["used"][t] += upto[1]
                    s["inprog"][t] = 1
                    continue
                thr = [s["c"]["threads"][i][:s["done"][i] + s["inprog"][i]] for i in range(len(s["done"]))]
                thr[t] = s["c"]["threads"][t][:upto]
                batch.append({"id": cid, "cfg": s["c"]["cfg"], "threads": thr, "sched": s["sched"] + [t] * 4000})
        if not batch:
            if any(rnd < len(s["ph"]) for s in state.values()):
                rnd += 1
                continue
            break
        cf = os.path.join(workdir, "%s_%d.txt" % (tag, rnd))
        write_cases(cf, batch)
        rc, out = vcheck.sh("%s %d < %s" % (model_exe, fuel, cf), timeout=300)
        logs = parse_logs(out)
        for b in batch:
            s = state[b["id"]]
            t, upto = s["ph"][rnd]
            lg = logs.get(b["id"])
            cnt = len(thread_steps(lg["lines"], t)) if lg else s["used"][t]
            s["sched"] += [t] * max(0, cnt - s["used"][t])
            s["used"][t] = max(cnt, s["used"][t])
            s["done"][t] = upto
            s["inprog"][t] = 0
        rnd += 1
    return {cid: s["sched"] for cid, s in state.items()}
