// Deterministic baton scheduler and event log for /verif (see DESIGN.md section 3.2).
// Header-only; all state lives in function-local statics so every translation unit shares it.
//
// A *scheduled run* has N worker threads (ids 0..N-1).  Exactly one of them executes between two
// scheduling points.  A scheduling point is: the beginning of a worker (before it executed anything),
// and the instant just before every instrumented atomic access.  At each scheduling point the schedule
// entry e for the global step number i (schedule[i], or i itself once the schedule is exhausted) selects
// the first *enabled* worker among e, e+1, ..., e+N-1 (mod N); enabled = started and not finished.  This is
// exactly LV.Base.Conc.pick/run.  Threads that are not workers of a run (main thread, set-up code) pass
// straight through every scheduling point and log nothing.
#ifndef KHIZMAX_LIBCDS_VERIF_SCHED_H
#define KHIZMAX_LIBCDS_VERIF_SCHED_H

#include <condition_variable>
#include <cstdio>
#include <cstdlib>
#include <map>
#include <mutex>
#include <string>
#include <thread>
#include <vector>

namespace khizmax_libcds_verif {

    struct sched_state {
        std::mutex              m;
        std::condition_variable cv;
        int                     n = 0;          // number of workers of the current run, 0 = no run
        int                     current = -1;   // worker holding the baton
        std::vector<int>        st;             // 0 = not started, 1 = waiting at a scheduling point / running, 2 = finished
        std::vector<int>        schedule;
        size_t                  step = 0;       // global step number (number of decisions taken)
        size_t                  max_steps = 200000;
        bool                    overrun = false;    // step limit hit: run is abandoned (threads run free, log marked)
        bool                    log_on = false;
        bool                    log_values = true;
        std::vector<std::string> log;
        std::map<void const*, int> obj_ids;
        std::map<unsigned long long, int> ptr_ids;
        int                     nfinished = 0;
        int                     next_obj_id = 0;    // monotone: ids are never reused after forget_range
        int                     next_ptr_id = 0;
        int                     nstarted = 0;
    };

    inline sched_state& S() { static sched_state s; return s; }
    inline int& my_tid() { static thread_local int t = -1; return t; }
    inline int& passthrough_depth() { static thread_local int d = 0; return d; }

    inline bool in_run() { return my_tid() >= 0 && passthrough_depth() == 0 && !S().overrun; }
    inline bool logging() { return in_run() && S().log_on; }

    // canonical ids by first appearance
    inline int obj_id( void const* p )
    {
        sched_state& s = S();
        auto it = s.obj_ids.find( p );
        if ( it != s.obj_ids.end()) return it->second;
        int id = ++s.next_obj_id;
        s.obj_ids[p] = id;
        return id;
    }
    inline int ptr_id( unsigned long long v )
    {
        if ( v == 0 ) return 0;
        sched_state& s = S();
        unsigned long long key = v & ~7ull;    // mark bits kept apart
        auto it = s.ptr_ids.find( key );
        int id;
        if ( it != s.ptr_ids.end()) id = it->second;
        else { id = ++s.next_ptr_id; s.ptr_ids[key] = id; }
        return id;
    }
    // the harness calls this when memory is released, so that a reused address is a new object
    inline void forget_range( void const* p, size_t size )
    {
        sched_state& s = S();
        char const* b = static_cast<char const*>( p );
        for ( auto it = s.obj_ids.lower_bound( b ); it != s.obj_ids.end() && static_cast<char const*>( it->first ) < b + size; )
            it = s.obj_ids.erase( it );
        for ( auto it = s.ptr_ids.lower_bound( (unsigned long long)(uintptr_t) b ); it != s.ptr_ids.end() && it->first < (unsigned long long)(uintptr_t)( b + size ); )
            it = s.ptr_ids.erase( it );
    }

    inline void log_line( std::string const& l )
    {
        S().log.push_back( l );
    }

    // client-visible event (operation invoke / response, disposer call, marker); no scheduling point
    inline void emit( char const* text )
    {
        if ( !logging()) return;
        char buf[256];
        std::snprintf( buf, sizeof( buf ), "%d ev %s", my_tid(), text );
        log_line( buf );
    }

    inline void log_access( char const* kind, void const* obj, int vkind, unsigned long long rd, unsigned long long wr, bool ok )
    {
        char buf[256];
        int oid = obj_id( obj );
        if ( vkind == 1 && S().log_values )
            std::snprintf( buf, sizeof( buf ), "%d %s o%d %d i%llu i%llu", my_tid(), kind, oid, ok ? 1 : 0, rd, wr );
        else if ( vkind == 2 && S().log_values ) {
            int a = ptr_id( rd ), b = ptr_id( wr );
            std::snprintf( buf, sizeof( buf ), "%d %s o%d %d p%d.%llu p%d.%llu", my_tid(), kind, oid, ok ? 1 : 0, a, rd & 7ull, b, wr & 7ull );
        }
        else
            std::snprintf( buf, sizeof( buf ), "%d %s o%d %d", my_tid(), kind, oid, ok ? 1 : 0 );
        log_line( buf );
    }

    // --- scheduling -------------------------------------------------------------------------------------

    // must be called with s.m held; returns the worker to run next or -1 if none is enabled
    inline int pick_locked( sched_state& s )
    {
        size_t i = s.step;
        int e = i < s.schedule.size() ? s.schedule[i] : (int)( i % (size_t) s.n );
        if ( e < 0 ) e = 0;
        for ( int j = 0; j < s.n; ++j ) {
            int idx = ( e + j ) % s.n;
            if ( s.st[idx] == 1 )
                return idx;
        }
        return -1;
    }

    inline void decide_and_wait( sched_state& s, std::unique_lock<std::mutex>& lk, int me, bool finishing )
    {
        if ( s.step >= s.max_steps ) {
            s.overrun = true;       // abandon: everybody runs free from now on
            s.current = -2;
            s.cv.notify_all();
            return;
        }
        int next = pick_locked( s );
        if ( next >= 0 )
            ++s.step;
        s.current = next;
        if ( next != me || finishing ) {
            s.cv.notify_all();
            if ( !finishing )
                s.cv.wait( lk, [&s, me] { return s.current == me || s.overrun; } );
        }
    }

    // called before every instrumented atomic access
    inline void sched_point()
    {
        if ( !in_run()) return;
        sched_state& s = S();
        std::unique_lock<std::mutex> lk( s.m );
        decide_and_wait( s, lk, my_tid(), false );
    }

    // worker prologue: registers the worker and blocks until it is scheduled for the first time.
    // Its first step is the pseudo access "begin".
    inline void worker_begin( int tid )
    {
        sched_state& s = S();
        std::unique_lock<std::mutex> lk( s.m );
        my_tid() = tid;
        s.st[tid] = 1;
        ++s.nstarted;
        s.cv.notify_all();
        s.cv.wait( lk, [&s, tid] { return s.current == tid || s.overrun; } );
        if ( s.log_on && !s.overrun ) {
            char buf[64];
            std::snprintf( buf, sizeof( buf ), "%d begin", tid );
            s.log.push_back( buf );
        }
    }

    inline void worker_end()
    {
        sched_state& s = S();
        std::unique_lock<std::mutex> lk( s.m );
        int me = my_tid();
        s.st[me] = 2;
        ++s.nfinished;
        my_tid() = -1;
        if ( !s.overrun )
            decide_and_wait( s, lk, me, true );
        s.cv.notify_all();
    }

    // main thread: prepare a run of n workers
    inline void run_prepare( int n, std::vector<int> const& schedule, bool log_on, size_t max_steps = 200000 )
    {
        sched_state& s = S();
        std::unique_lock<std::mutex> lk( s.m );
        s.n = n; s.current = -1; s.st.assign( n, 0 ); s.schedule = schedule; s.step = 0; s.overrun = false;
        s.log_on = log_on; s.log.clear(); s.obj_ids.clear(); s.ptr_ids.clear(); s.next_obj_id = 0; s.next_ptr_id = 0; s.nfinished = 0; s.nstarted = 0;
        s.max_steps = max_steps;
    }
    // main thread: wait until all n workers reached worker_begin, take the first decision, wait for the end
    inline void run_go()
    {
        sched_state& s = S();
        std::unique_lock<std::mutex> lk( s.m );
        s.cv.wait( lk, [&s] { return s.nstarted == s.n; } );
        int next = pick_locked( s );
        if ( next >= 0 ) ++s.step;
        s.current = next;
        s.cv.notify_all();
        s.cv.wait( lk, [&s] { return s.nfinished == s.n; } );
        s.n = 0; s.current = -1;
    }

    struct passthrough_scope {
        passthrough_scope() { ++passthrough_depth(); }
        ~passthrough_scope() { --passthrough_depth(); }
    };

    inline void yield() {}

} // namespace khizmax_libcds_verif

#endif
