// Deterministic delivery of POSIX signals under the baton scheduler of sched.h (see DESIGN.md section 3.2 and
// harness/C04/shb_sched.cpp).  Header-only, an ADD-ON to sched.h: sched.h itself is not changed and behaves as before
// for every program that does not include this file.
//
// Problem: cds::urcu::signal_buffered (cds/urcu/details/sh.h) sends a signal (pthread_kill) to every attached thread;
// the handler (src/urcu_sh.cpp) performs an instrumented atomic store.  With the signal unblocked the handler would run
// at an arbitrary instant on a thread that does not hold the baton - possibly while that thread sits inside the
// scheduler's own mutex / condition variable - and call sched_point() there.
//
// Solution: the signal stays BLOCKED in every worker thread (sig_block(); workers inherit the mask of the thread that
// creates them).  A signal sent to a worker stays pending (standard signals do not queue: any number of pthread_kill
// calls = one pending signal).  The only place where a worker unblocks the signal is the DELIVERY POINT: right after
// the worker has obtained the baton at a scheduling point (i.e. immediately before its next atomic access) it looks at
// sigpending(); if the signal is pending it unblocks it - POSIX guarantees that the pending signal is delivered, i.e.
// the handler has run to completion on this thread, before pthread_sigmask() returns - and blocks it again.  While the
// handler runs, sched_point() returns immediately (thread-local flag): the handler's own atomic accesses do not yield
// the baton; they are appended to the event log (as accesses of the pseudo thread sig_state::kernel_tid if that is
// >= 0, else of the thread itself).  After the handler the worker passes through the scheduler once more before it
// performs its own access.  "Delivery + handler" is thus ONE atomic scheduler step of its own, taken when the schedule
// selects the target thread while the signal is pending for it - the modelling assumption of LV.Model.RcuSignal (there
// the step belongs to a delivery pseudo thread); the target can be parked again right after it.  pthread_kill returns
// after the signal has been made pending for the target thread, so a run is a deterministic function of (programs,
// schedule).
//
// How it is wired in without touching sched.h: this header must be seen BEFORE sched.h / atomic.h in EVERY translation
// unit of the program (harness and libcds sources alike: compile all of them with `-include
// khizmax_libcds_verif/sigsched.h`, checks/C04_shb.py does that, so there is one definition of everything).  It
// includes sched.h with the name `sched_point` renamed to `sched_point_nosig` and then defines sched_point() - the
// function atomic.h calls before every access - as: director call-back, sched_point_nosig(), delivery point.
#ifndef KHIZMAX_LIBCDS_VERIF_SIGSCHED_H
#define KHIZMAX_LIBCDS_VERIF_SIGSCHED_H

#ifdef KHIZMAX_LIBCDS_VERIF_SCHED_H
#   error "khizmax_libcds_verif/sigsched.h must be included before khizmax_libcds_verif/sched.h (compile with -include khizmax_libcds_verif/sigsched.h)"
#endif

// everything sched.h includes, so that the renaming below cannot touch a system header
#include <condition_variable>
#include <cstdio>
#include <cstdlib>
#include <map>
#include <mutex>
#include <string>
#include <thread>
#include <vector>
#include <pthread.h>
#include <signal.h>

#define sched_point sched_point_nosig
#include <khizmax_libcds_verif/sched.h>
#undef sched_point

namespace khizmax_libcds_verif {

    struct sig_state {
        int     signo = 0;              // 0: delivery points are switched off (sched_point() == sched_point_nosig())
        int     kernel_tid = -1;        // >= 0: the handler's accesses are logged as accesses of this pseudo thread
        void (* at_point)() = nullptr;          // called by a worker that holds the baton, at the entry of every scheduling point
        void (* before_delivery)( int ) = nullptr;  // called (argument: worker id) right before / after the handler runs
        void (* after_delivery)( int ) = nullptr;
        long    deliveries = 0;         // statistics of the current run (reset by sig_reset_stats)
        long    not_delivered = 0;      // the signal was still pending after the delivery point (never observed; counted)
    };
    inline sig_state& SIG() { static sig_state s; return s; }
    inline int& sig_in_handler() { static thread_local int f = 0; return f; }

    inline void sig_reset_stats() { SIG().deliveries = 0; SIG().not_delivered = 0; }

    // block the signal in the calling thread (threads created afterwards inherit the mask)
    inline void sig_block()
    {
        int signo = SIG().signo;
        if ( signo == 0 ) return;
        sigset_t s; sigemptyset( &s ); sigaddset( &s, signo );
        pthread_sigmask( SIG_BLOCK, &s, nullptr );
    }
    inline bool sig_is_pending()
    {
        int signo = SIG().signo;
        if ( signo == 0 ) return false;
        sigset_t p; sigemptyset( &p );
        sigpending( &p );
        return sigismember( &p, signo ) == 1;
    }
    // switch the mechanism on for signal `signo` and block it in the calling (main) thread
    inline void sig_install( int signo )
    {
        SIG().signo = signo;
        sig_block();
    }

    // the calling worker holds the baton (or the run has been abandoned and everybody runs free);
    // returns true iff the signal was pending and the handler has been run
    inline bool sig_delivery_point()
    {
        sig_state& g = SIG();
        if ( g.signo == 0 ) return false;
        int me = my_tid();
        if ( me < 0 || sig_in_handler() || passthrough_depth() > 0 ) return false;
        if ( !sig_is_pending()) return false;
        sig_in_handler() = 1;
        if ( g.before_delivery ) g.before_delivery( me );
        if ( g.kernel_tid >= 0 ) my_tid() = g.kernel_tid;
        sigset_t s; sigemptyset( &s ); sigaddset( &s, g.signo );
        pthread_sigmask( SIG_UNBLOCK, &s, nullptr );    // the handler runs here, on this thread, before the call returns
        pthread_sigmask( SIG_BLOCK, &s, nullptr );
        my_tid() = me;
        sig_in_handler() = 0;
        ++g.deliveries;     // (only the baton holder gets here; after an overrun the number is not meaningful)
        bool still = sig_is_pending();
        if ( still ) ++g.not_delivered;
        if ( g.after_delivery ) g.after_delivery( me );
        return !still;
    }

    // called by atomic.h before every instrumented atomic access
    inline void sched_point()
    {
        if ( sig_in_handler()) return;      // an access of the signal handler: part of the delivery step
        if ( in_run()) {
            void (* f)() = SIG().at_point;
            if ( f ) f();
        }
        sched_point_nosig();
        // a delivery is a scheduler step of its own (the step of the target thread that the schedule selected): after the
        // handler the scheduler decides again, so the target can be parked between the delivery and its next access
        while ( sig_delivery_point())
            sched_point_nosig();
    }

} // namespace khizmax_libcds_verif

#endif
