// Instrumented atomics for /verif (used only with -DKHIZMAX_LIBCDS_VERIF, see /verif/DESIGN.md section 3.2).
//
// khizmax_libcds_verif::atomic<T> wraps std::atomic<T>.  Before every load/store/exchange/CAS/RMW it calls
// sched_point(): if the calling thread takes part in a scheduled run (vsched, below) the deterministic
// scheduler decides there which thread performs the next shared-memory access.  After the access one line
// is appended to the event log.  Threads that are not part of a scheduled run pass straight through.
// compare_exchange_weak never fails spuriously (it is compare_exchange_strong).
#ifndef KHIZMAX_LIBCDS_VERIF_ATOMIC_H
#define KHIZMAX_LIBCDS_VERIF_ATOMIC_H

#include <atomic>
#include <cstddef>
#include <cstdint>
#include <type_traits>
#include <khizmax_libcds_verif/sched.h>

namespace khizmax_libcds_verif {

    using std::memory_order;
    using std::memory_order_relaxed;
    using std::memory_order_consume;
    using std::memory_order_acquire;
    using std::memory_order_release;
    using std::memory_order_acq_rel;
    using std::memory_order_seq_cst;

    inline void atomic_thread_fence( memory_order mo ) noexcept { std::atomic_thread_fence( mo ); }
    inline void atomic_signal_fence( memory_order mo ) noexcept { std::atomic_signal_fence( mo ); }

    namespace details {
        template <typename T, bool Integral = std::is_integral<T>::value || std::is_enum<T>::value, bool Ptr = std::is_pointer<T>::value>
        struct val_repr {   // opaque types: no value logged
            static int kind() { return 0; }
            static unsigned long long get( T const& ) { return 0; }
        };
        template <typename T>
        struct val_repr<T, true, false> {
            static int kind() { return 1; }
            static unsigned long long get( T const& v ) { return static_cast<unsigned long long>( v ); }
        };
        template <typename T>
        struct val_repr<T, false, true> {
            static int kind() { return 2; }
            static unsigned long long get( T const& v ) { return static_cast<unsigned long long>( reinterpret_cast<std::uintptr_t>( v )); }
        };
    }

    template <typename T>
    class atomic
    {
        std::atomic<T> v_;
        typedef details::val_repr<T> repr;
        typedef typename std::conditional<std::is_pointer<T>::value, std::ptrdiff_t, T>::type diff_t;

        void pre() const noexcept { sched_point(); }
        void post( char const* kind, T const& rd, T const& wr, bool ok ) const noexcept
        {
            if ( logging())
                log_access( kind, static_cast<void const*>( this ), repr::kind(), repr::get( rd ), repr::get( wr ), ok );
        }

    public:
        atomic() noexcept = default;
        constexpr atomic( T desired ) noexcept : v_( desired ) {}
        atomic( atomic const& ) = delete;
        atomic& operator=( atomic const& ) = delete;
        atomic& operator=( atomic const& ) volatile = delete;

        T operator=( T desired ) noexcept { store( desired ); return desired; }

        bool is_lock_free() const noexcept { return v_.is_lock_free(); }
        bool is_lock_free() const volatile noexcept { return v_.is_lock_free(); }

        void store( T desired, memory_order mo = memory_order_seq_cst ) noexcept
        {
            pre(); v_.store( desired, mo ); post( "st", desired, desired, true );
        }
        void store( T desired, memory_order mo = memory_order_seq_cst ) volatile noexcept
        {
            const_cast<atomic*>( this )->store( desired, mo );
        }
        T load( memory_order mo = memory_order_seq_cst ) const noexcept
        {
            pre(); T r = v_.load( mo ); post( "ld", r, r, true ); return r;
        }
        T load( memory_order mo = memory_order_seq_cst ) const volatile noexcept
        {
            return const_cast<atomic const*>( this )->load( mo );
        }
        operator T() const noexcept { return load(); }
        operator T() const volatile noexcept { return load(); }

        T exchange( T desired, memory_order mo = memory_order_seq_cst ) noexcept
        {
            pre(); T r = v_.exchange( desired, mo ); post( "xchg", r, desired, true ); return r;
        }
        T exchange( T desired, memory_order mo = memory_order_seq_cst ) volatile noexcept
        {
            return const_cast<atomic*>( this )->exchange( desired, mo );
        }

        bool compare_exchange_strong( T& expected, T desired, memory_order s, memory_order f ) noexcept
        {
            pre(); bool ok = v_.compare_exchange_strong( expected, desired, s, f ); post( "cas", expected, desired, ok ); return ok;
        }
        bool compare_exchange_strong( T& expected, T desired, memory_order mo = memory_order_seq_cst ) noexcept
        {
            pre(); bool ok = v_.compare_exchange_strong( expected, desired, mo ); post( "cas", expected, desired, ok ); return ok;
        }
        bool compare_exchange_weak( T& expected, T desired, memory_order s, memory_order f ) noexcept
        {
            return compare_exchange_strong( expected, desired, s, f );
        }
        bool compare_exchange_weak( T& expected, T desired, memory_order mo = memory_order_seq_cst ) noexcept
        {
            return compare_exchange_strong( expected, desired, mo );
        }
        bool compare_exchange_strong( T& expected, T desired, memory_order s, memory_order f ) volatile noexcept
        {
            return const_cast<atomic*>( this )->compare_exchange_strong( expected, desired, s, f );
        }
        bool compare_exchange_strong( T& expected, T desired, memory_order mo = memory_order_seq_cst ) volatile noexcept
        {
            return const_cast<atomic*>( this )->compare_exchange_strong( expected, desired, mo );
        }
        bool compare_exchange_weak( T& expected, T desired, memory_order s, memory_order f ) volatile noexcept
        {
            return const_cast<atomic*>( this )->compare_exchange_strong( expected, desired, s, f );
        }
        bool compare_exchange_weak( T& expected, T desired, memory_order mo = memory_order_seq_cst ) volatile noexcept
        {
            return const_cast<atomic*>( this )->compare_exchange_strong( expected, desired, mo );
        }

        // read-modify-write (instantiated only for integral / pointer T)
        T fetch_add( diff_t arg, memory_order mo = memory_order_seq_cst ) noexcept
        {
            pre(); T r = v_.fetch_add( arg, mo ); post( "faa", r, static_cast<T>( r + arg ), true ); return r;
        }
        T fetch_sub( diff_t arg, memory_order mo = memory_order_seq_cst ) noexcept
        {
            pre(); T r = v_.fetch_sub( arg, mo ); post( "fas", r, static_cast<T>( r - arg ), true ); return r;
        }
        T fetch_and( T arg, memory_order mo = memory_order_seq_cst ) noexcept
        {
            pre(); T r = v_.fetch_and( arg, mo ); post( "fand", r, static_cast<T>( r & arg ), true ); return r;
        }
        T fetch_or( T arg, memory_order mo = memory_order_seq_cst ) noexcept
        {
            pre(); T r = v_.fetch_or( arg, mo ); post( "for", r, static_cast<T>( r | arg ), true ); return r;
        }
        T fetch_xor( T arg, memory_order mo = memory_order_seq_cst ) noexcept
        {
            pre(); T r = v_.fetch_xor( arg, mo ); post( "fxor", r, static_cast<T>( r ^ arg ), true ); return r;
        }
        T fetch_add( diff_t arg, memory_order mo = memory_order_seq_cst ) volatile noexcept { return const_cast<atomic*>( this )->fetch_add( arg, mo ); }
        T fetch_sub( diff_t arg, memory_order mo = memory_order_seq_cst ) volatile noexcept { return const_cast<atomic*>( this )->fetch_sub( arg, mo ); }

        T operator++() noexcept { return static_cast<T>( fetch_add( 1 ) + 1 ); }
        T operator++( int ) noexcept { return fetch_add( 1 ); }
        T operator--() noexcept { return static_cast<T>( fetch_sub( 1 ) - 1 ); }
        T operator--( int ) noexcept { return fetch_sub( 1 ); }
        T operator+=( diff_t arg ) noexcept { return static_cast<T>( fetch_add( arg ) + arg ); }
        T operator-=( diff_t arg ) noexcept { return static_cast<T>( fetch_sub( arg ) - arg ); }
        T operator&=( T arg ) noexcept { return fetch_and( arg ) & arg; }
        T operator|=( T arg ) noexcept { return fetch_or( arg ) | arg; }
        T operator^=( T arg ) noexcept { return fetch_xor( arg ) ^ arg; }
    };

    typedef atomic<bool>            atomic_bool;
    typedef atomic<int>             atomic_int;
    typedef atomic<unsigned int>    atomic_uint;
    typedef atomic<long>            atomic_long;
    typedef atomic<unsigned long>   atomic_ulong;
    typedef atomic<std::size_t>     atomic_size_t;
    typedef atomic<std::intptr_t>   atomic_intptr_t;
    typedef atomic<std::uintptr_t>  atomic_uintptr_t;

} // namespace khizmax_libcds_verif

#endif
