// general_threaded: force_dispose() (bSync waiter) and a concurrent synchronize() both wait on dispose_thread::m_cvReady;
// the reclamation thread does notify_one() -> if the bSync waiter is woken, the other caller keeps sleeping although
// m_bReady is true.
#include <atomic>
#include <chrono>
#include <cstdio>
#include <thread>
#include <cds/init.h>
#include <cds/urcu/general_threaded.h>
typedef cds::urcu::gc< cds::urcu::general_threaded<> > rcu;
static std::atomic<bool> gate( false ), in_disposer( false ), b_done( false ), a_done( false );
static void slow_disposer( void* ) { in_disposer = true; while ( !gate.load()) std::this_thread::sleep_for( std::chrono::milliseconds( 1 )); }
int main()
{
    cds::Initialize();
    {
        rcu theRcu( 256 );
        cds::threading::Manager::attachThread();
        static int obj;
        rcu::retire_ptr( &obj, slow_disposer );
        std::thread A( [] { cds::threading::Manager::attachThread(); rcu::force_dispose(); a_done = true; cds::threading::Manager::detachThread(); } );
        while ( !in_disposer.load()) std::this_thread::sleep_for( std::chrono::milliseconds( 1 ));   // pass in progress, A will wait for it
        std::this_thread::sleep_for( std::chrono::milliseconds( 100 ));                                // A sits in the bSync wait
        std::thread B( [] { cds::threading::Manager::attachThread(); rcu::synchronize(); b_done = true; cds::threading::Manager::detachThread(); } );
        std::this_thread::sleep_for( std::chrono::milliseconds( 300 ));                                // B sits at the entry wait of dispose()
        gate = true;                                                                                   // the pass ends: m_bReady = true, notify_one
        std::this_thread::sleep_for( std::chrono::seconds( 3 ));
        std::printf( "after 3 s: force_dispose returned=%d  synchronize returned=%d\n", (int) a_done.load(), (int) b_done.load());
        bool stuck = !b_done.load() || !a_done.load();
        if ( stuck ) {
            std::printf( "STUCK: a caller sleeps on m_cvReady although the reclamation thread is idle; rescuing it with another synchronize()\n" );
            rcu::synchronize();
            std::this_thread::sleep_for( std::chrono::seconds( 1 ));
            std::printf( "after rescue: force_dispose returned=%d  synchronize returned=%d\n", (int) a_done.load(), (int) b_done.load());
        }
        A.join(); B.join();
        cds::threading::Manager::detachThread();
        std::printf( stuck ? "RESULT lost wakeup reproduced\n" : "RESULT no lost wakeup in this run\n" );
    }
    cds::Terminate();
    return 0;
}
