// Stand-alone reproduction (no hooks): smr::free_thread_data() frees the blocks behind current_block_ of a
// non-empty retired array but leaves retired_array::list_tail_ pointing at the freed block.  When the record is
// reused, scan() never sees "last_block == list_tail_" again, so the array is never extended: once a scan frees
// nothing, push() writes past the end of the last block (heap overflow; an assert in debug builds).
//   thread B guards objects, thread A retires them; phases are ordered by an atomic counter.
// build: g++ -std=c++11 -O1 -DNDEBUG -pthread -mcx16 -I/repo repro.cpp /repo/src/{init,hp,dhp,urcu_gp,urcu_sh,thread_data,topology_linux,hp_thread_local,dllmain}.cpp
#include <cds/gc/dhp.h>
#include <atomic>
#include <cstdio>
#include <thread>
#include <vector>
#include <memory>
struct Obj { long id; long pad; };
static Obj objs[2000];
static int disposed[2000];
static void disp( void* p ) { disposed[static_cast<Obj*>( p )->id]++; }
static std::atomic<int> phase( 0 );
static void wait_for( int v ) { while ( phase.load() != v ) std::this_thread::yield(); }
int main()
{
    for ( int i = 0; i < 2000; ++i ) objs[i].id = i;
    cds::gc::dhp::smr::construct( 16 );
    std::thread B( [] {
        cds::gc::dhp::smr::attach_thread();
        std::vector<std::unique_ptr<cds::gc::DHP::Guard>> g;
        for ( int i = 1; i <= 256; ++i ) { g.emplace_back( new cds::gc::DHP::Guard ); g.back()->assign( &objs[i] ); }
        phase = 1; wait_for( 2 );
        for ( int i = 2; i <= 256; ++i ) g[i - 1]->clear();          // only object 1 stays guarded
        phase = 3; wait_for( 4 );
        for ( int i = 257; i <= 511; ++i ) g[i - 256]->assign( &objs[i] );
        phase = 5; wait_for( 6 );
        g.clear();
        cds::gc::dhp::smr::detach_thread();
    } );
    std::thread A( [] {
        cds::gc::dhp::smr::attach_thread();
        wait_for( 1 );
        for ( int i = 1; i <= 256; ++i ) cds::gc::DHP::retire( &objs[i], disp );   // scan frees 0 of 256 -> extend(): 2 blocks
        phase = 2; wait_for( 3 );
        cds::gc::dhp::smr::detach_thread();    // scan frees 255, object 1 stays: second block freed, list_tail_ stale
        cds::gc::dhp::smr::attach_thread();    // same record reused, retired_.init() does nothing
        phase = 4; wait_for( 5 );
        for ( int i = 257; i <= 511; ++i ) cds::gc::DHP::retire( &objs[i], disp ); // block full, scan frees 0, no extend()
        std::printf( "array full, retiring two more objects\n" ); std::fflush( stdout );
        for ( int i = 512; i <= 600; ++i ) cds::gc::DHP::retire( &objs[i], disp ); // writes past the end of the block
        phase = 6;
        cds::gc::dhp::smr::detach_thread();
    } );
    A.join(); B.join();
    cds::gc::dhp::smr::destruct( true );
    int bad = 0;
    for ( int i = 1; i <= 600; ++i ) if ( disposed[i] != 1 ) { if ( ++bad < 10 ) std::printf( "obj %d disposed %d times\n", i, disposed[i] ); }
    std::printf( "objects not disposed exactly once: %d\n", bad );
    return 0;
}
