#include <cds/init.h>
#include <cds/gc/dhp.h>
#include <cstdio>
#include <vector>
struct Obj { int id; };
static int disposed[2000];
struct Disp { void operator()(Obj* p) const { disposed[p->id]++; } };
int main(){
  cds::Initialize();
  { cds::gc::DHP dhp; cds::threading::Manager::attachThread();
    {
    std::vector<Obj> objs(2000); for(int i=0;i<2000;i++) objs[i].id=i;
    std::vector<cds::gc::DHP::Guard> guards(250);
    for(int i=0;i<250;i++) guards[i].assign(&objs[i]);
    for(int i=0;i<256;i++) cds::gc::DHP::retire<Disp>(&objs[i]);
    for(int i=256;i<856;i++) cds::gc::DHP::retire<Disp>(&objs[i]);
    int bad=0; for(int i=0;i<2000;i++) if(disposed[i]>1){ bad++; if(bad<10) printf("obj %d disposed %d times\n",i,disposed[i]); }
    printf("double-disposed=%d\n",bad);
    for(auto&g:guards) g.clear();
    cds::gc::DHP::force_dispose();
    bad=0; for(int i=0;i<856;i++) if(disposed[i]!=1){ bad++; if (bad<10) printf("end: obj %d disposed %d times\n",i,disposed[i]); }
    printf("end bad=%d\n",bad);
    }
    cds::threading::Manager::detachThread(); }
  cds::Terminate(); return 0; }
