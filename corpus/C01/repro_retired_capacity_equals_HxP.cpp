// HP(1,2,2): retired capacity == H*P exactly (accepted by basic_smr::basic_smr). Two threads guard one object each;
// thread A retires both guarded objects (array full, scan frees nothing) and then a third one.
#include <cds/init.h>
#include <cds/gc/hp.h>
#include <thread>
#include <atomic>
#include <cstdio>
static int objs[8];
static void disp( void* p ) { std::printf( "dispose %ld\n", (long)((int*)p - objs)); }
int main() {
    cds::Initialize();
    {
        cds::gc::HP hp( 1, 2, 2, cds::gc::HP::scan_type::classic );
        std::printf( "capacity %zu\n", cds::gc::HP::retired_array_capacity());
        std::atomic<int> stage( 0 );
        std::thread tb( [&] {
            cds::gc::hp::smr::attach_thread();
            { cds::gc::HP::Guard g; g.assign( &objs[2] ); stage.store( 1 ); while ( stage.load() != 2 ) std::this_thread::yield(); }
            cds::gc::hp::smr::detach_thread();
        } );
        cds::gc::hp::smr::attach_thread();
        while ( stage.load() != 1 ) std::this_thread::yield();
        {
            cds::gc::HP::Guard g; g.assign( &objs[1] );
            cds::gc::HP::retire( &objs[1], disp );
            cds::gc::HP::retire( &objs[2], disp );   // array full -> scan frees nothing
            std::printf( "third retire\n" ); std::fflush( stdout );
            cds::gc::HP::retire( &objs[3], disp );   // writes past the array
            std::printf( "survived\n" );
        }
        stage.store( 2 ); tb.join();
        cds::gc::hp::smr::detach_thread();
    }
    cds::Terminate();
    return 0;
}
