(* Runtime of the cxx2v differential drivers: values <-> text, for models extracted with ExtrOcamlBasic
   (Z, positive, nat stay the Coq datatypes).
   Value syntax on a line:  integers are hexadecimal magnitudes with an optional leading '-' (e.g. ff, -1, 0);
   booleans are integers (0 = false); a byte memory is  m:<two hex digits per byte>  (m: alone = empty). *)
open BinNums

type arg = Z of coq_Z | B of bool | M of coq_Z list

let hexval c = match c with
  | '0'..'9' -> Char.code c - 48
  | 'a'..'f' -> Char.code c - 87
  | 'A'..'F' -> Char.code c - 55
  | _ -> failwith "bad hex digit"

(* positive from a list of bits, least significant first, last bit = 1 *)
let z_of_hex (s : string) : coq_Z =
  let neg = String.length s > 0 && s.[0] = '-' in
  let start = if neg then 1 else 0 in
  (* collect bits msb first *)
  let p = ref None in
  for i = start to String.length s - 1 do
    let v = hexval s.[i] in
    for b = 3 downto 0 do
      let bit = (v lsr b) land 1 = 1 in
      p := (match !p with
            | None -> if bit then Some Coq_xH else None
            | Some q -> Some (if bit then Coq_xI q else Coq_xO q))
    done
  done;
  match !p with
  | None -> Z0
  | Some q -> if neg then Zneg q else Zpos q

let hex_of_pos (p : positive) : string =
  (* bits lsb first *)
  let rec bits p acc = match p with
    | Coq_xH -> true :: acc
    | Coq_xO q -> bits q (false :: acc)
    | Coq_xI q -> bits q (true :: acc) in
  let msb_first = bits p [] in
  let n = Stdlib.List.length msb_first in
  let pad = (4 - n mod 4) mod 4 in
  let all = (Stdlib.List.init pad (fun _ -> false)) @ msb_first in
  let buf = Buffer.create 16 in
  let rec go l = match l with
    | a :: b :: c :: d :: rest ->
      let v = (if a then 8 else 0) + (if b then 4 else 0) + (if c then 2 else 0) + (if d then 1 else 0) in
      Buffer.add_char buf "0123456789abcdef".[v]; go rest
    | [] -> ()
    | _ -> failwith "impossible" in
  go all; Buffer.contents buf

let show_z (z : coq_Z) : string = match z with
  | Z0 -> "0"
  | Zpos p -> hex_of_pos p
  | Zneg p -> "-" ^ hex_of_pos p

let show_b (b : bool) : string = if b then "1" else "0"

let is_zero z = match z with Z0 -> true | _ -> false

let parse_arg (tok : string) : arg =
  if String.length tok >= 2 && tok.[0] = 'm' && tok.[1] = ':' then begin
    let n = (String.length tok - 2) / 2 in
    M (Stdlib.List.init n (fun i -> z_of_hex (String.sub tok (2 + 2 * i) 2)))
  end else Z (z_of_hex tok)

(* boolean parameters are written as integers *)
let tobool z = not (is_zero z)

let fuel : Datatypes.nat =
  let rec mk n acc = if n = 0 then acc else mk (n - 1) (Datatypes.S acc) in mk 100000 Datatypes.O

(* main loop: read "name args... -> whatever" lines, write "name args... -> model result" lines *)
let run (eval : string -> arg list -> string) =
  let ic = if Array.length Sys.argv > 1 then open_in Sys.argv.(1) else stdin in
  let oc = if Array.length Sys.argv > 2 then open_out Sys.argv.(2) else stdout in
  (try
    while true do
      let line = input_line ic in
      let toks = String.split_on_char ' ' line in
      let rec split_at l acc = match l with
        | "->" :: _ -> Stdlib.List.rev acc
        | x :: r -> split_at r (if x = "" then acc else x :: acc)
        | [] -> Stdlib.List.rev acc in
      match split_at toks [] with
      | [] -> ()
      | name :: argtoks ->
        let args = Stdlib.List.map parse_arg argtoks in
        let res = (try eval name args with Not_found -> "NOFUNC") in
        output_string oc (name ^ " " ^ String.concat " " argtoks ^ " -> " ^ res ^ "\n")
    done
  with End_of_file -> ());
  close_out oc
