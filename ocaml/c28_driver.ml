(* C28 differential driver: evaluates the extracted model LV.Model.FeldmanPath (metrics_make, accepted, path,
   expand_slots, run_set) on the input lines produced by harness/C28/main.cpp / checks/C28.py.
   usage: c28_driver IN OUT.   Line kinds (values as in ocaml/cxx2v_rt.ml: hex magnitudes, optional '-', m:<bytes>):
     make <head> <array> <size>              -> <head_log> <head_size> <array_log> <array_size> | UB
     path.<family> <head> <array> <hash>     -> m=<hl>,<al> p=<slot>:<eos>,... x=<idx>,...  | rej m=.. | UB
     set.<family> <head> <array> <hash>...   -> m=<hl>,<al> r=<0/1>,... | <i>@<slot>.<slot>... | ...   | rej .. | UB
   family: ns_u16 ns_i16 ns_u32 ns_i32 ns_u64 ns_i64 sb1 sb2 sb4 sb8 bs1 bs2 bs4 bs8
   Lines whose name starts with "feldman_" name a GENERATED function <unit>.<coq name> (units feldman_make,
   feldman_ctor: metrics::make and the splitter constructors); they are evaluated by C28_gen_dispatch, which
   checks/C28.py generates with tools/cxx2v/gen_ocaml_dispatch.py (argument / result order documented there). *)
open Cxx2v_rt
open FeldmanPath

let lv : Datatypes.nat =
  let rec mk n acc = if n = 0 then acc else mk (n - 1) (Datatypes.S acc) in mk 70 Datatypes.O

let zi (n : int) : BinNums.coq_Z = z_of_hex (Printf.sprintf "%x" n)

let show_m m = "m=" ^ show_z m.head_node_size_log ^ "," ^ show_z m.array_node_size_log

let with_cfg sp head array (k : metrics -> string) : string =
  match metrics_make head array sp.sp_size with
  | None -> "UB"
  | Some m ->
    (match accepted sp m with
     | None -> "UB"
     | Some false -> "rej " ^ show_m m
     | Some true -> k m)

let do_path sp head array h : string =
  with_cfg sp head array (fun m ->
    match path sp lv m h, expand_slots sp lv m h with
    | Some p, Some x ->
      show_m m ^ " p=" ^ String.concat "," (Stdlib.List.map (fun (s, e) -> show_z s ^ ":" ^ show_b e) p)
      ^ " x=" ^ String.concat "," (Stdlib.List.map show_z x)
    | _, _ -> "UB")

let do_set sp head array hs : string =
  with_cfg sp head array (fun m ->
    match run_set sp lv m hs with
    | None -> "UB"
    | Some (rs, landed) ->
      (* the k-th landing entry belongs to the k-th successful insert *)
      let idx = Stdlib.List.filter_map (fun x -> x)
                  (Stdlib.List.mapi (fun i r -> if r then Some i else None) rs) in
      show_m m ^ " r=" ^ String.concat "," (Stdlib.List.map show_b rs)
      ^ String.concat "" (Stdlib.List.map2 (fun i (_, p) ->
           " | " ^ string_of_int i ^ "@" ^ String.concat "." (Stdlib.List.map show_z p)) idx landed))

let zs args = Stdlib.List.map (function Z z -> z | _ -> raise Not_found) args
let ms args = Stdlib.List.map (function M b -> b | _ -> raise Not_found) args

let eval (name : string) (args : arg list) : string =
  match name, args with
  | "make", [Z h; Z a; Z s] ->
    (match metrics_make h a s with
     | None -> "UB"
     | Some m -> String.concat " " [show_z m.head_node_size_log; show_z m.head_node_size;
                                    show_z m.array_node_size_log; show_z m.array_node_size])
  | _, Z head :: Z array :: rest ->
    let kind, fam = match String.index_opt name '.' with
      | Some i -> String.sub name 0 i, String.sub name (i + 1) (String.length name - i - 1)
      | None -> raise Not_found in
    let num sp = (match kind, rest with
        | "path", [Z h] -> do_path sp head array h
        | "set", _ -> do_set sp head array (zs rest)
        | _ -> raise Not_found) in
    let byt sp = (match kind, rest with
        | "path", [M h] -> do_path sp head array h
        | "set", _ -> do_set sp head array (ms rest)
        | _ -> raise Not_found) in
    (match fam with
     | "ns_u16" -> num ns_u16_splitter | "ns_i16" -> num ns_i16_splitter
     | "ns_u32" -> num ns_u32_splitter | "ns_i32" -> num ns_i32_splitter
     | "ns_u64" -> num ns_u64_splitter | "ns_i64" -> num ns_i64_splitter
     | "sb1" -> byt (sb_splitter lv (zi 1)) | "sb2" -> byt (sb_splitter lv (zi 2))
     | "sb4" -> byt (sb_splitter lv (zi 4)) | "sb8" -> byt (sb_splitter lv (zi 8))
     | "bs1" -> byt (bs_splitter lv (zi 1)) | "bs2" -> byt (bs_splitter lv (zi 2))
     | "bs4" -> byt (bs_splitter lv (zi 4)) | "bs8" -> byt (bs_splitter lv (zi 8))
     | _ -> raise Not_found)
  | _ -> raise Not_found

let is_generated (name : string) : bool =
  String.length name > 8 && String.sub name 0 8 = "feldman_"

let () = Cxx2v_rt.run (fun name args -> if is_generated name then C28_gen_dispatch.eval name args else eval name args)
