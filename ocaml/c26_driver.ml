(* C26 differential driver: replays the operations of a trace written by harness/C26/sweep.cpp on the model
   extracted from coq/Gen/Gen_brc.v (Gen_brc.brc_inc / brc_dec / brc_value / brc_reversed_value / brc_high_bit)
   and writes the same kind of lines:
       r                                   fresh counter {m_nCounter = 0; m_nReversed = 0; m_nHighBit = -1}
       s <counter> <reversed> <hb>         the state is set to these three members (teleport scenarios; the
                                           numbers of this line ARE read, and echoed from the model's record)
       i <slot> <counter> <reversed> <hb>  /  d <slot> <counter> <reversed> <hb>
   Only the first character of every input line is read (the operation); everything printed comes from the model.
   "UB" replaces the numbers when the model evaluates to None (undefined behaviour / out of fuel); the state is
   then left unchanged.      usage: c26_driver TRACE_IN MODEL_OUT *)
open BinNums

let init : Gen_brc.brc =
  { Gen_brc.brc_m_nCounter = Z0; Gen_brc.brc_m_nReversed = Z0; Gen_brc.brc_m_nHighBit = Zneg Coq_xH }

(* fuel 64 is what the theorems require (Properties_C26: 64 <= fuel) *)
let fuel : Datatypes.nat =
  let rec mk n acc = if n = 0 then acc else mk (n - 1) (Datatypes.S acc) in mk 64 Datatypes.O

let obs (f : Gen_brc.brc -> coq_Z option) (s : Gen_brc.brc) : string =
  match f s with Some z -> Cxx2v_rt.show_z z | None -> "UB"

let () =
  let ic = open_in Sys.argv.(1) in
  let oc = open_out Sys.argv.(2) in
  let st = ref init in
  (try
    while true do
      let line = input_line ic in
      if String.length line > 0 then begin
        match line.[0] with
        | 'r' -> st := init; output_string oc "r\n"
        | 's' ->
          (match Stdlib.List.filter (fun t -> t <> "") (String.split_on_char ' ' line) with
           | [_; c; r; h] ->
             st := { Gen_brc.brc_m_nCounter = Cxx2v_rt.z_of_hex c; Gen_brc.brc_m_nReversed = Cxx2v_rt.z_of_hex r;
                     Gen_brc.brc_m_nHighBit = Cxx2v_rt.z_of_hex h };
             output_string oc ("s " ^ obs Gen_brc.brc_value !st ^ " " ^ obs Gen_brc.brc_reversed_value !st ^ " "
                               ^ obs Gen_brc.brc_high_bit !st ^ "\n")
           | _ -> output_string oc ("? " ^ line ^ "\n"))
        | ('i' | 'd') as op ->
          let res = if op = 'i' then Gen_brc.brc_inc fuel !st else Gen_brc.brc_dec fuel !st in
          (match res with
           | Some (slot, s') ->
             st := s';
             output_string oc (String.make 1 op ^ " " ^ Cxx2v_rt.show_z slot ^ " " ^ obs Gen_brc.brc_value s' ^ " "
                               ^ obs Gen_brc.brc_reversed_value s' ^ " " ^ obs Gen_brc.brc_high_bit s' ^ "\n")
           | None -> output_string oc (String.make 1 op ^ " UB\n"))
        | _ -> output_string oc ("? " ^ line ^ "\n")
      end
    done
  with End_of_file -> ());
  close_out oc
