(* C25 differential driver: evaluates the extracted Gen_* models on the input lines produced by
   harness/C25/sweep.cpp.   usage: c25_driver IN OUT *)
let () = Cxx2v_rt.run C25_dispatch.eval
