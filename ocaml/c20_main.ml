(* Driver for the extracted sequential API specification LV.Spec.ApiSpec (property C20).

   c20_exe < sequences        one operation sequence per line:

     <id> K <counted> <empty_by_size> <replace> <disp> | op op ...     keyed container (set / map)
            disp: 0 DNone, 1 DGc, 2 DManual
            ops:  ins:k:v emp:k:v            -> KInsert        insf:k:v            -> KInsertF
                  upd:k:v:a                  -> KUpdate        ups:k:v:a           -> KUpsert   (a = 0/1 allow insert)
                  era:k eraw:k               -> KErase         eraf:k erafw:k      -> KEraseF
                  unl:k -> KUnlink   unx:k -> KUnlinkForeign   ext:k extw:k        -> KExtract
                  con:k conw:k               -> KContains      fnd:k fndw:k        -> KFindF
                  get:k getw:k               -> KGet
                  size empty clear xmin xmax iter
            (the "w" forms are the *_with(key, less) overloads of the same operation)
     <id> Q <kind> <cap> <counted> <empty_by_size> <disp> | op op ...  queue-like container
            kind: 0 fifo, 1 stack, 2 deque, 3 priority queue;  cap: -1 unbounded;  disp: 0 QDNone, 1 QDLag, 2 QDClear, 3 QDManual, 4 QDTotal
            ops:  push:v enq:v emp:v pushw:v pushb:v -> APush     pop deq popw popf -> APop
                  pushf:v -> APushFront     popb -> APopBack      size empty clear
     <id> S <quasi factor> | op op ...                                  SegmentedQueue with a random permutation
            ops:  push:v   pop:x (x = the value the implementation returned, -1 = empty)   size empty clear

   output:  "# <id>", then one line "<index> <canonical output>" per operation, then "end d<n>" (K, Q: the
   destructor's disposer calls) or "end" (S).
     K:  <res> <calls|-> h<held> d<disp>      res: b0 b1 | p11 p10 p00 | (k,v) null | n<size> | [(k,v)(k,v)..] | u
                                              calls: I(k,v) U(new,k,seen,v) E(k,v) F(k,v)
     Q:  <res> d<disp>                        res: b0 b1 | v<x> none | n<size> | u | na
     S:  ok | reject[x,y,..] | n<size> | b0 b1
   A line that cannot be parsed prints "<id> parse-error <token>".                                          *)
open C20spec

let rec nat_of_int i = if i <= 0 then O else S (nat_of_int (i - 1))
let int_of_nat n = let rec go a = function O -> a | S m -> go (a + 1) m in go 0 n
let rec pos_of_int i = if i = 1 then XH else if i land 1 = 0 then XO (pos_of_int (i lsr 1)) else XI (pos_of_int (i lsr 1))
let z_of_int i = if i = 0 then Z0 else if i > 0 then Zpos (pos_of_int i) else Zneg (pos_of_int (- i))
let rec int_of_pos = function XH -> 1 | XO p -> 2 * int_of_pos p | XI p -> 2 * int_of_pos p + 1
let int_of_z = function Z0 -> 0 | Zpos p -> int_of_pos p | Zneg p -> - (int_of_pos p)

let words s = List.filter (fun w -> w <> "") (String.split_on_char ' ' (String.trim s))
let b i = i <> 0
let bs x = if x then "1" else "0"
exception Bad of string

let item (k, v) = Printf.sprintf "(%d,%d)" (int_of_z k) (int_of_z v)

(* ---------------- keyed ---------------- *)
let kop_of tok =
  match String.split_on_char ':' tok with
  | [("ins" | "emp"); k; v] -> KInsert (z_of_int (int_of_string k), z_of_int (int_of_string v))
  | ["insf"; k; v] -> KInsertF (z_of_int (int_of_string k), z_of_int (int_of_string v))
  | ["upd"; k; v; a] -> KUpdate (z_of_int (int_of_string k), z_of_int (int_of_string v), b (int_of_string a))
  | ["ups"; k; v; a] -> KUpsert (z_of_int (int_of_string k), z_of_int (int_of_string v), b (int_of_string a))
  | [("era" | "eraw"); k] -> KErase (z_of_int (int_of_string k))
  | [("eraf" | "erafw"); k] -> KEraseF (z_of_int (int_of_string k))
  | ["unl"; k] -> KUnlink (z_of_int (int_of_string k))
  | ["unx"; k] -> KUnlinkForeign (z_of_int (int_of_string k))
  | [("ext" | "extw"); k] -> KExtract (z_of_int (int_of_string k))
  | [("con" | "conw"); k] -> KContains (z_of_int (int_of_string k))
  | [("fnd" | "fndw"); k] -> KFindF (z_of_int (int_of_string k))
  | [("get" | "getw"); k] -> KGet (z_of_int (int_of_string k))
  | ["size"] -> KSize | ["empty"] -> KEmpty | ["clear"] -> KClear
  | ["xmin"] -> KExtractMin | ["xmax"] -> KExtractMax | ["iter"] -> KIter
  | _ -> raise (Bad tok)

let kres_str = function
  | KBool x -> "b" ^ bs x
  | KPair (x, y) -> "p" ^ bs x ^ bs y
  | KItem (Some i) -> item i
  | KItem None -> "null"
  | KNat n -> "n" ^ string_of_int (int_of_nat n)
  | KList l -> "[" ^ String.concat "" (List.map item l) ^ "]"
  | KUnit -> "u"

let call_str = function
  | CIns (k, v) -> Printf.sprintf "I(%d,%d)" (int_of_z k) (int_of_z v)
  | CUpd (n, k, s, v) -> Printf.sprintf "U(%s,%d,%d,%d)" (bs n) (int_of_z k) (int_of_z s) (int_of_z v)
  | CErase (k, v) -> Printf.sprintf "E(%d,%d)" (int_of_z k) (int_of_z v)
  | CFind (k, v) -> Printf.sprintf "F(%d,%d)" (int_of_z k) (int_of_z v)

let run_k id cfg ops =
  match List.map int_of_string cfg with
  | [counted; ebs; repl; disp] ->
    let c = { kc_counted = b counted; kc_empty_by_size = b ebs; kc_replace = b repl;
              kc_disp = (match disp with 0 -> DNone | 1 -> DGc | _ -> DManual) } in
    let (outs, fin) = krun_case c (List.map kop_of ops) in
    Printf.printf "# %s\n" id;
    List.iteri (fun i o ->
        Printf.printf "%d %s %s h%d d%d\n" i (kres_str o.ko_res)
          (if o.ko_calls = [] then "-" else String.concat "" (List.map call_str o.ko_calls))
          (int_of_nat o.ko_held) (int_of_nat o.ko_disp)) outs;
    Printf.printf "end d%d\n" (int_of_nat fin)
  | _ -> raise (Bad "K cfg")

(* ---------------- queues ---------------- *)
let aop_of tok =
  match String.split_on_char ':' tok with
  | [("push" | "enq" | "emp" | "pushw" | "pushb"); v] -> APush (z_of_int (int_of_string v))
  | [("pop" | "deq" | "popw" | "popf")] -> APop
  | ["pushf"; v] -> APushFront (z_of_int (int_of_string v))
  | ["popb"] -> APopBack
  | ["size"] -> ASize | ["empty"] -> AEmpty | ["clear"] -> AClear
  | _ -> raise (Bad tok)

let res_str = function
  | RUnit -> "u"
  | RBool x -> "b" ^ bs x
  | RVal (Some x) -> "v" ^ string_of_int (int_of_z x)
  | RVal None -> "none"
  | RPair (x, y) -> "p" ^ bs x ^ bs y

let qres_str = function QR r -> res_str r | QNat n -> "n" ^ string_of_int (int_of_nat n) | QNa -> "na"

let run_q id cfg ops =
  match List.map int_of_string cfg with
  | [kind; cap; counted; ebs; disp] ->
    let c = { qc_kind = (match kind with 0 -> QFifo | 1 -> QStack | 2 -> QDeque | _ -> QPrio);
              qc_cap = (if cap < 0 then None else Some (nat_of_int cap));
              qc_counted = b counted; qc_empty_by_size = b ebs;
              qc_disp = (match disp with 0 -> QDNone | 1 -> QDLag | 2 -> QDClear | 3 -> QDManual | _ -> QDTotal) } in
    let (outs, fin) = qrun_case c (List.map aop_of ops) in
    Printf.printf "# %s\n" id;
    List.iteri (fun i o -> Printf.printf "%d %s d%d\n" i (qres_str o.qo_res) (int_of_nat o.qo_disp)) outs;
    Printf.printf "end d%d\n" (int_of_nat fin)
  | _ -> raise (Bad "Q cfg")

(* ---------------- segmented queue ---------------- *)
let sop_of tok =
  match String.split_on_char ':' tok with
  | ["push"; v] -> SPush (z_of_int (int_of_string v))
  | ["pop"; x] -> let x = int_of_string x in SPop (if x < 0 then None else Some (z_of_int x))
  | ["size"] -> SSize | ["empty"] -> SEmpty | ["clear"] -> SClear
  | _ -> raise (Bad tok)

let sres_str = function
  | SOk -> "ok"
  | SReject l -> "reject[" ^ String.concat "," (List.map (fun x -> string_of_int (int_of_z x)) l) ^ "]"
  | SNat n -> "n" ^ string_of_int (int_of_nat n)
  | SBool x -> "b" ^ bs x

let run_s id cfg ops =
  match List.map int_of_string cfg with
  | [q] ->
    let outs = segq_run_case (nat_of_int q) (List.map sop_of ops) in
    Printf.printf "# %s\n" id;
    List.iteri (fun i o -> Printf.printf "%d %s\n" i (sres_str o)) outs;
    Printf.printf "end\n"
  | _ -> raise (Bad "S cfg")

let () =
  try
    while true do
      let line = input_line stdin in
      match words line with
      | [] -> ()
      | id :: kind :: rest ->
        let rec split acc = function
          | "|" :: ops -> (List.rev acc, ops)
          | x :: r -> split (x :: acc) r
          | [] -> (List.rev acc, []) in
        let (cfg, ops) = split [] rest in
        (try
           match kind with
           | "K" -> run_k id cfg ops
           | "Q" -> run_q id cfg ops
           | "S" -> run_s id cfg ops
           | _ -> raise (Bad kind)
         with Bad t -> Printf.printf "# %s\n%s parse-error %s\nend\n" id id t
            | Failure t -> Printf.printf "# %s\n%s parse-error %s\nend\n" id id t)
      | [id] -> Printf.printf "# %s\n%s parse-error\nend\n" id id
    done
  with End_of_file -> ()
