(* lincheck_main.ml -- command-line driver for the verified linearizability checker
   extracted from LV.Base.Lin (lin.ml / lin.mli, see coq/Extract/Extract_Lin.v).

   Build (in the directory holding lin.ml, lin.mli and a copy of this file):
     ocamlfind ocamlopt -w -a lin.mli lin.ml lincheck_main.ml -o lincheck

   Usage:   lincheck [-lp | -memo | -nomemo] <spec> [cap]        (reads stdin, writes stdout)

     -nomemo  decide with Lin.lincheck (plain Wing-Gong search)
     -memo    decide with Lin.lincheck_memo (same search with a cache of dead ends;
              LinProofs.lincheck_memo_eq proves lincheck_memo = lincheck, so the verdicts are
              the same: only the running time differs -- much faster on non-linearizable
              set/map histories, a few times slower when no state ever repeats)
     default  -memo for set and map, -nomemo for the other specifications

     <spec> ::= fifo | bfifo <cap> | stack | deque | pqueue | bpqueue <cap> | set | map
                (<cap> is a non-negative integer: the capacity of the bounded container)

   Input grammar (one event per line, tokens separated by blanks):

     input    ::= history { "---" history }          a line "---" separates histories
     history  ::= { event }
     event    ::= "inv" <tid> <op>                    thread <tid> invokes <op>
                | "res" <tid> <result>                thread <tid> returns <result>
                | "lin" <tid>                         (only with -lp) linearization point
     <tid>    ::= non-negative decimal integer
     <int>    ::= decimal integer, optional leading '-'
     <bool>   ::= "true" | "false" | "1" | "0"
     <result> ::= "unit" | "true" | "false" | "none" | "some" <int> | "pair" <bool> <bool>

     <op> for fifo, bfifo            : "enq" <int> | "deq"
     <op> for stack, pqueue, bpqueue : "push" <int> | "pop"
     <op> for deque                  : "push_front" <int> | "push_back" <int>
                                     | "pop_front" | "pop_back"
     <op> for set                    : "insert" <k> | "erase" <k> | "contains" <k>
                                     | "update" <k> <bool>        (bool = allow_insert)
                                     | "upsert" <k>               (= update <k> true)
                                     | "extract_min" | "extract_max"
     <op> for map                    : "insert" <k> <v> | "erase" <k> | "contains" <k> | "find" <k>
                                     | "update" <k> <v> <bool>    (bool = allow_insert)
                                     | "upsert" <k> <v>           (= update <k> <v> true)

     Empty lines and lines whose first non-blank character is '#' are ignored.

   Results per the specifications of coq/Spec/Specs.v:
     enq/push*         -> true (false = rejected because a bounded container is full)
     deq/pop*/extract* -> some <int> | none (container empty)
     insert -> true iff fresh; erase -> true iff was present; contains -> true/false
     find   -> some <value> | none
     update -> pair true true (inserted) | pair true false (key existed) | pair false false

   Output: for every history, in order, exactly one line
     OK          the history is well formed and linearizable w.r.t. <spec>
     NOTLIN      the history is well formed and not linearizable
     MALFORMED   a thread invokes while it has a pending operation, or returns without one
     ERROR <line>: <message>      the history contains a line that does not parse
   With -lp the input is a trace annotated with linearization points and the verdicts are
     OK (Lin.lp_validb holds) | BADLP | ERROR ...
   A history is reported at each "---" line, and at end of input if it is non-empty (or
   if nothing was reported yet).  Exit status: 0, or 2 if some history had an ERROR.

   The verdicts OK / NOTLIN are backed by Coq theorems (coq/Proofs/LinProofs.v):
     lincheck_iff     : lincheck S h = true <-> wf_history h /\ linearizable S h
     lincheck_memo_eq : (forall a b, eqb a b = true -> a = b) -> lincheck_memo S eqb h = lincheck S h
   with eqb = Specs.zlist_eqb (zzlist_eqb for map), proved sound in Specs.v.
   This file only parses text and converts integers; it is part of the trusted base. *)

open Lin

(* ---- conversions between OCaml ints and the extracted nat / positive / Z ---- *)

let rec nat_of_int (n : int) : nat = if n <= 0 then O else S (nat_of_int (n - 1))

let rec pos_of_int (n : int) : positive =
  if n <= 1 then XH
  else if n land 1 = 0 then XO (pos_of_int (n lsr 1))
  else XI (pos_of_int (n lsr 1))

let z_of_int (n : int) : z =
  if n = 0 then Z0 else if n > 0 then Zpos (pos_of_int n) else Zneg (pos_of_int (- n))

(* ---- parsing ---- *)

exception Bad of string

let int_of tok =
  match int_of_string_opt tok with
  | Some n -> n
  | None -> raise (Bad ("not an integer: " ^ tok))

let tid_of tok =
  let n = int_of tok in
  if n < 0 then raise (Bad ("negative thread id: " ^ tok)) else nat_of_int n

let bool_of tok =
  match tok with
  | "true" | "1" -> true
  | "false" | "0" -> false
  | _ -> raise (Bad ("not a boolean: " ^ tok))

let zt tok = z_of_int (int_of tok)

type kind = KFifo | KStack | KDeque | KSet | KMap

(* operations are values of the extracted per-specification types, injected into Lin.op *)
let parse_op (k : kind) (toks : string list) : op =
  match k, toks with
  | KFifo, ["enq"; x] -> Obj.repr (Enq (zt x))
  | KFifo, ["deq"] -> Obj.repr Deq
  | KStack, ["push"; x] -> Obj.repr (Push (zt x))
  | KStack, ["pop"] -> Obj.repr Pop
  | KDeque, ["push_front"; x] -> Obj.repr (PushFront (zt x))
  | KDeque, ["push_back"; x] -> Obj.repr (PushBack (zt x))
  | KDeque, ["pop_front"] -> Obj.repr PopFront
  | KDeque, ["pop_back"] -> Obj.repr PopBack
  | KSet, ["insert"; x] -> Obj.repr (SInsert (zt x))
  | KSet, ["erase"; x] -> Obj.repr (SErase (zt x))
  | KSet, ["contains"; x] -> Obj.repr (SContains (zt x))
  | KSet, ["update"; x; b] -> Obj.repr (SUpdate (zt x, bool_of b))
  | KSet, ["upsert"; x] -> Obj.repr (SUpdate (zt x, true))
  | KSet, ["extract_min"] -> Obj.repr SExtractMin
  | KSet, ["extract_max"] -> Obj.repr SExtractMax
  | KMap, ["insert"; x; v] -> Obj.repr (MInsert (zt x, zt v))
  | KMap, ["update"; x; v; b] -> Obj.repr (MUpdate (zt x, zt v, bool_of b))
  | KMap, ["upsert"; x; v] -> Obj.repr (MUpdate (zt x, zt v, true))
  | KMap, ["erase"; x] -> Obj.repr (MErase (zt x))
  | KMap, ["find"; x] -> Obj.repr (MFind (zt x))
  | KMap, ["contains"; x] -> Obj.repr (MContains (zt x))
  | _, _ -> raise (Bad ("unknown operation for this specification: " ^ String.concat " " toks))

let parse_res (toks : string list) : res =
  let r : res0 =
    match toks with
    | ["unit"] -> RUnit
    | ["true"] -> RBool true
    | ["false"] -> RBool false
    | ["none"] -> RVal None
    | ["some"; x] -> RVal (Some (zt x))
    | ["pair"; a; b] -> RPair (bool_of a, bool_of b)
    | _ -> raise (Bad ("unknown result: " ^ String.concat " " toks))
  in
  Obj.repr r

let tokens (line : string) : string list =
  List.filter (fun s -> s <> "")
    (String.split_on_char ' '
       (String.map (fun c -> if c = '\t' || c = '\r' then ' ' else c) line))

let parse_event ~(lp : bool) (k : kind) (toks : string list) : aev =
  match toks with
  | "inv" :: t :: rest -> AInv (tid_of t, parse_op k rest)
  | "res" :: t :: rest -> ARes (tid_of t, parse_res rest)
  | ["lin"; t] when lp -> ALin (tid_of t)
  | _ -> raise (Bad ("unknown event: " ^ String.concat " " toks))

(* ---- main ---- *)

let usage () =
  prerr_endline
    "usage: lincheck [-lp | -memo | -nomemo] (fifo | bfifo <cap> | stack | deque | pqueue | bpqueue <cap> | set | map)";
  exit 64

let () =
  let args = List.tl (Array.to_list Sys.argv) in
  let lp, args = match args with "-lp" :: r -> true, r | r -> false, r in
  let memo_opt, args =
    match args with "-memo" :: r -> Some true, r | "-nomemo" :: r -> Some false, r | r -> None, r in
  let cap_of s = match int_of_string_opt s with Some n when n >= 0 -> nat_of_int n | _ -> usage () in
  let (sp : spec), (k : kind) =
    match args with
    | ["fifo"] -> fifo, KFifo
    | ["bfifo"; c] -> bFifo (cap_of c), KFifo
    | ["stack"] -> stack, KStack
    | ["deque"] -> deque, KDeque
    | ["pqueue"] -> pQueue, KStack
    | ["bpqueue"; c] -> bPQueue (cap_of c), KStack
    | ["set"] -> setSpec, KSet
    | ["map"] -> mapSpec, KMap
    | _ -> usage ()
  in
  let memo = match memo_opt, k with Some b, _ -> b | None, (KSet | KMap) -> true | None, _ -> false in
  let events : aev list ref = ref [] in      (* current history, reversed *)
  let error : string option ref = ref None in
  let reported = ref 0 and had_error = ref false in
  let report () =
    (match !error with
     | Some msg -> had_error := true; print_endline ("ERROR " ^ msg)
     | None ->
         let tr = List.rev !events in
         if lp then print_endline (if lp_validb sp tr then "OK" else "BADLP")
         else begin
           let h = erase sp tr in
           if not (wf_historyb sp h) then print_endline "MALFORMED"
           else
             let (st_eqb : st -> st -> bool), (st_hash : st -> positive) =
               match k with
               | KMap -> Obj.magic zzlist_eqb, Obj.magic zzlist_hash
               | _ -> Obj.magic zlist_eqb, Obj.magic zlist_hash in
             let ok = if memo then lincheck_memo sp st_eqb st_hash h else lincheck sp h in
             print_endline (if ok then "OK" else "NOTLIN")
         end);
    incr reported; events := []; error := None
  in
  let lineno = ref 0 in
  (try
     while true do
       let line = input_line stdin in
       incr lineno;
       match tokens line with
       | [] -> ()
       | t :: _ when t.[0] = '#' -> ()
       | ["---"] -> report ()
       | toks ->
           if !error = None then
             (try events := parse_event ~lp k toks :: !events
              with Bad msg -> error := Some (Printf.sprintf "%d: %s" !lineno msg))
     done
   with End_of_file -> ());
  if (match !events with [] -> false | _ -> true) || !error <> None || !reported = 0 then report ();
  exit (if !had_error then 2 else 0)
