(* Generic driver for the extracted concurrent models (LV.Base.Conc.run behind Model.run_case).
   Input (stdin): cases in the format shared with harness/vcase.h
       case <id>
       cfg <int>*
       thread <int>* [ ; <int>* ]*        one line per thread, operations separated by ';'
       sched <int>*
       end
   Output: "case <id>" then one line per event, formatted exactly like the C++ event log restricted to
   "<tid> <kind> o<objid> <ok>" / "<tid> ev <name> <args>", then "endcase <finished|fuel>". *)
open Model

let rec z_of_int (n : int) : Model.z =
  if n = 0 then Z0 else if n > 0 then Zpos (pos_of_int n) else Zneg (pos_of_int (-n))
and pos_of_int (n : int) : Model.positive =
  if n = 1 then XH else if n land 1 = 0 then XO (pos_of_int (n lsr 1)) else XI (pos_of_int (n lsr 1))
let rec int_of_pos = function XH -> 1 | XO p -> 2 * int_of_pos p | XI p -> 2 * int_of_pos p + 1
let int_of_z = function Z0 -> 0 | Zpos p -> int_of_pos p | Zneg p -> - (int_of_pos p)
let rec nat_of_int n = if n <= 0 then O else S (nat_of_int (n - 1))
let rec int_of_nat = function O -> 0 | S n -> 1 + int_of_nat n

let char_of_ascii (Ascii (b0,b1,b2,b3,b4,b5,b6,b7)) =
  let b x i = if x then 1 lsl i else 0 in
  Char.chr (b b0 0 + b b1 1 + b b2 2 + b b3 3 + b b4 4 + b b5 5 + b b6 6 + b b7 7)
let rec string_of_coq = function EmptyString -> "" | String (c, s) -> String.make 1 (char_of_ascii c) ^ string_of_coq s

let kind_name = function
  | KBegin -> "begin" | KLd -> "ld" | KSt -> "st" | KXchg -> "xchg" | KCas -> "cas" | KFaa -> "faa"
  | KFas -> "fas" | KFand -> "fand" | KFor -> "for" | KFxor -> "fxor"

let ints_of_line toks = List.map int_of_string toks

let split_ops toks =
  let rec go cur acc = function
    | [] -> List.rev (if cur = [] then acc else List.rev cur :: acc)
    | ";" :: r -> go [] (List.rev cur :: acc) r
    | x :: r -> go (int_of_string x :: cur) acc r in
  go [] [] toks

let () =
  let fuel = ref 200000 in
  if Array.length Sys.argv > 1 then fuel := int_of_string Sys.argv.(1);
  let id = ref "" and cfg = ref [] and threads = ref [] and sched = ref [] in
  (try while true do
    let line = input_line stdin in
    let toks = List.filter (fun s -> s <> "") (String.split_on_char ' ' (String.trim line)) in
    match toks with
    | "case" :: i :: _ -> id := i; cfg := []; threads := []; sched := []
    | "cfg" :: r -> cfg := ints_of_line r
    | "thread" :: r -> threads := split_ops r :: !threads
    | "sched" :: r -> sched := ints_of_line r
    | "end" :: _ ->
        let ths = List.rev_map (fun ops -> List.map (fun op -> List.map z_of_int op) ops) !threads in
        let (tr, fin) = Model.run_case (List.map z_of_int !cfg) ths (List.map nat_of_int !sched) (nat_of_int !fuel) in
        Printf.printf "case %s\n" !id;
        let objs = Hashtbl.create 64 in
        List.iter (fun (t, e) ->
          let t = int_of_nat t in
          match e with
          | EvAcc (KBegin, _, _) -> Printf.printf "%d begin\n" t
          | EvAcc (k, obj, ok) ->
              let key = List.map int_of_z obj in
              let oid = (match Hashtbl.find_opt objs key with Some i -> i | None -> let i = Hashtbl.length objs + 1 in Hashtbl.add objs key i; i) in
              Printf.printf "%d %s o%d %d\n" t (kind_name k) oid (if ok then 1 else 0)
          | EvCli (name, args) ->
              Printf.printf "%d ev %s%s\n" t (string_of_coq name) (String.concat "" (List.map (fun z -> " " ^ string_of_int (int_of_z z)) args))
        ) tr;
        Printf.printf "endcase %s\n" (if fin then "finished" else "fuel")
    | _ -> ()
  done with End_of_file -> ())
