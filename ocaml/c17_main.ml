(* Driver for the extracted sequential CuckooSet model (LV.Model.CuckooSeq), property C17.

   c17_exe run            cases on stdin:
        case <id>
        cfg <arity> <probeset size> <effective threshold> <ordered 0/1> <log2 initial capacity> <fuel> <lgcap>
        hash <h_i(0)> <h_i(1)> ...          one line per table i = 0..arity-1 (lookup tables over keys 0..n-1)
        ops <c> <key> <c> <key> ...         c: 1 insert, 2 erase, 3 find
        end
      output per case:
        case <id>
        op <j> res=<0|1|2> size=<n> lg=<n> dropped=<k,k,..> found=<k,k,..>      (res 2 = out of fuel, 3 = capacity cap)
        final <k k k ...>                   elements in table/bucket/probe-set order (= clear_and_dispose order)
        endcase
   c17_exe runs           same format for the StripedSet model (LV.Model.StripedSeq):
        cfg <log2 initial capacity> <policy kind 0 load factor / 1 single bucket threshold> <n> <lgcap>, one hash line
   c17_exe search <arity> <psize> <thr> <ord> <lg0> <nkeys> <hvals> <fuel> [<max>]
      exhaustive: keys 0..nkeys-1 inserted in this order, every assignment of hash values 0..hvals-1 to
      (table, key); prints every assignment for which an element is dropped by a resize:
        witness <nkeys> hash <..> | <..> dropped-at-op <j> dropped=<..>
      and a summary line  searched <n> witnesses <m> outoffuel <f>
*)
open C17model

let rec nat_of_int i = if i <= 0 then O else S (nat_of_int (i - 1))
let rec int_of_nat = function O -> 0 | S n -> 1 + int_of_nat n
let rec pos_of_int i = if i = 1 then XH else if i land 1 = 0 then XO (pos_of_int (i lsr 1)) else XI (pos_of_int (i lsr 1))
let n_of_int i = if i = 0 then N0 else Npos (pos_of_int i)
let rec int_of_pos = function XH -> 1 | XO p -> 2 * int_of_pos p | XI p -> 2 * int_of_pos p + 1
let int_of_n = function N0 -> 0 | Npos p -> int_of_pos p

let ints_of_line s = List.filter_map (fun w -> if w = "" then None else Some (int_of_string w)) (String.split_on_char ' ' s)
let join sep l = String.concat sep (List.map string_of_int l)

let rec pairs = function a :: b :: r -> (nat_of_int a, n_of_int b) :: pairs r | _ -> []

let print_case id cfg hashes ops =
  Printf.printf "case %s\n" id;
  let outs = run_case (List.map nat_of_int cfg) (List.map (List.map n_of_int) hashes) (pairs ops) in
  let last = ref [] in
  List.iteri (fun j (((((code, sz), lg), dr), found), tabs) ->
      Printf.printf "op %d res=%d size=%d lg=%d dropped=%s found=%s\n" j (int_of_nat code) (int_of_nat sz) (int_of_nat lg)
        (join "," (List.map int_of_n dr)) (join "," (List.map int_of_n found));
      last := tabs) outs;
  Printf.printf "final %s\n" (join " " (List.map int_of_n (elems !last)));
  Printf.printf "endcase\n"

(* striped: cfg <log2 initial capacity> <policy kind> <policy n> <lgcap>; one hash line *)
let print_striped id cfg hashes ops =
  Printf.printf "case %s\n" id;
  let ht = match hashes with t :: _ -> List.map n_of_int t | [] -> [] in
  let outs = s_run_case (List.map nat_of_int cfg) ht (pairs ops) in
  let last = ref [] in
  List.iteri (fun j ((((code, sz), lg), found), el) ->
      Printf.printf "op %d res=%d size=%d lg=%d dropped= found=%s\n" j (int_of_nat code) (int_of_nat sz) (int_of_nat lg)
        (join "," (List.map int_of_n found));
      last := el) outs;
  Printf.printf "final %s\n" (join " " (List.map int_of_n !last));
  Printf.printf "endcase\n"

let run striped =
  let id = ref "" and cfg = ref [] and hashes = ref [] and ops = ref [] in
  (try
     while true do
       let line = String.trim (input_line stdin) in
       if String.length line >= 5 && String.sub line 0 5 = "case " then begin
         id := String.sub line 5 (String.length line - 5); cfg := []; hashes := []; ops := [] end
       else if String.length line >= 4 && String.sub line 0 4 = "cfg " then cfg := ints_of_line (String.sub line 4 (String.length line - 4))
       else if String.length line >= 5 && String.sub line 0 5 = "hash " then hashes := !hashes @ [ints_of_line (String.sub line 5 (String.length line - 5))]
       else if String.length line >= 3 && String.sub line 0 3 = "ops" then ops := ints_of_line (String.sub line 3 (String.length line - 3))
       else if line = "end" then (if striped then print_striped else print_case) !id !cfg !hashes !ops
     done
   with End_of_file -> ())

let search args =
  match List.map int_of_string args with
  | ka :: ps :: th :: od :: lg0 :: nk :: hv :: fuel :: rest ->
    let maxw = match rest with m :: _ -> m | [] -> 20 in
    let cfg = List.map nat_of_int [ka; ps; th; od; lg0; fuel; 12] in
    let ops = List.concat (List.init nk (fun i -> [1; i])) in
    let cells = ka * nk in
    let a = Array.make cells 0 in
    let searched = ref 0 and wit = ref 0 and oof = ref 0 in
    let continue = ref true in
    while !continue do
      incr searched;
      let hashes = List.init ka (fun i -> List.init nk (fun x -> n_of_int a.(i * nk + x))) in
      let outs = run_case cfg hashes (pairs ops) in
      let j = ref 0 and hit = ref false in
      List.iter (fun (((((code, _), _), dr), _), _) ->
          if int_of_nat code >= 2 then incr oof;
          if dr <> [] && not !hit then begin
            hit := true; incr wit;
            if !wit <= maxw then
              Printf.printf "witness %d hash %s dropped-at-op %d dropped=%s\n" nk
                (String.concat " | " (List.init ka (fun i -> join " " (List.init nk (fun x -> a.(i * nk + x))))))
                !j (join "," (List.map int_of_n dr))
          end;
          incr j) outs;
      (* next assignment *)
      let i = ref 0 in
      while !i < cells && a.(!i) = hv - 1 do a.(!i) <- 0; incr i done;
      if !i >= cells then continue := false else a.(!i) <- a.(!i) + 1
    done;
    Printf.printf "searched %d witnesses %d outoffuel %d\n" !searched !wit !oof
  | _ -> prerr_endline "usage: search arity psize thr ord lg0 nkeys hvals fuel [max]"

(* search2: smallest table reachable by successful inserts on which resize() itself drops an element *)
let search2 args =
  match List.map int_of_string args with
  | ka :: ps :: th :: od :: lg0 :: nk :: hv :: fuel :: rest ->
    let maxw = match rest with m :: _ -> m | [] -> 20 in
    let p = { p_k = nat_of_int ka; p_size = nat_of_int ps; p_thr = nat_of_int th; p_ord = (od = 1) } in
    let cells = ka * nk in
    let a = Array.make cells 0 in
    let searched = ref 0 and wit = ref 0 in
    let continue = ref true in
    while !continue do
      incr searched;
      let hashes = List.init ka (fun i -> List.init nk (fun x -> n_of_int a.(i * nk + x))) in
      let h = h_tab hashes in
      let t = ref (init p (nat_of_int lg0)) and ok = ref true in
      for x = 0 to nk - 1 do
        if !ok then begin
          match insert h p (nat_of_int fuel) !t (n_of_int x) with
          | ((Ok true, t'), []) -> t := t'
          | _ -> ok := false
        end
      done;
      if !ok then begin
        let (_, dr) = resize h p !t in
        if dr <> [] then begin
          incr wit;
          if !wit <= maxw then
            Printf.printf "witness2 %d hash %s resize-drops=%s\n" nk
              (String.concat " | " (List.init ka (fun i -> join " " (List.init nk (fun x -> a.(i * nk + x))))))
              (join "," (List.map int_of_n dr))
        end
      end;
      let i = ref 0 in
      while !i < cells && a.(!i) = hv - 1 do a.(!i) <- 0; incr i done;
      if !i >= cells then continue := false else a.(!i) <- a.(!i) + 1
    done;
    Printf.printf "searched %d witnesses %d\n" !searched !wit
  | _ -> prerr_endline "usage: search2 arity psize thr ord lg0 nkeys hvals fuel [max]"

(* ------------------------------------------------------------------------------------------------------------
   Split-list and Feldman structural models (LV.Model.SplitSeq / FeldmanSeq through SplitSeqObs / FeldmanSeqObs).
   Each extracted module has its own copies of nat / positive / N, hence the two sets of converters.  Hash values
   and split-order keys are 64-bit unsigned: they travel as Int64 (bit pattern), are read with "0u" and printed
   with %Lu.

   c17_exe runsplit       cases on stdin:
        case <id> / cfg <items> <load factor> <dynamic 0/1> <list kind> <sweep 0/1> / hash <h(0)> ... / ops ... / end
      output per case:
        case <id>
        cap <bucket table capacity> lf <load factor>
        op <j> res=<0|1> size=<n> lg=<log2 bucket count> dropped= found=<keys found by the sweep, or empty>
        lay <j> max=<max item count|inf> new=<buckets initialised by the op> rec=<new - 1: recursive init_bucket calls> list=<so:dummy:key;...> buckets=<b:pos,...>
        lay2 <j> list=... buckets=...          (after the contains-sweep; only with sweep = 1)
        finalfound <k,k,..> / finallay list=... buckets=... / final <regular keys in list order> / endcase
   c17_exe runfeldman     cfg <hash width> <head bits> <array bits>
      output per case:
        case <id> / met <effective head bits> <effective array bits>
        op <j> res=<0|1|2> size=<n> lg=0 dropped= found=<keys whose hash is contained>
        tree <j> <tokens: _ empty, <hash> data, [ array begin, ] array end>   (head array: the outermost, not bracketed)
        ls <j> <array nodes:data cells:array cells:empty cells per level, comma separated>
        finalh <hashes in iteration order> / endcase *)

let u64_of_string w = Int64.of_string ("0u" ^ w)
let u64s_of_line s = List.filter_map (fun w -> if w = "" then None else Some (u64_of_string w)) (String.split_on_char ' ' s)
let joins sep l = String.concat sep l

module SC = struct
  open C17split
  let rec nat_of_int i = if i <= 0 then O else S (nat_of_int (i - 1))
  let rec int_of_nat = function O -> 0 | S n -> 1 + int_of_nat n
  let rec pos_of_i64 i = if i = 1L then XH else if Int64.logand i 1L = 0L then XO (pos_of_i64 (Int64.shift_right_logical i 1))
    else XI (pos_of_i64 (Int64.shift_right_logical i 1))
  let n_of_i64 i = if i = 0L then N0 else Npos (pos_of_i64 i)
  let rec i64_of_pos = function XH -> 1L | XO p -> Int64.shift_left (i64_of_pos p) 1 | XI p -> Int64.logor (Int64.shift_left (i64_of_pos p) 1) 1L
  let i64_of_n = function N0 -> 0L | Npos p -> i64_of_pos p
  let str_n x = Printf.sprintf "%Lu" (i64_of_n x)
  let rec pairs = function a :: b :: r -> (n_of_i64 a, n_of_i64 b) :: pairs r | _ -> []

  let show_lay t =
    let l = joins ";" (List.map (fun ((so, d), k) -> Printf.sprintf "%s:%d:%s" (str_n so) (if d then 1 else 0) (str_n k)) (layout t)) in
    let bp = List.sort compare (List.map (fun (b, p) -> (i64_of_n b, int_of_nat p)) (bucket_pos t)) in
    Printf.sprintf "list=%s buckets=%s" l (joins "," (List.map (fun (b, p) -> Printf.sprintf "%Lu:%d" b p) bp))

  let print_case id cfg hashes ops =
    Printf.printf "case %s\n" id;
    let ht = match hashes with t :: _ -> List.map n_of_i64 t | [] -> [] in
    let cfgn = List.map n_of_i64 cfg in
    let sweep = match cfg with _ :: _ :: _ :: _ :: sw :: _ -> sw <> 0L | _ -> false in
    let (outs, (ffound, tf)) = sp_run_case cfgn ht (pairs ops) in
    Printf.printf "cap %d lf %d\n" (int_of_nat tf.scap) (int_of_nat tf.slf);
    List.iteri (fun j o ->
        Printf.printf "op %d res=%d size=%d lg=%d dropped= found=%s\n" j (if o.o_res then 1 else 0) (int_of_nat o.o_t.sc) (int_of_nat o.o_t.blog)
          (joins "," (List.map str_n o.o_found));
        (* sequentially every init_bucket call creates one bucket: recursive calls = buckets created - 1 *)
        Printf.printf "lay %d max=%s new=%d rec=%d %s\n" j (match o.o_t.smax with None -> "inf" | Some m -> string_of_int (int_of_nat m))
          (int_of_nat o.o_new) (max 0 (int_of_nat o.o_new - 1)) (show_lay o.o_t);
        if sweep then Printf.printf "lay2 %d %s\n" j (show_lay o.o_t2)) outs;
    Printf.printf "finalfound %s\n" (joins "," (List.map str_n ffound));
    Printf.printf "finallay %s\n" (show_lay tf);
    Printf.printf "final%s\n" (String.concat "" (List.filter_map (fun ((_, d), k) -> if d then None else Some (" " ^ str_n k)) (layout tf)));
    Printf.printf "endcase\n"
end

module FC = struct
  open C17feldman
  let rec int_of_nat = function O -> 0 | S n -> 1 + int_of_nat n
  let rec pos_of_i64 i = if i = 1L then XH else if Int64.logand i 1L = 0L then XO (pos_of_i64 (Int64.shift_right_logical i 1))
    else XI (pos_of_i64 (Int64.shift_right_logical i 1))
  let n_of_i64 i = if i = 0L then N0 else Npos (pos_of_i64 i)
  let rec i64_of_pos = function XH -> 1L | XO p -> Int64.shift_left (i64_of_pos p) 1 | XI p -> Int64.logor (Int64.shift_left (i64_of_pos p) 1) 1L
  let i64_of_n = function N0 -> 0L | Npos p -> i64_of_pos p
  let str_n x = Printf.sprintf "%Lu" (i64_of_n x)
  let rec pairs = function a :: b :: r -> (n_of_i64 a, n_of_i64 b) :: pairs r | _ -> []

  let print_case id cfg hashes ops =
    Printf.printf "case %s\n" id;
    let ht = match hashes with t :: _ -> List.map n_of_i64 t | [] -> [] in
    let ((hb, ab), outs) = f_run_case (List.map n_of_i64 cfg) ht (pairs ops) in
    Printf.printf "met %d %d\n" (int_of_nat hb) (int_of_nat ab);
    let last = ref None in
    List.iteri (fun j ((r, t), found) ->
        Printf.printf "op %d res=%d size=%d lg=0 dropped= found=%s\n" j (int_of_nat r) (int_of_nat t.fcnt) (joins "," (List.map str_n found));
        Printf.printf "tree %d %s\n" j (joins " " (List.map (fun (k, x) -> match int_of_nat k with 0 -> "_" | 1 -> str_n x | 2 -> "[" | _ -> "]") (fdump_set t)));
        Printf.printf "ls %d %s\n" j (joins "," (List.map (fun (((a, d), c), e) -> Printf.sprintf "%d:%d:%d:%d" (int_of_nat a) (int_of_nat d) (int_of_nat c) (int_of_nat e)) (level_stats t)));
        last := Some t) outs;
    Printf.printf "finalh%s\n" (match !last with None -> "" | Some t -> String.concat "" (List.map (fun x -> " " ^ str_n x) (f_elems t)));
    Printf.printf "endcase\n"
end

let run64 printer =
  let id = ref "" and cfg = ref [] and hashes = ref [] and ops = ref [] in
  (try
     while true do
       let line = String.trim (input_line stdin) in
       if String.length line >= 5 && String.sub line 0 5 = "case " then begin
         id := String.sub line 5 (String.length line - 5); cfg := []; hashes := []; ops := [] end
       else if String.length line >= 4 && String.sub line 0 4 = "cfg " then cfg := u64s_of_line (String.sub line 4 (String.length line - 4))
       else if String.length line >= 5 && String.sub line 0 5 = "hash " then hashes := !hashes @ [u64s_of_line (String.sub line 5 (String.length line - 5))]
       else if String.length line >= 3 && String.sub line 0 3 = "ops" then ops := u64s_of_line (String.sub line 3 (String.length line - 3))
       else if line = "end" then printer !id !cfg !hashes !ops
     done
   with End_of_file -> ())

let () =
  match Array.to_list Sys.argv with
  | _ :: "search2" :: args -> search2 args
  | _ :: "run" :: _ -> run false
  | _ :: "runs" :: _ -> run true
  | _ :: "runsplit" :: _ -> run64 SC.print_case
  | _ :: "runfeldman" :: _ -> run64 FC.print_case
  | _ :: "search" :: args -> search args
  | _ -> prerr_endline "usage: c17_exe run | search ..."
