// C11 (flat-combining half) harness: real FCPriorityQueue / FCQueue / FCStack histories under the deterministic
// scheduler; every history is decided by the verified lincheck (spec pqueue / fifo / stack).
//
// usage: main <casefile>
//   cfg = [variant; compact factor; combine pass count; prefill]
//      variant 0: FCPriorityQueue<int> over std::priority_queue      (lincheck pqueue)
//      variant 1: FCQueue<int> over std::queue, elimination off      (lincheck fifo)     2: elimination on
//      variant 3: FCStack<int> over std::stack, elimination off      (lincheck stack)    4: elimination on
//      prefill k: the main thread pushes k values 900, 901, ... before the workers start (thread 99 in the history)
//   thread operations: [1; v] push / enqueue v      [2] pop / dequeue
//                      [3; v] push( T&& ) / enqueue( T&& )  (request words op_push_move / op_enq_move; FCQueue::push( T&& )
//                             forwards an lvalue to enqueue( T const& ), so enqueue( T&& ) is called directly)
// Output: as harness/C10/main.cpp (client events only, then monitor ops / combs / collided).
#include <cds/container/fcpriority_queue.h>
#include <cds/container/fcqueue.h>
#include <cds/container/fcstack.h>
#include <cds/algo/backoff_strategy.h>
#include <vcase.h>

namespace vs = khizmax_libcds_verif;
namespace cc = cds::container;
namespace fc = cds::algo::flat_combining;

template <class Base>
struct count_stat : public Base {
    size_t ops = 0, combs = 0, collided = 0;
    void onOperation() { ++ops; }
    void onCombining() { ++combs; }
    void onCollide() { ++collided; }
};

struct pq_traits : public cc::fcpqueue::traits {
    typedef fc::wait_strategy::backoff<cds::backoff::empty> wait_strategy;
    typedef count_stat<cc::fcpqueue::empty_stat> stat;
};
template <bool Elim>
struct q_traits : public cc::fcqueue::traits {
    typedef fc::wait_strategy::backoff<cds::backoff::empty> wait_strategy;
    typedef count_stat<cc::fcqueue::empty_stat> stat;
    static constexpr const bool enable_elimination = Elim;
};
template <bool Elim> constexpr const bool q_traits<Elim>::enable_elimination;
template <bool Elim>
struct s_traits : public cc::fcstack::traits {
    typedef fc::wait_strategy::backoff<cds::backoff::empty> wait_strategy;
    typedef count_stat<cc::fcstack::empty_stat> stat;
    static constexpr const bool enable_elimination = Elim;
};
template <bool Elim> constexpr const bool s_traits<Elim>::enable_elimination;

static std::atomic<int> g_ended;

template <class Cont> static void push_move( Cont& q, int v ) { q.push( std::move( v )); }
template <bool E> static void push_move( cc::FCQueue<int, std::queue<int>, q_traits<E>>& q, int v ) { q.enqueue( std::move( v )); }

template <class Cont>
static void run_case( vcase::Case const& c, char const* push_name, char const* pop_name )
{
    unsigned cf = c.cfg.size() > 1 ? (unsigned) c.cfg[1] : 1;
    unsigned pc = c.cfg.size() > 2 ? (unsigned) c.cfg[2] : 1;
    long prefill = c.cfg.size() > 3 ? c.cfg[3] : 0;
    int n = (int) c.threads.size();
    std::vector<std::string> pre;
    size_t ops, combs, collided;
    char buf[96];
    {
        Cont q( cf, pc );
        for ( long k = 0; k < prefill; ++k ) {
            q.push( (int)( 900 + k ));
            std::snprintf( buf, sizeof( buf ), "99 ev inv %s %ld", push_name, 900 + k ); pre.push_back( buf );
            pre.push_back( "99 ev res true" );
        }
        g_ended.store( 0 );
        vcase::run_workers( c, [&]( int t ) {
            char b2[96];
            for ( auto const& op : c.threads[t] ) {
                if ( op[0] == 1 || op[0] == 3 ) {
                    int v = (int) op[1];
                    std::snprintf( b2, sizeof( b2 ), "inv %s %d", push_name, v ); vs::emit( b2 );
                    if ( op[0] == 1 ) q.push( v ); else push_move( q, v );
                    vs::emit( "res true" );
                }
                else if ( op[0] == 2 ) {
                    std::snprintf( b2, sizeof( b2 ), "inv %s", pop_name ); vs::emit( b2 );
                    int x = -1;
                    bool b = q.pop( x );
                    if ( b ) vcase::emitf( "res some %ld", x ); else vcase::emitf( "res none" );
                }
            }
            g_ended.fetch_add( 1 );
        }, nullptr, [&]( int ) {
            while ( g_ended.load() < n ) std::this_thread::yield();     // see harness/C10/main.cpp
        }, 40000 );
        ops = q.statistics().ops; combs = q.statistics().combs; collided = q.statistics().collided;
    }
    std::printf( "case %s\n", c.id.c_str());
    for ( auto const& l : pre ) std::printf( "%s\n", l.c_str());
    for ( auto const& l : vs::S().log ) {
        size_t p = l.find( ' ' );
        if ( p != std::string::npos && l.compare( p + 1, 3, "ev " ) == 0 ) std::printf( "%s\n", l.c_str());
    }
    std::printf( "endcase %s\n", vs::S().overrun ? "fuel" : "finished" );
    std::printf( "monitor ops %zu\nmonitor combs %zu\nmonitor collided %zu\n", ops, combs, collided );
}

int main( int argc, char** argv )
{
    if ( argc < 2 ) { std::fprintf( stderr, "usage: %s casefile\n", argv[0] ); return 2; }
    std::ifstream in( argv[1] );
    vcase::Case c;
    while ( vcase::read_case( in, c )) {
        long variant = c.cfg.size() > 0 ? c.cfg[0] : 0;
        switch ( variant ) {
        case 0: run_case< cc::FCPriorityQueue<int, std::priority_queue<int>, pq_traits>>( c, "push", "pop" ); break;
        case 1: run_case< cc::FCQueue<int, std::queue<int>, q_traits<false>>>( c, "enq", "deq" ); break;
        case 2: run_case< cc::FCQueue<int, std::queue<int>, q_traits<true>>>( c, "enq", "deq" ); break;
        case 3: run_case< cc::FCStack<int, std::stack<int>, s_traits<false>>>( c, "push", "pop" ); break;
        case 4: run_case< cc::FCStack<int, std::stack<int>, s_traits<true>>>( c, "push", "pop" ); break;
        default: std::printf( "case %s\nendcase unsupported\n", c.id.c_str()); break;
        }
        std::fflush( stdout );
    }
    return 0;
}
