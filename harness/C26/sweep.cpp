// C26 differential sweep + implementation-side oracle for cds::bitop::bit_reverse_counter<size_t>
// (cds/details/bit_reverse_counter.h, the heap-slot counter of cds::intrusive::MSPriorityQueue).
//
// Drives the REAL counter (compiled from $VERIF_REPO, hook off) through scenarios of inc()/dec() calls and
// prints one line per call to <trace>:
//      r                                   a fresh counter (start of a scenario)
//      i <slot> <counter> <reversed> <hb>  inc(): returned slot, then value(), reversed_value(), high_bit()
//      d <slot> <counter> <reversed> <hb>  dec(): returned slot, then the three observers
// (hex magnitudes, '-' prefix for negatives: the syntax of ocaml/cxx2v_rt.ml).  The same operations are
// replayed by ocaml/c26_driver.ml on the model extracted from coq/Gen/Gen_brc.v; checks/C26.py compares the
// two files line by line (cross-check of the translator).
//
// The oracle (independent of the implementation: naive bit reversal, explicit stack of live slots and of the
// states saved before every inc, bitmap of live slots) checks on every call
//      level        2^h <= slot < 2^(h+1), h = floor(log2 count)            (slot-outside-level)
//      reference    slot == 2^h + naive_rev_h(count - 2^h)                   (slot-differs-from-reference)
//      observers    value() == count, reversed_value() == slot, high_bit() == h
//      distinct     the slot is not live                                      (slot-repeated)
//      parent       slot/2 is live when slot > 1                              (parent-not-allocated)
//      undo         dec() returns the top of the stack and restores exactly the state saved before the
//                   matching inc()                                            (dec-wrong-slot / dec-does-not-restore)
//      levels       at count 2^(k+1)-1 every slot of [2^k, 2^(k+1)) is live  (level-not-permutation)
// and, for the property's first sentence, reports the first n for which the first n slots are not {1..n}
// (PREFIX line; n = 5 with slots 1,2,3,4,6 is the recorded known finding).
//
//   sweep run <seed> <quick|thorough> <trace> <report>      all scenarios
//   sweep ops <trace> <report> <tok>...                     one scenario; tok = i<count> | d<count>  (e.g. i5 d2 i1)
#include <cstdio>
#include <cstdint>
#include <cstdlib>
#include <cstring>
#include <string>
#include <vector>
#include <map>
#include <set>
#include <cds/details/bit_reverse_counter.h>

typedef unsigned long long u64;
typedef long long i64;
typedef cds::bitop::bit_reverse_counter<size_t> brc_t;

struct Rng {                      // splitmix64, same as lib/vcheck.py
    u64 s;
    explicit Rng(u64 seed) : s(seed) {}
    u64 next() { s += 0x9E3779B97F4A7C15ULL; u64 z = s; z = (z ^ (z >> 30)) * 0xBF58476D1CE4E5B9ULL;
                 z = (z ^ (z >> 27)) * 0x94D049BB133111EBULL; return z ^ (z >> 31); }
    u64 below(u64 n) { return n ? next() % n : 0; }
};

static FILE* trace = nullptr;
static FILE* report = nullptr;

static void put_s(FILE* f, i64 v) { if (v < 0) fprintf(f, "-%llx", (u64)(-(v + 1)) + 1ULL); else fprintf(f, "%llx", (u64)v); }

// ---- independent references -----------------------------------------------------------------------
static int ref_log2(u64 x) { int r = -1; while (x) { ++r; x >>= 1; } return r; }      // floor(log2 x), -1 for 0
static u64 ref_rev(u64 x, int w) { u64 r = 0; for (int i = 0; i < w; ++i) if ((x >> i) & 1) r |= 1ULL << (w - 1 - i); return r; }
static u64 ref_slot(u64 n) { int h = ref_log2(n); return (1ULL << h) + ref_rev(n - (1ULL << h), h); }

struct State { u64 counter, reversed; i64 hb; };
static State observe(brc_t const& c) { State s; s.counter = c.value(); s.reversed = c.reversed_value(); s.hb = c.high_bit(); return s; }
static bool same(State const& a, State const& b) { return a.counter == b.counter && a.reversed == b.reversed && a.hb == b.hb; }

static State ref_state(u64 n) { State s; s.counter = n; s.reversed = n ? ref_slot(n) : 0; s.hb = n ? ref_log2(n) : -1; return s; }

// Teleporting: the counter's three private members are written directly so that levels beyond what stepping can
// reach (up to 2^64-1) are exercised.  The assumed layout {size_t m_nCounter; size_t m_nReversed; int m_nHighBit}
// is validated at run time against the observers; when it does not hold the teleport scenarios are skipped
// (reported as STAT teleport_layout_ok 0).
struct Layout { size_t counter; size_t reversed; int hb; };
static bool layout_ok() {
    if (sizeof(brc_t) != sizeof(Layout)) return false;
    brc_t c; for (int i = 0; i < 5; ++i) c.inc();
    Layout l; memcpy(&l, &c, sizeof l);
    if (!(l.counter == c.value() && l.reversed == c.reversed_value() && l.hb == c.high_bit() && l.counter == 5 && l.reversed != 5)) return false;
    l.counter = 77; l.reversed = 99; l.hb = 6; memcpy(&c, &l, sizeof l);
    return c.value() == 77 && c.reversed_value() == 99 && c.high_bit() == 6;
}

// ---- statistics -----------------------------------------------------------------------------------
static std::map<std::string, u64> cls;        // "<op> <hb before> <bits flipped | L>" -> count
static u64 n_calls = 0, n_inc = 0, n_dec = 0, n_scen = 0, n_oracle_checks = 0;
static u64 max_count_seen = 0;
static const u64 CALL_CAP = 80000000ULL;      // no scenario family comes near; guards against a runaway generator
static void cap_check() { if (n_calls > CALL_CAP) { fprintf(stderr, "sweep: call cap exceeded (generator bug)\n"); exit(3); } }
static u64 prefix_n = 0, n_prefix_scen = 0;   // smallest n whose first n slots are not {1..n}; scenarios showing it
static std::string prefix_slots, prefix_scen;

static void classify(char op, u64 count_before) {
    // proof case split: (operation, level, number of loop iterations / level change) -- from the reference only
    int h = ref_log2(count_before);
    char buf[64];
    if (op == 'i') {
        if (count_before == 0) { snprintf(buf, sizeof buf, "i -1 L"); }
        else {
            u64 x = count_before - (1ULL << h);
            if (x + 1 == (1ULL << h)) snprintf(buf, sizeof buf, "i %d L", h);
            else { int t = 0; while ((x >> t) & 1) ++t; snprintf(buf, sizeof buf, "i %d %d", h, t + 1); }
        }
    } else {
        u64 x = count_before - (1ULL << h);
        if (x == 0) snprintf(buf, sizeof buf, "d %d L", h);
        else { int t = 0; while (!((x >> t) & 1)) ++t; snprintf(buf, sizeof buf, "d %d %d", h, t + 1); }
    }
    ++cls[buf];
}

// ---- one scenario ---------------------------------------------------------------------------------
struct Fail { bool set; std::string scen; u64 index; std::string kinds; std::string detail; std::string ops; u64 len; };
static std::vector<Fail> fails;               // first failure of each failing scenario (bounded)
static Fail best_small = {false, "", 0, "", "", "", 0};   // shortest failing input among the exhaustive scenarios

struct Scenario {
    brc_t c;
    std::string name;
    std::vector<State> saved;                 // state before each live inc
    std::vector<u64> stack;                   // live slots, most recent last
    std::vector<unsigned char> live;          // bitmap of live slots
    std::string rle;                          // operations so far, run-length encoded ("i5 d2 i1")
    char last_op; u64 last_run;
    u64 index;
    bool failed;
    bool inc_only;                            // no dec so far: the stack is the list of the first n slots
    bool prefix_reported;
    u64 max_slot;
    bool teleported;                          // started from the closed-form state of a large count
    std::set<u64> live_big;                   // live slots beyond the bitmap
    u64 nlive;                                // net count of increments (kept even after an oracle failure)
    static const u64 LIVE_LIMIT = 1ULL << 27;

    explicit Scenario(std::string const& n) : name(n), last_op(0), last_run(0), index(0), failed(false), inc_only(true),
                                              prefix_reported(false), max_slot(0), teleported(false), nlive(0) {
        fputs("r\n", trace); ++n_scen;
    }
    void note_op(char op) {
        if (op == last_op) ++last_run;
        else { flush_rle(); last_op = op; last_run = 1; }
    }
    void flush_rle() {
        if (last_op) { char b[40]; snprintf(b, sizeof b, "%s%c%llu", rle.empty() ? "" : " ", last_op, last_run); rle += b; }
        last_op = 0; last_run = 0;
    }
    std::string ops_so_far() { std::string s = rle; if (last_op) { char b[40]; snprintf(b, sizeof b, "%s%c%llu", rle.empty() ? "" : " ", last_op, last_run); s += b; } return s; }
    bool is_live(u64 slot) const { return (teleported || slot >= LIVE_LIMIT) ? live_big.count(slot) != 0 : (slot < live.size() && live[slot]); }
    void set_live(u64 slot, bool v) {
        if (teleported || slot >= LIVE_LIMIT) { if (v) live_big.insert(slot); else live_big.erase(slot); return; }
        if (slot >= live.size()) live.resize(slot * 2 + 16, 0);
        live[slot] = v;
    }
    // start from the state the closed form gives for count n0 (only after layout_ok())
    void teleport(u64 n0) {
        State st = ref_state(n0); Layout l; l.counter = st.counter; l.reversed = st.reversed; l.hb = (int)st.hb;
        memcpy(&c, &l, sizeof l);
        teleported = true; inc_only = false; nlive = n0;
        char b[40]; snprintf(b, sizeof b, "s%llu", n0); rle = b;
        fprintf(trace, "s %llx %llx ", st.counter, st.reversed); put_s(trace, st.hb); fputc('\n', trace);
    }

    void fail(std::string const& kinds, std::string const& detail) {
        failed = true;
        Fail f; f.set = true; f.scen = name; f.index = index; f.kinds = kinds; f.detail = detail; f.ops = ops_so_far(); f.len = index + 1;
        if (name[0] == 'E') { if (!best_small.set || f.len < best_small.len) best_small = f; }
        else if (fails.size() < 8) fails.push_back(f);
    }
    void line(char op, u64 slot) {
        State s = observe(c);
        fprintf(trace, "%c %llx %llx %llx ", op, slot, s.counter, s.reversed); put_s(trace, s.hb); fputc('\n', trace);
    }

    void inc() {
        u64 count_before = nlive; ++nlive;
        note_op('i'); classify('i', count_before); ++n_calls; ++n_inc; cap_check();
        State before = observe(c);
        u64 slot = c.inc();
        line('i', slot);
        if (!failed) {
            ++n_oracle_checks;
            State after = observe(c);
            u64 n = count_before + 1; int h = ref_log2(n);
            std::string k; char d[256];
            if (!(slot >= (1ULL << h) && (slot >> 1) < (1ULL << h))) k += "slot-outside-level,";
            if (slot != ref_slot(n)) k += "slot-differs-from-reference,";
            if (after.counter != n) k += "value-wrong,";
            if (after.reversed != slot) k += "reversed-value-differs-from-returned-slot,";
            if (after.hb != h) k += "high-bit-wrong,";
            if (is_live(slot)) k += "slot-repeated,";
            if (!teleported && slot > 1 && !is_live(slot >> 1)) k += "parent-not-allocated,";
            if (!k.empty()) {
                snprintf(d, sizeof d, "inc #%llu (count %llu -> %llu): returned slot %llu, reference slot %llu (level %d); state after: value=%llu reversed=%llu high_bit=%lld (expected %llu/%llu/%d)",
                         index, count_before, n, slot, ref_slot(n), h, after.counter, after.reversed, after.hb, n, ref_slot(n), h);
                k.erase(k.size() - 1); fail(k, d);
            } else {
                saved.push_back(before); stack.push_back(slot); set_live(slot, true);
                if (n > max_count_seen) max_count_seen = n;
                if (slot > max_slot) max_slot = slot;
                if (inc_only) {
                    // the property's first sentence: first n slots == {1..n}  <=>  distinct (checked) and max <= n
                    if (max_slot > n && !prefix_reported) {
                        prefix_reported = true; ++n_prefix_scen;
                        if (prefix_n == 0 || n < prefix_n) {
                            prefix_n = n; prefix_scen = name; prefix_slots.clear();
                            for (u64 i = 0; i < stack.size() && i < 64; ++i) { char b[24]; snprintf(b, sizeof b, "%s%llu", i ? "," : "", stack[i]); prefix_slots += b; }
                        }
                    }
                    // level permutation at full levels
                    if (((n + 1) & n) == 0) {
                        u64 lo = 1ULL << h, missing = 0, first_missing = 0;
                        for (u64 s2 = lo; s2 < 2 * lo; ++s2) if (!is_live(s2)) { if (!missing) first_missing = s2; ++missing; }
                        if (missing) { snprintf(d, sizeof d, "after %llu increments level %d = [%llu,%llu) misses %llu slot(s), first %llu", n, h, lo, 2 * lo, missing, first_missing);
                                       fail("level-not-permutation", d); }
                    }
                }
            }
        }
        ++index;
    }
    void dec() {
        u64 count_before = nlive; --nlive;
        note_op('d'); classify('d', count_before); ++n_calls; ++n_dec; inc_only = false; cap_check();
        u64 slot = c.dec();
        line('d', slot);
        if (!failed) {
            ++n_oracle_checks;
            State after = observe(c);
            std::string k; char d[320];
            bool from_stack = !stack.empty();            // teleported: below the starting count the reference closed form is the oracle
            u64 top = from_stack ? stack.back() : ref_slot(count_before); State want = from_stack ? saved.back() : ref_state(count_before - 1);
            if (slot != top) k += "dec-wrong-slot,";
            if (!same(after, want)) k += "dec-does-not-restore,";
            if (!k.empty()) {
                snprintf(d, sizeof d, "dec #%llu (count %llu -> %llu): returned slot %llu, most recently produced live slot %llu; state after: value=%llu reversed=%llu high_bit=%lld, state before the matching inc: value=%llu reversed=%llu high_bit=%lld",
                         index, count_before, count_before - 1, slot, top, after.counter, after.reversed, after.hb, want.counter, want.reversed, want.hb);
                k.erase(k.size() - 1); fail(k, d);
            } else if (from_stack) { set_live(top, false); stack.pop_back(); saved.pop_back(); }
        }
        ++index;
    }
    bool can_dec() const { return nlive > 0; }
    u64 count() const { return nlive; }
};

// ---- scenario families ----------------------------------------------------------------------------
static void scen_ramp(u64 N) {
    char nm[64]; snprintf(nm, sizeof nm, "A:ramp-%llu", N);
    Scenario s(nm);
    for (u64 i = 0; i < N; ++i) s.inc();
    while (s.can_dec()) s.dec();
    if (s.failed) return;
    // a second climb after the full descent must reproduce the same slots (state is back to the origin)
    for (u64 i = 0; i < 40 && i < N; ++i) s.inc();
}

// every Dyck-like sequence (never below zero) of exactly L operations, each from a fresh counter
static void scen_exhaustive(int L) {
    std::vector<char> ops(L, 'i');
    // enumerate by backtracking: standard odometer over {i,d}^L filtered by validity
    u64 total = 1ULL << L;
    for (u64 m = 0; m < total; ++m) {
        int depth = 0; bool ok = true;
        for (int j = 0; j < L && ok; ++j) { if ((m >> (L - 1 - j)) & 1) { if (depth == 0) ok = false; else --depth; } else ++depth; }
        if (!ok) continue;
        char nm[16]; snprintf(nm, sizeof nm, "E:%d", L);
        Scenario s(nm);
        for (int j = 0; j < L; ++j) { if ((m >> (L - 1 - j)) & 1) s.dec(); else s.inc(); }
    }
}

static void scen_walk(Rng& rng, int id, u64 len, int kind, int maxlevel) {
    char nm[64]; snprintf(nm, sizeof nm, "W:%d:kind%d", id, kind);
    Scenario s(nm);
    if (kind == 0) {                                        // uniform, reflecting at 0
        for (u64 i = 0; i < len; ++i) { if (s.can_dec() && rng.below(2)) s.dec(); else s.inc(); }
    } else if (kind == 1) {                                 // bursts: up-biased then down-biased phases
        u64 i = 0;
        while (i < len) {
            u64 ph = 1 + rng.below(200); bool up = rng.below(3) != 0;
            for (u64 j = 0; j < ph && i < len; ++j, ++i) {
                bool inc = up ? rng.below(4) != 0 : rng.below(4) == 0;
                if (!inc && s.can_dec()) s.dec(); else s.inc();
            }
        }
    } else {                                                // hover around a level boundary 2^k
        int k = 2 + (int)rng.below((u64)(maxlevel - 1));     // 2..maxlevel
        u64 target = (1ULL << k) - 1 - rng.below(3);         // >= 1
        while (s.count() < target) s.inc();
        for (u64 i = 0; i < len; ++i) {
            u64 c = s.count(); bool inc;
            if (c + 6 < (1ULL << k)) inc = true; else if (c > (1ULL << k) + 6) inc = false; else inc = rng.below(2) != 0;
            if (!inc && s.can_dec()) s.dec(); else s.inc();
        }
    }
    while (s.can_dec() && rng.below(64) != 0) s.dec();       // mostly drain: exercises the descent through the levels
}

// levels 17..63 and the top of the range, from teleported states
static u64 n_teleports = 0;
static void scen_teleport(Rng& rng, bool thorough) {
    for (int k = 17; k <= 64; ++k) {
        {   // cross the boundary 2^k upwards and back (k = 64: up to brc_max = 2^64-1 and back, no crossing)
            char nm[64]; snprintf(nm, sizeof nm, "T:boundary-%d", k);
            Scenario s(nm); u64 top = k == 64 ? ~0ULL : (1ULL << k);
            s.teleport(top - 4); ++n_teleports;
            int up = k == 64 ? 3 : 9;
            for (int i = 0; i < up; ++i) s.inc();
            for (int i = 0; i < up + 3; ++i) s.dec();
            for (int i = 0; i < 3; ++i) s.inc();
        }
        if (k == 64) break;
        int reps = thorough ? 8 : 2;
        for (int r = 0; r < reps; ++r) {   // a random position inside level k, random walk
            char nm[64]; snprintf(nm, sizeof nm, "T:inside-%d-%d", k, r);
            Scenario s(nm); u64 lo = 1ULL << k;
            u64 n0 = lo + rng.next() % lo; if (n0 > ~0ULL - 300) n0 = ~0ULL - 300;
            if (n0 < lo + 200 && r == 0) n0 = lo + 200;
            s.teleport(n0); ++n_teleports;
            for (int i = 0; i < (thorough ? 400 : 120); ++i) { if (rng.below(2)) s.dec(); else s.inc(); }
        }
    }
}

static void write_report() {
    fprintf(report, "STAT calls %llu\nSTAT inc %llu\nSTAT dec %llu\nSTAT scenarios %llu\nSTAT oracle_checks %llu\nSTAT max_count %llu\n",
            n_calls, n_inc, n_dec, n_scen, n_oracle_checks, max_count_seen);
    if (prefix_n) fprintf(report, "PREFIX %s %llu %s %llu\n", prefix_scen.c_str(), prefix_n, prefix_slots.c_str(), n_prefix_scen);
    for (auto const& kv : cls) fprintf(report, "CLASS %s %llu\n", kv.first.c_str(), kv.second);
    if (best_small.set) fails.insert(fails.begin(), best_small);
    for (auto const& f : fails)
        fprintf(report, "FAIL\t%s\t%llu\t%s\t%s\t%s\n", f.scen.c_str(), f.index, f.kinds.c_str(), f.ops.c_str(), f.detail.c_str());
}

int main(int argc, char** argv) {
    if (argc >= 6 && !strcmp(argv[1], "run")) {
        u64 seed = strtoull(argv[2], nullptr, 10); bool thorough = !strcmp(argv[3], "thorough");
        trace = fopen(argv[4], "w"); report = fopen(argv[5], "w");
        if (!trace || !report) { perror("open"); return 2; }
        Rng rng(seed ^ 0xC26C26C26ULL);
        scen_exhaustive(thorough ? 20 : 16);                 // exhaustively for small counts (all shorter ones are prefixes)
        scen_ramp(thorough ? (1ULL << 20) : (1ULL << 16));   // every n up to the bound, then all the way down
        int nw = thorough ? 240 : 60; u64 len = thorough ? 6000 : 3000; int maxlevel = 16;   // boundaries of the levels above 16 are crossed by the teleport scenarios
        for (int w = 0; w < nw; ++w) scen_walk(rng, w, len, w % 3, maxlevel);
        bool lay = layout_ok();
        if (lay) scen_teleport(rng, thorough);
        fprintf(report, "STAT teleport_layout_ok %d\nSTAT teleports %llu\n", lay ? 1 : 0, n_teleports);
        write_report();
        fclose(trace); fclose(report);
        return 0;
    }
    if (argc >= 4 && !strcmp(argv[1], "ops")) {
        trace = fopen(argv[2], "w"); report = fopen(argv[3], "w");
        if (!trace || !report) { perror("open"); return 2; }
        {
            Scenario s("R:replay");
            for (int a = 4; a < argc; ++a) {
                char op = argv[a][0]; u64 n = strtoull(argv[a] + 1, nullptr, 10);
                if (op == 's') { if (a == 4 && layout_ok()) s.teleport(n); else { s.fail("replay-teleport-impossible", "s<n> must come first and needs the known member layout"); break; } continue; }
                for (u64 i = 0; i < n; ++i) { if (op == 'i') s.inc(); else if (op == 'd') { if (!s.can_dec()) { if (!s.failed) s.fail("replay-underflow", "dec on an empty counter requested"); break; } s.dec(); } }
            }
        }
        write_report();
        fclose(trace); fclose(report);
        return 0;
    }
    fprintf(stderr, "usage: sweep run <seed> <quick|thorough> <trace> <report> | sweep ops <trace> <report> <i<n>|d<n>>...\n");
    return 2;
}
