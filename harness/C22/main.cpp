// C22 harness: runs client programs of CS / TryCS operations on the real cds::sync::spin_lock under the
// deterministic scheduler and prints the event log (format: ocaml/conc_main.ml).
// usage: main <casefile>      cfg = [nlocks; spin fuel (ignored here: the real lock spins until it gets the lock)]
#include <cds/sync/spinlock.h>
#include <cds/algo/atomic.h>
#include <vcase.h>
#include <memory>

namespace vs = khizmax_libcds_verif;
typedef cds::sync::spin_lock<cds::backoff::empty> lock_type;

int main( int argc, char** argv )
{
    if ( argc < 2 ) { std::fprintf( stderr, "usage: %s casefile\n", argv[0] ); return 2; }
    std::ifstream in( argv[1] );
    vcase::Case c;
    while ( vcase::read_case( in, c )) {
        size_t nlocks = c.cfg.size() > 0 ? (size_t) c.cfg[0] : 1;
        // locks first, then data words, in one block: object ids by first appearance do not depend on layout
        std::unique_ptr<lock_type[]> locks( new lock_type[nlocks] );
        std::unique_ptr<atomics::atomic<int>[]> data( new atomics::atomic<int>[nlocks] );
        for ( size_t i = 0; i < nlocks; ++i ) data[i].store( 0, atomics::memory_order_relaxed );
        // monitor: real occupancy of each critical section
        std::vector<int> inside( nlocks, 0 );
        int worst = 0;

        vcase::run_workers( c, [&]( int t ) {
            for ( auto const& op : c.threads[t] ) {
                long l = op.size() > 1 ? op[1] : 0;
                bool got = false;
                if ( op[0] == 1 ) { vcase::emitf( "inv_cs %ld", l ); locks[l].lock(); got = true; }
                else if ( op[0] == 2 ) { vcase::emitf( "inv_trycs %ld", l ); got = locks[l].try_lock(); }
                else continue;
                if ( got ) {
                    vcase::emitf( "enter %ld", l );
                    if ( ++inside[l] > worst ) worst = inside[l];
                    (void) data[l].load( atomics::memory_order_relaxed );   // scheduling point inside the section
                    --inside[l];
                    vcase::emitf( "leave %ld", l );
                    locks[l].unlock();
                    vcase::emitf( "ret 1" );
                }
                else
                    vcase::emitf( "ret 0" );
            }
        }, nullptr, nullptr, 20000 );
        vcase::print_log( c );
        std::printf( "monitor max_inside %d\n", worst );
    }
    return 0;
}
