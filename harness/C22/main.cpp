// C22 harness: runs client programs on the real libcds locks / monitors under the deterministic scheduler and
// prints the event log (format: ocaml/conc_main.ml) followed by the verdict of an occupancy monitor.
// usage: main <casefile> [mode]
//   mode spin (default)  cds::sync::spin_lock                      model LV.Model.SpinLock     ops [1;l] CS, [2;l] TryCS
//   mode re              cds::sync::reentrant_spin_lock            model LV.Model.Reentrant    op = nest [k1;l1;k2;l2;...]
//   mode arr             cds::sync::lock_array<spin_lock, mod>     model LV.Model.LocksArray   see run_arr
//   mode inj             cds::sync::injecting_monitor<spin_lock>   model LV.Model.LocksInj     see run_inj
//   mode pool            cds::sync::pool_monitor<trivial pool>     model LV.Model.PoolMon      see run_pool
// cfg[0] = number of locks / cells / nodes; cfg[1] = spin fuel of the model (ignored here: the real locks spin
// until they get the lock; the generators only produce deadlock-free programs).
#include <cds/sync/spinlock.h>
#include <cds/sync/lock_array.h>
#include <cds/sync/injecting_monitor.h>
#include <cds/sync/pool_monitor.h>
#include <cds/algo/atomic.h>
#include <vcase.h>
#include <memory>
#include <cstring>

namespace vs = khizmax_libcds_verif;
typedef cds::sync::spin_lock<cds::backoff::empty> lock_type;
typedef cds::sync::reentrant_spin_lock<uint32_t, cds::backoff::empty> re_lock_type;

// ---------------------------------------------------------------------------------------------------------
// occupancy monitor (the failing-input search): inside[l][t] = nesting depth of thread t in the critical
// section guarded by l; worst = max number of *distinct* threads inside one section at the same moment.
struct occupancy {
    std::vector<std::vector<int>> inside;
    int worst = 0;
    int negative = 0;
    occupancy( size_t nlocks, size_t nthreads ) : inside( nlocks, std::vector<int>( nthreads, 0 )) {}
    void enter( size_t l, int t )
    {
        ++inside[l][t];
        int k = 0;
        for ( int d : inside[l] ) if ( d > 0 ) ++k;
        if ( k > worst ) worst = k;
    }
    void leave( size_t l, int t )
    {
        if ( --inside[l][t] < 0 ) ++negative;
    }
};

// ---------------------------------------------------------------------------------------------------------
static void run_spin( vcase::Case const& c )
{
    size_t nlocks = c.cfg.size() > 0 ? (size_t) c.cfg[0] : 1;
    // locks first, then data words, in one block: object ids by first appearance do not depend on layout
    std::unique_ptr<lock_type[]> locks( new lock_type[nlocks] );
    std::unique_ptr<atomics::atomic<int>[]> data( new atomics::atomic<int>[nlocks] );
    for ( size_t i = 0; i < nlocks; ++i ) data[i].store( 0, atomics::memory_order_relaxed );
    occupancy mon( nlocks, c.threads.size());

    vcase::run_workers( c, [&]( int t ) {
        for ( auto const& op : c.threads[t] ) {
            long l = op.size() > 1 ? op[1] : 0;
            bool got = false;
            if ( op[0] == 1 ) { vcase::emitf( "inv_cs %ld", l ); locks[l].lock(); got = true; }
            else if ( op[0] == 2 ) { vcase::emitf( "inv_trycs %ld", l ); got = locks[l].try_lock(); }
            else continue;
            if ( got ) {
                vcase::emitf( "enter %ld", l );
                mon.enter( l, t );
                (void) data[l].load( atomics::memory_order_relaxed );   // scheduling point inside the section
                mon.leave( l, t );
                vcase::emitf( "leave %ld", l );
                locks[l].unlock();
                vcase::emitf( "ret 1" );
            }
            else
                vcase::emitf( "ret 0" );
        }
    }, nullptr, nullptr, 20000 );
    vcase::print_log( c );
    std::printf( "monitor max_inside %d\n", mon.worst );
}

// ---------------------------------------------------------------------------------------------------------
// reentrant_spin_lock: an operation is a nest k1 l1 k2 l2 ... (k = 0 lock(), 1 try_lock(), >= 2 try_lock(k))
static void run_re( vcase::Case const& c )
{
    size_t nlocks = c.cfg.size() > 0 ? (size_t) c.cfg[0] : 1;
    std::unique_ptr<re_lock_type[]> locks( new re_lock_type[nlocks] );
    std::unique_ptr<atomics::atomic<int>[]> data( new atomics::atomic<int>[nlocks] );
    for ( size_t i = 0; i < nlocks; ++i ) data[i].store( 0, atomics::memory_order_relaxed );
    occupancy mon( nlocks, c.threads.size());

    std::function<void( int, vcase::op_t const&, size_t )> nest = [&]( int t, vcase::op_t const& op, size_t i ) {
        if ( i + 1 >= op.size()) return;
        long k = op[i], l = op[i + 1];
        vcase::emitf( "inv %ld %ld", k, l );
        bool got;
        if ( k == 0 ) { locks[l].lock(); got = true; }
        else if ( k == 1 ) got = locks[l].try_lock();
        else got = locks[l].try_lock( (unsigned int) k );
        if ( got ) {
            vcase::emitf( "enter %ld", l );
            mon.enter( l, t );
            (void) data[l].load( atomics::memory_order_relaxed );
            nest( t, op, i + 2 );
            mon.leave( l, t );
            vcase::emitf( "leave %ld", l );
            locks[l].unlock();
            vcase::emitf( "rel %ld", l );
        }
        else
            vcase::emitf( "fail %ld", l );
    };

    vcase::run_workers( c, [&]( int t ) {
        for ( auto const& op : c.threads[t] ) {
            nest( t, op, 0 );
            vcase::emitf( "ret" );
        }
    }, nullptr, nullptr, 20000 );
    vcase::print_log( c );
    std::printf( "monitor max_inside %d\n", mon.worst );
}

int main( int argc, char** argv )
{
    if ( argc < 2 ) { std::fprintf( stderr, "usage: %s casefile [spin|re|arr|inj|pool]\n", argv[0] ); return 2; }
    std::string mode = argc > 2 ? argv[2] : "spin";
    std::ifstream in( argv[1] );
    vcase::Case c;
    while ( vcase::read_case( in, c )) {
        if ( mode == "spin" ) run_spin( c );
        else if ( mode == "re" ) run_re( c );
        else { std::fprintf( stderr, "unknown mode %s\n", mode.c_str()); return 2; }
    }
    return 0;
}
