// C22 harness: runs client programs on the real libcds locks / monitors under the deterministic scheduler and
// prints the event log (format: ocaml/conc_main.ml) followed by the verdict of an occupancy monitor.
// usage: main <casefile> [mode]
//   mode spin (default)  cds::sync::spin_lock                      model LV.Model.SpinLock     ops [1;l] CS, [2;l] TryCS
//   mode re              cds::sync::reentrant_spin_lock            model LV.Model.Reentrant    op = nest [k1;l1;k2;l2;...]
//   mode arr             cds::sync::lock_array<spin_lock, mod>     model LV.Model.LocksArray   see run_arr
//   mode inj             cds::sync::injecting_monitor<spin_lock>   model LV.Model.LocksInj     see run_inj
//   mode pool            cds::sync::pool_monitor<trivial pool>     model LV.Model.PoolMon      see run_pool
// cfg[0] = number of locks / cells / nodes; cfg[1] = spin fuel of the model (ignored here: the real locks spin
// until they get the lock; the generators only produce deadlock-free programs).
#include <cds/sync/spinlock.h>
#include <cds/sync/lock_array.h>
#include <cds/sync/injecting_monitor.h>
#include <cds/sync/pool_monitor.h>
#include <cds/algo/atomic.h>
#include <vcase.h>
#include <memory>
#include <cstring>
#include <csignal>
#include <unistd.h>

namespace vs = khizmax_libcds_verif;
typedef cds::sync::spin_lock<cds::backoff::empty> lock_type;
typedef cds::sync::reentrant_spin_lock<uint32_t, cds::backoff::empty> re_lock_type;

// ---------------------------------------------------------------------------------------------------------
// occupancy monitor (the failing-input search): inside[l][t] = nesting depth of thread t in the critical
// section guarded by l; worst = max number of *distinct* threads inside one section at the same moment.
struct occupancy {
    std::vector<std::vector<int>> inside;
    int worst = 0;
    int negative = 0;
    occupancy( size_t nlocks, size_t nthreads ) : inside( nlocks, std::vector<int>( nthreads, 0 )) {}
    void enter( size_t l, int t )
    {
        ++inside[l][t];
        int k = 0;
        for ( int d : inside[l] ) if ( d > 0 ) ++k;
        if ( k > worst ) worst = k;
    }
    void leave( size_t l, int t )
    {
        if ( --inside[l][t] < 0 ) ++negative;
    }
};

// ---------------------------------------------------------------------------------------------------------
static void run_spin( vcase::Case const& c )
{
    size_t nlocks = c.cfg.size() > 0 ? (size_t) c.cfg[0] : 1;
    // locks first, then data words, in one block: object ids by first appearance do not depend on layout
    std::unique_ptr<lock_type[]> locks( new lock_type[nlocks] );
    std::unique_ptr<atomics::atomic<int>[]> data( new atomics::atomic<int>[nlocks] );
    for ( size_t i = 0; i < nlocks; ++i ) data[i].store( 0, atomics::memory_order_relaxed );
    occupancy mon( nlocks, c.threads.size());

    vcase::run_workers( c, [&]( int t ) {
        for ( auto const& op : c.threads[t] ) {
            long l = op.size() > 1 ? op[1] : 0;
            bool got = false;
            if ( op[0] == 1 ) { vcase::emitf( "inv_cs %ld", l ); locks[l].lock(); got = true; }
            else if ( op[0] == 2 ) { vcase::emitf( "inv_trycs %ld", l ); got = locks[l].try_lock(); }
            else continue;
            if ( got ) {
                vcase::emitf( "enter %ld", l );
                mon.enter( l, t );
                (void) data[l].load( atomics::memory_order_relaxed );   // scheduling point inside the section
                mon.leave( l, t );
                vcase::emitf( "leave %ld", l );
                locks[l].unlock();
                vcase::emitf( "ret 1" );
            }
            else
                vcase::emitf( "ret 0" );
        }
    }, nullptr, nullptr, 20000 );
    vcase::print_log( c );
    std::printf( "monitor max_inside %d\n", mon.worst );
}

// ---------------------------------------------------------------------------------------------------------
// reentrant_spin_lock: an operation is a nest k1 l1 k2 l2 ... (k = 0 lock(), 1 try_lock(), >= 2 try_lock(k))
static void run_re( vcase::Case const& c )
{
    size_t nlocks = c.cfg.size() > 0 ? (size_t) c.cfg[0] : 1;
    std::unique_ptr<re_lock_type[]> locks( new re_lock_type[nlocks] );
    std::unique_ptr<atomics::atomic<int>[]> data( new atomics::atomic<int>[nlocks] );
    for ( size_t i = 0; i < nlocks; ++i ) data[i].store( 0, atomics::memory_order_relaxed );
    occupancy mon( nlocks, c.threads.size());

    std::function<void( int, vcase::op_t const&, size_t )> nest = [&]( int t, vcase::op_t const& op, size_t i ) {
        if ( i + 1 >= op.size()) return;
        long k = op[i], l = op[i + 1];
        vcase::emitf( "inv %ld %ld", k, l );
        bool got;
        if ( k == 0 ) { locks[l].lock(); got = true; }
        else if ( k == 1 ) got = locks[l].try_lock();
        else got = locks[l].try_lock( (unsigned int) k );
        if ( got ) {
            vcase::emitf( "enter %ld", l );
            mon.enter( l, t );
            (void) data[l].load( atomics::memory_order_relaxed );
            nest( t, op, i + 2 );
            mon.leave( l, t );
            vcase::emitf( "leave %ld", l );
            locks[l].unlock();
            vcase::emitf( "rel %ld", l );
        }
        else
            vcase::emitf( "fail %ld", l );
    };

    vcase::run_workers( c, [&]( int t ) {
        for ( auto const& op : c.threads[t] ) {
            nest( t, op, 0 );
            vcase::emitf( "ret" );
        }
    }, nullptr, nullptr, 20000 );
    vcase::print_log( c );
    std::printf( "monitor max_inside %d\n", mon.worst );
}

// ---------------------------------------------------------------------------------------------------------
// lock_array< spin_lock, mod_select_policy >: nest k1 h1 k2 h2 ...  (k = 0 lock(h)/unlock(cell), 1 try_lock(h),
// 2 std::unique_lock<lock_array>( arr ) = lock_all/unlock_all, 3 std::unique_lock<lock_array>( arr, h )).
// The monitor counts occupancy per *specified* cell h mod size, whatever cell the implementation returned.
typedef cds::sync::lock_array<lock_type, cds::sync::mod_select_policy> arr_type;

static void run_arr( vcase::Case const& c )
{
    size_t size = c.cfg.size() > 0 ? (size_t) c.cfg[0] : 1;
    arr_type arr( size );
    std::unique_ptr<atomics::atomic<int>[]> data( new atomics::atomic<int>[size + 2] );
    for ( size_t i = 0; i < size + 2; ++i ) data[i].store( 0, atomics::memory_order_relaxed );
    occupancy mon( size, c.threads.size());

    std::function<void( int, vcase::op_t const&, size_t )> nest = [&]( int t, vcase::op_t const& op, size_t i ) {
        if ( i + 1 >= op.size()) return;
        long k = op[i], h = op[i + 1];
        size_t spec = (size_t) h % size;
        vcase::emitf( "inv %ld %ld", k, h );
        if ( k == 2 ) {
            std::unique_lock<arr_type> guard( arr );
            for ( size_t x = 0; x < size; ++x ) { vcase::emitf( "enter %ld", (long) x ); mon.enter( x, t ); }
            (void) data[0].load( atomics::memory_order_relaxed );
            nest( t, op, i + 2 );
            for ( size_t x = 0; x < size; ++x ) { mon.leave( x, t ); vcase::emitf( "leave %ld", (long) x ); }
        }
        else if ( k == 3 ) {
            std::unique_lock<arr_type> guard( arr, (size_t) h );
            vcase::emitf( "enter %ld", (long) spec );
            mon.enter( spec, t );
            (void) data[spec].load( atomics::memory_order_relaxed );
            nest( t, op, i + 2 );
            mon.leave( spec, t );
            vcase::emitf( "leave %ld", (long) spec );
        }
        else {
            size_t cell = k == 1 ? arr.try_lock( (size_t) h ) : arr.lock( (size_t) h );
            if ( cell == arr_type::c_nUnspecifiedCell ) { vcase::emitf( "fail %ld", h ); return; }
            vcase::emitf( "enter %ld", (long) cell );
            mon.enter( spec, t );
            (void) data[cell < size + 2 ? cell : size + 1].load( atomics::memory_order_relaxed );
            nest( t, op, i + 2 );
            mon.leave( spec, t );
            vcase::emitf( "leave %ld", (long) cell );
            arr.unlock( cell );
        }
    };

    vcase::run_workers( c, [&]( int t ) {
        for ( auto const& op : c.threads[t] ) {
            nest( t, op, 0 );
            vcase::emitf( "ret" );
        }
    }, nullptr, nullptr, 20000 );
    vcase::print_log( c );
    std::printf( "monitor max_inside %d\n", mon.worst );
}

// ---------------------------------------------------------------------------------------------------------
// injecting_monitor< spin_lock >: nest k1 n1 k2 n2 ...  (k = 0 monitor.lock(node)/unlock(node), 3 monitor_scoped_lock)
typedef cds::sync::injecting_monitor<lock_type> inj_monitor;
struct inj_node {
    inj_monitor::node_injection m_SyncMonitorInjection;
};

static void run_inj( vcase::Case const& c )
{
    size_t nnodes = c.cfg.size() > 0 ? (size_t) c.cfg[0] : 1;
    inj_monitor monitor;
    std::unique_ptr<inj_node[]> nodes( new inj_node[nnodes] );
    std::unique_ptr<atomics::atomic<int>[]> data( new atomics::atomic<int>[nnodes] );
    for ( size_t i = 0; i < nnodes; ++i ) data[i].store( 0, atomics::memory_order_relaxed );
    occupancy mon( nnodes, c.threads.size());

    std::function<void( int, vcase::op_t const&, size_t )> nest = [&]( int t, vcase::op_t const& op, size_t i ) {
        if ( i + 1 >= op.size()) return;
        long k = op[i], n = op[i + 1];
        vcase::emitf( "inv %ld %ld", k, n );
        auto body = [&]() {
            vcase::emitf( "enter %ld", n );
            mon.enter( n, t );
            (void) data[n].load( atomics::memory_order_relaxed );
            nest( t, op, i + 2 );
            mon.leave( n, t );
            vcase::emitf( "leave %ld", n );
        };
        if ( k == 3 ) {
            inj_monitor::scoped_lock<inj_node> sl( monitor, nodes[n] );
            body();
        }
        else {
            monitor.lock( nodes[n] );
            body();
            monitor.unlock( nodes[n] );
        }
    };

    vcase::run_workers( c, [&]( int t ) {
        for ( auto const& op : c.threads[t] ) {
            nest( t, op, 0 );
            vcase::emitf( "ret" );
        }
    }, nullptr, nullptr, 20000 );
    vcase::print_log( c );
    std::printf( "monitor max_inside %d\n", mon.worst );
}

// ---------------------------------------------------------------------------------------------------------
// pool_monitor< trivial_pool, backoff::empty, false >: nest k1 n1 k2 n2 ... (k = 0 monitor.lock/unlock, 3 scoped_lock)
// cfg = [nodes; model spin fuel; pool capacity].
//
// trivial_pool: the LockPool of this instantiation (NOT cds::memory::vyukov_queue_pool, see Model/PoolMon.v): a
// LIFO free list of preallocated spin locks.  allocate / deallocate perform exactly one instrumented access
// (fetch_add on gate_), then - in the same scheduled step - pop / push the plain vector and emit
// "pool_alloc x" / "pool_free x".  It also carries the implementation-side monitors of the pool properties.
struct trivial_pool {
    typedef lock_type value_type;
    std::vector<value_type*>    all_, free_;
    atomics::atomic<int>        gate_;
    int bad_free = 0;       // deallocate of a lock that is locked, installed in a node, or already free
    int bad_alloc = 0;      // allocate handed out a lock that is installed in a node
    std::function<bool( value_type* )> installed;   // set by the harness: is p the m_pLock of some node?

    static trivial_pool*& instance() { static trivial_pool* p = nullptr; return p; }

    trivial_pool( size_t cap ) : gate_( 0 )
    {
        for ( size_t i = 0; i < cap; ++i ) all_.push_back( new value_type );
        for ( size_t i = cap; i-- > 0; ) free_.push_back( all_[i] );   // back() = all_[0]: object 0 goes out first
        instance() = this;
    }
    ~trivial_pool() { for ( auto p : all_ ) delete p; instance() = nullptr; }

    long id_of( value_type* p ) const
    {
        for ( size_t i = 0; i < all_.size(); ++i ) if ( all_[i] == p ) return (long) i;
        return -1;
    }
    bool is_free( value_type* p ) const
    {
        for ( auto q : free_ ) if ( q == p ) return true;
        return false;
    }
    value_type* allocate( size_t )
    {
        gate_.fetch_add( 1, atomics::memory_order_relaxed );
        value_type* p;
        if ( free_.empty()) { vs::passthrough_scope ps; p = new value_type; all_.push_back( p ); }
        else { p = free_.back(); free_.pop_back(); }
        if ( installed && installed( p )) ++bad_alloc;
        vcase::emitf( "pool_alloc %ld", id_of( p ));
        return p;
    }
    void deallocate( value_type* p, size_t )
    {
        gate_.fetch_add( 1, atomics::memory_order_relaxed );
        bool locked;
        { vs::passthrough_scope ps; locked = p->is_locked(); }
        if ( locked || is_free( p ) || ( installed && installed( p ))) ++bad_free;
        free_.push_back( p );
        vcase::emitf( "pool_free %ld", id_of( p ));
    }
};

typedef cds::sync::pool_monitor<trivial_pool, cds::backoff::empty, false> pm_type;
struct pool_node {
    pm_type::node_injection m_SyncMonitorInjection;
};

static void run_pool( vcase::Case const& c )
{
    size_t nnodes = c.cfg.size() > 0 ? (size_t) c.cfg[0] : 1;
    size_t cap = c.cfg.size() > 2 ? (size_t) c.cfg[2] : 8;
    {
        pm_type monitor( cap );
        trivial_pool& pool = *trivial_pool::instance();
        std::unique_ptr<pool_node[]> nodes( new pool_node[nnodes] );
        std::unique_ptr<atomics::atomic<int>[]> data( new atomics::atomic<int>[nnodes] );
        for ( size_t i = 0; i < nnodes; ++i ) data[i].store( 0, atomics::memory_order_relaxed );
        occupancy mon( nnodes, c.threads.size());
        int shared = 0;     // a lock installed in two nodes, or installed while in the free list
        pool.installed = [&]( lock_type* p ) {
            for ( size_t i = 0; i < nnodes; ++i ) if ( nodes[i].m_SyncMonitorInjection.m_pLock == p ) return true;
            return false;
        };
        auto check_sharing = [&]() {
            for ( size_t i = 0; i < nnodes; ++i ) {
                lock_type* p = nodes[i].m_SyncMonitorInjection.m_pLock;
                if ( !p ) continue;
                if ( pool.is_free( p )) ++shared;
                for ( size_t j = i + 1; j < nnodes; ++j ) if ( nodes[j].m_SyncMonitorInjection.m_pLock == p ) ++shared;
            }
        };

        std::function<void( int, vcase::op_t const&, size_t )> nest = [&]( int t, vcase::op_t const& op, size_t i ) {
            if ( i + 1 >= op.size()) return;
            long k = op[i], n = op[i + 1];
            vcase::emitf( "inv %ld %ld", k, n );
            auto body = [&]() {
                vcase::emitf( "enter %ld", n );
                mon.enter( n, t );
                check_sharing();
                nest( t, op, i + 2 );
                (void) data[n].load( atomics::memory_order_relaxed );
                check_sharing();
                mon.leave( n, t );
                vcase::emitf( "leave %ld", n );
            };
            if ( k == 3 ) {
                pm_type::scoped_lock<pool_node> sl( monitor, nodes[n] );
                body();
            }
            else {
                monitor.lock( nodes[n] );
                body();
                monitor.unlock( nodes[n] );
            }
        };

        vcase::run_workers( c, [&]( int t ) {
            for ( auto const& op : c.threads[t] ) {
                nest( t, op, 0 );
                vcase::emitf( "ret" );
            }
        }, nullptr, nullptr, 20000 );
        vcase::print_log( c );
        check_sharing();
        std::printf( "monitor max_inside %d\n", mon.worst );
        std::printf( "monitor shared %d\n", shared );
        std::printf( "monitor bad_free %d\n", pool.bad_free + pool.bad_alloc );
        // which event-log object is which pool lock (for the allocation-discipline check of checks/C22.py)
        for ( size_t i = 0; i < pool.all_.size(); ++i ) {
            auto it = vs::S().obj_ids.find( static_cast<void const*>( pool.all_[i] ));
            if ( it != vs::S().obj_ids.end())
                std::printf( "monitor lockobj %ld o%d\n", (long) i, it->second );
        }
        int leaked = 0;     // quiescent: every node must have given its lock back
        for ( size_t i = 0; i < nnodes; ++i ) if ( nodes[i].m_SyncMonitorInjection.m_pLock ) ++leaked;
        std::printf( "monitor still_installed %d\n", leaked );
    }
}

// A case that crashes (e.g. unlock() dereferencing a null m_pLock) or never ends (a lock that is never released)
// must still yield its event log: it is the concrete failing input.  SIGSEGV/SIGABRT/SIGBUS and a per-case
// alarm dump the log collected so far, mark the case, and end the process; checks/C22.py re-runs the rest.
static vcase::Case const* g_case = nullptr;
static void dump_and_exit( int sig )
{
    if ( g_case ) {
        vcase::print_log( *g_case );
        std::printf( "monitor %s %d\n", sig == SIGALRM ? "hung" : "crashed", sig );
        std::fflush( stdout );
    }
    _exit( sig == SIGALRM ? 124 : 128 + sig );
}

int main( int argc, char** argv )
{
    std::signal( SIGSEGV, dump_and_exit ); std::signal( SIGABRT, dump_and_exit ); std::signal( SIGBUS, dump_and_exit );
    std::signal( SIGALRM, dump_and_exit );
    if ( argc < 2 ) { std::fprintf( stderr, "usage: %s casefile [spin|re|arr|inj|pool]\n", argv[0] ); return 2; }
    std::string mode = argc > 2 ? argv[2] : "spin";
    std::ifstream in( argv[1] );
    vcase::Case c;
    while ( vcase::read_case( in, c )) {
        g_case = &c;
        alarm( 30 );
        if ( mode == "spin" ) run_spin( c );
        else if ( mode == "re" ) run_re( c );
        else if ( mode == "arr" ) run_arr( c );
        else if ( mode == "inj" ) run_inj( c );
        else if ( mode == "pool" ) run_pool( c );
        else { std::fprintf( stderr, "unknown mode %s\n", mode.c_str()); return 2; }
        alarm( 0 );
        g_case = nullptr;
        std::fflush( stdout );   // a crash / hang in a later case must not lose this one
    }
    return 0;
}
