// C06 harness: runs client programs of enqueue / dequeue operations on the real libcds queues under the
// deterministic scheduler and prints the event log (format: ocaml/conc_main.ml) followed by
//     monitor drain <v>*        the values still in the queue after the run, dequeued sequentially by main
// usage: main <casefile>
//   cfg = [moir; ic; hp; loop fuel; variant]   cfg[0..3] configure the Coq model, cfg[4] selects the real queue (see main)
//   op  = "1 v"  enq v   -> events  inv_enq v ; ret_enq b
//         "2"    deq     -> events  inv_deq   ; ret_deq b v      (v = 0 when b = 0)
// Built several times with -DC06_GROUP=<g> (one executable per group of variants, compiled in parallel).
#include <cds/init.h>
#include <cds/gc/hp.h>
#include <cds/gc/dhp.h>
#include <cds/threading/model.h>
#include <vcase.h>
#include <memory>
#include <queue>
#include <deque>
#include <list>

#ifndef C06_GROUP
#   define C06_GROUP 0
#endif

#if C06_GROUP == 0
#   include <cds/container/msqueue.h>
#   include <cds/container/moir_queue.h>
#elif C06_GROUP == 1
#   include <cds/intrusive/msqueue.h>
#   include <cds/intrusive/moir_queue.h>
#   include <cds/container/msqueue.h>
#   include <cds/container/moir_queue.h>
#elif C06_GROUP == 2
#   include <cds/container/basket_queue.h>
#   include <cds/intrusive/basket_queue.h>
#elif C06_GROUP == 3
#   include <cds/container/optimistic_queue.h>
#   include <cds/intrusive/optimistic_queue.h>
#elif C06_GROUP == 4
#   include <cds/container/rwqueue.h>
#   include <cds/container/fcqueue.h>
#   include <cds/intrusive/fcqueue.h>
#   include <boost/intrusive/list.hpp>
#endif

namespace vs = khizmax_libcds_verif;
namespace cc = cds::container;
namespace ci = cds::intrusive;

// ---------------------------------------------------------------------------------------------------------
// adapters: enq(v) -> bool, deq(v&) -> bool

template <class Q>
struct value_adapter {
    Q q;
    bool enq( long v ) { return q.enqueue( (int) v ); }
    bool deq( long& v ) { int d = 0; bool b = q.dequeue( d ); v = b ? d : 0; return b; }
    void finish() {}
};

// intrusive queues: items are allocated by the harness and never freed during a case (the disposer only
// records the call); they are released after the case by `finish`
struct garbage {
    static std::vector<void*>& list() { static std::vector<void*> l; return l; }
};

template <class Item>
struct keep_disposer {
    void operator()( Item* ) const {}     // the item stays allocated until the end of the case
};

template <class Q, class Item>
struct intrusive_adapter {
    Q q;
    std::vector<Item*> items[8];    // per worker, freed after the case (index 7: main)
    bool enq( long v )
    {
        int t = vs::my_tid(); if ( t < 0 || t > 6 ) t = 7;
        Item* p = new Item; p->v = (int) v;
        items[t].push_back( p );
        return q.enqueue( *p );
    }
    bool deq( long& v )
    {
        Item* p = q.dequeue();
        v = p ? p->v : 0;
        return p != nullptr;
    }
    void finish() {}
    ~intrusive_adapter() {}
};

// ---------------------------------------------------------------------------------------------------------
template <class A>
void run_one( vcase::Case const& c, bool attach_gc )
{
    std::unique_ptr<A> a( new A );
    vcase::run_workers( c, [&]( int t ) {
        for ( auto const& op : c.threads[t] ) {
            if ( op.empty()) continue;
            if ( op[0] == 1 ) {
                long v = op.size() > 1 ? op[1] : 0;
                vcase::emitf( "inv_enq %ld", v );
                bool b = a->enq( v );
                vcase::emitf( "ret_enq %ld", (long) b );
            }
            else if ( op[0] == 2 ) {
                vcase::emitf( "inv_deq" );
                long v = 0;
                bool b = a->deq( v );
                vcase::emitf( "ret_deq %ld %ld", (long) b, v );
            }
        }
    },
    [&]( int ) { if ( attach_gc ) cds::threading::Manager::attachThread(); },
    [&]( int ) { if ( attach_gc ) cds::threading::Manager::detachThread(); },
    20000 );
    vcase::print_log( c );
    // monitor: what is left in the queue, dequeued sequentially (main thread, not scheduled, not logged)
    std::printf( "monitor drain" );
    for ( int i = 0; i < 64; ++i ) {
        long v = 0;
        if ( !a->deq( v )) break;
        std::printf( " %ld", v );
    }
    std::printf( "\n" );
    a->finish();
    a.reset();
}

// ---------------------------------------------------------------------------------------------------------
// traits
struct tr_ic      : public cc::
#if C06_GROUP <= 1
    msqueue
#elif C06_GROUP == 2
    basket_queue
#elif C06_GROUP == 3
    optimistic_queue
#else
    rwqueue
#endif
    ::traits { typedef cds::atomicity::item_counter item_counter; };

#if C06_GROUP <= 1
struct tr_sc      : public cc::msqueue::traits { typedef cds::opt::v::sequential_consistent memory_model; };
struct tr_ic_sc   : public tr_ic { typedef cds::opt::v::sequential_consistent memory_model; };
#endif

#if C06_GROUP == 1
template <class GC> struct ms_item : public ci::msqueue::node<GC> { int v; };
template <class GC> struct ms_itraits : public ci::msqueue::traits {
    typedef ci::msqueue::base_hook< cds::opt::gc<GC> > hook;
    typedef keep_disposer< ms_item<GC> > disposer;
};
template <class GC> struct ms_itraits_ic : public ms_itraits<GC> { typedef cds::atomicity::item_counter item_counter; };
template <class GC> struct ms_mitem { int v; ci::msqueue::node<GC> hook; };
template <class GC> struct ms_mtraits : public ci::msqueue::traits {
    typedef ci::msqueue::member_hook< offsetof( ms_mitem<GC>, hook ), cds::opt::gc<GC> > hook;
    typedef keep_disposer< ms_mitem<GC> > disposer;
};
#endif

int main( int argc, char** argv )
{
    if ( argc < 2 ) { std::fprintf( stderr, "usage: %s casefile\n", argv[0] ); return 2; }
    cds::Initialize();
    {
        // retired arrays large enough that no scan runs inside a case (a case retires at most 16 nodes per thread)
        cds::gc::HP hp( 16, 16, 4096 );
        cds::gc::DHP dhp( 64 );
        cds::threading::Manager::attachThread();
        std::ifstream in( argv[1] );
        vcase::Case c;
        while ( vcase::read_case( in, c )) {
            long variant = c.cfg.size() > 4 ? c.cfg[4] : 0;     // cfg[0..3] are read by the model only
            switch ( variant ) {
#if C06_GROUP == 0
            case 0: run_one< value_adapter< cc::MSQueue< cds::gc::HP, int > > >( c, true ); break;
            case 1: run_one< value_adapter< cc::MoirQueue< cds::gc::HP, int > > >( c, true ); break;
            case 2: run_one< value_adapter< cc::MSQueue< cds::gc::HP, int, tr_ic > > >( c, true ); break;
            case 3: run_one< value_adapter< cc::MoirQueue< cds::gc::HP, int, tr_ic > > >( c, true ); break;
            case 4: run_one< value_adapter< cc::MSQueue< cds::gc::DHP, int > > >( c, true ); break;
            case 5: run_one< value_adapter< cc::MoirQueue< cds::gc::DHP, int > > >( c, true ); break;
#endif
            default:
                std::printf( "case %s\nendcase unknown-variant\n", c.id.c_str());
            }
        }
        cds::threading::Manager::detachThread();
    }
    cds::Terminate();
    return 0;
}
