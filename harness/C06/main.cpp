// C06 harness: runs client programs of enqueue / dequeue operations on the real libcds queues under the
// deterministic scheduler and prints the event log (format: ocaml/conc_main.ml) followed by
//     monitor drain <v>*        the values still in the queue after the run, dequeued sequentially by main
// usage: main <casefile>
//   cfg = [moir; ic; hp; loop fuel; variant]   cfg[0..3] configure the Coq model, cfg[4] selects the real queue (see main)
//   op  = "1 v"  enq v   -> events  inv_enq v ; ret_enq b
//         "2"    deq     -> events  inv_deq   ; ret_deq b v      (v = 0 when b = 0)
// Built several times with -DC06_GROUP=<g> (one executable per group of variants, compiled in parallel).
#include <cds/init.h>
#include <cds/gc/hp.h>
#include <cds/gc/dhp.h>
#include <cds/threading/model.h>
#include <vcase.h>
#include <memory>
#include <queue>
#include <deque>
#include <list>
#include <mutex>
#include <algorithm>

#ifndef C06_GROUP
#   define C06_GROUP 0
#endif

#if C06_GROUP == 0
#   include <cds/container/msqueue.h>
#   include <cds/container/moir_queue.h>
#elif C06_GROUP == 1
#   include <cds/intrusive/msqueue.h>
#   include <cds/intrusive/moir_queue.h>
#   include <cds/container/msqueue.h>
#   include <cds/container/moir_queue.h>
#elif C06_GROUP == 2
#   include <cds/container/basket_queue.h>
#   include <cds/intrusive/basket_queue.h>
#elif C06_GROUP == 3
#   include <cds/container/optimistic_queue.h>
#   include <cds/intrusive/optimistic_queue.h>
#elif C06_GROUP == 4
#   include <cds/container/rwqueue.h>
#   include <cds/container/fcqueue.h>
#   include <cds/intrusive/fcqueue.h>
#   include <boost/intrusive/list.hpp>
#endif

namespace vs = khizmax_libcds_verif;
namespace cc = cds::container;
namespace ci = cds::intrusive;

// ---------------------------------------------------------------------------------------------------------
// adapters: enq(v) -> bool, deq(v&) -> bool

template <class Q>
struct value_adapter {
    std::unique_ptr<Q> q;
    value_adapter() : q( new Q ) {}
    bool enq( long v ) { return q->enqueue( (int) v ); }
    bool deq( long& v ) { int d = 0; bool b = q->dequeue( d ); v = b ? d : 0; return b; }
    void finish() { q.reset(); }
};

// intrusive queues: items are allocated by the harness and never freed during a case (the disposer does
// nothing); they are released by `finish` after the queue is destroyed and the SMR has run its disposers
template <class Item>
struct keep_disposer {
    void operator()( Item* ) const {}     // the item stays allocated until the end of the case
};

template <class Q, class Item>
struct intrusive_adapter {
    std::unique_ptr<Q> q;
    std::vector<Item*> items[8];    // per worker (index 7: main)
    intrusive_adapter() : q( new Q ) {}
    bool enq( long v )
    {
        int t = vs::my_tid(); if ( t < 0 || t > 6 ) t = 7;
        Item* p = new Item; p->v = (int) v;
        items[t].push_back( p );
        return q->enqueue( *p );
    }
    bool deq( long& v )
    {
        Item* p = q->dequeue();
        v = p ? p->v : 0;
        return p != nullptr;
    }
    void finish()
    {
        q.reset();
        cds::gc::HP::force_dispose();       // runs clear_links + disposer of everything main has retired
        cds::gc::DHP::force_dispose();
        for ( auto& l : items ) { for ( Item* p : l ) delete p; l.clear(); }
    }
};

// ---------------------------------------------------------------------------------------------------------
template <class A>
void run_one( vcase::Case const& c )
{
    std::unique_ptr<A> a( new A );
    vcase::run_workers( c, [&]( int t ) {
        for ( auto const& op : c.threads[t] ) {
            if ( op.empty()) continue;
            if ( op[0] == 1 ) {
                long v = op.size() > 1 ? op[1] : 0;
                vcase::emitf( "inv_enq %ld", v );
                bool b = a->enq( v );
                vcase::emitf( "ret_enq %ld", (long) b );
            }
            else if ( op[0] == 2 ) {
                vcase::emitf( "inv_deq" );
                long v = 0;
                bool b = a->deq( v );
                vcase::emitf( "ret_deq %ld %ld", (long) b, v );
            }
        }
    },
    [&]( int ) { cds::threading::Manager::attachThread(); },
    [&]( int ) {
        // vcase::run_workers lets a worker detach as soon as it is finished; detaching runs an SMR scan that frees
        // retired nodes, whose addresses the allocator would then hand to the workers still running (the model's
        // allocator never reuses a node).  Wait until every worker has left the scheduled region.
        int n = (int) c.threads.size();
        for (;;) {
            { std::lock_guard<std::mutex> lk( vs::S().m ); if ( vs::S().nfinished >= n ) break; }
            std::this_thread::yield();
        }
        cds::threading::Manager::detachThread();
    },
    20000 );
    vcase::print_log( c );
    // monitor: what is left in the queue, dequeued sequentially (main thread, not scheduled, not logged)
    std::printf( "monitor drain" );
    for ( int i = 0; i < 64; ++i ) {
        long v = 0;
        if ( !a->deq( v )) break;
        std::printf( " %ld", v );
    }
    std::printf( "\n" );
    std::fflush( stdout );      // a crash in a later case must not lose this log
    a->finish();
    a.reset();
}

// ---------------------------------------------------------------------------------------------------------
// traits and item types
#if C06_GROUP <= 1
struct tr_ic      : public cc::msqueue::traits { typedef cds::atomicity::item_counter item_counter; };
struct tr_sc      : public cc::msqueue::traits { typedef cds::opt::v::sequential_consistent memory_model; };
template <class GC> struct ms_item : public ci::msqueue::node<GC> { int v; };
template <class GC> struct ms_itraits : public ci::msqueue::traits {
    typedef ci::msqueue::base_hook< cds::opt::gc<GC> > hook;
    typedef keep_disposer< ms_item<GC> > disposer;
};
template <class GC> struct ms_itraits_ic : public ms_itraits<GC> { typedef cds::atomicity::item_counter item_counter; };
template <class GC> struct ms_mitem { int v; ci::msqueue::node<GC> hook; };
template <class GC> struct ms_mtraits : public ci::msqueue::traits {
    typedef ci::msqueue::member_hook< offsetof( ms_mitem<GC>, hook ), cds::opt::gc<GC> > hook;
    typedef keep_disposer< ms_mitem<GC> > disposer;
};
#elif C06_GROUP == 2
struct tr_ic      : public cc::basket_queue::traits { typedef cds::atomicity::item_counter item_counter; };
struct tr_sc      : public cc::basket_queue::traits { typedef cds::opt::v::sequential_consistent memory_model; };
template <class GC> struct bq_item : public ci::basket_queue::node<GC> { int v; };
template <class GC> struct bq_itraits : public ci::basket_queue::traits {
    typedef ci::basket_queue::base_hook< cds::opt::gc<GC> > hook;
    typedef keep_disposer< bq_item<GC> > disposer;
};
#elif C06_GROUP == 3
struct tr_ic      : public cc::optimistic_queue::traits { typedef cds::atomicity::item_counter item_counter; };
struct tr_sc      : public cc::optimistic_queue::traits { typedef cds::opt::v::sequential_consistent memory_model; };
template <class GC> struct oq_item : public ci::optimistic_queue::node<GC> { int v; };
template <class GC> struct oq_itraits : public ci::optimistic_queue::traits {
    typedef ci::optimistic_queue::base_hook< cds::opt::gc<GC> > hook;
    typedef keep_disposer< oq_item<GC> > disposer;
};
#elif C06_GROUP == 4
// RWQueue frees the old dummy node inside dequeue; the model's allocator never reuses a node, so for the
// step correspondence the nodes are released only after the case (variant 47 keeps the default allocator)
struct deferred_free {
    static std::mutex& mtx() { static std::mutex m; return m; }
    static std::vector<void*>& list() { static std::vector<void*> l; return l; }
    static void release()
    {
        std::lock_guard<std::mutex> g( mtx());
        std::sort( list().begin(), list().end());       // a node handed back twice is the queue's fault and shows in the
        list().erase( std::unique( list().begin(), list().end()), list().end());   // history; it must not kill the harness here
        for ( void* p : list()) ::operator delete( p );
        list().clear();
    }
};
template <class T>
struct case_allocator {
    typedef T value_type;
    typedef T* pointer; typedef T const* const_pointer; typedef T& reference; typedef T const& const_reference;
    typedef size_t size_type; typedef ptrdiff_t difference_type;
    template <class U> struct rebind { typedef case_allocator<U> other; };
    case_allocator() {}
    template <class U> case_allocator( case_allocator<U> const& ) {}
    T* allocate( size_t n ) { return static_cast<T*>( ::operator new( n * sizeof( T ))); }
    void deallocate( T* p, size_t ) { std::lock_guard<std::mutex> g( deferred_free::mtx()); deferred_free::list().push_back( p ); }
    template <class U, class... Args> void construct( U* p, Args&&... args ) { new ( p ) U( std::forward<Args>( args )... ); }
    template <class U> void destroy( U* p ) { p->~U(); }
    bool operator==( case_allocator const& ) const { return true; }
    bool operator!=( case_allocator const& ) const { return false; }
};
struct rw_keep    : public cc::rwqueue::traits { typedef case_allocator<int> allocator; };
struct rw_keep_ic : public rw_keep { typedef cds::atomicity::item_counter item_counter; };
struct rw_ic      : public cc::rwqueue::traits { typedef cds::atomicity::item_counter item_counter; };
struct fc_elim    : public cc::fcqueue::traits { static constexpr const bool enable_elimination = true; };
struct fc_item : public boost::intrusive::list_base_hook<> { int v; };
struct fci_elim   : public ci::fcqueue::traits { static constexpr const bool enable_elimination = true; };
typedef boost::intrusive::list< fc_item > fc_ilist;
#endif

int main( int argc, char** argv )
{
    if ( argc < 2 ) { std::fprintf( stderr, "usage: %s casefile\n", argv[0] ); return 2; }
    cds::Initialize();
    {
        // retired arrays large enough that no scan runs inside a case (a case retires at most 16 nodes per thread)
        cds::gc::HP hp( 16, 16, 4096 );
        cds::gc::DHP dhp( 64 );
        cds::threading::Manager::attachThread();
        std::ifstream in( argv[1] );
        vcase::Case c;
        typedef cds::gc::HP HP;
        typedef cds::gc::DHP DHP;
        while ( vcase::read_case( in, c )) {
            long variant = c.cfg.size() > 4 ? c.cfg[4] : 0;     // cfg[0..3] are read by the model only
            switch ( variant ) {
#if C06_GROUP == 0
            // value-copying MSQueue / MoirQueue: modelled step by step (LV.Model.MSQueue)
            case 0: run_one< value_adapter< cc::MSQueue< HP, int > > >( c ); break;
            case 1: run_one< value_adapter< cc::MoirQueue< HP, int > > >( c ); break;
            case 2: run_one< value_adapter< cc::MSQueue< HP, int, tr_ic > > >( c ); break;
            case 3: run_one< value_adapter< cc::MoirQueue< HP, int, tr_ic > > >( c ); break;
            case 4: run_one< value_adapter< cc::MSQueue< DHP, int > > >( c ); break;
            case 5: run_one< value_adapter< cc::MoirQueue< DHP, int > > >( c ); break;
            case 6: run_one< value_adapter< cc::MSQueue< HP, int, tr_sc > > >( c ); break;
            case 7: run_one< value_adapter< cc::MoirQueue< HP, int, tr_sc > > >( c ); break;
            case 8: run_one< value_adapter< cc::MSQueue< DHP, int, tr_ic > > >( c ); break;
            case 9: run_one< value_adapter< cc::MoirQueue< DHP, int, tr_ic > > >( c ); break;
#elif C06_GROUP == 1
            // intrusive MSQueue / MoirQueue (items allocated by the harness)
            case 10: run_one< intrusive_adapter< ci::MSQueue< HP, ms_item<HP>, ms_itraits<HP> >, ms_item<HP> > >( c ); break;
            case 11: run_one< intrusive_adapter< ci::MoirQueue< HP, ms_item<HP>, ms_itraits<HP> >, ms_item<HP> > >( c ); break;
            case 12: run_one< intrusive_adapter< ci::MSQueue< DHP, ms_item<DHP>, ms_itraits<DHP> >, ms_item<DHP> > >( c ); break;
            case 13: run_one< intrusive_adapter< ci::MoirQueue< DHP, ms_item<DHP>, ms_itraits<DHP> >, ms_item<DHP> > >( c ); break;
            case 14: run_one< intrusive_adapter< ci::MSQueue< HP, ms_item<HP>, ms_itraits_ic<HP> >, ms_item<HP> > >( c ); break;
            case 15: run_one< intrusive_adapter< ci::MoirQueue< HP, ms_item<HP>, ms_itraits_ic<HP> >, ms_item<HP> > >( c ); break;
            case 16: run_one< intrusive_adapter< ci::MSQueue< HP, ms_mitem<HP>, ms_mtraits<HP> >, ms_mitem<HP> > >( c ); break;
            case 17: run_one< intrusive_adapter< ci::MoirQueue< DHP, ms_mitem<DHP>, ms_mtraits<DHP> >, ms_mitem<DHP> > >( c ); break;
#elif C06_GROUP == 2
            case 20: run_one< value_adapter< cc::BasketQueue< HP, int > > >( c ); break;
            case 21: run_one< value_adapter< cc::BasketQueue< DHP, int > > >( c ); break;
            case 22: run_one< value_adapter< cc::BasketQueue< HP, int, tr_ic > > >( c ); break;
            case 23: run_one< value_adapter< cc::BasketQueue< HP, int, tr_sc > > >( c ); break;
            case 24: run_one< intrusive_adapter< ci::BasketQueue< HP, bq_item<HP>, bq_itraits<HP> >, bq_item<HP> > >( c ); break;
            case 25: run_one< intrusive_adapter< ci::BasketQueue< DHP, bq_item<DHP>, bq_itraits<DHP> >, bq_item<DHP> > >( c ); break;
#elif C06_GROUP == 3
            case 30: run_one< value_adapter< cc::OptimisticQueue< HP, int > > >( c ); break;
            case 31: run_one< value_adapter< cc::OptimisticQueue< DHP, int > > >( c ); break;
            case 32: run_one< value_adapter< cc::OptimisticQueue< HP, int, tr_ic > > >( c ); break;
            case 33: run_one< value_adapter< cc::OptimisticQueue< HP, int, tr_sc > > >( c ); break;
            case 34: run_one< intrusive_adapter< ci::OptimisticQueue< HP, oq_item<HP>, oq_itraits<HP> >, oq_item<HP> > >( c ); break;
            case 35: run_one< intrusive_adapter< ci::OptimisticQueue< DHP, oq_item<DHP>, oq_itraits<DHP> >, oq_item<DHP> > >( c ); break;
#elif C06_GROUP == 4
            // two-lock queue: modelled step by step (LV.Model.RWQueue)
            case 40: run_one< value_adapter< cc::RWQueue< int, rw_keep > > >( c ); deferred_free::release(); break;
            case 41: run_one< value_adapter< cc::RWQueue< int, rw_keep_ic > > >( c ); deferred_free::release(); break;
            case 47: run_one< value_adapter< cc::RWQueue< int > > >( c ); break;
            case 48: run_one< value_adapter< cc::RWQueue< int, rw_ic > > >( c ); break;
            // flat combining, default wait strategy (back-off: spins on atomics), spin lock
            case 42: run_one< value_adapter< cc::FCQueue< int > > >( c ); break;
            case 43: run_one< value_adapter< cc::FCQueue< int, std::queue<int>, fc_elim > > >( c ); break;
            case 44: run_one< value_adapter< cc::FCQueue< int, std::queue< int, std::list<int> >, fc_elim > > >( c ); break;
            case 45: run_one< intrusive_adapter< ci::FCQueue< fc_item, fc_ilist >, fc_item > >( c ); break;
            case 46: run_one< intrusive_adapter< ci::FCQueue< fc_item, fc_ilist, fci_elim >, fc_item > >( c ); break;
#endif
            default:
                std::printf( "case %s\nendcase unknown-variant\n", c.id.c_str());
            }
        }
        cds::threading::Manager::detachThread();
    }
    cds::Terminate();
    return 0;
}
