// C18 harness, part 2: ordered lists and split lists (the skip lists and trees of C18 are the C15 harness,
// harness/C15/main.cpp, whose quiescent-point probes and sequential mode are shared through c15.h).
// Same case format and output as harness/C15 (see ../C15/c15.h).  Built per group (-DC18_GROUP=<g>):
//   0  cds::container lists, HP/DHP   100 MichaelList<HP>  101 LazyList<HP>  102 IterableList<HP>  103 MichaelList<DHP>
//                                      104 LazyList<DHP>   105 IterableList<DHP>
//   1  cds::container lists, RCU      110 MichaelList<gpi> 111 LazyList<gpi> 112 MichaelList<gpb>  113 LazyList<gpb>
//   2  cds::container::SplitListSet   120 <HP, michael_list> 121 <HP, lazy_list> 122 <HP, iterable_list>
//                                      123 <RCU gpi, michael_list> 124 <DHP, michael_list> 125 <RCU gpi, lazy_list>
// Operations used here: 1/2/5 insert, 3 update (no insert), 4 upsert, 6/7/9 erase, 8 extract (HP/DHP; RCU: erase),
// 10/11/12 contains/find, 13/14 (no such operation): contains of the given key.
#ifndef C18_GROUP
#   define C18_GROUP 0
#endif
#include "../C15/c15.h"

#if C18_GROUP == 0
#   include <cds/container/michael_list_hp.h>
#   include <cds/container/michael_list_dhp.h>
#   include <cds/container/lazy_list_hp.h>
#   include <cds/container/lazy_list_dhp.h>
#   include <cds/container/iterable_list_hp.h>
#   include <cds/container/iterable_list_dhp.h>
#elif C18_GROUP == 1
#   include <cds/container/michael_list_rcu.h>
#   include <cds/container/lazy_list_rcu.h>
#elif C18_GROUP == 2
#   include <cds/container/michael_list_hp.h>
#   include <cds/container/michael_list_dhp.h>
#   include <cds/container/lazy_list_hp.h>
#   include <cds/container/iterable_list_hp.h>
#   include <cds/container/michael_list_rcu.h>
#   include <cds/container/lazy_list_rcu.h>
#   include <cds/container/split_list_set.h>
#   include <cds/container/split_list_set_rcu.h>
#endif

namespace cc = cds::container;
using namespace c15;

template <class GC, bool RCU> struct rcu_guard { rcu_guard() {} };
template <class GC> struct rcu_guard<GC, true> { typename GC::scoped_lock l; };

// kind: 0 Michael / Lazy (functor update), 1 Iterable (upsert), 2 split list over michael/lazy, 3 split list over iterable
template <class Cont, class GC, bool RCU, int Kind>
struct list_adapter
{
    Cont s;
    long fbad = 0;

    template <class C> static R do_extract( C& c, int k, std::false_type ) { typename C::guarded_ptr gp( c.extract( k )); return gp ? R( 1, gp->key, gp->val ) : R(); }
    template <class C> static R do_extract( C& c, int k, std::true_type ) { return R( c.erase( k ), k, 0 ); }

    std::pair<bool, bool> upd( int ik, int iv, bool allow, std::integral_constant<int, 0> )
    {
        int n = 0;
        std::pair<bool, bool> p = s.update( item( ik, iv ), [&]( bool, item& i, item const& ) { ++n; if ( i.key != ik ) ++fbad; i.val = iv; }, allow );
        if ( n != ( p.first ? 1 : 0 )) ++fbad;
        return p;
    }
    std::pair<bool, bool> upd( int ik, int iv, bool allow, std::integral_constant<int, 1> ) { return s.upsert( item( ik, iv ), allow ); }
    std::pair<bool, bool> upd( int ik, int iv, bool allow, std::integral_constant<int, 2> ) { return upd( ik, iv, allow, std::integral_constant<int, 0>()); }
    std::pair<bool, bool> upd( int ik, int iv, bool allow, std::integral_constant<int, 3> ) { return s.upsert( item( ik, iv ), allow ); }

    R apply( long code, long k, long v )
    {
        int ik = (int) k, iv = (int) v;
        switch ( code ) {
        case 1: case 2: case 5: return R( s.insert( item( ik, iv )));
        case 3: case 4: { std::pair<bool, bool> p = upd( ik, iv, code == 4, std::integral_constant<int, Kind>()); return R( p.first, p.second ); }
        case 6: case 7: case 9: return R( s.erase( ik ));
        case 8: return do_extract( s, ik, std::integral_constant<bool, RCU>());
        default: {
            bool b = s.contains( ik );
            return R( b, 0 );
        }
        }
    }
    static unsigned long long rev64( unsigned long long x )
    {
        unsigned long long r = 0;
        for ( int i = 0; i < 64; ++i ) { r = ( r << 1 ) | ( x & 1 ); x >>= 1; }
        return r;
    }
    void monitor( monitor_out& mo )
    {
        std::vector<long> keys;
        {
            rcu_guard<GC, RCU> g;
            for ( auto it = s.begin(); it != s.end(); ++it ) {
                add_kv( mo.iter, it->key, it->val );
                keys.push_back( it->key );
            }
        }
        mo.size = (long) s.size();
        mo.empty = s.empty() ? 1 : 0;
        mo.shape = mo.iter;
        if ( Kind >= 2 ) {
            bool ok = true;
            for ( size_t i = 1; i < keys.size(); ++i )
                if ( !( rev64( (unsigned long long) keys[i - 1] ) < rev64( (unsigned long long) keys[i] ))) ok = false;
            add_struct( mo, "split_order_traversal", ok );
        }
        else {
            bool ok = true;
            for ( size_t i = 1; i < keys.size(); ++i ) if ( !( keys[i - 1] < keys[i] )) ok = false;
            add_struct( mo, "list_traversal_increasing", ok );
        }
    }
};

#if C18_GROUP == 0 || C18_GROUP == 1
struct ml_traits : public cc::michael_list::traits { typedef item_cmp compare; typedef cds::atomicity::item_counter item_counter; };
struct ll_traits : public cc::lazy_list::traits    { typedef item_cmp compare; typedef cds::atomicity::item_counter item_counter; };
#endif
#if C18_GROUP == 0
struct il_traits : public cc::iterable_list::traits { typedef item_cmp compare; typedef cds::atomicity::item_counter item_counter; };
#endif

#if C18_GROUP == 2
struct id_hash {
    size_t operator()( item const& i ) const { return (size_t) i.key; }
    size_t operator()( int k ) const { return (size_t) k; }
};
template <class Tag> struct sp_traits : public cc::split_list::traits {
    typedef Tag ordered_list;
    typedef id_hash hash;
    typedef cds::atomicity::item_counter item_counter;
    struct ordered_list_traits : public std::conditional< std::is_same<Tag, cc::michael_list_tag>::value, cc::michael_list::traits,
                                        typename std::conditional< std::is_same<Tag, cc::lazy_list_tag>::value, cc::lazy_list::traits, cc::iterable_list::traits >::type >::type
    {
        typedef item_cmp compare;
    };
};
template <class GC, class Tag> struct split_holder : public cc::SplitListSet< GC, item, sp_traits<Tag> > {
    split_holder(): cc::SplitListSet< GC, item, sp_traits<Tag> >( 2, 1 ) {}     // 2 items expected, load factor 1: the bucket table grows
};
#endif

int main( int argc, char** argv )
{
    if ( argc < 2 ) { std::fprintf( stderr, "usage: %s casefile\n", argv[0] ); return 2; }
    cds::Initialize();
    {
        cds::gc::HP hp( 40, 8, 16 );
        cds::gc::DHP dhp( 16 );
        rcu_gpi gpi;
        rcu_gpb gpb( 4 );
        cds::threading::Manager::attachThread();
        std::ifstream in( argv[1] );
        vcase::Case c;
        typedef cds::gc::HP HP; typedef cds::gc::DHP DHP;
        while ( vcase::read_case( in, c )) {
            long variant = c.cfg.size() > 0 ? c.cfg[0] : 0;
            switch ( variant ) {
#if C18_GROUP == 0
            case 100: run_variant< list_adapter< cc::MichaelList< HP, item, ml_traits >, HP, false, 0 > >( c ); break;
            case 101: run_variant< list_adapter< cc::LazyList< HP, item, ll_traits >, HP, false, 0 > >( c ); break;
            case 102: run_variant< list_adapter< cc::IterableList< HP, item, il_traits >, HP, false, 1 > >( c ); break;
            case 103: run_variant< list_adapter< cc::MichaelList< DHP, item, ml_traits >, DHP, false, 0 > >( c ); break;
            case 104: run_variant< list_adapter< cc::LazyList< DHP, item, ll_traits >, DHP, false, 0 > >( c ); break;
            case 105: run_variant< list_adapter< cc::IterableList< DHP, item, il_traits >, DHP, false, 1 > >( c ); break;
#elif C18_GROUP == 1
            case 110: run_variant< list_adapter< cc::MichaelList< rcu_gpi, item, ml_traits >, rcu_gpi, true, 0 > >( c ); break;
            case 111: run_variant< list_adapter< cc::LazyList< rcu_gpi, item, ll_traits >, rcu_gpi, true, 0 > >( c ); break;
            case 112: run_variant< list_adapter< cc::MichaelList< rcu_gpb, item, ml_traits >, rcu_gpb, true, 0 > >( c ); break;
            case 113: run_variant< list_adapter< cc::LazyList< rcu_gpb, item, ll_traits >, rcu_gpb, true, 0 > >( c ); break;
#elif C18_GROUP == 2
            case 120: run_variant< list_adapter< split_holder< HP, cc::michael_list_tag >, HP, false, 2 > >( c ); break;
            case 121: run_variant< list_adapter< split_holder< HP, cc::lazy_list_tag >, HP, false, 2 > >( c ); break;
            case 122: run_variant< list_adapter< split_holder< HP, cc::iterable_list_tag >, HP, false, 3 > >( c ); break;
            case 123: run_variant< list_adapter< split_holder< rcu_gpi, cc::michael_list_tag >, rcu_gpi, true, 2 > >( c ); break;
            case 124: run_variant< list_adapter< split_holder< DHP, cc::michael_list_tag >, DHP, false, 2 > >( c ); break;
            case 125: run_variant< list_adapter< split_holder< rcu_gpi, cc::lazy_list_tag >, rcu_gpi, true, 2 > >( c ); break;
#endif
            default:
                std::printf( "case %s\nendcase unknown-variant\n", c.id.c_str());
            }
            std::fflush( stdout );
        }
        cds::threading::Manager::detachThread();
    }
    cds::Terminate();
    return 0;
}
