// C27 differential sweep and implementation-side property monitor (built with the hook OFF, linked with libcds).
//
// The split-order arithmetic of the REAL headers of $VERIF_REPO is called through classes derived from
// cds::intrusive::SplitListSet (HP, RCU and nogc flavours):
//    bucket_no        the real protected member, evaluated on the real object after storing the wanted log2 table size
//                     into its m_nBucketCountLog2 (tables of 2^32 .. 2^63 buckets cannot be allocated here)
//    parent_bucket    the real protected static member (uses the inline-asm bitop::MSBnz of the platform)
//    regular_hash / dummy_hash   split_list::regular_hash<bit_reversal> with the set's own bit_reversal trait
//                     (swar, lookup, muldiv)
//
//   sweep emit <seed> <quick|thorough> <part> <nparts> <outfile>
//        one line per call   splitlist.<coq name> <args...> -> <result>    (hex; see ocaml/cxx2v_rt.ml); the same
//        lines are evaluated by the model extracted from coq/Gen/Gen_splitlist.v and compared by checks/C27.py
//   sweep ref  <seed> <quick|thorough> <part> <nparts> <outfile>
//        the property itself (C27's theorems, re-stated with naive loops) checked on the real functions:
//        prints   MISMATCH <check> <args...> | <expected> | <observed>   and   REFCOUNT <check> <n>
//   sweep lines <infile> <outfile>
//        re-evaluates the calls of <infile> (emit format; everything after " ->" is ignored) on the real code
#include <cstdio>
#include <cstdint>
#include <cstdlib>
#include <cstring>
#include <string>
#include <vector>
#include <map>
#include <cds/init.h>
#include <cds/gc/hp.h>
#include <cds/urcu/general_buffered.h>
#include <cds/intrusive/michael_list_hp.h>
#include <cds/intrusive/michael_list_rcu.h>
#include <cds/intrusive/michael_list_nogc.h>
#include <cds/intrusive/split_list.h>
#include <cds/intrusive/split_list_rcu.h>
#include <cds/intrusive/split_list_nogc.h>

typedef unsigned long long u64;
namespace ci = cds::intrusive;
namespace br = cds::algo::bit_reversal;

template <class GC> struct item : ci::split_list::node< ci::michael_list::node<GC> > { int k; };
struct hash_item { template <class T> size_t operator()( T const& i ) const { return (size_t) i.k; } };
struct cmp_item { template <class T> int operator()( T const& a, T const& b ) const { return a.k < b.k ? -1 : a.k > b.k; } };
template <class GC> struct list_traits : ci::michael_list::traits {
    typedef ci::michael_list::base_hook< ci::opt::gc<GC> > hook;
    typedef cmp_item compare;
};
template <class Rev> struct sl_traits : ci::split_list::traits { typedef hash_item hash; typedef Rev bit_reversal; };
typedef cds::urcu::gc< cds::urcu::general_buffered<> > rcu_t;

template <class GC, class Rev> struct set_of {
    typedef ci::SplitListSet< GC, ci::MichaelList< GC, item<GC>, list_traits<GC> >, sl_traits<Rev> > type;
};

// the derived class: exposes the protected members, nothing is re-implemented
template <class GC, class Rev>
struct probe : set_of<GC, Rev>::type {
    typedef typename set_of<GC, Rev>::type base;
    probe() : base( 16, 1 ) {}
    size_t real_bucket_no( size_t log2, size_t h ) {
        size_t old = this->m_nBucketCountLog2.load( atomics::memory_order_relaxed );
        this->m_nBucketCountLog2.store( log2, atomics::memory_order_relaxed );
        size_t r = this->bucket_no( h );
        this->m_nBucketCountLog2.store( old, atomics::memory_order_relaxed );
        return r;
    }
    size_t max_item_count_field() { return this->m_nMaxItemCount.load( atomics::memory_order_relaxed ); }
    static size_t real_parent_bucket( size_t b ) { return base::parent_bucket( b ); }
    static size_t real_regular( size_t h ) { return ci::split_list::regular_hash<typename base::bit_reversal>( h ); }
    static size_t real_dummy( size_t b ) { return ci::split_list::dummy_hash<typename base::bit_reversal>( b ); }
};

typedef probe<cds::gc::HP, br::swar>   P_hp_swar;
typedef probe<cds::gc::HP, br::lookup> P_hp_lookup;
typedef probe<cds::gc::HP, br::muldiv> P_hp_muldiv;
typedef probe<rcu_t, br::swar>         P_rcu;
typedef probe<cds::gc::nogc, br::swar> P_nogc;

static P_hp_swar* g_hp; static P_hp_lookup* g_hp_l; static P_hp_muldiv* g_hp_m; static P_rcu* g_rcu; static P_nogc* g_nogc;

static FILE* out = stdout;

struct Rng {                      // splitmix64, same as lib/vcheck.py
    u64 s;
    explicit Rng( u64 seed ) : s( seed ) {}
    u64 next() { s += 0x9E3779B97F4A7C15ULL; u64 z = s; z = ( z ^ ( z >> 30 )) * 0xBF58476D1CE4E5B9ULL;
                 z = ( z ^ ( z >> 27 )) * 0x94D049BB133111EBULL; return z ^ ( z >> 31 ); }
    u64 below( u64 n ) { return n ? next() % n : 0; }
};

// ------------------------------------------------------------------------------------------------------------
// the real functions by name
static const char* ALGO[3] = { "swar", "lookup", "muldiv" };
static u64 real_regular( int a, u64 h ) { return a == 0 ? P_hp_swar::real_regular( h ) : a == 1 ? P_hp_lookup::real_regular( h ) : P_hp_muldiv::real_regular( h ); }
static u64 real_dummy( int a, u64 b ) { return a == 0 ? P_hp_swar::real_dummy( b ) : a == 1 ? P_hp_lookup::real_dummy( b ) : P_hp_muldiv::real_dummy( b ); }
static const char* FLAV[3] = { "", "_rcu", "_nogc" };
static u64 real_bucket_no( int f, u64 k, u64 h ) { return f == 0 ? g_hp->real_bucket_no( k, h ) : f == 1 ? g_rcu->real_bucket_no( k, h ) : g_nogc->real_bucket_no( k, h ); }
static u64 real_max( int f ) { return f == 0 ? g_hp->max_item_count_field() : f == 1 ? g_rcu->max_item_count_field() : g_nogc->max_item_count_field(); }
static u64 real_parent( int f, u64 b ) { return f == 0 ? P_hp_swar::real_parent_bucket( b ) : f == 1 ? P_rcu::real_parent_bucket( b ) : P_nogc::real_parent_bucket( b ); }

// ------------------------------------------------------------------------------------------------------------
// independent references (naive loops; no shift by a variable count >= 64, no library call)
static u64 ref_rev64( u64 x ) { u64 r = 0; for ( int i = 0; i < 64; ++i ) if (( x >> i ) & 1 ) r |= 1ULL << ( 63 - i ); return r; }
static u64 ref_mask( int k ) { u64 m = 0; for ( int i = 0; i < k; ++i ) m = ( m << 1 ) | 1; return m; }     // 2^k - 1, k <= 64
static int ref_log2( u64 x ) { int r = -1; while ( x ) { ++r; x >>= 1; } return r; }
static u64 ref_parent( u64 b ) { return b & ~( 1ULL << ref_log2( b )); }                                       // b > 0
// successor of bucket b in split order among the 2^k buckets (k >= 1), or b itself when b is the last one
static u64 ref_next_in_split_order( u64 b, int k ) {
    u64 r = ref_rev64( b ) >> ( 64 - k );            // k-bit reversal of b
    if ( r == ref_mask( k )) return b;
    return ref_rev64(( r + 1 ) << ( 64 - k ));
}

// ------------------------------------------------------------------------------------------------------------
// the input grid
static std::vector<u64> hashes( u64 seed, bool thorough )
{
    std::vector<u64> H;
    const u64 B[] = { 0, 1, 2, 3, 4, 5, 6, 7, 8, 0xff, 0x100, 0x7fffffffULL, 0x80000000ULL, 0x80000001ULL, 0xffffffffULL,
                      0x100000000ULL, 0x100000001ULL, 0x180000000ULL, 0x180000001ULL, 0x1ffffffffULL, 0x200000000ULL,
                      0x7fffffffffffffffULL, 0x8000000000000000ULL, 0x8000000000000001ULL, 0xfffffffffffffffeULL,
                      0xffffffffffffffffULL, 0xaaaaaaaaaaaaaaaaULL, 0x5555555555555555ULL, 0x0123456789abcdefULL,
                      0xfedcba9876543210ULL, 0x00000000ffffffffULL, 0xffffffff00000000ULL, 0xc000000000000000ULL,
                      0x4000000000000000ULL, 0x0000000080000000ULL };
    for ( u64 b : B ) H.push_back( b );
    for ( int i = 0; i < 64; ++i ) H.push_back( 1ULL << i );                        // single bits
    for ( int i = 0; i < 64; ++i ) H.push_back( ~( 1ULL << i ));                    // single zero
    for ( int i = 1; i <= 64; ++i ) H.push_back( ref_mask( i ));                    // low masks
    for ( int i = 1; i < 64; ++i ) H.push_back( ~ref_mask( i ));                    // high masks
    const int D[] = { 1, 2, 3, 5, 8, 13, 21, 31, 32, 33, 47, 63 };
    for ( int i = 0; i < 64; ++i )                                                   // walking pairs of ones
        for ( int d = 0; d < 12; ++d )
            if ( thorough || ( i + d ) % 3 == 0 )
                if ( i + D[d] < 64 ) H.push_back(( 1ULL << i ) | ( 1ULL << ( i + D[d] )));
    Rng r( seed * 0x2545F4914F6CDD1DULL + 27 );
    int n = thorough ? 12000 : 1500;
    for ( int i = 0; i < n; ++i ) {
        u64 x = r.next();
        switch ( i % 4 ) {                                                           // vary the magnitude
        case 1: x >>= r.below( 64 ); break;
        case 2: x &= r.next(); break;
        case 3: x = ( x >> r.below( 33 )) | ( 1ULL << ( 31 + r.below( 33 ))); break;   // buckets >= 2^31 / 2^32
        default: break;
        }
        H.push_back( x );
    }
    return H;
}

static void put( u64 v ) { fprintf( out, "%llx", v ); }

static void line_regular( int a, u64 h ) { fprintf( out, "splitlist.regular_hash_%s ", ALGO[a] ); put( h ); fprintf( out, " -> " ); put( real_regular( a, h )); fputc( '\n', out ); }
static void line_dummy( int a, u64 b ) { fprintf( out, "splitlist.dummy_hash_%s ", ALGO[a] ); put( b ); fprintf( out, " -> " ); put( real_dummy( a, b )); fputc( '\n', out ); }
static void line_bucket( int f, u64 k, u64 h ) {
    fprintf( out, "splitlist.bucket_no%s ", FLAV[f] ); put( k ); fputc( ' ', out ); put( real_max( f )); fputc( ' ', out ); put( h );
    fprintf( out, " -> " ); put( real_bucket_no( f, k, h )); fputc( '\n', out );
}
static void line_parent( int f, u64 b ) { fprintf( out, "splitlist.parent_bucket%s ", FLAV[f] ); put( b ); fprintf( out, " -> " ); put( real_parent( f, b )); fputc( '\n', out ); }

static void emit( u64 seed, bool thorough, u64 part, u64 nparts )
{
    std::vector<u64> H = hashes( seed, thorough );
    for ( size_t i = 0; i < H.size(); ++i ) {
        if ( i % nparts != part ) continue;
        u64 h = H[i];
        for ( int a = 0; a < 3; ++a ) { line_regular( a, h ); line_dummy( a, h ); }
        if ( h ) for ( int f = 0; f < 3; ++f ) line_parent( f, h );
        for ( int k = 0; k < 64; ++k ) {
            int f = thorough ? -1 : (int)(( i + k ) % 3 );
            for ( int g = 0; g < 3; ++g ) if ( g == 0 || f < 0 || g == f ) line_bucket( g, (u64) k, h );
            u64 b = h & ref_mask( k );
            if ( b != h ) {                                                         // new argument values only
                int a = (int)(( i + k ) % 3 );
                for ( int g = 0; g < 3; ++g ) if ( thorough || g == a ) line_dummy( g, b );
                if ( b ) for ( int g = 0; g < 3; ++g ) if ( thorough || g == a ) line_parent( g, b );
            }
        }
    }
}

// ------------------------------------------------------------------------------------------------------------
// property monitor on the real functions
static std::map<std::string, u64> refcount;
static void mismatch( const char* check, const char* algo, std::vector<u64> const& args, std::string const& expected, std::string const& observed )
{
    fprintf( out, "MISMATCH %s%s%s", check, algo[0] ? "." : "", algo );
    for ( u64 a : args ) { fputc( ' ', out ); put( a ); }
    fprintf( out, " | %s | %s\n", expected.c_str(), observed.c_str());
}
static std::string hx( u64 v ) { char b[32]; snprintf( b, sizeof b, "%llx", v ); return b; }
#define COUNT( NAME ) ( ++refcount[NAME] )

static void ref_hk( u64 h, int k, Rng& r )
{
    u64 bexp = h & ref_mask( k );
    u64 b = 0;
    for ( int f = 0; f < 3; ++f ) {
        u64 bb = real_bucket_no( f, (u64) k, h );
        COUNT( "bucket_no_value" );
        if ( bb != bexp ) mismatch( "bucket_no_value", FLAV[f][0] ? FLAV[f] + 1 : "", { (u64) k, h }, "bucket_no = h mod 2^k = " + hx( bexp ), hx( bb ));
        if ( f == 0 ) b = bb;
    }
    // candidate later buckets b' < 2^k
    std::vector<u64> cand;
    if ( k >= 1 ) {
        cand.push_back( ref_next_in_split_order( bexp, k ));
        cand.push_back( ref_next_in_split_order( b & ref_mask( k ), k ));
        cand.push_back( bexp ^ ( 1ULL << ( k - 1 )));
        cand.push_back( 1ULL << ( k - 1 ));
        cand.push_back( ref_mask( k ));
        cand.push_back( 1 );
        cand.push_back( r.next() & ref_mask( k ));
        cand.push_back( r.next() & ref_mask( k ));
    }
    cand.push_back( 0 );
    for ( int a = 0; a < 3; ++a ) {
        u64 d = real_dummy( a, b ), rg = real_regular( a, h );
        COUNT( "bucket_keys_contiguous" );
        if ( !( d < rg ))
            mismatch( "bucket_keys_contiguous", ALGO[a], { (u64) k, h }, "dummy(bucket_no h) < regular(h)", "bucket " + hx( b ) + " dummy " + hx( d ) + " regular " + hx( rg ));
        for ( u64 b2 : cand ) {
            u64 d2 = real_dummy( a, b2 );
            COUNT( "bucket_keys_contiguous" );
            if ( d < d2 && !( rg < d2 ))
                mismatch( "bucket_keys_contiguous", ALGO[a], { (u64) k, h, b2 }, "dummy(b) < dummy(b') -> regular(h) < dummy(b')",
                          "b " + hx( b ) + " dummy(b) " + hx( d ) + " regular(h) " + hx( rg ) + " dummy(b') " + hx( d2 ));
        }
        // converse on a second hash h2: a regular key inside b's segment belongs to b
        u64 h2 = r.next();
        if ( k >= 1 ) {
            u64 rg2 = real_regular( a, h2 ), nb = ref_next_in_split_order( bexp, k );
            u64 dn = real_dummy( a, nb ), db = real_dummy( a, bexp );
            bool inside = db < rg2 && ( nb == bexp || rg2 < dn );
            COUNT( "bucket_segment_exact" );
            if ( inside != (( h2 & ref_mask( k )) == bexp ))
                mismatch( "bucket_segment_exact", ALGO[a], { (u64) k, bexp, h2 }, "regular(h2) in segment of b <-> h2 mod 2^k = b", inside ? "inside" : "outside" );
        }
    }
    if ( b != 0 ) {
        u64 pexp = ref_parent( b );
        u64 p = 0;
        for ( int f = 0; f < 3; ++f ) {
            u64 pp = real_parent( f, b );
            COUNT( "parent_lt_bucket" );
            if ( pp != pexp ) mismatch( "parent_lt_bucket", FLAV[f][0] ? FLAV[f] + 1 : "", { b }, "parent_bucket = b with its top bit cleared = " + hx( pexp ), hx( pp ));
            if ( f == 0 ) p = pp;
        }
        int m = ref_log2( b );
        for ( int a = 0; a < 3; ++a ) {
            u64 dp = real_dummy( a, p ), db = real_dummy( a, b );
            COUNT( "parent_dummy_before_bucket_dummy" );
            if ( !( dp < db ))
                mismatch( "parent_dummy_before_bucket_dummy", ALGO[a], { b }, "dummy(parent b) < dummy(b)", "parent " + hx( p ) + " dummy(parent) " + hx( dp ) + " dummy(b) " + hx( db ));
            // the new dummy splits its parent's segment of the table of 2^m buckets
            COUNT( "bucket_dummy_in_parent_segment" );
            if ( !( p <= ref_mask( m )))
                mismatch( "bucket_dummy_in_parent_segment", ALGO[a], { b }, "parent b < 2^floor(log2 b)", hx( p ));
            std::vector<u64> c2;
            if ( m >= 1 ) { c2.push_back( ref_next_in_split_order( pexp, m )); c2.push_back( r.next() & ref_mask( m )); c2.push_back( ref_mask( m )); }
            for ( u64 b2 : c2 ) {
                u64 d2 = real_dummy( a, b2 );
                COUNT( "bucket_dummy_in_parent_segment" );
                if ( dp < d2 && !( db < d2 ))
                    mismatch( "bucket_dummy_in_parent_segment", ALGO[a], { b, b2 }, "dummy(parent b) < dummy(b'') -> dummy(b) < dummy(b'')",
                              "parent " + hx( p ) + " dummy(parent) " + hx( dp ) + " dummy(b) " + hx( db ) + " dummy(b'') " + hx( d2 ));
            }
        }
    }
}

static void ref( u64 seed, bool thorough, u64 part, u64 nparts )
{
    std::vector<u64> H = hashes( seed, thorough );
    Rng r( seed * 77 + part );
    for ( size_t i = 0; i < H.size(); ++i ) {
        if ( i % nparts != part ) continue;
        u64 h = H[i];
        u64 rv = ref_rev64( h );
        for ( int a = 0; a < 3; ++a ) {
            u64 rg = real_regular( a, h ), d = real_dummy( a, h );
            COUNT( "regular_is_odd" );
            if ( !( rg & 1 )) mismatch( "regular_is_odd", ALGO[a], { h }, "odd", hx( rg ));
            COUNT( "dummy_is_even" );
            if ( d & 1 ) mismatch( "dummy_is_even", ALGO[a], { h }, "even", hx( d ));
            COUNT( "regular_hash_value" );
            if ( rg != ( rv | 1 )) mismatch( "regular_hash_value", ALGO[a], { h }, hx( rv | 1 ), hx( rg ));
            COUNT( "dummy_hash_value" );
            if ( d != ( rv & ~1ULL )) mismatch( "dummy_hash_value", ALGO[a], { h }, hx( rv & ~1ULL ), hx( d ));
        }
        for ( int k = 0; k < 64; ++k ) ref_hk( h, k, r );
    }
    for ( auto const& kv : refcount ) fprintf( out, "REFCOUNT %s %llu\n", kv.first.c_str(), kv.second );
}

// ------------------------------------------------------------------------------------------------------------
static int run_lines( const char* in, const char* outp )
{
    FILE* fi = fopen( in, "r" ); if ( !fi ) return 2;
    out = fopen( outp, "w" ); if ( !out ) return 2;
    char buf[1024];
    while ( fgets( buf, sizeof buf, fi )) {
        char* arrow = strstr( buf, " ->" ); if ( arrow ) *arrow = 0;
        std::vector<std::string> t;
        for ( char* p = strtok( buf, " \t\r\n" ); p; p = strtok( nullptr, " \t\r\n" )) t.push_back( p );
        if ( t.empty() || t[0][0] == '#' ) continue;
        std::string n = t[0];
        std::vector<u64> a;
        for ( size_t i = 1; i < t.size(); ++i ) a.push_back( strtoull( t[i].c_str(), nullptr, 16 ));
        bool done = false;
        for ( int x = 0; x < 3 && !done; ++x ) {
            if ( n == std::string( "splitlist.regular_hash_" ) + ALGO[x] && a.size() == 1 ) { line_regular( x, a[0] ); done = true; }
            else if ( n == std::string( "splitlist.dummy_hash_" ) + ALGO[x] && a.size() == 1 ) { line_dummy( x, a[0] ); done = true; }
            else if ( n == std::string( "splitlist.bucket_no" ) + FLAV[x] && a.size() == 3 ) { line_bucket( x, a[0], a[2] ); done = true; }
            else if ( n == std::string( "splitlist.parent_bucket" ) + FLAV[x] && a.size() == 1 ) { line_parent( x, a[0] ); done = true; }
        }
        if ( !done ) fprintf( out, "%s -> NOFUNC\n", n.c_str());
    }
    fclose( fi ); fclose( out );
    return 0;
}

int main( int argc, char** argv )
{
    if ( argc < 4 ) { fprintf( stderr, "usage: sweep emit|ref <seed> <tier> <part> <nparts> <out> | lines <in> <out>\n" ); return 2; }
    std::string mode = argv[1];
    int rc = 0;
    cds::Initialize();
    {
        cds::gc::HP hp( 16, 4, 64 );
        rcu_t rcu;
        cds::threading::Manager::attachThread();
        {
            P_hp_swar s1; P_hp_lookup s2; P_hp_muldiv s3; P_rcu s4; P_nogc s5;
            g_hp = &s1; g_hp_l = &s2; g_hp_m = &s3; g_rcu = &s4; g_nogc = &s5;
            if ( mode == "lines" ) rc = run_lines( argv[2], argv[3] );
            else if ( argc >= 7 ) {
                u64 seed = strtoull( argv[2], nullptr, 10 );
                bool thorough = std::string( argv[3] ) == "thorough";
                u64 part = strtoull( argv[4], nullptr, 10 ), nparts = strtoull( argv[5], nullptr, 10 );
                out = fopen( argv[6], "w" ); if ( !out ) return 2;
                if ( mode == "emit" ) emit( seed, thorough, part, nparts );
                else if ( mode == "ref" ) ref( seed, thorough, part, nparts );
                else rc = 2;
                fclose( out );
            }
            else rc = 2;
        }
        cds::threading::Manager::detachThread();
    }
    cds::Terminate();
    return rc;
}
