// Case files shared by the C++ harnesses and ocaml/conc_main.ml (format documented there).
#ifndef VERIF_VCASE_H
#define VERIF_VCASE_H
#include <atomic>
#include <cstdio>
#include <cstdlib>
#include <fstream>
#include <functional>
#include <iostream>
#include <sstream>
#include <string>
#include <thread>
#include <vector>
#include <khizmax_libcds_verif/sched.h>

namespace vcase {
    typedef std::vector<long> op_t;
    struct Case {
        std::string id;
        std::vector<long> cfg;
        std::vector<std::vector<op_t>> threads;
        std::vector<int> sched;
    };

    inline bool read_case( std::istream& in, Case& c )
    {
        c = Case();
        std::string line;
        bool got = false;
        while ( std::getline( in, line )) {
            std::istringstream ss( line );
            std::string kw; ss >> kw;
            if ( kw == "case" ) { ss >> c.id; got = true; }
            else if ( kw == "cfg" ) { long v; while ( ss >> v ) c.cfg.push_back( v ); }
            else if ( kw == "sched" ) { int v; while ( ss >> v ) c.sched.push_back( v ); }
            else if ( kw == "thread" ) {
                std::vector<op_t> ops; op_t cur; std::string tok;
                while ( ss >> tok ) {
                    if ( tok == ";" ) { ops.push_back( cur ); cur.clear(); }
                    else cur.push_back( std::atol( tok.c_str()));
                }
                if ( !cur.empty()) ops.push_back( cur );
                c.threads.push_back( ops );
            }
            else if ( kw == "end" ) return got;
        }
        return false;
    }

    // Run one scheduled case: `body(tid)` is executed by worker tid between worker_begin/worker_end.
    // `attach`/`detach` run outside the scheduled region (libcds thread attach etc).
    inline void run_workers( Case const& c, std::function<void(int)> body,
                             std::function<void(int)> attach = nullptr, std::function<void(int)> detach = nullptr,
                             size_t max_steps = 200000 )
    {
        namespace vs = khizmax_libcds_verif;
        int n = (int) c.threads.size();
        vs::run_prepare( n, c.sched, true, max_steps );
        std::vector<std::thread> th;
        // attach and detach are serialised in thread-index order so that set-up code (thread records of the
        // SMR schemes etc.) is deterministic; they run outside the scheduled region and are not logged
        std::atomic<int> attach_turn( 0 ), detach_turn( 0 ), finished( 0 );
        for ( int t = 0; t < n; ++t )
            th.emplace_back( [&, t] {
                while ( attach_turn.load() != t ) std::this_thread::yield();
                if ( attach ) attach( t );
                attach_turn.store( t + 1 );
                vs::worker_begin( t );
                body( t );
                vs::worker_end();
                // detach only when every worker has left the scheduled region: detaching runs SMR scans that free
                // memory, and reused addresses would change the object ids seen by the workers still running
                while ( finished.load() != -1 && vs::S().nfinished < n ) std::this_thread::yield();
                while ( detach_turn.load() != t ) std::this_thread::yield();
                if ( detach ) detach( t );
                detach_turn.store( t + 1 );
            } );
        vs::run_go();
        for ( auto& t : th ) t.join();
    }

    inline void print_log( Case const& c, FILE* out = stdout )
    {
        namespace vs = khizmax_libcds_verif;
        std::fprintf( out, "case %s\n", c.id.c_str());
        for ( auto const& l : vs::S().log ) { std::fputs( l.c_str(), out ); std::fputc( '\n', out ); }
        std::fprintf( out, "endcase %s\n", vs::S().overrun ? "fuel" : "finished" );
    }

    inline void emitf( char const* fmt, long a = 0, long b = 0, long c = 0 )
    {
        char buf[128];
        std::snprintf( buf, sizeof( buf ), fmt, a, b, c );
        khizmax_libcds_verif::emit( buf );
    }
}
#endif
