// Runs one case on one list variant under the deterministic scheduler and prints
//   case <id> / event log / endcase <finished|fuel>     (format of ocaml/conc_main.ml; mode 0 keeps only "ev" lines)
//   mon variant <name>
//   mon keys <k>*            list contents by iteration at the quiescent point after the run
//   mon vals <v>*            (kv-lists) the values, same order
//   mon size <n|-1>          size() when an item counter is configured
//   mon bad <text>           a harness-side check failed
#ifndef VERIF_C13_RUNNER_H
#define VERIF_C13_RUNNER_H
#include <vcase.h>
#include <cds/threading/model.h>
#include "adapters.h"

namespace c13 {
    // cfg = [variant id, mode (0 observable: client events only, 1 step: every atomic access), max steps]
    template <class Adapter>
    void run_case( vcase::Case const& c, char const* name, bool counted )
    {
        int n = (int) c.threads.size();
        long mode = c.cfg.size() > 1 ? c.cfg[1] : 0;
        size_t max_steps = c.cfg.size() > 2 ? (size_t) c.cfg[2] : 20000;
        bad_list().clear();
        std::vector<std::pair<long, long>> snap;
        long sz = -1;
        {
            Adapter ad( n );
            vcase::run_workers( c, [&]( int t ) {
                for ( auto const& op : c.threads[t] )
                    lops::exec( ad, t, op );
            },
            []( int ) { cds::threading::Manager::attachThread(); },
            []( int ) { cds::threading::Manager::detachThread(); },
            max_steps );
            bool overrun = vs::S().overrun;
            std::printf( "case %s\n", c.id.c_str());
            for ( auto const& l : vs::S().log ) {
                if ( mode == 0 ) {
                    size_t p = l.find( ' ' );
                    if ( p == std::string::npos || l.compare( p + 1, 3, "ev " ) != 0 ) continue;
                }
                std::fputs( l.c_str(), stdout ); std::fputc( '\n', stdout );
            }
            std::printf( "endcase %s\n", overrun ? "fuel" : "finished" );
            if ( !overrun ) {
                ad.snapshot( snap );
                if ( counted ) sz = ad.size();
            }
        }
        std::printf( "mon variant %s\n", name );
        std::printf( "mon keys" ); for ( auto const& kv : snap ) std::printf( " %ld", kv.first ); std::printf( "\n" );
        if ( Adapter::is_map ) { std::printf( "mon vals" ); for ( auto const& kv : snap ) std::printf( " %ld", kv.second ); std::printf( "\n" ); }
        std::printf( "mon size %ld\n", sz );
        for ( auto const& b : bad_list()) std::printf( "mon bad %s\n", b.c_str());
    }

    struct variant {
        int id;
        char const* name;
        void ( *run )( vcase::Case const&, char const*, bool );
        bool counted;
    };
}
#endif
