// C13 / C01 cross-check on the REAL code: cds::gc::HP::scan() reads the hazard slots of a thread in ascending order, while
// MichaelList::search() copies guard_current_item (slot 1) into guard_prev_item (slot 0) and then overwrites slot 1
// (pos.guards.copy( guard_prev_item, guard_current_item ); ... copy( guard_current_item, guard_next_item )).
// A scan that read slot 0 before the copy and slot 1 after the overwrite never sees the node, although the searching
// thread holds it continuously (pPrev points into it): the node is disposed under the reader.
// The list is {1, 2}; thread 0: contains(2); thread 1: erase(1), then capacity-1 retires of unrelated objects ([20 0]) so
// that its retired array (capacity 13, pre-filled with capacity-1 entries before the run) fills up and a scan starts.  Monitor: atomic accesses to node 1's m_pNext after the
// disposer of node 1 ran ("mon ... uaf <n>").
// usage: hp_copy <casefile>      ops: [9 k] contains k, [4 k] erase k, [20 n] retire n unrelated objects
#include <cds/init.h>
#include <cds/gc/hp.h>
#include <cds/intrusive/michael_list_hp.h>
#include <vcase.h>
namespace vs = khizmax_libcds_verif;
namespace ci = cds::intrusive;
typedef cds::gc::HP HP;
struct item : public ci::michael_list::node<HP> { int key; bool disposed; };
struct disp { void operator()( item* p ) const { p->disposed = true; char b[64]; std::snprintf( b, sizeof b, "disp %d", p->key ); vs::emit( b ); } };
struct cmp { template <class A, class B> int operator()( A const& a, B const& b ) const { int x = k( a ), y = k( b ); return x < y ? -1 : x > y; }
  static int k( item const& i ) { return i.key; } static int k( int i ) { return i; } };
struct traits : public ci::michael_list::traits { typedef ci::michael_list::base_hook<cds::opt::gc<HP>> hook; typedef disp disposer; typedef cmp compare; };
typedef ci::MichaelList<HP, item, traits> list_t;
static char dummies[64][16];
int main( int argc, char** argv )
{
    cds::Initialize();
    {
        cds::gc::HP hp( 4, 3, 13 );    // retired capacity 13 (must exceed 4 * 3)
        long const cap = (long) cds::gc::hp::details::basic_smr::instance().get_max_retired_ptr_count();
        cds::threading::Manager::attachThread();
        std::ifstream in( argv[1] );
        vcase::Case c;
        while ( vcase::read_case( in, c )) {
            list_t* l = new list_t;
            item* n1 = new item; n1->key = 1; n1->disposed = false;
            item* n2 = new item; n2->key = 2; n2->disposed = false;
            l->insert( *n1 ); l->insert( *n2 );
            vcase::run_workers( c, [&]( int t ) {
                for ( auto const& op : c.threads[t] ) {
                    char b[64];
                    if ( op[0] == 9 ) { std::snprintf( b, sizeof b, "inv contains %ld", op[1] ); vs::emit( b ); bool r = l->contains( (int) op[1] ); std::snprintf( b, sizeof b, "ret %d", r ); vs::emit( b ); }
                    if ( op[0] == 20 ) { vs::emit( "inv retire_dummies" ); for ( long i = 0; i + 1 < ( op[1] > 0 ? op[1] + 1 : cap ); ++i ) cds::gc::HP::retire( (void*) dummies[30 + i], +[]( void* ) {} ); vs::emit( "ret 0" ); }
                    if ( op[0] == 4 ) { std::snprintf( b, sizeof b, "inv erase %ld", op[1] ); vs::emit( b ); bool r = l->erase( (int) op[1] ); std::snprintf( b, sizeof b, "ret %d", r ); vs::emit( b ); }
                }
            },
            [&]( int t ) { cds::threading::Manager::attachThread();
                           if ( t == 1 ) for ( long i = 0; i + 1 < cap; ++i ) cds::gc::HP::retire( (void*) dummies[i], +[]( void* ) {} ); },
            []( int ) { cds::threading::Manager::detachThread(); }, 20000 );
            int id1 = vs::obj_id( &n1->m_pNext );
            vcase::print_log( c );
            // accesses to n1's next field after n1 was disposed
            bool after = false; int uaf = 0; char pat[32]; std::snprintf( pat, sizeof pat, " o%d ", id1 );
            for ( auto const& s : vs::S().log ) {
                if ( s.find( "ev disp 1" ) != std::string::npos ) after = true;
                else if ( after && s.find( pat ) != std::string::npos ) { ++uaf; std::printf( "mon use-after-dispose: %s\n", s.c_str()); }
            }
            std::printf( "mon n1.next o%d disposed %d uaf %d\n", id1, (int) n1->disposed, uaf );
        }
        cds::threading::Manager::detachThread();
    }
    cds::Terminate();
}
