// Operation codes, event text and the generic per-thread interpreter shared by the ordered-list harnesses
// (C13; reusable by the hash-set harnesses built on these lists).
//
// A client operation is an integer list  [code, key, x, v]  (missing trailing entries are 0):
//     1 insert k [_ v]       2 insert-with-functor k      3 update/upsert k x [v]   (x bit 0: allow insert,
//                                                            bit 1: iterable kv-list: upsert(k,v) instead of update(k,functor))
//     4 erase k              5 erase-with-functor k       6 unlink k (intrusive: the caller's own item)
//     7 extract k            8 get k                      9 contains k
//    10 find-with-functor k 11 emplace k [_ v]
// Events (client-visible, "<tid> ev <text>" in the log; all arguments are integers so that the Coq step
// model LV.Model.MichaelList emits the very same text through EvCli):
//     inv <code> <k> <x> <v>     operation invoked
//     fn  <code> <flag> <key>    the user functor of the operation was called (flag = bNew for update,
//                                1 otherwise; key = key of the item the functor was given)
//     ret <a> <b>                operation returned: a = bool result / first of the pair,
//                                b = second of the pair (update) | key+1 of the item returned (extract, get; 0 = empty)
//                                    | value read (kv find/get) | 0
#ifndef VERIF_C13_LIST_OPS_H
#define VERIF_C13_LIST_OPS_H
#include <cstdio>
#include <vector>
#include <utility>
#include <khizmax_libcds_verif/sched.h>

namespace lops {
    enum {
        OP_INSERT = 1, OP_INSERT_F = 2, OP_UPDATE = 3, OP_ERASE = 4, OP_ERASE_F = 5, OP_UNLINK = 6,
        OP_EXTRACT = 7, OP_GET = 8, OP_CONTAINS = 9, OP_FIND_F = 10, OP_EMPLACE = 11, OP_MAX = 11
    };

    inline char const* op_name( long code )
    {
        static char const* n[] = { "?", "insert", "insert_f", "update", "erase", "erase_f", "unlink", "extract", "get", "contains", "find_f", "emplace" };
        return code >= 1 && code <= OP_MAX ? n[code] : "?";
    }

    typedef std::vector<long> op_t;
    inline long arg( op_t const& o, size_t i ) { return i < o.size() ? o[i] : 0; }

    inline void ev( char const* name, long a, long b, long c, long d, int n )
    {
        char buf[128];
        switch ( n ) {
        case 2: std::snprintf( buf, sizeof( buf ), "%s %ld %ld", name, a, b ); break;
        case 3: std::snprintf( buf, sizeof( buf ), "%s %ld %ld %ld", name, a, b, c ); break;
        default: std::snprintf( buf, sizeof( buf ), "%s %ld %ld %ld %ld", name, a, b, c, d ); break;
        }
        khizmax_libcds_verif::emit( buf );
    }
    inline void ev_inv( op_t const& o ) { ev( "inv", arg( o, 0 ), arg( o, 1 ), arg( o, 2 ), arg( o, 3 ), 4 ); }
    inline void ev_fn( long code, long flag, long key ) { ev( "fn", code, flag, key, 0, 3 ); }
    inline void ev_ret( long a, long b = 0 ) { ev( "ret", a, b, 0, 0, 2 ); }

    // Result of one operation as the adapter reports it
    struct result {
        long a, b;
        result( long a_ = 0, long b_ = 0 ) : a( a_ ), b( b_ ) {}
    };

    // Executes one client operation on the adapter `ad` (see harness/C13/adapters.h for the adapter interface)
    // and emits inv / ret around it (fn is emitted by the adapters' functors).
    // Operations the variant does not support are skipped without any event.
    template <class Adapter>
    inline bool exec( Adapter& ad, int tid, op_t const& o )
    {
        long code = arg( o, 0 ), k = arg( o, 1 ), x = arg( o, 2 ), v = arg( o, 3 );
        if ( code < 1 || code > OP_MAX || !( Adapter::supported & ( 1u << code )))
            return false;
        ev_inv( o );
        result r;
        switch ( code ) {
        case OP_INSERT:   r = ad.insert( tid, k, v ); break;
        case OP_INSERT_F: r = ad.insert_f( tid, k ); break;
        case OP_UPDATE:   r = ad.update( tid, k, x, v ); break;
        case OP_ERASE:    r = ad.erase( tid, k ); break;
        case OP_ERASE_F:  r = ad.erase_f( tid, k ); break;
        case OP_UNLINK:   r = ad.unlink( tid, k ); break;
        case OP_EXTRACT:  r = ad.extract( tid, k ); break;
        case OP_GET:      r = ad.get( tid, k ); break;
        case OP_CONTAINS: r = ad.contains( tid, k ); break;
        case OP_FIND_F:   r = ad.find_f( tid, k ); break;
        case OP_EMPLACE:  r = ad.emplace( tid, k, v ); break;
        }
        ev_ret( r.a, r.b );
        return true;
    }

    inline unsigned mask( std::initializer_list<int> l )
    {
        unsigned m = 0;
        for ( int c : l ) m |= 1u << c;
        return m;
    }
}
#endif
