// C13 harness: ordered lists (MichaelList, LazyList, IterableList; intrusive, cds::container set-like and
// key-value variants; HP, DHP, RCU general_instant / general_buffered, nogc) under the deterministic scheduler.
// usage: main <casefile>        cfg = [variant id, mode, max steps] (runner.h); ops: list_ops.h
// Compiled once per shard (-DC13_SHARD=n): each shard instantiates a few variants so that the template-heavy
// builds run in parallel.  Variant id = layer*100 + kind*20 + smr*4 + opt
//   layer 0 intrusive, 1 cds::container set-like, 2 key-value      kind 0 Michael, 1 Lazy, 2 Iterable
//   smr 0 HP, 1 DHP, 2 RCU general_instant, 3 RCU general_buffered, 4 nogc
//   opt bit 0: compare-based ordering (else less-based), bit 1: atomicity::item_counter (else empty_item_counter)
#include "runner.h"
#include <cds/sync/spinlock.h>

#ifndef C13_SHARD
#   define C13_SHARD 0
#endif

namespace ci = cds::intrusive;
namespace cc = cds::container;
using namespace c13;

typedef cds::gc::HP HP;
typedef cds::gc::DHP DHP;
typedef cds::urcu::gc<cds::urcu::general_instant<cds::sync::spin>> GPI;
typedef cds::urcu::gc<cds::urcu::general_buffered<cds::container::VyukovMPMCCycleQueue<cds::urcu::epoch_retired_ptr>, cds::sync::spin>> GPB;
typedef cds::gc::nogc NOGC;

#define OPT_CMP(o) ((( o ) & 1 ) != 0 )
#define OPT_IC(o)  ((( o ) & 2 ) != 0 )

// ---------------------------------------------------------------------------------------------------------
#if C13_SHARD >= 0 && C13_SHARD < 10      // intrusive
#include <cds/intrusive/michael_list_hp.h>
#include <cds/intrusive/michael_list_dhp.h>
#include <cds/intrusive/michael_list_rcu.h>
#include <cds/intrusive/michael_list_nogc.h>
#include <cds/intrusive/lazy_list_hp.h>
#include <cds/intrusive/lazy_list_dhp.h>
#include <cds/intrusive/lazy_list_rcu.h>
#include <cds/intrusive/lazy_list_nogc.h>
#include <cds/intrusive/iterable_list_hp.h>
#include <cds/intrusive/iterable_list_dhp.h>

template <class GC> struct mitem : public ci::michael_list::node<GC> { int key; int val; bool disposed; };
template <class GC> struct litem : public ci::lazy_list::node<GC> { int key; int val; bool disposed; };
struct iitem { int key; int val; bool disposed; };

template <class GC, int O> struct mi_traits : public order_traits<ci::michael_list::traits, OPT_CMP( O ), OPT_IC( O )> {
    typedef ci::michael_list::base_hook<cds::opt::gc<GC>> hook;
    typedef idisposer disposer;
};
template <class GC, int O> struct li_traits : public order_traits<ci::lazy_list::traits, OPT_CMP( O ), OPT_IC( O )> {
    typedef ci::lazy_list::base_hook<cds::opt::gc<GC>> hook;
    typedef idisposer disposer;
};
// IterableList allocates its nodes itself and deletes a node whose link CAS failed: with malloc the next node would
// reuse that address and the canonical object ids of the event log would depend on the allocator.  The harness gives
// the list an allocator that never reuses memory (chunks are kept until the process ends), matching the never-reusing
// allocator of the step model LV.Model.IterList.
template <class T> struct bump_alloc {
    typedef T value_type;
    template <class U> struct rebind { typedef bump_alloc<U> other; };
    bump_alloc() noexcept {}
    template <class U> bump_alloc( bump_alloc<U> const& ) noexcept {}
    static char*& cur() { static char* p = nullptr; return p; }
    static char*& end() { static char* p = nullptr; return p; }
    static std::mutex& mtx() { static std::mutex m; return m; }
    T* allocate( size_t n, void const* = nullptr )
    {
        std::lock_guard<std::mutex> g( mtx());
        size_t sz = ( n * sizeof( T ) + 15 ) & ~size_t( 15 );
        if ( cur() == nullptr || cur() + sz > end()) {
            size_t chunk = sz > ( 1u << 20 ) ? sz : ( 1u << 20 );
            cur() = static_cast<char*>( ::operator new( chunk )); end() = cur() + chunk;
        }
        char* r = cur(); cur() += sz;
        return reinterpret_cast<T*>( r );
    }
    void deallocate( T*, size_t ) noexcept {}
    template <class U> bool operator==( bump_alloc<U> const& ) const { return true; }
    template <class U> bool operator!=( bump_alloc<U> const& ) const { return false; }
};
template <int O> struct ii_traits : public order_traits<ci::iterable_list::traits, OPT_CMP( O ), OPT_IC( O )> {
    typedef idisposer disposer;
    typedef bump_alloc<int> node_allocator;
};
template <class GC, int O, class Smr> using MI = intrusive_adapter<ci::MichaelList<GC, mitem<GC>, mi_traits<GC, O>>, mitem<GC>, Smr, false>;
template <class GC, int O, class Smr> using LI = intrusive_adapter<ci::LazyList<GC, litem<GC>, li_traits<GC, O>>, litem<GC>, Smr, false>;
template <class GC, int O> using II = intrusive_adapter<ci::IterableList<GC, iitem, ii_traits<O>>, iitem, smr_guarded, true>;
template <int O> using MIN = intrusive_nogc_adapter<ci::MichaelList<NOGC, mitem<NOGC>, mi_traits<NOGC, O>>, mitem<NOGC>>;
template <int O> using LIN = intrusive_nogc_adapter<ci::LazyList<NOGC, litem<NOGC>, li_traits<NOGC, O>>, litem<NOGC>>;
#endif

#if C13_SHARD >= 10 && C13_SHARD < 20     // cds::container set-like
#include <cds/container/michael_list_hp.h>
#include <cds/container/michael_list_dhp.h>
#include <cds/container/michael_list_rcu.h>
#include <cds/container/michael_list_nogc.h>
#include <cds/container/lazy_list_hp.h>
#include <cds/container/lazy_list_dhp.h>
#include <cds/container/lazy_list_rcu.h>
#include <cds/container/lazy_list_nogc.h>
#include <cds/container/iterable_list_hp.h>
#include <cds/container/iterable_list_dhp.h>
template <int O> struct mc_traits : public order_traits<cc::michael_list::traits, OPT_CMP( O ), OPT_IC( O )> {};
template <int O> struct lc_traits : public order_traits<cc::lazy_list::traits, OPT_CMP( O ), OPT_IC( O )> {};
template <int O> struct ic_traits : public order_traits<cc::iterable_list::traits, OPT_CMP( O ), OPT_IC( O )> {};
template <class GC, int O, class Smr> using MC = set_adapter<cc::MichaelList<GC, sitem, mc_traits<O>>, Smr>;
template <class GC, int O, class Smr> using LC = set_adapter<cc::LazyList<GC, sitem, lc_traits<O>>, Smr>;
template <class GC, int O> using IC = set_adapter<cc::IterableList<GC, sitem, ic_traits<O>>, smr_guarded>;
template <int O> using MCN = set_nogc_adapter<cc::MichaelList<NOGC, sitem, mc_traits<O>>>;
template <int O> using LCN = set_nogc_adapter<cc::LazyList<NOGC, sitem, lc_traits<O>>>;
#endif

#if C13_SHARD >= 20 && C13_SHARD < 30     // key-value
#include <cds/container/michael_kvlist_hp.h>
#include <cds/container/michael_kvlist_dhp.h>
#include <cds/container/michael_kvlist_rcu.h>
#include <cds/container/michael_kvlist_nogc.h>
#include <cds/container/lazy_kvlist_hp.h>
#include <cds/container/lazy_kvlist_dhp.h>
#include <cds/container/lazy_kvlist_rcu.h>
#include <cds/container/lazy_kvlist_nogc.h>
#include <cds/container/iterable_kvlist_hp.h>
#include <cds/container/iterable_kvlist_dhp.h>
template <int O> struct mk_traits : public order_traits<cc::michael_list::traits, OPT_CMP( O ), OPT_IC( O )> {};
template <int O> struct lk_traits : public order_traits<cc::lazy_list::traits, OPT_CMP( O ), OPT_IC( O )> {};
template <int O> struct ik_traits : public order_traits<cc::iterable_list::traits, OPT_CMP( O ), OPT_IC( O )> {};
template <class GC, int O, class Smr> using MK = kv_adapter<cc::MichaelKVList<GC, int, int, mk_traits<O>>, Smr, false>;
template <class GC, int O, class Smr> using LK = kv_adapter<cc::LazyKVList<GC, int, int, lk_traits<O>>, Smr, false>;
template <class GC, int O> using IK = kv_adapter<cc::IterableKVList<GC, int, int, ik_traits<O>>, smr_guarded, true>;
template <int O> using MKN = kv_nogc_adapter<cc::MichaelKVList<NOGC, int, int, mk_traits<O>>>;
template <int O> using LKN = kv_nogc_adapter<cc::LazyKVList<NOGC, int, int, lk_traits<O>>>;
#endif

#define V( id, name, ... ) { id, name, &run_case<__VA_ARGS__>, (( id ) & 2 ) != 0 }

static const variant table[] = {
#if C13_SHARD == 0
    V( 0, "i.michael.hp.less", MI<HP, 0, smr_guarded> ),
    V( 3, "i.michael.hp.cmp.ic", MI<HP, 3, smr_guarded> ),
#elif C13_SHARD == 1
    V( 4, "i.michael.dhp.less", MI<DHP, 0, smr_guarded> ),
    V( 7, "i.michael.dhp.cmp.ic", MI<DHP, 3, smr_guarded> ),
#elif C13_SHARD == 2
    V( 8, "i.michael.gpi.less", MI<GPI, 0, smr_rcu> ),
    V( 15, "i.michael.gpb.cmp.ic", MI<GPB, 3, smr_rcu> ),
    V( 16, "i.michael.nogc.less", MIN<0> ),
    V( 19, "i.michael.nogc.cmp.ic", MIN<3> ),
#elif C13_SHARD == 3
    V( 20, "i.lazy.hp.less", LI<HP, 0, smr_guarded> ),
    V( 23, "i.lazy.hp.cmp.ic", LI<HP, 3, smr_guarded> ),
#elif C13_SHARD == 4
    V( 24, "i.lazy.dhp.less", LI<DHP, 0, smr_guarded> ),
    V( 27, "i.lazy.dhp.cmp.ic", LI<DHP, 3, smr_guarded> ),
#elif C13_SHARD == 5
    V( 28, "i.lazy.gpi.less", LI<GPI, 0, smr_rcu> ),
    V( 35, "i.lazy.gpb.cmp.ic", LI<GPB, 3, smr_rcu> ),
    V( 36, "i.lazy.nogc.less", LIN<0> ),
    V( 39, "i.lazy.nogc.cmp.ic", LIN<3> ),
#elif C13_SHARD == 6
    V( 40, "i.iterable.hp.less", II<HP, 0> ),
    V( 43, "i.iterable.hp.cmp.ic", II<HP, 3> ),
    V( 44, "i.iterable.dhp.less", II<DHP, 0> ),
    V( 47, "i.iterable.dhp.cmp.ic", II<DHP, 3> ),
#elif C13_SHARD == 10
    V( 100, "c.michael.hp.less", MC<HP, 0, smr_guarded> ),
    V( 103, "c.michael.hp.cmp.ic", MC<HP, 3, smr_guarded> ),
#elif C13_SHARD == 11
    V( 104, "c.michael.dhp.less", MC<DHP, 0, smr_guarded> ),
    V( 107, "c.michael.dhp.cmp.ic", MC<DHP, 3, smr_guarded> ),
#elif C13_SHARD == 12
    V( 108, "c.michael.gpi.less", MC<GPI, 0, smr_rcu> ),
    V( 115, "c.michael.gpb.cmp.ic", MC<GPB, 3, smr_rcu> ),
    V( 116, "c.michael.nogc.less", MCN<0> ),
    V( 119, "c.michael.nogc.cmp.ic", MCN<3> ),
#elif C13_SHARD == 13
    V( 120, "c.lazy.hp.less", LC<HP, 0, smr_guarded> ),
    V( 123, "c.lazy.hp.cmp.ic", LC<HP, 3, smr_guarded> ),
#elif C13_SHARD == 14
    V( 124, "c.lazy.dhp.less", LC<DHP, 0, smr_guarded> ),
    V( 127, "c.lazy.dhp.cmp.ic", LC<DHP, 3, smr_guarded> ),
#elif C13_SHARD == 15
    V( 128, "c.lazy.gpi.less", LC<GPI, 0, smr_rcu> ),
    V( 135, "c.lazy.gpb.cmp.ic", LC<GPB, 3, smr_rcu> ),
    V( 136, "c.lazy.nogc.less", LCN<0> ),
    V( 139, "c.lazy.nogc.cmp.ic", LCN<3> ),
#elif C13_SHARD == 16
    V( 140, "c.iterable.hp.less", IC<HP, 0> ),
    V( 143, "c.iterable.hp.cmp.ic", IC<HP, 3> ),
    V( 144, "c.iterable.dhp.less", IC<DHP, 0> ),
    V( 147, "c.iterable.dhp.cmp.ic", IC<DHP, 3> ),
#elif C13_SHARD == 20
    V( 200, "kv.michael.hp.less", MK<HP, 0, smr_guarded> ),
    V( 203, "kv.michael.hp.cmp.ic", MK<HP, 3, smr_guarded> ),
#elif C13_SHARD == 21
    V( 204, "kv.michael.dhp.less", MK<DHP, 0, smr_guarded> ),
    V( 207, "kv.michael.dhp.cmp.ic", MK<DHP, 3, smr_guarded> ),
#elif C13_SHARD == 22
    V( 208, "kv.michael.gpi.less", MK<GPI, 0, smr_rcu> ),
    V( 215, "kv.michael.gpb.cmp.ic", MK<GPB, 3, smr_rcu> ),
    V( 216, "kv.michael.nogc.less", MKN<0> ),
    V( 219, "kv.michael.nogc.cmp.ic", MKN<3> ),
#elif C13_SHARD == 23
    V( 220, "kv.lazy.hp.less", LK<HP, 0, smr_guarded> ),
    V( 223, "kv.lazy.hp.cmp.ic", LK<HP, 3, smr_guarded> ),
#elif C13_SHARD == 24
    V( 224, "kv.lazy.dhp.less", LK<DHP, 0, smr_guarded> ),
    V( 227, "kv.lazy.dhp.cmp.ic", LK<DHP, 3, smr_guarded> ),
#elif C13_SHARD == 25
    V( 228, "kv.lazy.gpi.less", LK<GPI, 0, smr_rcu> ),
    V( 235, "kv.lazy.gpb.cmp.ic", LK<GPB, 3, smr_rcu> ),
    V( 236, "kv.lazy.nogc.less", LKN<0> ),
    V( 239, "kv.lazy.nogc.cmp.ic", LKN<3> ),
#elif C13_SHARD == 26
    V( 240, "kv.iterable.hp.less", IK<HP, 0> ),
    V( 243, "kv.iterable.hp.cmp.ic", IK<HP, 3> ),
    V( 244, "kv.iterable.dhp.less", IK<DHP, 0> ),
    V( 247, "kv.iterable.dhp.cmp.ic", IK<DHP, 3> ),
#endif
};

int main( int argc, char** argv )
{
    if ( argc < 2 ) {
        for ( auto const& v : table ) std::printf( "%d %s\n", v.id, v.name );
        return 0;
    }
    cds::Initialize();
    {
        // retired arrays large enough that no scan runs inside a case (the per-thread arrays are flushed when the
        // worker detaches at the end of every case)
        cds::gc::HP hp( 16, 8, 4096 );
        cds::gc::DHP dhp;
        GPI gpi;
        GPB gpb( 4096 );
        cds::threading::Manager::attachThread();
        std::ifstream in( argv[1] );
        vcase::Case c;
        while ( vcase::read_case( in, c )) {
            long id = c.cfg.empty() ? -1 : c.cfg[0];
            bool done = false;
            for ( auto const& v : table )
                if ( v.id == id ) { v.run( c, v.name, v.counted ); done = true; }
            if ( !done )
                std::printf( "case %s\nendcase skipped\n", c.id.c_str());
            std::fflush( stdout );
        }
        cds::threading::Manager::detachThread();
    }
    cds::Terminate();
    return 0;
}
