// Adapters giving every ordered-list variant of libcds one uniform interface for lops::exec (list_ops.h).
//
// Every adapter method performs ONE public API call of the real container and then emits an "sp" event that
// states the call in the vocabulary of the sequential specification (coq/Spec/Specs.v, text format of
// ocaml/lincheck_main.ml):        sp <spec operation> = <spec result>        or   sp skip
// The translation may depend on the result only where the API call's meaning does (e.g. update of a kv-list
// whose functor leaves a fresh item's value alone is `update k 0 allow` when it inserted and `update k v allow`
// when it found the key).  "sp skip" marks a call without effect on the abstract state whose result is decided
// directly in the harness (unlink of an item that is not the list's item).
#ifndef VERIF_C13_ADAPTERS_H
#define VERIF_C13_ADAPTERS_H
#include <cstdio>
#include <string>
#include <vector>
#include <map>
#include <mutex>
#include <cds/init.h>
#include <cds/gc/hp.h>
#include <cds/gc/dhp.h>
#include <cds/gc/nogc.h>
#include <cds/urcu/general_instant.h>
#include <cds/urcu/general_buffered.h>
#include "list_ops.h"

namespace c13 {
    namespace vs = khizmax_libcds_verif;
    using lops::result;

    // ---- spec-level record of the call just made -------------------------------------------------------
    inline void sp( char const* fmt, long a = 0, long b = 0, long c = 0 )
    {
        char buf[160];
        int n = std::snprintf( buf, sizeof( buf ), "sp " );
        std::snprintf( buf + n, sizeof( buf ) - n, fmt, a, b, c );
        vs::emit( buf );
    }
    inline char const* tf( bool b ) { return b ? "true" : "false"; }
    // set vocabulary
    inline void sp_set_insert( long k, bool r ) { sp( r ? "insert %ld = true" : "insert %ld = false", k ); }
    inline void sp_set_erase( long k, bool r ) { sp( r ? "erase %ld = true" : "erase %ld = false", k ); }
    inline void sp_set_contains( long k, bool r ) { sp( r ? "contains %ld = true" : "contains %ld = false", k ); }
    inline void sp_set_update( long k, bool allow, bool a, bool b )
    {
        char buf[96];
        std::snprintf( buf, sizeof( buf ), "update %%ld %s = pair %s %s", tf( allow ), tf( a ), tf( b ));
        sp( buf, k );
    }
    // map vocabulary
    inline void sp_map_insert( long k, long v, bool r ) { sp( r ? "insert %ld %ld = true" : "insert %ld %ld = false", k, v ); }
    inline void sp_map_erase( long k, bool r ) { sp_set_erase( k, r ); }
    inline void sp_map_contains( long k, bool r ) { sp_set_contains( k, r ); }
    inline void sp_map_find( long k, bool found, long v )
    {
        if ( found ) sp( "find %ld = some %ld", k, v ); else sp( "find %ld = none", k );
    }
    inline void sp_map_update( long k, long v, bool allow, bool a, bool b )
    {
        char buf[96];
        std::snprintf( buf, sizeof( buf ), "update %%ld %%ld %s = pair %s %s", tf( allow ), tf( a ), tf( b ));
        sp( buf, k, v );
    }
    inline void sp_skip() { sp( "skip" ); }
    // harness-side check failed (functor given the wrong item, extract returned a foreign key, ...)
    inline std::vector<std::string>& bad_list() { static std::vector<std::string> v; return v; }
    inline void bad( char const* what, long a = 0, long b = 0 )
    {
        char buf[160];
        std::snprintf( buf, sizeof( buf ), what, a, b );
        bad_list().push_back( buf );
    }

    // ---- keys, comparators -----------------------------------------------------------------------------
    struct keyof {
        static int get( int k ) { return k; }
        static int get( long k ) { return (int) k; }
        template <typename A, typename B> static int get( std::pair<A, B> const& p ) { return p.first; }
        template <typename T> static auto get( T const& v ) -> decltype( v.key ) { return v.key; }
    };
    struct less_t {
        template <typename A, typename B> bool operator()( A const& a, B const& b ) const { return keyof::get( a ) < keyof::get( b ); }
    };
    struct cmp_t {
        template <typename A, typename B> int operator()( A const& a, B const& b ) const
        {
            int x = keyof::get( a ), y = keyof::get( b );
            return x < y ? -1 : ( x > y ? 1 : 0 );
        }
    };
    // trait selection: Cmp ? compare-based : less-based ordering; IC ? atomicity::item_counter : empty_item_counter
    template <class Base, bool Cmp, bool IC>
    struct order_traits : public Base {
        typedef typename std::conditional<Cmp, cmp_t, cds::opt::none>::type compare;
        typedef typename std::conditional<Cmp, cds::opt::none, less_t>::type less;
        typedef typename std::conditional<IC, cds::atomicity::item_counter, cds::atomicity::empty_item_counter>::type item_counter;
    };

    // ---- SMR policies: how extract / get hand an item back, read-side locking for iteration -------------
    struct smr_guarded {      // HP, DHP: guarded_ptr
        static const bool has_erase = true;
        template <class L> struct reader { reader() {} };
        template <class L, class K, class F> static bool extract( L& l, K const& k, F f )
        {
            typename L::guarded_ptr gp( l.extract( k ));
            if ( !gp ) return false;
            f( *gp );
            return true;
        }
        template <class L, class K, class F> static bool get( L& l, K const& k, F f )
        {
            typename L::guarded_ptr gp( l.get( k ));
            if ( !gp ) return false;
            f( *gp );
            return true;
        }
    };
    struct smr_rcu {          // user-space RCU: exempt_ptr from extract (outside a read-side section), get inside one
        static const bool has_erase = true;
        template <class L> struct reader { typename L::rcu_lock l; };
        template <class L, class K, class F> static bool extract( L& l, K const& k, F f )
        {
            typename L::exempt_ptr ep( l.extract( k ));
            if ( !ep ) return false;
            f( *ep );
            return true;
        }
        template <class P> static void release_raw( P& p, decltype( &P::release ) ) { p.release(); }
        template <class P> static void release_raw( P&, ... ) {}
        template <class L, class K, class F> static bool get( L& l, K const& k, F f )
        {
            bool found = false;
            auto p = decltype( l.get( k ))();
            {
                typename L::rcu_lock lock;
                p = l.get( k );
                if ( p ) { found = true; f( *p ); }
            }
            release_raw( p, nullptr );
            return found;
        }
    };

    // ====================================================================================================
    // Intrusive lists (set of keys; an item is an object owned by the harness)
    // ====================================================================================================
    struct idisposer {
        template <class T> void operator()( T* p ) const { p->disposed = true; }
    };

    // functor usable with both update signatures: (bNew, item, val) of Michael/Lazy, (val, old) of Iterable
    template <class Item>
    struct iupdate_fn {
        long k;
        void operator()( bool bNew, Item& item, Item& ) const
        {
            lops::ev_fn( lops::OP_UPDATE, bNew ? 1 : 0, item.key );
        }
        void operator()( Item& val, Item* old ) const
        {
            lops::ev_fn( lops::OP_UPDATE, old ? 0 : 1, val.key );
        }
    };

    // List: the intrusive list type; Item: its value_type (has key, val, disposed);
    // Smr: smr_guarded | smr_rcu | void (nogc); Replacing: update of an existing key replaces the item (IterableList)
    template <class List, class Item, class Smr, bool Replacing>
    struct intrusive_adapter {
        static const unsigned supported = ( 1u << lops::OP_INSERT ) | ( 1u << lops::OP_INSERT_F ) | ( 1u << lops::OP_UPDATE ) | ( 1u << lops::OP_ERASE )
            | ( 1u << lops::OP_ERASE_F ) | ( 1u << lops::OP_UNLINK ) | ( 1u << lops::OP_EXTRACT ) | ( 1u << lops::OP_GET ) | ( 1u << lops::OP_CONTAINS ) | ( 1u << lops::OP_FIND_F );
        static const bool is_map = false;
        List l;
        std::vector<std::map<long, Item*>> own;    // per thread: key -> the item this thread linked last
        std::vector<Item*> all;
        std::mutex m;

        explicit intrusive_adapter( int nthreads ) : own( nthreads ) {}
        Item* fresh( long k )
        {
            Item* p = new Item; p->key = (int) k; p->val = 0; p->disposed = false;
            std::lock_guard<std::mutex> g( m ); all.push_back( p ); return p;    // kept until the process ends (never reused)
        }
        result insert( int t, long k, long )
        {
            Item* p = fresh( k );
            bool r = l.insert( *p );
            if ( r ) own[t][k] = p;
            sp_set_insert( k, r ); return result( r );
        }
        result insert_f( int t, long k )
        {
            Item* p = fresh( k );
            bool r = l.insert( *p, [p]( Item& it ) { if ( &it != p ) bad( "insert functor got a foreign item (key %ld)", it.key ); lops::ev_fn( lops::OP_INSERT_F, 1, it.key ); } );
            if ( r ) own[t][k] = p;
            sp_set_insert( k, r ); return result( r );
        }
        result update( int t, long k, long x, long )
        {
            bool allow = ( x & 1 ) != 0;
            Item* p = fresh( k );
            iupdate_fn<Item> f; f.k = k;
            std::pair<bool, bool> r = l.update( *p, f, allow );
            if ( r.second || ( Replacing && r.first )) own[t][k] = p;
            sp_set_update( k, allow, r.first, r.second ); return result( r.first, r.second );
        }
        result erase( int, long k )
        {
            bool r = l.erase( (int) k );
            sp_set_erase( k, r ); return result( r );
        }
        result erase_f( int, long k )
        {
            bool r = l.erase( (int) k, [k]( Item const& it ) { if ( it.key != k ) bad( "erase functor got key %ld instead of %ld", it.key, k ); lops::ev_fn( lops::OP_ERASE_F, 1, it.key ); } );
            sp_set_erase( k, r ); return result( r );
        }
        result unlink( int t, long k )
        {
            auto it = own[t].find( k );
            bool mine = it != own[t].end();
            Item* p = mine ? it->second : fresh( k );
            bool r = l.unlink( *p );
            if ( r && !mine ) bad( "unlink of an item that was never linked returned true (key %ld)", k );
            if ( r ) { own[t].erase( k ); sp_set_erase( k, true ); }
            else sp_skip();
            return result( r, mine );
        }
        result extract( int, long k )
        {
            long got = 0;
            bool r = Smr::extract( l, (int) k, [&]( Item& it ) { got = it.key + 1; } );
            if ( r && got != k + 1 ) bad( "extract returned key %ld instead of %ld", got - 1, k );
            sp_set_erase( k, r ); return result( r, got );
        }
        result get( int, long k )
        {
            long got = 0;
            bool r = Smr::get( l, (int) k, [&]( Item& it ) { got = it.key + 1; } );
            if ( r && got != k + 1 ) bad( "get returned key %ld instead of %ld", got - 1, k );
            sp_set_contains( k, r ); return result( r, got );
        }
        result contains( int, long k )
        {
            bool r = l.contains( (int) k );
            sp_set_contains( k, r ); return result( r );
        }
        result find_f( int, long k )
        {
            int key = (int) k;
            bool r = l.find( key, [k]( Item& it, int& ) { if ( it.key != k ) bad( "find functor got key %ld instead of %ld", it.key, k ); lops::ev_fn( lops::OP_FIND_F, 1, it.key ); } );
            sp_set_contains( k, r ); return result( r );
        }
        result emplace( int, long, long ) { return result(); }

        void snapshot( std::vector<std::pair<long, long>>& out )
        {
            typename Smr::template reader<List> rd; (void) rd;
            for ( auto it = l.begin(); it != l.end(); ++it ) {
                if ( it->disposed ) bad( "a disposed item is reachable (key %ld)", it->key );
                out.push_back( std::make_pair( (long) it->key, 0L ));
            }
        }
        long size() { return (long) l.size(); }
    };

    // nogc intrusive lists: insert / update / contains / find only
    struct smr_none {
        template <class L> struct reader { reader() {} };
    };
    template <class List, class Item>
    struct intrusive_nogc_adapter {
        static const unsigned supported = ( 1u << lops::OP_INSERT ) | ( 1u << lops::OP_UPDATE ) | ( 1u << lops::OP_CONTAINS ) | ( 1u << lops::OP_FIND_F );
        static const bool is_map = false;
        List l;
        std::vector<Item*> all;
        std::mutex m;
        explicit intrusive_nogc_adapter( int ) {}
        Item* fresh( long k )
        {
            Item* p = new Item; p->key = (int) k; p->val = 0; p->disposed = false;
            std::lock_guard<std::mutex> g( m ); all.push_back( p ); return p;
        }
        result insert( int, long k, long ) { bool r = l.insert( *fresh( k )); sp_set_insert( k, r ); return result( r ); }
        result update( int, long k, long x, long )
        {
            bool allow = ( x & 1 ) != 0;
            iupdate_fn<Item> f; f.k = k;
            std::pair<bool, bool> r = l.update( *fresh( k ), f, allow );
            sp_set_update( k, allow, r.first, r.second ); return result( r.first, r.second );
        }
        result contains( int, long k ) { bool r = l.contains( (int) k ) != nullptr; sp_set_contains( k, r ); return result( r ); }
        result find_f( int, long k )
        {
            int key = (int) k;
            bool r = l.find( key, [k]( Item& it, int& ) { if ( it.key != k ) bad( "find functor got key %ld instead of %ld", it.key, k ); lops::ev_fn( lops::OP_FIND_F, 1, it.key ); } );
            sp_set_contains( k, r ); return result( r );
        }
        result insert_f( int, long ) { return result(); }
        result erase( int, long ) { return result(); }
        result erase_f( int, long ) { return result(); }
        result unlink( int, long ) { return result(); }
        result extract( int, long ) { return result(); }
        result get( int, long ) { return result(); }
        result emplace( int, long, long ) { return result(); }
        void snapshot( std::vector<std::pair<long, long>>& out )
        {
            for ( auto it = l.begin(); it != l.end(); ++it ) out.push_back( std::make_pair( (long) it->key, 0L ));
        }
        long size() { return (long) l.size(); }
    };

    // ====================================================================================================
    // cds::container set-like lists: value_type = sitem, ordered by sitem::key
    // ====================================================================================================
    struct sitem {
        int key; int val;
        sitem() : key( 0 ), val( 0 ) {}
        sitem( int k ) : key( k ), val( 0 ) {}
        sitem( int k, int v ) : key( k ), val( v ) {}
    };
    struct supdate_fn {
        template <class Q> void operator()( bool bNew, sitem& item, Q const& ) const { lops::ev_fn( lops::OP_UPDATE, bNew ? 1 : 0, item.key ); }
        void operator()( sitem& val, sitem* old ) const { lops::ev_fn( lops::OP_UPDATE, old ? 0 : 1, val.key ); }
    };

    template <class List, class Smr>
    struct set_adapter {
        static const unsigned supported = ( 1u << lops::OP_INSERT ) | ( 1u << lops::OP_INSERT_F ) | ( 1u << lops::OP_UPDATE ) | ( 1u << lops::OP_ERASE )
            | ( 1u << lops::OP_ERASE_F ) | ( 1u << lops::OP_EXTRACT ) | ( 1u << lops::OP_GET ) | ( 1u << lops::OP_CONTAINS ) | ( 1u << lops::OP_FIND_F ) | ( 1u << lops::OP_EMPLACE );
        static const bool is_map = false;
        List l;
        explicit set_adapter( int ) {}
        result insert( int, long k, long ) { bool r = l.insert( (int) k ); sp_set_insert( k, r ); return result( r ); }
        result insert_f( int, long k )
        {
            bool r = l.insert( (int) k, [k]( sitem& it ) { if ( it.key != k ) bad( "insert functor got key %ld instead of %ld", it.key, k ); lops::ev_fn( lops::OP_INSERT_F, 1, it.key ); } );
            sp_set_insert( k, r ); return result( r );
        }
        result update( int, long k, long x, long )
        {
            bool allow = ( x & 1 ) != 0;
            std::pair<bool, bool> r = l.update( (int) k, supdate_fn(), allow );
            sp_set_update( k, allow, r.first, r.second ); return result( r.first, r.second );
        }
        result emplace( int, long k, long v ) { bool r = l.emplace( (int) k, (int) v ); sp_set_insert( k, r ); return result( r ); }
        result erase( int, long k ) { bool r = l.erase( (int) k ); sp_set_erase( k, r ); return result( r ); }
        result erase_f( int, long k )
        {
            bool r = l.erase( (int) k, [k]( sitem const& it ) { if ( it.key != k ) bad( "erase functor got key %ld instead of %ld", it.key, k ); lops::ev_fn( lops::OP_ERASE_F, 1, it.key ); } );
            sp_set_erase( k, r ); return result( r );
        }
        result unlink( int, long ) { return result(); }
        result extract( int, long k )
        {
            long got = 0;
            bool r = Smr::extract( l, (int) k, [&]( sitem& it ) { got = it.key + 1; } );
            if ( r && got != k + 1 ) bad( "extract returned key %ld instead of %ld", got - 1, k );
            sp_set_erase( k, r ); return result( r, got );
        }
        result get( int, long k )
        {
            long got = 0;
            bool r = Smr::get( l, (int) k, [&]( sitem& it ) { got = it.key + 1; } );
            if ( r && got != k + 1 ) bad( "get returned key %ld instead of %ld", got - 1, k );
            sp_set_contains( k, r ); return result( r, got );
        }
        result contains( int, long k ) { bool r = l.contains( (int) k ); sp_set_contains( k, r ); return result( r ); }
        result find_f( int, long k )
        {
            int key = (int) k;
            bool r = l.find( key, [k]( sitem& it, int const& ) { if ( it.key != k ) bad( "find functor got key %ld instead of %ld", it.key, k ); lops::ev_fn( lops::OP_FIND_F, 1, it.key ); } );
            sp_set_contains( k, r ); return result( r );
        }
        void snapshot( std::vector<std::pair<long, long>>& out )
        {
            typename Smr::template reader<List> rd; (void) rd;
            for ( auto it = l.begin(); it != l.end(); ++it ) out.push_back( std::make_pair( (long) it->key, 0L ));
        }
        long size() { return (long) l.size(); }
    };

    // container nogc: insert / update(key, allow) / emplace / contains, all returning iterators
    template <class List>
    struct set_nogc_adapter {
        static const unsigned supported = ( 1u << lops::OP_INSERT ) | ( 1u << lops::OP_UPDATE ) | ( 1u << lops::OP_CONTAINS ) | ( 1u << lops::OP_EMPLACE );
        static const bool is_map = false;
        List l;
        explicit set_nogc_adapter( int ) {}
        result insert( int, long k, long )
        {
            auto it = l.insert( (int) k ); bool r = it != l.end();
            if ( r && it->key != k ) bad( "insert returned an iterator to key %ld instead of %ld", it->key, k );
            sp_set_insert( k, r ); return result( r );
        }
        result emplace( int, long k, long v )
        {
            auto it = l.emplace( (int) k, (int) v ); bool r = it != l.end();
            if ( r && it->key != k ) bad( "emplace returned an iterator to key %ld instead of %ld", it->key, k );
            sp_set_insert( k, r ); return result( r );
        }
        result update( int, long k, long x, long )
        {
            bool allow = ( x & 1 ) != 0;
            auto pr = l.update( (int) k, allow ); bool ok = pr.first != l.end();
            if ( ok && pr.first->key != k ) bad( "update returned an iterator to key %ld instead of %ld", pr.first->key, k );
            sp_set_update( k, allow, ok, pr.second ); return result( ok, pr.second );
        }
        result contains( int, long k )
        {
            auto it = l.contains( (int) k ); bool r = it != l.end();
            if ( r && it->key != k ) bad( "contains returned an iterator to key %ld instead of %ld", it->key, k );
            sp_set_contains( k, r ); return result( r );
        }
        result insert_f( int, long ) { return result(); }
        result erase( int, long ) { return result(); }
        result erase_f( int, long ) { return result(); }
        result unlink( int, long ) { return result(); }
        result extract( int, long ) { return result(); }
        result get( int, long ) { return result(); }
        result find_f( int, long ) { return result(); }
        void snapshot( std::vector<std::pair<long, long>>& out )
        {
            for ( auto it = l.begin(); it != l.end(); ++it ) out.push_back( std::make_pair( (long) it->key, 0L ));
        }
        long size() { return (long) l.size(); }
    };

    // ====================================================================================================
    // key-value lists: key int, mapped int (default value 0)
    // ====================================================================================================
    // update functor of Michael/Lazy kv-lists: (bNew, item).  A fresh item keeps its default value 0 (the
    // functor runs after the item became visible, see the header comment); an existing item gets value v.
    struct kvupdate_fn {
        long v;
        template <class P> void operator()( bool bNew, P& item ) const
        {
            lops::ev_fn( lops::OP_UPDATE, bNew ? 1 : 0, item.first );
            if ( !bNew ) item.second = (int) v;
        }
        // IterableKVList: (val, old): val is the new pair (key, 0) that replaces old
        template <class P> void operator()( P& val, P* old ) const
        {
            lops::ev_fn( lops::OP_UPDATE, old ? 0 : 1, val.first );
        }
    };

    // Replacing = IterableKVList (update replaces the pair; upsert(k, v) available)
    template <class List, class Smr, bool Replacing>
    struct kv_adapter {
        static const unsigned supported = ( 1u << lops::OP_INSERT ) | ( 1u << lops::OP_INSERT_F ) | ( 1u << lops::OP_UPDATE ) | ( 1u << lops::OP_ERASE )
            | ( 1u << lops::OP_ERASE_F ) | ( 1u << lops::OP_EXTRACT ) | ( 1u << lops::OP_GET ) | ( 1u << lops::OP_CONTAINS ) | ( 1u << lops::OP_FIND_F ) | ( 1u << lops::OP_EMPLACE );
        static const bool is_map = true;
        typedef typename List::value_type pair_t;
        List l;
        explicit kv_adapter( int ) {}
        result insert( int, long k, long v )
        {
            bool r = v ? l.insert( (int) k, (int) v ) : l.insert( (int) k );
            sp_map_insert( k, v, r ); return result( r );
        }
        result insert_f( int, long k )
        {
            bool r = l.insert_with( (int) k, [k]( pair_t& it ) { if ( it.first != k ) bad( "insert_with functor got key %ld instead of %ld", it.first, k ); lops::ev_fn( lops::OP_INSERT_F, 1, it.first ); } );
            sp_map_insert( k, 0, r ); return result( r );
        }
        template <bool R> typename std::enable_if<!R, std::pair<bool, bool>>::type do_update( long k, bool allow, long v, bool )
        {
            kvupdate_fn f; f.v = v;
            return l.update( (int) k, f, allow );
        }
        template <bool R> typename std::enable_if<R, std::pair<bool, bool>>::type do_update( long k, bool allow, long v, bool ups )
        {
            if ( ups ) return l.upsert( (int) k, (int) v, allow );
            kvupdate_fn f; f.v = 0;
            return l.update( (int) k, f, allow );
        }
        // x: bit 0 allow insert, bit 1 (iterable kv-list only) use upsert( k, v ) instead of update( k, functor )
        result update( int, long k, long x, long v )
        {
            bool allow = ( x & 1 ) != 0, ups = Replacing && ( x & 2 ) != 0;
            std::pair<bool, bool> r = do_update<Replacing>( k, allow, v, ups );
            // value the key has afterwards: Michael/Lazy: fresh item 0, existing item v; Iterable: upsert v, update-with-functor 0
            long nv = Replacing ? ( ups ? v : 0 ) : ( r.second ? 0 : v );
            sp_map_update( k, nv, allow, r.first, r.second ); return result( r.first, r.second );
        }
        result emplace( int, long k, long v ) { bool r = l.emplace( (int) k, (int) v ); sp_map_insert( k, v, r ); return result( r ); }
        result erase( int, long k ) { bool r = l.erase( (int) k ); sp_map_erase( k, r ); return result( r ); }
        result erase_f( int, long k )
        {
            bool r = l.erase( (int) k, [k]( pair_t& it ) { if ( it.first != k ) bad( "erase functor got key %ld instead of %ld", it.first, k ); lops::ev_fn( lops::OP_ERASE_F, 1, it.first ); } );
            sp_map_erase( k, r ); return result( r );
        }
        result unlink( int, long ) { return result(); }
        result extract( int, long k )
        {
            long got = 0;
            bool r = Smr::extract( l, (int) k, [&]( pair_t& it ) { got = it.first + 1; } );
            if ( r && got != k + 1 ) bad( "extract returned key %ld instead of %ld", got - 1, k );
            sp_map_erase( k, r ); return result( r, got );
        }
        result get( int, long k )
        {
            long got = 0, val = 0;
            bool r = Smr::get( l, (int) k, [&]( pair_t& it ) { got = it.first + 1; val = it.second; } );
            if ( r && got != k + 1 ) bad( "get returned key %ld instead of %ld", got - 1, k );
            sp_map_find( k, r, val ); return result( r, val );
        }
        result contains( int, long k ) { bool r = l.contains( (int) k ); sp_map_contains( k, r ); return result( r ); }
        result find_f( int, long k )
        {
            long val = 0;
            bool r = l.find( (int) k, [k, &val]( pair_t& it ) { if ( it.first != k ) bad( "find functor got key %ld instead of %ld", it.first, k ); val = it.second; lops::ev_fn( lops::OP_FIND_F, 1, it.first ); } );
            sp_map_find( k, r, val ); return result( r, val );
        }
        void snapshot( std::vector<std::pair<long, long>>& out )
        {
            typename Smr::template reader<List> rd; (void) rd;
            for ( auto it = l.begin(); it != l.end(); ++it ) out.push_back( std::make_pair( (long) it->first, (long) it->second ));
        }
        long size() { return (long) l.size(); }
    };

    template <class List>
    struct kv_nogc_adapter {
        static const unsigned supported = ( 1u << lops::OP_INSERT ) | ( 1u << lops::OP_INSERT_F ) | ( 1u << lops::OP_UPDATE ) | ( 1u << lops::OP_CONTAINS ) | ( 1u << lops::OP_EMPLACE );
        static const bool is_map = true;
        typedef typename List::value_type pair_t;
        List l;
        explicit kv_nogc_adapter( int ) {}
        result insert( int, long k, long v )
        {
            auto it = v ? l.insert( (int) k, (int) v ) : l.insert( (int) k ); bool r = it != l.end();
            if ( r && it->first != k ) bad( "insert returned an iterator to key %ld instead of %ld", it->first, k );
            sp_map_insert( k, v, r ); return result( r );
        }
        result insert_f( int, long k )
        {
            auto it = l.insert_with( (int) k, [k]( pair_t& p ) { if ( p.first != k ) bad( "insert_with functor got key %ld instead of %ld", p.first, k ); lops::ev_fn( lops::OP_INSERT_F, 1, p.first ); } );
            bool r = it != l.end();
            sp_map_insert( k, 0, r ); return result( r );
        }
        result emplace( int, long k, long v )
        {
            auto it = l.emplace( (int) k, (int) v ); bool r = it != l.end();
            sp_map_insert( k, v, r ); return result( r );
        }
        result update( int, long k, long x, long )
        {
            bool allow = ( x & 1 ) != 0;
            auto pr = l.update( (int) k, allow ); bool ok = pr.first != l.end();
            if ( ok && pr.first->first != k ) bad( "update returned an iterator to key %ld instead of %ld", pr.first->first, k );
            // no functor, no value written: a fresh item has value 0, an existing one is left alone
            if ( pr.second ) sp_map_insert( k, 0, true ); else sp_map_contains( k, ok );
            return result( ok, pr.second );
        }
        result contains( int, long k )
        {
            auto it = l.contains( (int) k ); bool r = it != l.end();
            if ( r ) sp_map_find( k, true, it->second ); else sp_map_contains( k, false );
            return result( r );
        }
        result erase( int, long ) { return result(); }
        result erase_f( int, long ) { return result(); }
        result unlink( int, long ) { return result(); }
        result extract( int, long ) { return result(); }
        result get( int, long ) { return result(); }
        result find_f( int, long ) { return result(); }
        void snapshot( std::vector<std::pair<long, long>>& out )
        {
            for ( auto it = l.begin(); it != l.end(); ++it ) out.push_back( std::make_pair( (long) it->first, (long) it->second ));
        }
        long size() { return (long) l.size(); }
    };
}
#endif
