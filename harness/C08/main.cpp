// C08 harness: runs client programs of enqueue / dequeue operations on the real cds::intrusive::SegmentedQueue /
// cds::container::SegmentedQueue under the deterministic scheduler and prints the event log (format:
// ocaml/conc_main.ml) followed by
//     monitor qf <k>            quasi_factor() reported by the queue (must be ceil2 of the constructor argument)
//     monitor drain <v:t:k>*    the items still in the queue after the run, dequeued sequentially by main
//     monitor size <n>          size() before the drain
// usage: main <casefile>
//   cfg = [quasi-factor constructor argument; variant; loop fuel of the model (ignored here)]
//         variant 0 = intrusive, gc::HP  (modelled step by step: LV.Model.Segmented)
//                 1 = intrusive, gc::DHP (observable only)
//                 2 = container, gc::HP  (observable only)
//                 3 = container, gc::DHP (observable only)
//   op  = "1 v s0 s1 ..."  enq v -> events  inv_enq v t k ; ret_enq v t k         (t = thread, k = index of the
//         "2 s0 s1 ..."    deq   -> events  inv_deq t k   ; ret_deq t k 1 v t' k'    operation in the thread: the item
//                                                           ret_deq t k 0            enqueued is item{v,t,k})
//         s0 s1 ... = start values of the cell-probing permutation: round r of the operation (r-th construction /
//         reset of the permutation generator) probes cells (s_r + j) & (k-1), j = 0..k-1 (s_r = 0 once the list is
//         exhausted).  The generator is cds::opt::v::random2_permutation<int> whose reset() takes the start value
//         from the case instead of std::rand(); the model receives the same starts as data.
#include <cds/init.h>
#include <cds/gc/hp.h>
#include <cds/gc/dhp.h>
#include <cds/threading/model.h>
#include <cds/intrusive/segmented_queue.h>
#include <cds/container/segmented_queue.h>
#include <vcase.h>
#include <memory>

namespace vs = khizmax_libcds_verif;
namespace cc = cds::container;
namespace ci = cds::intrusive;

// ---------------------------------------------------------------------------------------------------------
// deterministic permutation generator: the library's random2_permutation with the random start replaced
struct start_source {
    std::vector<long> const* op = nullptr;  // current operation
    size_t next = 0;                        // index of the next start value in *op
};
static start_source& starts() { static thread_local start_source s; return s; }

struct det_permutation: public cds::opt::v::random2_permutation<int>
{
    typedef cds::opt::v::random2_permutation<int> base;
    typedef int integer_type;
    det_permutation( size_t nLength ) : base( nLength ) { reset(); }
    void reset()
    {
        start_source& s = starts();
        long v = 0;
        if ( s.op && s.next < s.op->size()) v = (*s.op)[s.next];
        ++s.next;
        m_nCur = m_nStart = integer_type( v ) & m_nMask;
    }
};

struct item { long v; long t; long k; };

struct itraits: public ci::segmented_queue::traits {
    typedef det_permutation permutation_generator;
    typedef cds::sync::spin lock_type;
};
struct ctraits: public cc::segmented_queue::traits {
    typedef det_permutation permutation_generator;
    typedef cds::sync::spin lock_type;
};

template <class GC>
struct intrusive_adapter {
    ci::SegmentedQueue<GC, item, itraits> q;
    std::vector<std::unique_ptr<item>> items[9];    // per worker, released after the case (index 8: main)
    explicit intrusive_adapter( size_t qf ) : q( qf ) {}
    bool enq( item const& x )
    {
        int t = vs::my_tid(); if ( t < 0 || t > 7 ) t = 8;
        items[t].emplace_back( new item( x ));
        return q.enqueue( *items[t].back());
    }
    bool deq( item& x )
    {
        item* p = q.dequeue();
        if ( p ) x = *p;
        return p != nullptr;
    }
    size_t qf() const { return q.quasi_factor(); }
    size_t size() const { return q.size(); }
};

template <class GC>
struct container_adapter {
    cc::SegmentedQueue<GC, item, ctraits> q;
    explicit container_adapter( size_t qf ) : q( qf ) {}
    bool enq( item const& x ) { return q.enqueue( x ); }
    bool deq( item& x ) { return q.dequeue( x ); }
    size_t qf() const { return q.quasi_factor(); }
    size_t size() const { return q.size(); }
};

template <class A>
void run_one( vcase::Case const& c )
{
    size_t arg = c.cfg.size() > 0 ? (size_t) c.cfg[0] : 2;
    std::unique_ptr<A> a( new A( arg ));
    vcase::run_workers( c, [&]( int t ) {
        long k = 0;     // index among the operations the model decodes
        for ( auto const& op : c.threads[t] ) {
            if ( op.empty()) continue;
            if ( op[0] == 1 && op.size() >= 2 ) {
                long v = op[1];
                starts().op = &op; starts().next = 2;
                vcase::emitf( "inv_enq %ld %ld %ld", v, (long) t, k );
                a->enq( item{ v, (long) t, k } );
                vcase::emitf( "ret_enq %ld %ld %ld", v, (long) t, k );
            }
            else if ( op[0] == 2 ) {
                starts().op = &op; starts().next = 1;
                vcase::emitf( "inv_deq %ld %ld", (long) t, k );
                item x{ 0, 0, 0 };
                if ( a->deq( x )) {
                    char buf[160];
                    std::snprintf( buf, sizeof( buf ), "ret_deq %ld %ld 1 %ld %ld %ld", (long) t, k, x.v, x.t, x.k );
                    vs::emit( buf );
                }
                else
                    vcase::emitf( "ret_deq %ld %ld 0", (long) t, k );
            }
            else
                continue;
            ++k;
            starts().op = nullptr;
        }
    },
    [&]( int ) { cds::threading::Manager::attachThread(); },
    [&]( int ) {
        // a detaching thread scans its retired segments; that must not happen while other workers are still inside
        // the scheduled region (the model has no reclamation inside a case, and a reused address would be a new object)
        for (;;) {
            {
                std::unique_lock<std::mutex> lk( vs::S().m );
                if ( vs::S().nfinished >= (int) c.threads.size()) break;
            }
            std::this_thread::yield();
        }
        cds::threading::Manager::detachThread();
    },
    20000 );
    vcase::print_log( c );
    std::printf( "monitor qf %lu\n", (unsigned long) a->qf());
    std::printf( "monitor size %lu\n", (unsigned long) a->size());
    // what is left in the queue, dequeued sequentially (main thread, not scheduled, not logged)
    starts().op = nullptr;
    std::printf( "monitor drain" );
    for ( int i = 0; i < 256; ++i ) {
        item x{ 0, 0, 0 };
        if ( !a->deq( x )) break;
        std::printf( " %ld:%ld:%ld", x.v, x.t, x.k );
    }
    std::printf( "\n" );
    a.reset();
}

int main( int argc, char** argv )
{
    if ( argc < 2 ) { std::fprintf( stderr, "usage: %s casefile\n", argv[0] ); return 2; }
    cds::Initialize();
    {
        // retired arrays large enough that no scan runs inside a case
        cds::gc::HP hp( 16, 16, 4096 );
        cds::gc::DHP dhp( 4096 );
        cds::threading::Manager::attachThread();
        std::ifstream in( argv[1] );
        vcase::Case c;
        while ( vcase::read_case( in, c )) {
            long variant = c.cfg.size() > 1 ? c.cfg[1] : 0;
            switch ( variant ) {
            case 0: run_one< intrusive_adapter< cds::gc::HP > >( c ); break;
            case 1: run_one< intrusive_adapter< cds::gc::DHP > >( c ); break;
            case 2: run_one< container_adapter< cds::gc::HP > >( c ); break;
            case 3: run_one< container_adapter< cds::gc::DHP > >( c ); break;
            default:
                std::printf( "case %s\nendcase unknown-variant\n", c.id.c_str());
            }
            // between cases: let the main thread's scan release what the workers left (detached threads hand their
            // retired objects over); not scheduled, not logged
            cds::gc::HP::force_dispose();
            cds::gc::DHP::force_dispose();
        }
        cds::threading::Manager::detachThread();
    }
    cds::Terminate();
    return 0;
}
