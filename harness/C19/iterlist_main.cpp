// C19 step correspondence, IterableList part: the thread-safe iterator of cds::intrusive::IterableList<cds::gc::HP>
// (iterator_type::next, iterator_type( node ), operator*, operator++, begin(), end(), erase_at( iterator )) together with
// insert / update / erase / contains, against LV.Model.IterListIter, event by event (format: ocaml/conc_main.ml).
// cfg = [ variant (40: less-based order, no item counter; 43: compare-based, atomicity::item_counter); mode (unused); max steps ]
// operations ( [code, key, x] ):  1 k insert   3 k x update( x bit 0: insertion allowed )   4 k erase   9 k contains
//     20 k   { auto it = l.begin(); auto e = l.end(); while ( it != e ) { p = &*it; visit; if ( p->key == k ) erase_at( it ); ++it; } }
// Events: inv / fn / ret as in harness/C13/list_ops.h;  "visit <key> <item id> <disposed>",  "erased <r>".
// Item ids are 1 + tid + 64 * ( number of items the thread created before ), as in LV.Model.IterList.item_id.
// After "endcase":  mon keys <k>* / mon ids <id>*  (contents by iteration at the quiescent point),  mon bad <text>.
#include <cds/init.h>
#include <cds/gc/hp.h>
#include <cds/intrusive/iterable_list_hp.h>
#include <vcase.h>
#include <memory>
#include <mutex>
#include "../C13/adapters.h"

namespace vs = khizmax_libcds_verif;
namespace ci = cds::intrusive;

struct item { int key; long id; bool disposed; };
struct disp { void operator()( item* p ) const { p->disposed = true; } };

// never-reusing allocator for the list's nodes (see harness/C13/main.cpp): a node deleted after a failed link CAS is not
// handed out again, so the canonical object ids of the event log do not depend on the allocator
template <class T> struct bump_alloc {
    typedef T value_type;
    template <class U> struct rebind { typedef bump_alloc<U> other; };
    bump_alloc() noexcept {}
    template <class U> bump_alloc( bump_alloc<U> const& ) noexcept {}
    static char*& cur() { static char* p = nullptr; return p; }
    static char*& end() { static char* p = nullptr; return p; }
    static std::mutex& mtx() { static std::mutex m; return m; }
    T* allocate( size_t n, void const* = nullptr )
    {
        std::lock_guard<std::mutex> g( mtx());
        size_t sz = ( n * sizeof( T ) + 15 ) & ~size_t( 15 );
        if ( cur() == nullptr || cur() + sz > end()) {
            size_t chunk = sz > ( 1u << 20 ) ? sz : ( 1u << 20 );
            cur() = static_cast<char*>( ::operator new( chunk )); end() = cur() + chunk;
        }
        char* r = cur(); cur() += sz;
        return reinterpret_cast<T*>( r );
    }
    void deallocate( T*, size_t ) noexcept {}
    template <class U> bool operator==( bump_alloc<U> const& ) const { return true; }
    template <class U> bool operator!=( bump_alloc<U> const& ) const { return false; }
};

template <int O> struct traits : public c13::order_traits<ci::iterable_list::traits, ( O & 1 ) != 0, ( O & 2 ) != 0> {
    typedef disp disposer;
    typedef bump_alloc<int> node_allocator;
    typedef cds::backoff::empty back_off;
};

struct upd_fn {
    void operator()( item& val, item* old ) const { vcase::emitf( "fn 3 %ld %ld", old ? 0 : 1, val.key ); }
};

template <class List>
static void run_case( vcase::Case const& c )
{
    int n = (int) c.threads.size();
    size_t max_steps = c.cfg.size() > 2 ? (size_t) c.cfg[2] : 20000;
    std::vector<std::string> bad;
    std::vector<item*> all;
    std::mutex m;
    std::vector<long> seq( n, 0 );
    {
        List l;
        auto fresh = [&]( int t, long k ) {
            item* p = new item; p->key = (int) k; p->id = 1 + t + 64 * seq[t]++; p->disposed = false;
            std::lock_guard<std::mutex> g( m ); all.push_back( p ); return p;     // kept until the process ends (never reused)
        };
        vcase::run_workers( c, [&]( int t ) {
            for ( auto const& op : c.threads[t] ) {
                long code = op.size() > 0 ? op[0] : 0, k = op.size() > 1 ? op[1] : 0, x = op.size() > 2 ? op[2] : 0, v = op.size() > 3 ? op[3] : 0;
                if ( code != 1 && code != 3 && code != 4 && code != 9 && code != 20 ) continue;
                { char buf[128]; std::snprintf( buf, sizeof( buf ), "inv %ld %ld %ld %ld", code, k, x, v ); vs::emit( buf ); }
                switch ( code ) {
                case 1: { item* p = fresh( t, k ); bool r = l.insert( *p ); vcase::emitf( "ret %ld 0", (long) r ); break; }
                case 3: { item* p = fresh( t, k ); auto r = l.update( *p, upd_fn(), ( x & 1 ) != 0 ); vcase::emitf( "ret %ld %ld", (long) r.first, (long) r.second ); break; }
                case 4: { bool r = l.erase( (int) k ); vcase::emitf( "ret %ld 0", (long) r ); break; }
                case 9: { bool r = l.contains( (int) k ); vcase::emitf( "ret %ld 0", (long) r ); break; }
                case 20: {
                    {
                        auto it = l.begin(); auto e = l.end();
                        while ( it != e ) {
                            item* p = &*it;
                            if ( p->disposed ) bad.push_back( "iterator exposes a disposed element (id " + std::to_string( p->id ) + ")" );
                            vcase::emitf( "visit %ld %ld %ld", (long) p->key, p->id, (long) p->disposed );
                            if ( p->key == k ) {
                                bool r = l.erase_at( it );
                                vcase::emitf( "erased %ld", (long) r );
                            }
                            ++it;
                        }
                    }
                    vcase::emitf( "ret 1 0" ); break; }
                }
            }
        },
        []( int ) { cds::threading::Manager::attachThread(); },
        []( int ) { cds::threading::Manager::detachThread(); }, max_steps );
        vcase::print_log( c );
        if ( !vs::S().overrun ) {
            std::vector<item*> fin;
            for ( auto it = l.begin(); it != l.end(); ++it ) fin.push_back( &*it );
            std::printf( "mon keys" ); for ( item* p : fin ) std::printf( " %d", p->key ); std::printf( "\n" );
            std::printf( "mon ids" ); for ( item* p : fin ) std::printf( " %ld", p->id ); std::printf( "\n" );
            for ( item* p : fin ) if ( p->disposed ) bad.push_back( "a disposed item is reachable (id " + std::to_string( p->id ) + ")" );
        }
    }
    for ( auto const& b : bad ) std::printf( "mon bad %s\n", b.c_str());
    std::fflush( stdout );
}

int main( int argc, char** argv )
{
    if ( argc < 2 ) return 2;
    cds::Initialize();
    {
        cds::gc::HP hp( 16, 8, 4096 );      // retired array large enough: no scan inside a case
        cds::threading::Manager::attachThread();
        std::ifstream in( argv[1] );
        vcase::Case c;
        while ( vcase::read_case( in, c )) {
            long id = c.cfg.empty() ? 40 : c.cfg[0];
            if ( id == 43 ) run_case< ci::IterableList< cds::gc::HP, item, traits<3> > >( c );
            else run_case< ci::IterableList< cds::gc::HP, item, traits<0> > >( c );
        }
        cds::threading::Manager::detachThread();
    }
    cds::Terminate();
    return 0;
}
