// C19 shard: intrusive FeldmanHashSet (gc::HP, gc::DHP): forward and reverse iterators, erase_at
#include "c14.h"
#include <cds/intrusive/feldman_hashset_hp.h>
#include <cds/intrusive/feldman_hashset_dhp.h>
#include "c19.h"

namespace {
    using namespace c19;
    namespace ci = cds::intrusive;
    typedef Item< NoHook > item;
    struct ft : public ci::feldman_hashset::traits { typedef i_hash_accessor hash_accessor; typedef i_disposer disposer; typedef cds::backoff::empty back_off; typedef ci::feldman_hashset::stat< plain_counter > stat; };
    typedef ci::FeldmanHashSet< cds::gc::HP, item, ft > f_hp;
    typedef ci::FeldmanHashSet< cds::gc::DHP, item, ft > f_dhp;
    C19_VARIANT( f_hp, K_FELDMAN, true, "FeldmanHashSet<HP>", "feldman" )
    C19_VARIANT( f_dhp, K_FELDMAN, true, "FeldmanHashSet<DHP>", "feldman" )
}
C19_MAIN
