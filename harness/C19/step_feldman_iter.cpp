// C19 step correspondence: the iterators of cds::intrusive::FeldmanHashSet<cds::gc::HP> (item_counter = atomicity::item_counter,
// empty statistics, empty back-off) against LV.Model.FeldmanIter, event by event (format: ocaml/conc_main.ml).
// cfg = [ loop fuel (model only); head bits; array bits; hash of key 0; hash of key 1; ... ]   (32-bit hashes, injective)
// operations: 1 k insert   3 k update(insert allowed)   4 k update(no insert)   7 k erase   13 k contains
//             20 k  forward iteration begin() .. end(), erase_at( it ) on every visited element with key k (k = 99: none)
//             21 k  reverse iteration rbegin() .. rend(), erase_at( it ) likewise
#include <cds/init.h>
#include <cds/gc/hp.h>
#include <cds/intrusive/feldman_hashset_hp.h>
#include <vcase.h>
#include <memory>

namespace vs = khizmax_libcds_verif;
static std::vector<uint32_t> g_hash;
struct item { uint32_t hash; long key; bool disposed; item( long k ) : hash( g_hash[k] ), key( k ), disposed( false ) {} };
struct acc { uint32_t const& operator()( item const& i ) const { return i.hash; } };
struct disp { void operator()( item* p ) const { p->disposed = true; } };
struct traits : public cds::intrusive::feldman_hashset::traits {
    typedef acc hash_accessor; typedef disp disposer; typedef cds::backoff::empty back_off;
};
typedef cds::intrusive::FeldmanHashSet< cds::gc::HP, item, traits > set_type;

int main( int argc, char** argv )
{
    if ( argc < 2 ) return 2;
    cds::Initialize();
    {
        cds::gc::HP hp( 16, 8, 4096 );      // retired array large enough: no scan inside a case
        cds::threading::Manager::attachThread();
        std::ifstream in( argv[1] );
        vcase::Case c;
        while ( vcase::read_case( in, c )) {
            g_hash.clear();
            for ( size_t i = 3; i < c.cfg.size(); ++i ) g_hash.push_back( (uint32_t) c.cfg[i] );
            std::unique_ptr<set_type> s( new set_type( (size_t) c.cfg[1], (size_t) c.cfg[2] ));
            vcase::run_workers( c, [&]( int t ) {
                for ( auto const& op : c.threads[t] ) {
                    long k = op.size() > 1 ? op[1] : 0;
                    vcase::emitf( "inv %ld %ld", op[0], k );
                    switch ( op[0] ) {
                    case 20: {
                        {
                            auto it = s->begin(); auto e = s->end();
                            while ( it != e ) {
                                item* p = &*it;
                                vcase::emitf( "visit %ld %ld", p->key, (long) p->disposed );
                                if ( p->key == k ) { bool r = s->erase_at( it ); vcase::emitf( "erased %ld", (long) r ); }
                                ++it;
                            }
                        }
                        vcase::emitf( "ret 1 0" ); break; }
                    case 21: {
                        {
                            auto it = s->rbegin(); auto e = s->rend();
                            while ( it != e ) {
                                item* p = &*it;
                                vcase::emitf( "visit %ld %ld", p->key, (long) p->disposed );
                                if ( p->key == k ) { bool r = s->erase_at( it ); vcase::emitf( "erased %ld", (long) r ); }
                                ++it;
                            }
                        }
                        vcase::emitf( "ret 1 0" ); break; }
                    case 1: { item* p = new item( k ); bool r = s->insert( *p ); vcase::emitf( "ret %ld 0", (long) r ); break; }
                    case 3: case 4: { item* p = new item( k ); auto r = s->update( *p, op[0] == 3 ); vcase::emitf( "ret %ld %ld", (long) r.first, (long) r.second ); break; }
                    case 7: { bool r = s->erase( g_hash[k] ); vcase::emitf( "ret %ld 0", (long) r ); break; }
                    default: { bool r = s->contains( g_hash[k] ); vcase::emitf( "ret %ld 0", (long) r ); break; }
                    }
                }
            },
            []( int ) { cds::threading::Manager::attachThread(); },
            []( int ) { cds::threading::Manager::detachThread(); }, 40000 );
            vcase::print_log( c );
            // monitor: contents by iteration (quiescent): duplicates / keys
            std::vector<long> keys;
            for ( auto it = s->begin(); it != s->end(); ++it ) keys.push_back( it->key );
            std::printf( "monitor keys" ); for ( long k : keys ) std::printf( " %ld", k ); std::printf( "\n" );
            std::fflush( stdout );
        }
        cds::threading::Manager::detachThread();
    }
    cds::Terminate();
    return 0;
}
