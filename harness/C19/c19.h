// C19 harness: one iterating thread + updaters on the real IterableList / MichaelHashSet<IterableList> /
// SplitListSet<IterableList> / FeldmanHashSet (intrusive flavours: the disposer only marks the element, elements
// are never freed, so "disposed while current" is observable) under the deterministic scheduler.
//
// usage: exe --list | exe <casefile>
// case:  cfg = [ variant; hash kind; p2; p3; prefill key mask ]
//        operations:   1 k      insert (new element)          3 k      update/replace, insert allowed
//                      4 k      update/replace, no insert     8 k      erase (functor reports the element)
//                      9 k      unlink own last element      10 k      extract
//                     12 k      find                          20 dir m  iterate the whole container (dir 0 forward,
//                                  1 reverse where offered); erase_at(it) on every yielded key k with bit k of m set
// log lines (real-time order; only the baton holder appends):
//   inv <t> <op> <k>                      res <t> <op> <k> <ret> <new id|-> <removed id|->
//   ibegin <t> <dir>    yield <t> <key> <id> <disposed at yield> <disposed before advancing>
//   eat <t> <key> <id> <ret>               iend <t>
//   pre <key> <id>       (prefilled before the run)          final <key> <id>   (iteration after the run)
#ifndef VERIF_C19_H
#define VERIF_C19_H
#include "c14.h"
#include <cds/algo/atomic.h>

namespace c19 {
    using namespace c14;

    struct Log {
        std::vector<std::string> lines;
        void add( std::string const& s ) { lines.push_back( s ); }
    };
    inline std::string I( long v ) { return v < 0 ? std::string( "-" ) : std::to_string( v ); }

    inline long& id_counter() { static long c = 0; return c; }

    struct Payload {
        long key;
        long id;
        uint32_t hash;
        bool disposed;
        Payload( long k ) : key( k ), id( ++id_counter()), hash( (uint32_t) H( k )), disposed( false ) {}
    };
    template <class Hook> struct Item : public Hook, public Payload {
        Item( long k ) : Payload( k ) {}
    };
    struct NoHook {};
    struct i_hash {
        size_t operator()( long k ) const { return H( k ); }
        template <class T> size_t operator()( T const& i ) const { return H( i.key ); }
    };
    struct i_cmp {
        template <class A, class B> int operator()( A const& a, B const& b ) const { long x = kk( a ), y = kk( b ); return x < y ? -1 : x > y ? 1 : 0; }
        static long kk( long k ) { return k; }
        template <class T> static long kk( T const& i ) { return i.key; }
    };
    struct i_disposer { template <class T> void operator()( T* p ) const { p->disposed = true; } };
    struct i_hash_accessor { template <class T> uint32_t const& operator()( T const& i ) const { return i.hash; } };

    enum Kind { K_LIST, K_HASH, K_FELDMAN };

    struct Variant {
        char const* name;
        char const* family;     // list | michael | split | feldman
        int reverse;            // offers reverse iterators
        void (*run)( vcase::Case const&, Log& );
    };
    inline std::vector<Variant>& registry() { static std::vector<Variant> r; return r; }

    // a harness variable: a scheduling point while the iterator sits on an element
    inline atomics::atomic<int>& touch_var() { static atomics::atomic<int> v( 0 ); return v; }

    // ---- construction -----------------------------------------------------------------------------------
    template <class C, Kind K> struct Make;
    template <class C> struct Make<C, K_LIST> { static C* make( std::vector<long> const& cfg ) { hash_setup( P( cfg, 1, 0 )); return new C; } };
    template <class C> struct Make<C, K_HASH> { static C* make( std::vector<long> const& cfg ) { hash_setup( P( cfg, 1, 0 )); return new C( (size_t) P( cfg, 2, 8 ), (size_t) P( cfg, 3, 1 )); } };
    template <class C> struct Make<C, K_FELDMAN> { static C* make( std::vector<long> const& cfg ) { fhash_setup( P( cfg, 1, 0 )); return new C( (size_t) P( cfg, 2, 1 ), (size_t) P( cfg, 3, 1 )); } };

    template <class C, Kind K> struct KeyArg { static long of( long k ) { return k; } };
    template <class C> struct KeyArg<C, K_FELDMAN> { static uint32_t of( long k ) { return (uint32_t) H( k ); } };

    // update with a functor that reports the replaced element (Feldman: protected do_update, exposed by a derived class)
    template <class C, Kind K> struct Upd {
        template <class T> static std::pair<bool, bool> go( C& s, T& item, bool allow, long& oldid )
        {
            return s.update( item, [&]( T&, T* old ) { oldid = old ? old->id : -1; }, allow );
        }
    };
    template <class C> struct Upd<C, K_FELDMAN> {
        struct Access : public C { using C::do_update; };
        template <class T> static std::pair<bool, bool> go( C& s, T& item, bool allow, long& oldid )
        {
            return static_cast<Access&>( s ).do_update( item, [&]( T&, T* old ) { oldid = old ? old->id : -1; }, allow );
        }
    };
    template <class C, Kind K> struct Find {
        template <class T> static bool go( C& s, long k, long& id, bool& disp ) { return s.find( k, [&]( T& item, long const& ) { id = item.id; disp = item.disposed; } ); }
    };
    template <class C> struct Find<C, K_FELDMAN> {
        template <class T> static bool go( C& s, long k, long& id, bool& disp ) { return s.find( (uint32_t) H( k ), [&]( T& item ) { id = item.id; disp = item.disposed; } ); }
    };

    // structural events so far: Feldman array-node expansions, split-list buckets initialised (statistics with plain counters)
    template <class C, Kind K> struct Probe { static long events( C& ) { return 0; } };
    template <class C> struct Probe<C, K_FELDMAN> { static long events( C& s ) { return (long) s.statistics().m_nExpandNodeSuccess.get(); } };
    template <class C> struct Probe<C, K_HASH> {
        template <class CC> static auto ev( CC& s, int ) -> decltype( (long) s.statistics().m_nBucketCount.get()) { return (long) s.statistics().m_nBucketCount.get(); }
        template <class CC> static long ev( CC&, ... ) { return 0; }
        static long events( C& s ) { return ev( s, 0 ); }
    };

    // iteration: yields every element, touches it (scheduling point while it is current), optionally erase_at
    template <class C, class It>
    void walk( C& s, It it, It end, std::string const& ts, long mask, Log& log )
    {
        typedef typename C::value_type T;
        for ( ; it != end; ++it ) {
            T& e = *it;
            bool d0 = e.disposed;
            long key = e.key, id = e.id;
            (void) touch_var().load( atomics::memory_order_relaxed );   // others may run while `e` is current
            bool d1 = e.disposed;
            log.add( "yield " + ts + " " + S( key ) + " " + S( id ) + " " + S( d0 ) + " " + S( d1 ));
            if ( mask & ( 1 << key )) {
                bool r = s.erase_at( it );
                log.add( "eat " + ts + " " + S( key ) + " " + S( id ) + " " + S( r ));
                (void) touch_var().load( atomics::memory_order_relaxed );
                if ( e.disposed ) log.add( "bad disposed_while_current " + S( id ));   // still current: the iterator's guard must keep it
            }
        }
    }
    template <class C, bool Rev> struct Walk {
        static void go( C& s, long, std::string const& ts, long mask, Log& log ) { walk( s, s.begin(), s.end(), ts, mask, log ); }
    };
    template <class C> struct Walk<C, true> {
        static void go( C& s, long dir, std::string const& ts, long mask, Log& log )
        {
            if ( dir == 1 ) walk( s, s.rbegin(), s.rend(), ts, mask, log );
            else walk( s, s.begin(), s.end(), ts, mask, log );
        }
    };

    template <class C, Kind K, bool Rev>
    void run_case( vcase::Case const& c, Log& log )
    {
        typedef typename C::value_type T;
        std::unique_ptr<C> sp( Make<C, K>::make( c.cfg ));
        C& s = *sp;
        T* mine[8][KEYS];
        std::memset( mine, 0, sizeof( mine ));
        long pre = P( c.cfg, 4, 0 );
        for ( long k = 0; k < 6; ++k )
            if ( pre & ( 1 << k )) {
                T* item = new T( k );
                if ( s.insert( *item )) log.add( "pre " + S( k ) + " " + S( item->id ));
            }
        vcase::run_workers( c, [&]( int t ) {
            for ( auto const& op : c.threads[t] ) {
                if ( op.empty()) continue;
                int code = (int) op[0];
                long k = op.size() > 1 ? ( op[1] & ( KEYS - 1 )) : 0;
                std::string ts = S( t );
                if ( code == 20 ) {
                    long dir = op.size() > 1 ? op[1] : 0, mask = op.size() > 2 ? op[2] : 0;
                    if ( dir == 1 && !Rev ) dir = 0;
                    log.add( "ibegin " + ts + " " + S( dir ) + " " + S( Probe<C, K>::events( s )));
                    Walk<C, Rev>::go( s, dir, ts, mask, log );
                    log.add( "iend " + ts + " " + S( Probe<C, K>::events( s )));
                    continue;
                }
                log.add( "inv " + ts + " " + S( code ) + " " + S( k ));
                bool ret = false; long newid = -1, oldid = -1;
                switch ( code ) {
                case 1: {
                    T* item = new T( k );
                    ret = s.insert( *item );
                    if ( ret ) { mine[t][k] = item; newid = item->id; } else delete item;
                    break; }
                case 3: case 4: {
                    T* item = new T( k );
                    std::pair<bool, bool> r = Upd<C, K>::go( s, *item, code == 3, oldid );
                    ret = r.first;
                    if ( r.first ) { mine[t][k] = item; newid = item->id; if ( r.second ) oldid = -1; } else { delete item; oldid = -1; }
                    break; }
                case 8: {
                    ret = s.erase( KeyArg<C, K>::of( k ), [&]( T const& item ) { oldid = item.id; } );
                    break; }
                case 9: {
                    if ( mine[t][k] ) { ret = s.unlink( *mine[t][k] ); if ( ret ) oldid = mine[t][k]->id; }
                    else { T dummy( k ); ret = s.unlink( dummy ); }
                    break; }
                case 10: {
                    typename C::guarded_ptr gp( s.extract( KeyArg<C, K>::of( k )));
                    ret = !!gp;
                    if ( ret ) { oldid = gp->id; if ( gp->disposed ) log.add( "bad extract_disposed " + S( oldid )); }
                    break; }
                default:
                case 12: {
                    long id = -1; bool disp = false;
                    ret = Find<C, K>::template go<T>( s, k, id, disp );
                    if ( ret && disp ) log.add( "bad find_disposed " + S( id ));
                    break; }
                }
                log.add( "res " + ts + " " + S( code ) + " " + S( k ) + " " + S( ret ) + " " + I( newid ) + " " + I( oldid ));
            }
        },
        []( int ) { cds::threading::Manager::attachThread(); },
        []( int ) { cds::threading::Manager::detachThread(); },
        60000 );
        if ( !vs::S().overrun )
            for ( auto it = s.begin(); it != s.end(); ++it ) log.add( "final " + S( it->key ) + " " + S( it->id ));
    }

    template <class C, Kind K, bool Rev>
    struct Reg {
        Reg( char const* name, char const* family )
        {
            Variant v; v.name = name; v.family = family; v.reverse = Rev ? 1 : 0; v.run = &run_case<C, K, Rev>;
            registry().push_back( v );
        }
    };

    inline int main_impl( int argc, char** argv )
    {
        if ( argc >= 2 && std::strcmp( argv[1], "--list" ) == 0 ) {
            int i = 0;
            for ( auto const& v : registry()) std::printf( "%d %s %s %d\n", i++, v.name, v.family, v.reverse );
            return 0;
        }
        if ( argc < 2 ) { std::fprintf( stderr, "usage: %s --list | casefile\n", argv[0] ); return 2; }
        cds::Initialize();
        {
            cds::gc::HP hp( 24, 8, 8 );
            cds::gc::DHP dhp( 16 );
            cds::threading::Manager::attachThread();
            {
                Watchdog wd;
                std::ifstream in( argv[1] );
                vcase::Case c;
                while ( vcase::read_case( in, c )) {
                    size_t vi = c.cfg.size() > 0 ? (size_t) c.cfg[0] : 0;
                    std::printf( "case %s\n", c.id.c_str());
                    if ( vi >= registry().size()) { std::printf( "endcase novariant\n" ); continue; }
                    Variant const& v = registry()[vi];
                    std::printf( "variant %s\nfamily %s\n", v.name, v.family );
                    std::fflush( stdout );
                    Log log;
                    v.run( c, log );
                    for ( auto const& l : log.lines ) { std::fputs( l.c_str(), stdout ); std::fputc( '\n', stdout ); }
                    std::printf( "endcase %s\n", vs::S().overrun ? "fuel" : "finished" );
                    std::fflush( stdout );
                    ++wd.tick;
                }
            }
            cds::threading::Manager::detachThread();
        }
        cds::Terminate();
        return 0;
    }
} // namespace c19
#define C19_VARIANT( C, K, Rev, name, family ) static c19::Reg< C, c19::K, Rev > C14_CAT( c19_reg_, __LINE__ )( name, family );
#define C19_MAIN int main( int argc, char** argv ) { return c19::main_impl( argc, argv ); }
#endif
