// C19 shard: intrusive IterableList, MichaelHashSet<IterableList>, SplitListSet<IterableList> (gc::HP and gc::DHP)
#include "c14.h"
#include <cds/intrusive/iterable_list_hp.h>
#include <cds/intrusive/iterable_list_dhp.h>
#include <cds/intrusive/michael_set.h>
#include <cds/intrusive/split_list.h>
#include "c19.h"

namespace {
    using namespace c19;
    namespace ci = cds::intrusive;
    struct lt : public ci::iterable_list::traits { typedef i_cmp compare; typedef i_disposer disposer; typedef cds::backoff::empty back_off; };
    struct mt : public ci::michael_set::traits { typedef i_hash hash; };
    template <bool Dyn> struct st : public ci::split_list::traits { typedef i_hash hash; typedef cds::backoff::empty back_off; typedef ci::split_list::stat< plain_counter > stat; static const bool dynamic_bucket_table = Dyn; };
    typedef Item< NoHook > item;
    typedef Item< ci::split_list::node< void > > sitem;
    template <class GC> struct T {
        typedef ci::IterableList< GC, item, lt > list;
        typedef ci::MichaelHashSet< GC, ci::IterableList< GC, item, lt >, mt > mset;
        typedef ci::SplitListSet< GC, ci::IterableList< GC, sitem, lt >, st<true> > sset;
        typedef ci::SplitListSet< GC, ci::IterableList< GC, sitem, lt >, st<false> > sset_static;
    };
    typedef T<cds::gc::HP> HP; typedef T<cds::gc::DHP> DHP;
    C19_VARIANT( HP::list, K_LIST, false, "IterableList<HP>", "list" )
    C19_VARIANT( HP::mset, K_HASH, false, "MichaelHashSet<HP,IterableList>", "michael" )
    C19_VARIANT( HP::sset, K_HASH, false, "SplitListSet<HP,IterableList,dynamic>", "split" )
    C19_VARIANT( HP::sset_static, K_HASH, false, "SplitListSet<HP,IterableList,static>", "split" )
    C19_VARIANT( DHP::list, K_LIST, false, "IterableList<DHP>", "list" )
    C19_VARIANT( DHP::mset, K_HASH, false, "MichaelHashSet<DHP,IterableList>", "michael" )
    C19_VARIANT( DHP::sset, K_HASH, false, "SplitListSet<DHP,IterableList,dynamic>", "split" )
}
C19_MAIN
