// C23 harness: the real cds::algo::flat_combining::kernel driving a *counting container* under the
// deterministic scheduler.  Event log format: ocaml/conc_main.ml.
//
// usage: main <casefile>
//   cfg = [compact factor; combine pass count]
//   thread operations:
//     [1; rid]   request rid through kernel::combine        (request word op_single = req_Operation)
//     [2; rid]   request rid through kernel::batch_combine  (request word op_pair   = req_Operation + 1)
//     [3]        thread exit: the thread-local record pointer is reset, which calls kernel::tls_cleanup
//   every thread ends with an implicit [3] (a real thread exit runs the same cleanup function through
//   boost::thread_specific_ptr; it is executed here inside the scheduled region).
//
// The container is written the way cds::container::FCQueue/FCDeque use the kernel:
//   request():     acquire_record; fill record; combine / batch_combine; read result; release_record
//   fc_apply(rec): executes one request (increments the execution counter of the request)
//   fc_process(b,e): pairs up consecutive op_pair requests like FCDeque::fc_process/collide does:
//                  the first of a pair is remembered (itPrev); when the second arrives both are executed
//                  and operation_done is called for the earlier one, then for the later one.
//
// Monitors printed after "endcase":
//   monitor max_inside N     largest number of threads simultaneously inside fc_apply/fc_process execution
//   monitor bad_exec N       requests whose execution counter was not exactly 1 when the requester saw the response
//   monitor uaf N            accesses (instrumented atomics) to a publication record after compact_list freed it
//   monitor freed N          records freed by compact_list during the case
#include <cds/algo/flat_combining.h>
#include <cds/algo/backoff_strategy.h>
#include <vcase.h>
#include <cstring>
#include <memory>
#include <set>

namespace vs = khizmax_libcds_verif;
namespace fc = cds::algo::flat_combining;

// ---- allocator trait: freed records are zero-filled and quarantined until the end of the case -------------
struct freed_block { void* p; size_t size; size_t log_pos; };
static std::vector<freed_block>& quarantine() { static std::vector<freed_block> q; return q; }

template <typename T>
struct quarantine_alloc {
    typedef T value_type;
    typedef T* pointer;
    typedef T const* const_pointer;
    typedef T& reference;
    typedef T const& const_reference;
    typedef size_t size_type;
    typedef std::ptrdiff_t difference_type;
    template <typename U> struct rebind { typedef quarantine_alloc<U> other; };
    quarantine_alloc() {}
    template <typename U> quarantine_alloc( quarantine_alloc<U> const& ) {}
    T* allocate( size_t n, void const* = nullptr ) { return static_cast<T*>( ::operator new( n * sizeof( T ))); }
    void deallocate( T* p, size_t n )
    {
#ifdef VERIF_REAL_FREE
        ::operator delete( p );         // ASan build: a later access is a heap-use-after-free report
#else
        std::memset( static_cast<void*>( p ), 0, n * sizeof( T ));      // poison = all zero: nState inactive, pNext null
        quarantine().push_back( freed_block{ p, n * sizeof( T ), vs::S().log.size() } );
#endif
        vcase::emitf( "free" );
    }
    template <typename U> bool operator==( quarantine_alloc<U> const& ) const { return true; }
    template <typename U> bool operator!=( quarantine_alloc<U> const& ) const { return false; }
};

// ---- the counting container ----------------------------------------------------------------------------------
struct rec_t : public fc::publication_record {
    long rid;       // request id (written by the requester before the request word)
    long tid;       // requester (only printed in the exec event)
    long result;    // execution counter of the request after its execution (written by the combiner)
};

// lock_type trait: the real cds::sync::spin, with the client events "lock" / "unlock" around it
struct mon_lock {
    cds::sync::spin m_lock;
    bool try_lock() { bool b = m_lock.try_lock(); if ( b ) vcase::emitf( "lock" ); return b; }
    void lock() { m_lock.lock(); vcase::emitf( "lock" ); }
    void unlock() { vcase::emitf( "unlock" ); m_lock.unlock(); }
};

struct traits_t : public fc::traits {
    typedef mon_lock lock_type;
    typedef fc::wait_strategy::backoff<cds::backoff::empty> wait_strategy;
    typedef quarantine_alloc<int> allocator;
};

class kernel_t : public fc::kernel<rec_t, traits_t> {
    typedef fc::kernel<rec_t, traits_t> base;
public:
    kernel_t( unsigned cf, unsigned pc ) : base( cf, pc ) {}
    // what boost::thread_specific_ptr does when the thread exits: cleanup function on the current value
    void thread_exit() { this->m_pThreadRec.reset(); }
};

class Counting : public fc::container {
public:
    enum { op_single = fc::req_Operation, op_pair };
    typedef kernel_t::iterator fc_iterator;

    kernel_t m_fc;
    std::vector<int> exec;      // per-request execution counters
    int inside = 0, worst = 0, bad_exec = 0;

    Counting( unsigned cf, unsigned pc, size_t nreq ) : m_fc( cf, pc ), exec( nreq, 0 ) {}

    long request( long rid, long tid, bool batch )
    {
        auto pRec = m_fc.acquire_record();
        pRec->rid = rid;
        pRec->tid = tid;
        if ( batch )
            m_fc.batch_combine( op_pair, pRec, *this );
        else
            m_fc.combine( op_single, pRec, *this );
        long r = pRec->result;
        if ( exec[rid] != 1 ) ++bad_exec;          // monitor: executed exactly once when the response is visible
        m_fc.release_record( pRec );
        return r;
    }

    void execute( rec_t& r, unsigned op )
    {
        r.result = ++exec[r.rid];
        char buf[96];
        std::snprintf( buf, sizeof( buf ), "exec %ld %u %ld %ld", r.tid, op, r.rid, r.result );
        vs::emit( buf );
    }

    void fc_apply( rec_t* pRec )
    {
        if ( ++inside > worst ) worst = inside;
        unsigned op = pRec->op();                    // like `switch ( pRec->op())` in FCQueue::fc_apply: a scheduling point inside
        execute( *pRec, op );
        --inside;
    }

    void fc_process( fc_iterator itBegin, fc_iterator itEnd )
    {
        if ( ++inside > worst ) worst = inside;
        for ( fc_iterator it = itBegin, itPrev = itEnd; it != itEnd; ++it ) {
            if ( it->op( atomics::memory_order_acquire ) == op_pair ) {
                if ( itPrev == it )
                    ;                               // the same record twice (only in a cyclic list): never pair a record with itself
                else if ( itPrev != itEnd ) {
                    execute( *itPrev, op_pair );
                    execute( *it, op_pair );
                    m_fc.operation_done( *itPrev );
                    m_fc.operation_done( *it );
                    itPrev = itEnd;
                }
                else
                    itPrev = it;
            }
        }
        --inside;
    }
};

int main( int argc, char** argv )
{
    if ( argc < 2 ) { std::fprintf( stderr, "usage: %s casefile\n", argv[0] ); return 2; }
    std::ifstream in( argv[1] );
    vcase::Case c;
    while ( vcase::read_case( in, c )) {
        unsigned cf = c.cfg.size() > 0 ? (unsigned) c.cfg[0] : 1;
        unsigned pc = c.cfg.size() > 1 ? (unsigned) c.cfg[1] : 1;
        size_t nreq = 1;
        for ( auto const& th : c.threads ) for ( auto const& op : th ) if ( op.size() > 1 && (size_t) op[1] + 1 > nreq ) nreq = (size_t) op[1] + 1;
        size_t nuaf = 0, nfreed = 0;
        int worst, bad;
        {
            Counting cont( cf, pc, nreq );
            vcase::run_workers( c, [&]( int t ) {
                for ( auto const& op : c.threads[t] ) {
                    if ( op[0] == 1 || op[0] == 2 ) {
                        vcase::emitf( "inv %ld %ld", op[0] == 2 ? (long) Counting::op_pair : (long) Counting::op_single, op[1] );
                        long r = cont.request( op[1], t, op[0] == 2 );
                        vcase::emitf( "ret %ld", r );
                    }
                    else if ( op[0] == 3 )
                        cont.m_fc.thread_exit();
                }
                cont.m_fc.thread_exit();
            }, nullptr, nullptr, 20000 );
            // use-after-free monitor: accesses logged after a record was freed, to an object inside the freed block
            for ( auto const& b : quarantine()) {
                ++nfreed;
                std::set<int> ids;
                char const* lo = static_cast<char const*>( b.p );
                for ( auto it = vs::S().obj_ids.lower_bound( lo ); it != vs::S().obj_ids.end() && static_cast<char const*>( it->first ) < lo + b.size; ++it )
                    ids.insert( it->second );
                for ( size_t i = b.log_pos; i < vs::S().log.size(); ++i ) {
                    std::string const& l = vs::S().log[i];
                    size_t p1 = l.find( ' ' ), p2 = l.find( ' ', p1 + 1 );
                    if ( p2 == std::string::npos || l[p2 + 1] != 'o' ) continue;
                    if ( ids.count( std::atoi( l.c_str() + p2 + 2 ))) ++nuaf;
                }
            }
            worst = cont.worst; bad = cont.bad_exec;
        }
        vcase::print_log( c );
        std::printf( "monitor max_inside %d\n", worst );
        std::printf( "monitor bad_exec %d\n", bad );
        std::printf( "monitor uaf %zu\n", nuaf );
        std::printf( "monitor freed %zu\n", nfreed );
        for ( auto const& b : quarantine()) ::operator delete( b.p );
        quarantine().clear();
    }
    return 0;
}
