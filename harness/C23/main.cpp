// C23 harness: the real cds::algo::flat_combining::kernel driving a *counting container* under the
// deterministic scheduler.  Event log format: ocaml/conc_main.ml.
//
// usage: main <casefile>
//   cfg = [compact factor; combine pass count; (model: loop fuel); (model: compact_list version); wait strategy]
//     wait strategy 0 (default): wait_strategy::backoff<cds::backoff::empty> - wakeup() does nothing
//     wait strategy 1: `wake_strategy` below - wait_strategy::multi_mutex_multi_condvar without its mutex and
//       condition variable (they cannot run under the baton scheduler): wait() loads the request word and
//       reports the per-record notification flag, wakeup( fc ) calls fc.wakeup_any()
//   thread operations:
//     [1; rid]   request rid through kernel::combine        (request word op_single = req_Operation)
//     [2; rid]   request rid through kernel::batch_combine  (request word op_pair   = req_Operation + 1)
//     [3]        thread exit: the thread-local record pointer is reset, which calls kernel::tls_cleanup
//     [4]        kernel::invoke_exclusive with an empty functor (what FCQueue::clear / FCStack::empty ... do)
//   every thread ends with an implicit [3] (a real thread exit runs the same cleanup function through
//   boost::thread_specific_ptr; it is executed here inside the scheduled region).
//
// The container is written the way cds::container::FCQueue/FCDeque use the kernel:
//   request():     acquire_record; fill record; combine / batch_combine; read result; release_record
//   fc_apply(rec): executes one request (increments the execution counter of the request)
//   fc_process(b,e): pairs up consecutive op_pair requests like FCDeque::fc_process/collide does:
//                  the first of a pair is remembered (itPrev); when the second arrives both are executed
//                  and operation_done is called for the earlier one, then for the later one.
//
// Monitors printed after "endcase":
//   monitor max_inside N     largest number of threads simultaneously inside fc_apply/fc_process execution
//   monitor bad_exec N       requests whose execution counter was not exactly 1 when the requester saw the response
//   monitor uaf N            accesses (instrumented atomics) to a publication record after compact_list freed it
//   monitor freed N          records freed by compact_list during the case
//   monitor notified N       calls of the wait strategy's notify() (strategy 1)
//   monitor woken N          calls of the wait strategy's wait() that returned true (strategy 1)
#include <cds/algo/flat_combining.h>
#include <cds/algo/backoff_strategy.h>
#include <vcase.h>
#include <cstring>
#include <memory>
#include <set>

namespace vs = khizmax_libcds_verif;
namespace fc = cds::algo::flat_combining;

// ---- allocator trait: freed records are zero-filled and quarantined until the end of the case -------------
struct freed_block { void* p; size_t size; size_t log_pos; };
static std::vector<freed_block>& quarantine() { static std::vector<freed_block> q; return q; }

template <typename T>
struct quarantine_alloc {
    typedef T value_type;
    typedef T* pointer;
    typedef T const* const_pointer;
    typedef T& reference;
    typedef T const& const_reference;
    typedef size_t size_type;
    typedef std::ptrdiff_t difference_type;
    template <typename U> struct rebind { typedef quarantine_alloc<U> other; };
    quarantine_alloc() {}
    template <typename U> quarantine_alloc( quarantine_alloc<U> const& ) {}
    T* allocate( size_t n, void const* = nullptr ) { return static_cast<T*>( ::operator new( n * sizeof( T ))); }
    void deallocate( T* p, size_t n )
    {
#ifdef VERIF_REAL_FREE
        ::operator delete( p );         // ASan build: a later access is a heap-use-after-free report
#else
        std::memset( static_cast<void*>( p ), 0, n * sizeof( T ));      // poison = all zero: nState inactive, pNext null
        quarantine().push_back( freed_block{ p, n * sizeof( T ), vs::S().log.size() } );
#endif
        vcase::emitf( "free" );
    }
    template <typename U> bool operator==( quarantine_alloc<U> const& ) const { return true; }
    template <typename U> bool operator!=( quarantine_alloc<U> const& ) const { return false; }
};

// ---- the counting container ----------------------------------------------------------------------------------
struct rec_t : public fc::publication_record {
    long rid;       // request id (written by the requester before the request word)
    long tid;       // requester (only printed in the exec event)
    long result;    // execution counter of the request after its execution (written by the combiner)
};

// lock_type trait: the real cds::sync::spin, with the client events "lock" / "unlock" around it
struct mon_lock {
    cds::sync::spin m_lock;
    bool try_lock() { bool b = m_lock.try_lock(); if ( b ) vcase::emitf( "lock" ); return b; }
    void lock() { m_lock.lock(); vcase::emitf( "lock" ); }
    void unlock() { vcase::emitf( "unlock" ); m_lock.unlock(); }
};

// wait strategy 1: wait_strategy::multi_mutex_multi_condvar with its std::mutex / std::condition_variable taken
// out (they cannot run under the baton scheduler; the per-record flag m_wakeup they protect is kept):
//   notify( fc, rec )   rec.m_wakeup = true                      -- called by operation_done and by wakeup_any
//   wait( fc, rec )     the two fc.get_operation( rec ) loads of the original; while the request is pending:
//                       returns true iff m_wakeup was set ("woken by a notification"), else false (the timed
//                       wait_for expired); clears the flag in both cases like the original
//   wakeup( fc )        fc.wakeup_any()
// The flag is a plain field: its accesses belong to the step of the preceding atomic access (in the original they
// happen under rec.m_mutex).  kernel::wait_for_combining uses the result of wait() for a statistics counter only;
// "monitor woken" counts the waits that returned true.
static long& notified() { static long n = 0; return n; }
static long& woken() { static long n = 0; return n; }
struct wake_strategy {
    template <typename PublicationRecord>
    struct make_publication_record {
        struct type : public PublicationRecord {
            bool m_wakeup;
            type() : m_wakeup( false ) {}
        };
    };
    template <typename PublicationRecord>
    void prepare( PublicationRecord& ) {}
    template <typename FCKernel, typename PublicationRecord>
    bool wait( FCKernel& k, PublicationRecord& rec )
    {
        if ( k.get_operation( rec ) >= fc::req_Operation ) {
            // unique_lock lock( rec.m_mutex );
            if ( k.get_operation( rec ) >= fc::req_Operation ) {
                if ( rec.m_wakeup ) {
                    rec.m_wakeup = false;
                    ++woken();
                    return true;
                }
                // rec.m_condvar.wait_for( lock, ... ) == cv_status::timeout
                rec.m_wakeup = false;
                return false;
            }
        }
        return false;
    }
    template <typename FCKernel, typename PublicationRecord>
    void notify( FCKernel&, PublicationRecord& rec ) { rec.m_wakeup = true; ++notified(); }
    template <typename FCKernel>
    void wakeup( FCKernel& k ) { k.wakeup_any(); }
};

struct traits_backoff : public fc::traits {
    typedef mon_lock lock_type;
    typedef fc::wait_strategy::backoff<cds::backoff::empty> wait_strategy;
    typedef quarantine_alloc<int> allocator;
};
struct traits_wake : public traits_backoff {
    typedef wake_strategy wait_strategy;
};

template <typename Traits>
class kernel_t : public fc::kernel<rec_t, Traits> {
    typedef fc::kernel<rec_t, Traits> base;
public:
    kernel_t( unsigned cf, unsigned pc ) : base( cf, pc ) {}
    // what boost::thread_specific_ptr does when the thread exits: cleanup function on the current value
    void thread_exit() { this->m_pThreadRec.reset(); }
};

enum { op_single = fc::req_Operation, op_pair };

template <typename Traits>
class Counting : public fc::container {
public:
    typedef typename kernel_t<Traits>::iterator fc_iterator;

    kernel_t<Traits> m_fc;
    std::vector<int> exec;      // per-request execution counters
    int inside = 0, worst = 0, bad_exec = 0;

    Counting( unsigned cf, unsigned pc, size_t nreq ) : m_fc( cf, pc ), exec( nreq, 0 ) {}

    long request( long rid, long tid, bool batch )
    {
        auto pRec = m_fc.acquire_record();
        pRec->rid = rid;
        pRec->tid = tid;
        if ( batch )
            m_fc.batch_combine( op_pair, pRec, *this );
        else
            m_fc.combine( op_single, pRec, *this );
        long r = pRec->result;
        if ( exec[rid] != 1 ) ++bad_exec;          // monitor: executed exactly once when the response is visible
        m_fc.release_record( pRec );
        return r;
    }

    void execute( rec_t& r, unsigned op )
    {
        r.result = ++exec[r.rid];
        char buf[96];
        std::snprintf( buf, sizeof( buf ), "exec %ld %u %ld %ld", r.tid, op, r.rid, r.result );
        vs::emit( buf );
    }

    void fc_apply( rec_t* pRec )
    {
        if ( ++inside > worst ) worst = inside;
        unsigned op = pRec->op();                    // like `switch ( pRec->op())` in FCQueue::fc_apply: a scheduling point inside
        execute( *pRec, op );
        --inside;
    }

    void fc_process( fc_iterator itBegin, fc_iterator itEnd )
    {
        if ( ++inside > worst ) worst = inside;
        for ( fc_iterator it = itBegin, itPrev = itEnd; it != itEnd; ++it ) {
            if ( it->op( atomics::memory_order_acquire ) == op_pair ) {
                if ( itPrev == it )
                    ;                               // the same record twice (only in a cyclic list): never pair a record with itself
                else if ( itPrev != itEnd ) {
                    execute( *itPrev, op_pair );
                    execute( *it, op_pair );
                    m_fc.operation_done( *itPrev );
                    m_fc.operation_done( *it );
                    itPrev = itEnd;
                }
                else
                    itPrev = it;
            }
        }
        --inside;
    }
};

template <typename Traits>
static void run_one( vcase::Case const& c, unsigned cf, unsigned pc, size_t nreq )
{
    size_t nuaf = 0, nfreed = 0;
    int worst, bad;
    notified() = 0; woken() = 0;
    {
        Counting<Traits> cont( cf, pc, nreq );
        vcase::run_workers( c, [&]( int t ) {
            for ( auto const& op : c.threads[t] ) {
                if ( op[0] == 1 || op[0] == 2 ) {
                    vcase::emitf( "inv %ld %ld", op[0] == 2 ? (long) op_pair : (long) op_single, op[1] );
                    long r = cont.request( op[1], t, op[0] == 2 );
                    vcase::emitf( "ret %ld", r );
                }
                else if ( op[0] == 3 )
                    cont.m_fc.thread_exit();
                else if ( op[0] == 4 ) {
                    vcase::emitf( "excl" );
                    cont.m_fc.invoke_exclusive( []{} );
                    vcase::emitf( "excldone" );
                }
            }
            cont.m_fc.thread_exit();
        }, nullptr, nullptr, 20000 );
        // use-after-free monitor: accesses logged after a record was freed, to an object inside the freed block
        for ( auto const& b : quarantine()) {
            ++nfreed;
            std::set<int> ids;
            char const* lo = static_cast<char const*>( b.p );
            for ( auto it = vs::S().obj_ids.lower_bound( lo ); it != vs::S().obj_ids.end() && static_cast<char const*>( it->first ) < lo + b.size; ++it )
                ids.insert( it->second );
            for ( size_t i = b.log_pos; i < vs::S().log.size(); ++i ) {
                std::string const& l = vs::S().log[i];
                size_t p1 = l.find( ' ' ), p2 = l.find( ' ', p1 + 1 );
                if ( p2 == std::string::npos || l[p2 + 1] != 'o' ) continue;
                if ( ids.count( std::atoi( l.c_str() + p2 + 2 ))) ++nuaf;
            }
        }
        worst = cont.worst; bad = cont.bad_exec;
    }
    vcase::print_log( c );
    std::printf( "monitor max_inside %d\n", worst );
    std::printf( "monitor bad_exec %d\n", bad );
    std::printf( "monitor uaf %zu\n", nuaf );
    std::printf( "monitor freed %zu\n", nfreed );
    std::printf( "monitor notified %ld\n", notified());
    std::printf( "monitor woken %ld\n", woken());
    for ( auto const& b : quarantine()) ::operator delete( b.p );
    quarantine().clear();
}

int main( int argc, char** argv )
{
    if ( argc < 2 ) { std::fprintf( stderr, "usage: %s casefile\n", argv[0] ); return 2; }
    std::ifstream in( argv[1] );
    vcase::Case c;
    while ( vcase::read_case( in, c )) {
        unsigned cf = c.cfg.size() > 0 ? (unsigned) c.cfg[0] : 1;
        unsigned pc = c.cfg.size() > 1 ? (unsigned) c.cfg[1] : 1;
        long strategy = c.cfg.size() > 4 ? c.cfg[4] : 0;
        size_t nreq = 1;
        for ( auto const& th : c.threads ) for ( auto const& op : th ) if ( op.size() > 1 && (size_t) op[1] + 1 > nreq ) nreq = (size_t) op[1] + 1;
        if ( strategy == 1 )
            run_one<traits_wake>( c, cf, pc, nreq );
        else
            run_one<traits_backoff>( c, cf, pc, nreq );
    }
    return 0;
}
