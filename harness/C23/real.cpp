// C23 supplementary search: the real flat_combining::kernel with the three real condition-variable wait
// strategies on real (unscheduled) threads, with the monitors of the property itself.  Built WITHOUT the hook.
// Bounded time; only hard violations are reported (exit status 0 in any case, the check reads the lines).
//
// usage: real <threads> <ops per thread> <seconds per strategy> <seed>
// output, one line per strategy:
//   real <strategy> ops <n> bad_exec <n> early_response <n> max_inside <n> excl <n> exits <n>
//     bad_exec        requests whose execution counter was not exactly 1 when the requester saw the response
//     early_response  requests whose result field was not the value written by the execution
//     max_inside      largest number of threads simultaneously inside fc_apply / fc_process
#include <cds/algo/flat_combining.h>
#include <atomic>
#include <chrono>
#include <cstdio>
#include <cstdlib>
#include <thread>
#include <vector>

namespace fc = cds::algo::flat_combining;

struct rec_t : public fc::publication_record {
    long rid;
    long result;
};

template <typename Strategy>
struct traits_of : public fc::traits {
    typedef Strategy wait_strategy;
};

template <typename Traits>
class kernel_t : public fc::kernel<rec_t, Traits> {
    typedef fc::kernel<rec_t, Traits> base;
public:
    kernel_t( unsigned cf, unsigned pc ) : base( cf, pc ) {}
    void thread_exit() { this->m_pThreadRec.reset(); }
};

enum { op_single = fc::req_Operation, op_pair };

template <typename Traits>
class Counting : public fc::container {
public:
    typedef typename kernel_t<Traits>::iterator fc_iterator;
    kernel_t<Traits> m_fc;
    std::vector<int> exec;                      // written only under the combiner lock
    std::atomic<int> inside { 0 }, worst { 0 };

    Counting( unsigned cf, unsigned pc, size_t nreq ) : m_fc( cf, pc ), exec( nreq, 0 ) {}

    void enter() { int n = inside.fetch_add( 1 ) + 1; int w = worst.load(); while ( n > w && !worst.compare_exchange_weak( w, n )) {} }
    void leave() { inside.fetch_sub( 1 ); }

    // returns: 0 fine, 1 execution counter not 1, 2 result not the written value
    int request( long rid, bool batch )
    {
        auto pRec = m_fc.acquire_record();
        pRec->rid = rid;
        pRec->result = -1;
        if ( batch ) m_fc.batch_combine( op_pair, pRec, *this );
        else m_fc.combine( op_single, pRec, *this );
        int bad = 0;
        if ( exec[rid] != 1 ) bad = 1;
        else if ( pRec->result != 1 ) bad = 2;
        m_fc.release_record( pRec );
        return bad;
    }
    void execute( rec_t& r ) { r.result = ++exec[r.rid]; }
    void fc_apply( rec_t* pRec ) { enter(); (void) pRec->op(); execute( *pRec ); leave(); }
    void fc_process( fc_iterator itBegin, fc_iterator itEnd )
    {
        enter();
        for ( fc_iterator it = itBegin, itPrev = itEnd; it != itEnd; ++it ) {
            if ( it->op( atomics::memory_order_acquire ) == op_pair ) {
                if ( itPrev == it ) ;
                else if ( itPrev != itEnd ) {
                    execute( *itPrev ); execute( *it );
                    m_fc.operation_done( *itPrev ); m_fc.operation_done( *it );
                    itPrev = itEnd;
                }
                else itPrev = it;
            }
        }
        leave();
    }
};

static unsigned long long mix( unsigned long long& s ) { s += 0x9e3779b97f4a7c15ULL; unsigned long long z = s; z = ( z ^ ( z >> 30 )) * 0xbf58476d1ce4e5b9ULL; z = ( z ^ ( z >> 27 )) * 0x94d049bb133111ebULL; return z ^ ( z >> 31 ); }

template <typename Strategy>
static void run( char const* name, int nthreads, long nops, double seconds, unsigned long long seed )
{
    typedef traits_of<Strategy> traits;
    Counting<traits> cont( 1 + (unsigned)( seed % 2 ), 1 + (unsigned)(( seed / 2 ) % 2 ), (size_t) nthreads * nops + 1 );
    std::atomic<long> ops { 0 }, bad1 { 0 }, bad2 { 0 }, excl { 0 }, exits { 0 };
    auto deadline = std::chrono::steady_clock::now() + std::chrono::duration<double>( seconds );
    std::vector<std::thread> th;
    for ( int t = 0; t < nthreads; ++t )
        th.emplace_back( [&, t] {
            unsigned long long s = seed * 1000003ULL + t;
            for ( long i = 0; i < nops; ++i ) {
                if (( i & 15 ) == 0 && std::chrono::steady_clock::now() > deadline ) break;
                unsigned r = (unsigned)( mix( s ) % 16 );
                if ( r == 0 ) { cont.m_fc.thread_exit(); ++exits; }
                else if ( r == 1 ) { cont.m_fc.invoke_exclusive( []{} ); ++excl; }
                else {
                    int b = cont.request( (long) t * nops + i, ( r & 1 ) != 0 );
                    ++ops;
                    if ( b == 1 ) ++bad1; else if ( b == 2 ) ++bad2;
                }
            }
            cont.m_fc.thread_exit();
        } );
    for ( auto& x : th ) x.join();
    std::printf( "real %s ops %ld bad_exec %ld early_response %ld max_inside %d excl %ld exits %ld\n",
                 name, ops.load(), bad1.load(), bad2.load(), cont.worst.load(), excl.load(), exits.load());
    std::fflush( stdout );
}

int main( int argc, char** argv )
{
    int nthreads = argc > 1 ? std::atoi( argv[1] ) : 4;
    long nops = argc > 2 ? std::atol( argv[2] ) : 2000;
    double seconds = argc > 3 ? std::atof( argv[3] ) : 1.0;
    unsigned long long seed = argc > 4 ? std::strtoull( argv[4], nullptr, 10 ) : 1;
    run<fc::wait_strategy::single_mutex_single_condvar<1>>( "single_mutex_single_condvar", nthreads, nops, seconds, seed );
    run<fc::wait_strategy::single_mutex_multi_condvar<1>>( "single_mutex_multi_condvar", nthreads, nops, seconds, seed );
    run<fc::wait_strategy::multi_mutex_multi_condvar<1>>( "multi_mutex_multi_condvar", nthreads, nops, seconds, seed );
    return 0;
}
