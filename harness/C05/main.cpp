// C05 harness: client programs on the real cds::urcu::gc< general_buffered< Buffer, spin_lock, backoff::empty > >
// under the deterministic scheduler; event log + implementation-side monitors (harness/C04/rcu_harness.h).
// usage: main <casefile> <variant>      cfg = [flips; spin fuel; capacity; counting; recursion fuel] (capacity is used here)
//   variant a0 / a1: Buffer = AtomicBuf< VyukovMPMCCycleQueue<epoch_retired_ptr [, item_counter]> >: every buffer
//                    operation is ONE scheduling point followed by the real queue operation executed without scheduling
//                    points - the abstract atomic FIFO of LV.Model.RcuBuf; the event log is compared step by step.
//   variant d0 / d1: the default buffer type (queue internals scheduled): monitors only.
#include <cds/urcu/general_buffered.h>
#include <cds/sync/spinlock.h>
#include <cds/container/vyukov_mpmc_cycle_queue.h>
#include <C04/rcu_harness.h>
#include <cstring>

namespace vs = khizmax_libcds_verif;

struct counting_traits : public cds::container::vyukov_queue::traits {
    typedef cds::atomicity::item_counter item_counter;
};
typedef cds::container::VyukovMPMCCycleQueue< cds::urcu::epoch_retired_ptr > queue_plain;
typedef cds::container::VyukovMPMCCycleQueue< cds::urcu::epoch_retired_ptr, counting_traits > queue_counting;

template <class Inner, bool Counting>
class AtomicBuf
{
    Inner m_q;
    char m_push, m_pop, m_size;      // addresses that identify the three operations in the event log
    template <class F> bool step( char const* addr, F f )
    {
        vs::sched_point();
        bool ok;
        { vs::passthrough_scope ps; ok = f(); }
        if ( vs::logging()) vs::log_access( "cas", addr, 0, 0, 0, ok );
        return ok;
    }
public:
    typedef cds::urcu::epoch_retired_ptr value_type;
    AtomicBuf( size_t nCapacity ) : m_q( nCapacity ) { addrs()[0] = &m_push; addrs()[1] = &m_pop; addrs()[2] = &m_size; }
    static void const** addrs() { static void const* a[3]; return a; }
    static void report()
    {
        char buf[96]; int id[3];
        for ( int i = 0; i < 3; ++i ) { auto it = vs::S().obj_ids.find( addrs()[i] ); id[i] = it == vs::S().obj_ids.end() ? 0 : it->second; }
        std::snprintf( buf, sizeof( buf ), "monitor bufobjs o%d o%d o%d", id[0], id[1], id[2] );
        rcuh::report_line() = buf;
    }
    bool push( value_type& v ) { return step( &m_push, [&] { return m_q.push( v ); } ); }
    bool pop( value_type& v )  { return step( &m_pop,  [&] { return m_q.pop( v ); } ); }
    size_t size() const
    {
        if ( !Counting ) return m_q.size();
        vs::sched_point();
        size_t n;
        { vs::passthrough_scope ps; n = m_q.size(); }
        if ( vs::logging()) vs::log_access( "ld", &m_size, 0, 0, 0, true );
        return n;
    }
};

typedef cds::sync::spin_lock<cds::backoff::empty> lock_t;
typedef cds::urcu::gc< cds::urcu::general_buffered< AtomicBuf<queue_plain, false>, lock_t, cds::backoff::empty > >   rcu_a0;
typedef cds::urcu::gc< cds::urcu::general_buffered< AtomicBuf<queue_counting, true>, lock_t, cds::backoff::empty > > rcu_a1;
typedef cds::urcu::gc< cds::urcu::general_buffered< queue_plain, lock_t, cds::backoff::empty > >    rcu_d0;
typedef cds::urcu::gc< cds::urcu::general_buffered< queue_counting, lock_t, cds::backoff::empty > > rcu_d1;

template <class RCU> int go( char const* file, std::function<void()> report = nullptr )
{
    return rcuh::run_file<RCU>( file, []( vcase::Case const& c ) { return new RCU( c.cfg.size() > 2 ? (size_t) c.cfg[2] : 2 ); }, true, 40000, true, report );
}

int main( int argc, char** argv )
{
    if ( argc < 3 ) { std::fprintf( stderr, "usage: %s casefile a0|a1|d0|d1\n", argv[0] ); return 2; }
    cds::Initialize();
    int rc = 2;
    if ( !std::strcmp( argv[2], "a0" )) rc = go<rcu_a0>( argv[1], AtomicBuf<queue_plain, false>::report );
    else if ( !std::strcmp( argv[2], "a1" )) rc = go<rcu_a1>( argv[1], AtomicBuf<queue_counting, true>::report );
    else if ( !std::strcmp( argv[2], "d0" )) rc = go<rcu_d0>( argv[1] );
    else if ( !std::strcmp( argv[2], "d1" )) rc = go<rcu_d1>( argv[1] );
    cds::Terminate();
    return rc;
}
