// Exploration of the REAL code with REAL threads (no deterministic scheduler, hook off): flavours whose
// synchronisation uses OS primitives the baton scheduler cannot serialise -
//   gpt  general_threaded<>  (std::mutex, condition variables, background disposer thread)
//   shb  signal_buffered<>   (real POSIX signals)
// and, for completeness, the default template arguments of the two scheduled flavours
//   gpi  general_instant<>   (std::mutex)        gpb  general_buffered<> (std::mutex, default Vyukov buffer).
// The same case files as harness/C05/main.cpp; every case is run `reps` times, the OS decides the interleaving,
// random yields / short sleeps are inserted between client operations.  Output per case: the monitors of C04/C05.
// This is a search for failing executions, not a proof and not a step correspondence.
// usage: explore <casefile> gpt|shb|gpi|gpb <reps> <seed>        cfg[2] = buffer capacity
#include <cds/init.h>
#include <cds/urcu/general_instant.h>
#include <cds/urcu/general_buffered.h>
#include <cds/urcu/general_threaded.h>
#include <cds/urcu/signal_buffered.h>
#include <cds/threading/model.h>
#include <vcase.h>
#include <chrono>
#include <cstring>
#include <map>
#include <mutex>

struct Obj { long id = 0; int disposed = 0; bool retired = false; std::vector<std::pair<int,long>> old_readers; std::atomic<int> payload{ 0 }; };

struct Mon {
    std::mutex mx;
    std::vector<int> depth; std::vector<long> gen;
    std::map<long, Obj> objs;
    long dispose_inside = 0, sync_inside = 0, touch_disposed = 0, dispose_unretired = 0;
    void reset( int n ) { depth.assign( n, 0 ); gen.assign( n, 0 ); objs.clear(); dispose_inside = sync_inside = touch_disposed = dispose_unretired = 0; }
    std::vector<std::pair<int,long>> inside_now() const
    {
        std::vector<std::pair<int,long>> r;
        for ( size_t t = 0; t < depth.size(); ++t ) if ( depth[t] > 0 ) r.push_back( std::make_pair( (int) t, gen[t] ));
        return r;
    }
    bool still( std::pair<int,long> const& x ) const { return depth[x.first] > 0 && gen[x.first] == x.second; }
};
static Mon g_m;

static void disposer( void* p )
{
    Obj* o = static_cast<Obj*>( p );
    std::lock_guard<std::mutex> lk( g_m.mx );
    if ( !o->retired ) ++g_m.dispose_unretired;
    for ( auto const& r : o->old_readers ) if ( g_m.still( r )) ++g_m.dispose_inside;
    ++o->disposed;
}

struct Rng { unsigned long long s; unsigned next() { s = s * 6364136223846793005ULL + 1442695040888963407ULL; return (unsigned)( s >> 33 ); } };

static void jitter( Rng& r )
{
    unsigned k = r.next() % 8;
    if ( k < 3 ) std::this_thread::yield();
    else if ( k == 3 ) std::this_thread::sleep_for( std::chrono::microseconds( r.next() % 60 ));
}

template <class RCU>
static void client( int tid, std::vector<vcase::op_t> const& ops, std::atomic<long>& src, Rng rng )
{
    bool attached = false; int depth = 0;
    auto runlock = [&] {
        { std::lock_guard<std::mutex> lk( g_m.mx ); --depth; g_m.depth[tid] = depth; }
        RCU::access_unlock();
    };
    for ( auto const& op : ops ) {
        jitter( rng );
        switch ( op[0] ) {
        case 1: if ( !attached ) { cds::threading::Manager::attachThread(); attached = true; } break;
        case 2: if ( attached && depth == 0 ) { cds::threading::Manager::detachThread(); attached = false; } break;
        case 3: if ( attached ) {
                    RCU::access_lock();
                    std::lock_guard<std::mutex> lk( g_m.mx );
                    if ( depth++ == 0 ) ++g_m.gen[tid];
                    g_m.depth[tid] = depth;
                } break;
        case 4: if ( attached && depth > 0 ) runlock(); break;
        case 5: if ( depth == 0 ) {
                    std::vector<std::pair<int,long>> old;
                    { std::lock_guard<std::mutex> lk( g_m.mx ); old = g_m.inside_now(); }
                    RCU::synchronize();
                    std::lock_guard<std::mutex> lk( g_m.mx );
                    for ( auto const& r : old ) if ( g_m.still( r )) ++g_m.sync_inside;
                } break;
        case 6: case 10: if ( depth == 0 && op.size() >= 2 ) {
                    std::vector<cds::urcu::retired_ptr> v;
                    {
                        std::lock_guard<std::mutex> lk( g_m.mx );
                        for ( size_t i = 1; i < op.size(); ++i ) {
                            Obj& o = g_m.objs[op[i]]; o.retired = true; o.old_readers = g_m.inside_now();
                            v.push_back( cds::urcu::retired_ptr( static_cast<void*>( &o ), disposer ));
                        }
                    }
                    if ( op[0] == 6 ) RCU::retire_ptr( v[0] );
                    else RCU::batch_retire( v.begin(), v.end());
                } break;
        case 7: if ( op.size() == 2 ) src.store( op[1] ); break;
        case 8: src.store( 0 ); break;
        case 9: if ( depth > 0 ) {
                    long v = src.load();
                    if ( v != 0 ) {
                        jitter( rng );
                        Obj& o = g_m.objs[v];
                        (void) o.payload.load();
                        std::lock_guard<std::mutex> lk( g_m.mx );
                        if ( o.disposed > 0 ) ++g_m.touch_disposed;
                    }
                } break;
        default: break;
        }
    }
    if ( attached ) {
        while ( depth > 0 ) runlock();
        cds::threading::Manager::detachThread();
    }
}

template <class RCU, class Make>
static int run( char const* path, Make make, int reps, unsigned long long seed )
{
    std::ifstream in( path );
    vcase::Case c;
    Rng rng{ seed };
    while ( vcase::read_case( in, c )) {
        long bad[5] = { 0, 0, 0, 0, 0 }; long retired = 0;
        for ( int rep = 0; rep < reps; ++rep ) {
            int n = (int) c.threads.size();
            g_m.reset( n );
            for ( auto const& th : c.threads ) for ( auto const& op : th )
                if ( op[0] == 6 || op[0] == 7 || op[0] == 10 ) for ( size_t i = 1; i < op.size(); ++i ) g_m.objs[op[i]].id = op[i];
            RCU* rcu = make( c );
            std::atomic<long> src( 0 );
            std::vector<std::thread> th;
            for ( int t = 0; t < n; ++t ) {
                Rng r{ rng.next() * 2654435761ULL + t };
                th.emplace_back( [&, t, r] { client<RCU>( t, c.threads[t], src, r ); } );
            }
            for ( auto& t : th ) t.join();
            delete rcu;
            bad[0] += g_m.dispose_inside; bad[1] += g_m.sync_inside; bad[2] += g_m.touch_disposed; bad[3] += g_m.dispose_unretired;
            for ( auto const& o : g_m.objs ) if ( o.second.retired ) { ++retired; if ( o.second.disposed != 1 ) ++bad[4]; }
        }
        std::printf( "case %s\nendcase finished\n", c.id.c_str());
        std::printf( "monitor dispose_inside_old_reader %ld\nmonitor sync_end_inside_old_reader %ld\nmonitor touch_disposed %ld\n", bad[0], bad[1], bad[2] );
        std::printf( "monitor dispose_unretired %ld\nmonitor not_disposed_exactly_once %ld 0\nmonitor retired %ld disposed_at_destruct 0\n", bad[3], bad[4], retired );
        std::fflush( stdout );
    }
    return 0;
}

static size_t capacity_of( vcase::Case const& c ) { return c.cfg.size() > 2 ? (size_t) c.cfg[2] : 2; }

int main( int argc, char** argv )
{
    if ( argc < 5 ) { std::fprintf( stderr, "usage: %s casefile gpt|shb|gpi|gpb reps seed\n", argv[0] ); return 2; }
    int reps = std::atoi( argv[3] ); unsigned long long seed = std::strtoull( argv[4], nullptr, 10 );
    cds::Initialize();
    int rc = 2;
    typedef cds::urcu::gc< cds::urcu::general_threaded<> > gpt;
    typedef cds::urcu::gc< cds::urcu::general_instant<> > gpi;
    typedef cds::urcu::gc< cds::urcu::general_buffered<> > gpb;
    if ( !std::strcmp( argv[2], "gpt" )) rc = run<gpt>( argv[1], []( vcase::Case const& c ) { return new gpt( capacity_of( c )); }, reps, seed );
    else if ( !std::strcmp( argv[2], "gpi" )) rc = run<gpi>( argv[1], []( vcase::Case const& ) { return new gpi; }, reps, seed );
    else if ( !std::strcmp( argv[2], "gpb" )) rc = run<gpb>( argv[1], []( vcase::Case const& c ) { return new gpb( capacity_of( c )); }, reps, seed );
#ifdef CDS_URCU_SIGNAL_HANDLING_ENABLED
    else if ( !std::strcmp( argv[2], "shb" )) {
        typedef cds::urcu::gc< cds::urcu::signal_buffered<> > shb;
        rc = run<shb>( argv[1], []( vcase::Case const& c ) { return new shb( capacity_of( c )); }, reps, seed );
    }
#endif
    cds::Terminate();
    return rc;
}
