// C09 harness: runs client programs of push / pop operations on the real libcds stacks under the
// deterministic scheduler and prints the event log (format: ocaml/conc_main.ml) followed by monitor lines.
//
// usage: main <casefile>
//   cfg = [ family; model loop fuel (ignored here); elimination 0/1; collision array size 1..4;
//           buffer 0 = initialized_static_buffer / 1 = initialized_dynamic_buffer;
//           L; r(0,0) .. r(0,L-1); r(1,0) .. ]        r(t,i) = i-th value returned by the random engine to thread t
//                                                      (cyclic; the model receives the same list as data)
//   family 0  cds::container::TreiberStack<cds::gc::HP, int>     STEP-MODELLED (Model/Treiber.v, Model/Elim.v)
//          1  cds::container::TreiberStack<cds::gc::DHP, int>    observable (history -> verified lincheck)
//          2  cds::intrusive::TreiberStack<cds::gc::HP, item>    observable
//          3  cds::intrusive::TreiberStack<cds::gc::DHP, item>   observable
//          4  cds::container::FCStack<int, std::stack<int>>      observable (elimination flag = fcstack enable_elimination)
//   operations: [1; v] push v, [2] pop.
//   events: "inv_push v", "ret_push b", "inv_pop", "ret_pop b v".
//
// Traits used for every Treiber variant: back_off = cds::backoff::empty (the back-off is not a scheduling point
// anyway), empty item counter and empty stat (no atomics), lock_type = cds::sync::spin (the default),
// random_engine = det_rand below, elimination_backoff = cds::backoff::delay_of<5, nanoseconds>: the library's
// delay back-off, whose predicate form polls op.nStatus ceil(5/2) = 3 times (the default differs only in the
// unit, milliseconds, which would make a scheduled run sleep 6 ms per elimination attempt).
// cds::gc::HP is constructed with a retired-array capacity of 4096 per thread: retire() never fills the array
// during a case, so scan() does not run inside a case and no node is freed (and no address reused) while a case
// runs; retired nodes are freed when the worker threads detach, outside the scheduled region.
//
// Monitor (implementation-side oracle, printed after "endcase"):
//   monitor drained v1 v2 ...   what the main thread popped from the stack after the run, top first
//   monitor disposed_read n     number of popped intrusive items whose disposer had already run when the value was read
#include <cds/init.h>
#include <cds/gc/hp.h>
#include <cds/gc/dhp.h>
#include <cds/container/treiber_stack.h>
#include <cds/intrusive/treiber_stack.h>
#include <cds/container/fcstack.h>
#include <vcase.h>
#include <alloca.h>
#include <chrono>
#include <memory>
#include <stack>

namespace vs = khizmax_libcds_verif;

// ---- deterministic "random" engine ------------------------------------------------------------------
static std::vector<std::vector<unsigned> > g_rnd;
static std::vector<size_t> g_rnd_pos;
struct det_rand {
    typedef unsigned int result_type;
    result_type operator()() const
    {
        int t = vs::my_tid();
        if ( t < 0 || (size_t) t >= g_rnd.size() || g_rnd[t].empty()) return 0;
        std::vector<unsigned> const& v = g_rnd[t];
        return v[ g_rnd_pos[t]++ % v.size() ];
    }
};

typedef cds::backoff::delay_of<5, std::chrono::nanoseconds> elim_wait;

namespace cc = cds::container;
namespace ci = cds::intrusive;

template <bool Elim, class Buffer>
struct ctraits : public cc::treiber_stack::traits {
    typedef cds::backoff::empty back_off;
    static constexpr const bool enable_elimination = Elim;
    typedef Buffer buffer;
    typedef det_rand random_engine;
    typedef elim_wait elimination_backoff;
};

typedef cds::opt::v::initialized_static_buffer<int, 1> sbuf1;
typedef cds::opt::v::initialized_static_buffer<int, 2> sbuf2;
typedef cds::opt::v::initialized_static_buffer<int, 3, false> sbuf3;
typedef cds::opt::v::initialized_static_buffer<int, 4> sbuf4;
typedef cds::opt::v::initialized_dynamic_buffer<int, CDS_DEFAULT_ALLOCATOR, false> dbuf;   // capacity % n
typedef cds::opt::v::initialized_dynamic_buffer<int, CDS_DEFAULT_ALLOCATOR, true> dbuf2;   // capacity 2^k: & (n-1)

static int g_disposed_read = 0;

// ---- adapters: push(int) / pop(int&) -------------------------------------------------------------------
template <class GC, bool Elim, class Buffer>
struct cont_stack {
    typedef cc::TreiberStack<GC, int, ctraits<Elim, Buffer> > type;
    type s;
    cont_stack( size_t cap ) : s( cap ) {}
    bool push( int v ) { return s.push( v ); }
    bool pop( int& v ) { return s.pop( v ); }
};

template <class GC>
struct iitem : public ci::treiber_stack::node<GC> {
    int v;
    int disposed;
    iitem( int x ) : v( x ), disposed( 0 ) {}
};
template <class GC>
struct idisposer {
    void operator()( iitem<GC> * p ) { p->disposed = 1; delete p; }
};
template <class GC, bool Elim, class Buffer>
struct itraits : public ci::treiber_stack::traits {
    typedef ci::treiber_stack::base_hook< cds::opt::gc<GC> > hook;
    typedef cds::backoff::empty back_off;
    typedef idisposer<GC> disposer;
    static constexpr const bool enable_elimination = Elim;
    typedef Buffer buffer;
    typedef det_rand random_engine;
    typedef elim_wait elimination_backoff;
};
template <class GC, bool Elim, class Buffer>
struct intr_stack {
    typedef ci::TreiberStack<GC, iitem<GC>, itraits<GC, Elim, Buffer> > type;
    type s;
    intr_stack( size_t cap ) : s( cap ) {}
    bool push( int v ) { return s.push( *new iitem<GC>( v )); }
    bool pop( int& v )
    {
        iitem<GC> * p = s.pop();
        if ( !p ) return false;
        if ( p->disposed ) ++g_disposed_read;
        v = p->v;
        GC::template retire< idisposer<GC> >( p );     // the intrusive contract: popped items go through the GC
        return true;
    }
};

template <bool Elim>
struct fctraits : public cc::fcstack::traits {
    static constexpr const bool enable_elimination = Elim;
    // the default wait strategy (back-off, spinning on the record's atomics) with nanoseconds instead of milliseconds
    typedef cds::algo::flat_combining::wait_strategy::backoff< cds::backoff::delay_of<2, std::chrono::nanoseconds> > wait_strategy;
};
template <bool Elim>
struct fc_stack {
    typedef cc::FCStack<int, std::stack<int>, fctraits<Elim> > type;
    type s;
    fc_stack( size_t ) {}
    bool push( int v ) { return s.push( v ); }
    bool pop( int& v ) { return s.pop( v ); }
};

template <class Stack>
__attribute__((noinline)) static void do_op( Stack& st, vcase::op_t const& op )
{
    if ( op[0] == 1 && op.size() > 1 ) {
        vcase::emitf( "inv_push %ld", op[1] );
        bool b = st.push( (int) op[1] );
        vcase::emitf( "ret_push %ld", b ? 1L : 0L );
    }
    else if ( op[0] == 2 ) {
        vcase::emitf( "inv_pop" );
        int v = 0;
        bool b = st.pop( v );
        vcase::emitf( "ret_pop %ld %ld", b ? 1L : 0L, b ? (long) v : 0L );
    }
}

// ---- one case ----------------------------------------------------------------------------------------------
template <class Stack>
static void run_case( vcase::Case const& c, size_t cap )
{
    std::unique_ptr<Stack> st( new Stack( cap ));
    g_disposed_read = 0;
    // vcase::run_workers lets a worker that finished early run its detach callback while the others are still
    // being scheduled; detaching from cds::gc::HP scans and frees retired nodes, which would make frees (and address
    // reuse) depend on real time.  Every detach therefore waits until all bodies are done.
    std::atomic<int> bodies_done( 0 );
    int const nworkers = (int) c.threads.size();
    vcase::run_workers( c, [&]( int t ) {
        for ( auto const& op : c.threads[t] ) {
            if ( op.empty()) continue;
            // The elimination operation descriptor (with its atomic nStatus) lives on the stack of push()/pop().
            // The model names it by (thread, operation index); so that the event log does the same, every
            // operation runs 512 bytes deeper in the stack than the previous one (alloca accumulates until the
            // body returns) and its descriptor therefore has an address no earlier descriptor had.
            void * pad = alloca( 512 );
            asm volatile( "" : : "r"( pad ) : "memory" );
            do_op( *st, op );
        }
        bodies_done.fetch_add( 1 );
    },
    []( int ) { cds::threading::Manager::attachThread(); },
    [&]( int ) {
        while ( bodies_done.load() < nworkers ) std::this_thread::yield();
        cds::threading::Manager::detachThread();
    },
    20000 );
    vcase::print_log( c );
    // monitor: drain what is left (main thread, not scheduled, not logged)
    std::printf( "monitor drained" );
    int v;
    for ( int i = 0; i < 1000 && st->pop( v ); ++i ) std::printf( " %d", v );
    std::printf( "\nmonitor disposed_read %d\n", g_disposed_read );
    st.reset();
    std::fflush( stdout );      // a crash in a later case must not lose this one's log
}

template <template <class, bool, class> class Family, class GC>
static bool dispatch_treiber( vcase::Case const& c, bool elim, long n, long dyn )
{
    if ( !elim ) { run_case< Family<GC, false, sbuf4> >( c, 4 ); return true; }
    if ( dyn == 0 ) {
        switch ( n ) {
        case 1: run_case< Family<GC, true, sbuf1> >( c, 1 ); return true;
        case 2: run_case< Family<GC, true, sbuf2> >( c, 2 ); return true;
        case 3: run_case< Family<GC, true, sbuf3> >( c, 3 ); return true;
        case 4: run_case< Family<GC, true, sbuf4> >( c, 4 ); return true;
        }
        return false;
    }
    if ( n < 2 || n > 4 ) return false;     // initialized_dynamic_buffer asserts capacity >= 2
    if ( n == 3 ) run_case< Family<GC, true, dbuf> >( c, (size_t) n );
    else run_case< Family<GC, true, dbuf2> >( c, (size_t) n );
    return true;
}

int main( int argc, char** argv )
{
    if ( argc < 2 ) { std::fprintf( stderr, "usage: %s casefile\n", argv[0] ); return 2; }
    cds::Initialize();
    {
        cds::gc::HP hp( 0, 16, 4096 );
        cds::gc::DHP dhp;
        cds::threading::Manager::attachThread();
        std::ifstream in( argv[1] );
        vcase::Case c;
        while ( vcase::read_case( in, c )) {
            auto cfg = [&]( size_t i, long d ) { return c.cfg.size() > i ? c.cfg[i] : d; };
            long fam = cfg( 0, 0 ), elim = cfg( 2, 0 ), n = cfg( 3, 4 ), dyn = cfg( 4, 0 ), L = cfg( 5, 0 );
            size_t nth = c.threads.size();
            g_rnd.assign( nth, std::vector<unsigned>());
            g_rnd_pos.assign( nth, 0 );
            for ( size_t t = 0; t < nth; ++t )
                for ( long i = 0; i < L; ++i )
                    g_rnd[t].push_back( (unsigned) cfg( 6 + t * (size_t) L + (size_t) i, 0 ));
            bool ok = true;
            switch ( fam ) {
            case 0: ok = dispatch_treiber<cont_stack, cds::gc::HP>( c, elim != 0, n, dyn ); break;
            case 1: ok = dispatch_treiber<cont_stack, cds::gc::DHP>( c, elim != 0, n, dyn ); break;
            case 2: ok = dispatch_treiber<intr_stack, cds::gc::HP>( c, elim != 0, n, dyn ); break;
            case 3: ok = dispatch_treiber<intr_stack, cds::gc::DHP>( c, elim != 0, n, dyn ); break;
            case 4: if ( elim ) run_case< fc_stack<true> >( c, 0 ); else run_case< fc_stack<false> >( c, 0 ); break;
            default: ok = false;
            }
            if ( !ok ) std::printf( "case %s\nendcase badcfg\n", c.id.c_str());
        }
        cds::threading::Manager::detachThread();
    }
    cds::Terminate();
    return 0;
}
