// C09 (full interface) harness: client programs of push / pop / empty / clear on the real libcds Treiber stacks
// under the deterministic scheduler; prints the event log (format: ocaml/conc_main.ml) and monitor lines.
//
// usage: full_main <casefile>
//   cfg = [ family; model loop fuel (ignored here) ]
//   family 0  cds::container::TreiberStack<cds::gc::HP, int>   STEP-MODELLED (coq/Model/TreiberFull.v), no elimination
//          2  cds::intrusive::TreiberStack<cds::gc::HP, item>  observable, with a per-item dispose counter
//   operations: [1; v] push v, [2] pop, [3] empty, [4] clear.
//   events: "inv_push v" "ret_push b" "inv_pop" "ret_pop b v" "inv_empty" "ret_empty b" "inv_clear" "ret_clear".
//
// Traits as in harness/C09/main.cpp: back_off = cds::backoff::empty, empty item counter / stat, no elimination.
// cds::gc::HP gets a retired-array capacity of 4096 per thread: retire() never fills it during a case, so scan()
// does not run inside a case and no node is freed (no address reused) while a case runs; every worker's detach
// (which scans) waits until all bodies are done.
//
// Monitor (implementation-side oracle of "every item removed by clear / pop is handed to the disposer exactly once",
// printed after "endcase"):
//   monitor drained v1 v2 ...         what the main thread popped after the run, top first
//   monitor disposed v:c v:c ...      family 2: for every item ever pushed, how often its disposer ran, AFTER the
//                                     drain, the destruction of the stack, all detaches and a final HP scan
//                                     (expected: exactly 1 each)
//   monitor disposed_read n           family 2: popped items whose disposer had already run when they were read
#include <cds/init.h>
#include <cds/gc/hp.h>
#include <cds/container/treiber_stack.h>
#include <cds/intrusive/treiber_stack.h>
#include <vcase.h>
#include <memory>
#include <vector>

namespace vs = khizmax_libcds_verif;
namespace cc = cds::container;
namespace ci = cds::intrusive;

struct ctraits : public cc::treiber_stack::traits {
    typedef cds::backoff::empty back_off;
};

static int g_disposed_read = 0;

struct cont_stack {
    typedef cc::TreiberStack<cds::gc::HP, int, ctraits> type;
    type s;
    bool push( int v ) { return s.push( v ); }
    bool pop( int& v ) { return s.pop( v ); }
    bool empty() { return s.empty(); }
    void clear() { s.clear(); }
    static void report() {}
    static void reset() {}
};

struct iitem : public ci::treiber_stack::node<cds::gc::HP> {
    int v;
    int disposed;
    iitem( int x ) : v( x ), disposed( 0 ) {}
};
static std::vector<iitem*> g_items;      // every item ever allocated in this case (freed by the harness at the end)
struct idisposer {
    void operator()( iitem * p ) { ++p->disposed; }      // counted, not freed: the counter stays readable
};
struct itraits : public ci::treiber_stack::traits {
    typedef ci::treiber_stack::base_hook< cds::opt::gc<cds::gc::HP> > hook;
    typedef cds::backoff::empty back_off;
    typedef idisposer disposer;
};
struct intr_stack {
    typedef ci::TreiberStack<cds::gc::HP, iitem, itraits> type;
    type s;
    bool push( int v )
    {
        iitem * p = new iitem( v );
        g_items.push_back( p );       // workers run one at a time under the scheduler
        return s.push( *p );
    }
    bool pop( int& v )
    {
        iitem * p = s.pop();
        if ( !p ) return false;
        if ( p->disposed ) ++g_disposed_read;
        v = p->v;
        cds::gc::HP::retire< idisposer >( p );     // the intrusive contract: popped items go through the GC
        return true;
    }
    bool empty() { return s.empty(); }
    void clear() { s.clear(); }
    static void reset() { g_items.clear(); }
    static void report()
    {
        std::printf( "monitor disposed" );
        for ( iitem * p : g_items ) std::printf( " %d:%d", p->v, p->disposed );
        std::printf( "\n" );
        for ( iitem * p : g_items ) delete p;
        g_items.clear();
    }
};

template <class Stack>
__attribute__((noinline)) static void do_op( Stack& st, vcase::op_t const& op )
{
    if ( op[0] == 1 && op.size() > 1 ) {
        vcase::emitf( "inv_push %ld", op[1] );
        bool b = st.push( (int) op[1] );
        vcase::emitf( "ret_push %ld", b ? 1L : 0L );
    }
    else if ( op[0] == 2 ) {
        vcase::emitf( "inv_pop" );
        int v = 0;
        bool b = st.pop( v );
        vcase::emitf( "ret_pop %ld %ld", b ? 1L : 0L, b ? (long) v : 0L );
    }
    else if ( op[0] == 3 ) {
        vcase::emitf( "inv_empty" );
        bool b = st.empty();
        vcase::emitf( "ret_empty %ld", b ? 1L : 0L );
    }
    else if ( op[0] == 4 ) {
        vcase::emitf( "inv_clear" );
        st.clear();
        vcase::emitf( "ret_clear" );
    }
}

template <class Stack>
static void run_case( vcase::Case const& c )
{
    Stack::reset();
    std::unique_ptr<Stack> st( new Stack );
    g_disposed_read = 0;
    std::atomic<int> bodies_done( 0 );
    int const nworkers = (int) c.threads.size();
    vcase::run_workers( c, [&]( int t ) {
        for ( auto const& op : c.threads[t] ) {
            if ( op.empty()) continue;
            do_op( *st, op );
        }
        bodies_done.fetch_add( 1 );
    },
    []( int ) { cds::threading::Manager::attachThread(); },
    [&]( int ) {
        while ( bodies_done.load() < nworkers ) std::this_thread::yield();
        cds::threading::Manager::detachThread();
    },
    20000 );
    vcase::print_log( c );
    // monitor: drain what is left (main thread, not scheduled, not logged)
    std::printf( "monitor drained" );
    int v;
    for ( int i = 0; i < 1000 && st->pop( v ); ++i ) std::printf( " %d", v );
    std::printf( "\nmonitor disposed_read %d\n", g_disposed_read );
    st.reset();                         // ~TreiberStack calls clear()
    cds::gc::HP::force_dispose();       // the main thread's retired array (the workers scanned when they detached)
    Stack::report();
    std::fflush( stdout );
}

int main( int argc, char** argv )
{
    if ( argc < 2 ) { std::fprintf( stderr, "usage: %s casefile\n", argv[0] ); return 2; }
    cds::Initialize();
    {
        cds::gc::HP hp( 0, 16, 4096 );
        cds::threading::Manager::attachThread();
        std::ifstream in( argv[1] );
        vcase::Case c;
        while ( vcase::read_case( in, c )) {
            long fam = c.cfg.size() > 0 ? c.cfg[0] : 0;
            switch ( fam ) {
            case 0: run_case< cont_stack >( c ); break;
            case 2: run_case< intr_stack >( c ); break;
            default: std::printf( "case %s\nendcase badcfg\n", c.id.c_str());
            }
        }
        cds::threading::Manager::detachThread();
    }
    cds::Terminate();
    return 0;
}
