// C01 / C03(HP half) harness: client programs on the real cds::gc::HP (src/hp.cpp, cds/gc/hp.h) under the
// deterministic scheduler; prints the event log (format: ocaml/conc_main.ml) and the property monitors.
//
// usage: main <casefile>
//   cfg = [H hazards per thread; P max threads; R retired capacity; scan (0 classic, 1 inplace); nsrc; protect fuel (model only)]
//   One singleton `cds::gc::HP hp(H, P, R, scan)` is constructed per case and destroyed (destruct(true)) after the
//   workers finished; the destruction runs on the main thread, unscheduled, only its disposer calls are logged
//   (as thread number n = number of workers), exactly what LV.Model.Hp.run_case appends.
//
// Objects are bytes of a 16-aligned arena: object n lives at arena+n, so odd n is an odd address (forces the
// classic path of inplace_scan) and address order = numeric order (std::sort order of the model).
//
// Thread operations (same decoding as LV.Model.Hp.decode_op); every op except attach is skipped ("skip") when
// the thread is not attached:
//   1        attach            cds::gc::hp::smr::attach_thread()
//   2        detach            cds::gc::hp::smr::detach_thread()
//   3 j k    protect           p = Guard(slot j).protect( src[k] )                    -> "protected j p"
//   4 j o    assign            Guard(slot j).assign( object o )
//   5 j      clear             Guard(slot j).clear()
//   6 k o    publish           old = src[k].exchange( object o or null ); if old: retire(old)
//   7 o      retire            cds::gc::HP::retire( object o, disposer )
//   8        scan              cds::gc::HP::scan()
//   9 j      touch             reads the object guard j refers to (monitor: must not be disposed)
//   10 j i   copy              Guard(slot j).copy( Guard(slot i) )
// Guard slot j of the thread is hazards_[j] of its thread record: a cds::gc::HP::Guard is linked to it through
// guard_ref() (the guard free list of thread_hp_storage is thread-local bookkeeping without atomics and is
// bypassed so that a slot number means the same thing after a record is reused).
#include <cds/init.h>
#include <cds/gc/hp.h>
#include <vcase.h>
#include <cstring>
#include <map>
#include <memory>

namespace vs = khizmax_libcds_verif;
typedef cds::gc::HP HP;
typedef cds::gc::hp::smr smr;
typedef cds::gc::hp::details::thread_data thread_data;

static const long ARENA = 4096;
alignas(64) static unsigned char g_arena[ARENA];
static const unsigned char POISON = 0xDD;

struct Monitor {
    int nthreads = 0, H = 0;
    std::map<long,int> retired, disposed;
    // harness view of the guard slots: value and the log index after which the value was certainly in place
    std::vector<std::vector<long>> slot_val;
    std::vector<std::vector<long>> slot_since;
    std::vector<std::vector<bool>> slot_valid;   // value obtained by protect / UPWARD copy of a valid guard (second sentence of C01)
    std::vector<std::vector<bool>> slot_lineage; // value obtained by protect / any copy of such a guard (known finding: downward copies)
    long viol_guarded = 0, viol_double = 0, viol_touch = 0, viol_unretired = 0, viol_copy_down = 0, viol_kept = 0;
    // C03, third sentence: history of what each guard slot may have held (conservative: a value counts from the log index at
    // which the operation storing it began to the log index at which the operation overwriting it ended; a protect() loop
    // may have stored anything while it ran)
    struct Iv { long from, to, val; bool any; };
    std::vector<std::vector<std::vector<Iv>>> hist;
    std::vector<std::vector<long>> h_val, h_from, h_busy;     // h_busy: log index at which a slot-writing operation in progress began, or -1
    std::string first_viol;
    int destroying_tid = -1;
} M;

static long obj_of( void* p ) { return p ? (long)( (unsigned char*) p - g_arena ) : 0; }
static void* ptr_of( long o ) { return o ? (void*)( g_arena + o ) : nullptr; }

static void note( std::string const& s ) { if ( M.first_viol.empty()) M.first_viol = s; }

static void hset( int t, long a, long newval, long op_start, bool any )
{
    long now = (long) vs::S().log.size();
    M.hist[t][a].push_back( Monitor::Iv{ M.h_from[t][a], now, M.h_val[t][a], false } );
    if ( any ) M.hist[t][a].push_back( Monitor::Iv{ op_start, now, 0, true } );
    M.h_val[t][a] = newval; M.h_from[t][a] = op_start; M.h_busy[t][a] = -1;
}
static bool possibly_held( long o, long s, long e )
{
    for ( int u = 0; u < M.nthreads; ++u )
        for ( int j = 0; j < M.H; ++j ) {
            if ( M.h_val[u][j] == o && M.h_from[u][j] <= e ) return true;
            if ( M.h_busy[u][j] >= 0 && M.h_busy[u][j] <= e ) return true;    // an operation writing this slot is in progress
            for ( auto const& iv : M.hist[u][j] )
                if (( iv.any || iv.val == o ) && iv.from <= e && iv.to >= s ) return true;
        }
    return false;
}
// after an operation of thread t that ran a scan of its own retired array (retire with a full array, HP::scan): every cell the
// scan left in the array must have been in some hazard slot at some moment of that scan
static void check_kept( int t, thread_data* td, long op_start )
{
    auto const& log = vs::S().log;
    long s = -1, e = (long) log.size();
    std::string pre = std::to_string( t ) + " faa ";
    for ( long i = e - 1; i >= op_start; --i )
        if ( log[i].compare( 0, pre.size(), pre ) == 0 ) { s = i; break; }
    if ( s < 0 ) return;
    vs::passthrough_scope ps;
    for ( auto* f = td->retired_.first(), *l = td->retired_.last(); f != l; ++f ) {
        long o = obj_of( f->m_p );
        if ( !possibly_held( o, s, e )) {
            ++M.viol_kept;
            note( "object " + std::to_string( o ) + " is still in the retired array of thread " + std::to_string( t ) + " after its scan (log lines "
                  + std::to_string( s ) + ".." + std::to_string( e ) + ") although no hazard slot held it at any moment of that scan" );
        }
    }
}

static void disposer( void* p )
{
    long o = obj_of( p );
    char buf[96];
    int tid = vs::my_tid();
    if ( vs::logging()) { std::snprintf( buf, sizeof buf, "dispose %ld", o ); vs::emit( buf ); }
    else { std::snprintf( buf, sizeof buf, "%d ev dispose %ld", M.destroying_tid, o ); vs::log_line( buf ); tid = -1; }
    // C03: at most once, only retired objects
    int& d = M.disposed[o];
    ++d;
    if ( d > M.retired[o] ) {
        if ( M.retired[o] == 0 ) ++M.viol_unretired; else ++M.viol_double;
        note( "object " + std::to_string( o ) + " disposed " + std::to_string( d ) + " time(s), retired " + std::to_string( M.retired[o] ) + " time(s)" );
    }
    // C01: the scan this dispose belongs to began at the last fetch_add (thread_data::sync) of this thread
    if ( tid >= 0 ) {
        long s = -1;
        std::string pre = std::to_string( tid ) + " faa ";
        auto const& log = vs::S().log;
        for ( long i = (long) log.size() - 1; i >= 0; --i )
            if ( log[i].compare( 0, pre.size(), pre ) == 0 ) { s = i; break; }
        for ( int u = 0; u < M.nthreads; ++u )
            for ( int j = 0; j < M.H; ++j )
                if ( M.slot_val[u][j] == o && M.slot_since[u][j] <= s ) {
                    ++M.viol_guarded;
                    note( "object " + std::to_string( o ) + " disposed by thread " + std::to_string( tid ) + " (scan began at log line " + std::to_string( s )
                        + ") while guard slot " + std::to_string( j ) + " of thread " + std::to_string( u ) + " holds it since log line " + std::to_string( M.slot_since[u][j] ));
                }
    }
    if ( o > 0 && o < ARENA ) g_arena[o] = POISON;
}

int main( int argc, char** argv )
{
    if ( argc < 2 ) { std::fprintf( stderr, "usage: %s casefile\n", argv[0] ); return 2; }
    cds::Initialize();
    std::ifstream in( argv[1] );
    vcase::Case c;
    while ( vcase::read_case( in, c )) {
        size_t H = c.cfg.size() > 0 ? (size_t) c.cfg[0] : 2;
        size_t P = c.cfg.size() > 1 ? (size_t) c.cfg[1] : 2;
        size_t R = c.cfg.size() > 2 ? (size_t) c.cfg[2] : 8;
        bool inplace = c.cfg.size() > 3 ? c.cfg[3] != 0 : false;
        size_t nsrc = c.cfg.size() > 4 ? (size_t) c.cfg[4] : 2;
        int n = (int) c.threads.size();
        std::memset( g_arena, 0, sizeof g_arena );
        M = Monitor();
        M.nthreads = n; M.destroying_tid = n;
        std::unique_ptr<atomics::atomic<void*>[]> src( new atomics::atomic<void*>[nsrc ? nsrc : 1] );
        for ( size_t i = 0; i < nsrc; ++i ) src[i].store( nullptr, atomics::memory_order_relaxed );
        {
            HP hp( H, P, R, inplace ? HP::scan_type::inplace : HP::scan_type::classic );
            size_t realH = HP::max_hazard_count();
            M.H = (int) realH;
            M.slot_val.assign( n, std::vector<long>( realH, 0 ));
            M.slot_since.assign( n, std::vector<long>( realH, 0 ));
            M.slot_valid.assign( n, std::vector<bool>( realH, false ));
            M.slot_lineage.assign( n, std::vector<bool>( realH, false ));
            M.hist.assign( n, std::vector<std::vector<Monitor::Iv>>( realH ));
            M.h_val.assign( n, std::vector<long>( realH, 0 ));
            M.h_from.assign( n, std::vector<long>( realH, 0 ));
            M.h_busy.assign( n, std::vector<long>( realH, -1 ));

            vcase::run_workers( c, [&]( int t ) {
                bool attached = false;
                auto logsize = [] { return (long) vs::S().log.size(); };
                for ( auto const& op : c.threads[t] ) {
                    long a = op.size() > 1 ? op[1] : 0, b = op.size() > 2 ? op[2] : 0;
                    long code = op.empty() ? 0 : op[0];
                    if ( code == 1 ) {
                        vcase::emitf( "attach" );
                        if ( !attached ) { smr::attach_thread(); attached = true; }
                        vcase::emitf( "attached" );
                        continue;
                    }
                    if ( code < 1 || code > 10 ) continue;
                    bool slot_op = ( code == 3 || code == 4 || code == 5 || code == 9 || code == 10 );
                    if ( !attached || ( slot_op && ( a < 0 || a >= (long) realH )) || ( code == 10 && ( b < 0 || b >= (long) realH ))
                         || (( code == 3 || code == 6 ) && ( ( code == 3 ? b : a ) < 0 || ( code == 3 ? b : a ) >= (long) nsrc ))) {
                        vcase::emitf( "skip" );
                        continue;
                    }
                    thread_data* td = smr::tls();
                    long op_start = logsize();
                    if ( code == 3 || code == 4 || code == 5 || code == 10 ) M.h_busy[t][a] = op_start;
                    if ( code == 2 ) for ( size_t j = 0; j < realH; ++j ) M.h_busy[t][j] = op_start;
                    switch ( code ) {
                    case 2: {
                        vcase::emitf( "detach" );
                        for ( size_t j = 0; j < realH; ++j ) { M.slot_val[t][j] = 0; M.slot_valid[t][j] = false; M.slot_lineage[t][j] = false; }
                        smr::detach_thread();
                        for ( size_t j = 0; j < realH; ++j ) hset( t, (long) j, 0, op_start, false );
                        attached = false;
                        vcase::emitf( "detached" );
                        break; }
                    case 3: {
                        vcase::emitf( "protect %ld %ld", a, b );
                        M.slot_val[t][a] = 0; M.slot_valid[t][a] = false; M.slot_lineage[t][a] = false;
                        HP::Guard g( nullptr ); g.guard_ref() = &td->hazards_[a];
                        void* p = g.protect( src[b] );
                        g.release();
                        M.slot_val[t][a] = obj_of( p ); M.slot_since[t][a] = logsize(); M.slot_valid[t][a] = p != nullptr; M.slot_lineage[t][a] = p != nullptr;
                        hset( t, a, obj_of( p ), op_start, true );
                        vcase::emitf( "protected %ld %ld", a, obj_of( p ));
                        break; }
                    case 4: {
                        vcase::emitf( "assign %ld %ld", a, b );
                        M.slot_val[t][a] = 0; M.slot_valid[t][a] = false; M.slot_lineage[t][a] = false;
                        HP::Guard g( nullptr ); g.guard_ref() = &td->hazards_[a];
                        if ( b ) g.assign( (unsigned char*) ptr_of( b )); else g.clear();
                        g.release();
                        M.slot_val[t][a] = b; M.slot_since[t][a] = logsize();
                        hset( t, a, b, op_start, false );
                        vcase::emitf( "assigned" );
                        break; }
                    case 5: {
                        vcase::emitf( "clear %ld", a );
                        M.slot_val[t][a] = 0; M.slot_valid[t][a] = false; M.slot_lineage[t][a] = false;
                        HP::Guard g( nullptr ); g.guard_ref() = &td->hazards_[a];
                        g.clear();
                        g.release();
                        hset( t, a, 0, op_start, false );
                        vcase::emitf( "cleared" );
                        break; }
                    case 6: {
                        vcase::emitf( "publish %ld %ld", a, b );
                        void* old = src[a].exchange( ptr_of( b ), atomics::memory_order_acq_rel );
                        vcase::emitf( "unlinked %ld", obj_of( old ));
                        if ( old ) {
                            ++M.retired[obj_of( old )];
                            vcase::emitf( "retire %ld", obj_of( old ));
                            HP::retire( (unsigned char*) old, disposer );
                            check_kept( t, td, op_start );
                            vcase::emitf( "retired" );
                        }
                        break; }
                    case 7: {
                        if ( a <= 0 || a >= ARENA ) { vcase::emitf( "skip" ); break; }
                        ++M.retired[a];
                        vcase::emitf( "retire %ld", a );
                        HP::retire( (unsigned char*) ptr_of( a ), disposer );
                        check_kept( t, td, op_start );
                        vcase::emitf( "retired" );
                        break; }
                    case 8: {
                        vcase::emitf( "scan" );
                        HP::scan();
                        check_kept( t, td, op_start );
                        vcase::emitf( "scanned" );
                        break; }
                    case 9: {
                        long o = M.slot_val[t][a];
                        vcase::emitf( "touch %ld %ld", a, o );
                        if ( o && M.slot_valid[t][a] && g_arena[o] == POISON ) {
                            ++M.viol_touch;
                            note( "thread " + std::to_string( t ) + " guard slot " + std::to_string( a ) + " refers to object " + std::to_string( o ) + " which has been disposed" );
                        }
                        else if ( o && M.slot_lineage[t][a] && g_arena[o] == POISON )
                            ++M.viol_copy_down;     // guard obtained through a copy into a lower slot (known finding hp-guard-copy-downward)
                        break; }
                    case 10: {
                        vcase::emitf( "copy %ld %ld", a, b );
                        long v = M.slot_val[t][b]; bool valid = M.slot_valid[t][b]; bool lineage = M.slot_lineage[t][b];
                        M.slot_val[t][a] = 0; M.slot_valid[t][a] = false; M.slot_lineage[t][a] = false;
                        HP::Guard g( nullptr ); g.guard_ref() = &td->hazards_[a];
                        HP::Guard gs( nullptr ); gs.guard_ref() = &td->hazards_[b];
                        g.copy( gs );
                        g.release(); gs.release();
                        // a copy is a valid guard of its own only in scan order (source slot below destination): a pass that is
                        // already running reads the slots in ascending order and would otherwise miss the pointer once the
                        // source is released (LV.Properties.Properties_C01: C01_copy_down_unsafe)
                        M.slot_val[t][a] = v; M.slot_since[t][a] = logsize(); M.slot_valid[t][a] = valid && b <= a; M.slot_lineage[t][a] = lineage;
                        hset( t, a, v, op_start, false );
                        vcase::emitf( "copied" );
                        break; }
                    }
                }
                // a worker that is still attached stays attached: ~HP() (destruct(true)) detaches its record
                cds::gc::hp::details::DefaultTLSManager::setTLS( nullptr );
            }, nullptr, nullptr, 40000 );
            // hp.~HP() -> basic_smr::destruct( true ): detach_all_thread + ~basic_smr, main thread, unscheduled
        }
        vcase::print_log( c );
        long missing = 0, total_retired = 0;
        for ( auto const& kv : M.retired ) {
            total_retired += kv.second;
            if ( M.disposed[kv.first] != kv.second ) {
                ++missing;
                note( "after destruction object " + std::to_string( kv.first ) + " retired " + std::to_string( kv.second ) + " time(s), disposed " + std::to_string( M.disposed[kv.first] ));
            }
        }
        std::printf( "monitor guarded_dispose %ld double_dispose %ld unretired_dispose %ld touch_disposed %ld not_exactly_once %ld copy_down_disposed %ld kept_unguarded %ld retired %ld\n",
                     M.viol_guarded, M.viol_double, M.viol_unretired, M.viol_touch, missing, M.viol_copy_down, M.viol_kept, total_retired );
        std::string counts = "monitor counts";
        for ( auto const& kv : M.retired ) counts += " " + std::to_string( kv.first ) + ":" + std::to_string( M.disposed[kv.first] );
        std::printf( "%s\n", counts.c_str());
        if ( !M.first_viol.empty()) std::printf( "monitor first %s\n", M.first_viol.c_str());
    }
    cds::Terminate();
    return 0;
}
