// C07 wrap harness: the real cds::container::VyukovMPMCCycleQueue<int, traits> started at an arbitrary position
// (in particular a few steps before 2^63 and before 2^64), run under the deterministic scheduler; prints the event
// log in the format of ocaml/conc_main.ml.  Model side: LV.Model.VyukovWrap.run_case (coq/Extract/Extract_VyukovWrap.v).
//
// /repo is not edited: m_buffer, m_posEnqueue and m_posDequeue are PROTECTED members of the container queue, so a
// class derived from it in this file can put the queue into the state it is in after `start` items have passed
// through it (LV.Model.VyukovWrap.init_at): both positions = start, cell i holds the sequence number of the unique
// position of [start, start+capacity) that maps to it.  This is done in the constructor, outside the scheduled
// region, with plain stores through the same atomics.  (The intrusive queue derives privately from the container
// queue, so its counters cannot be reached this way; it is the same code.)
//
// usage: wrap_main <casefile>
//   cfg = [capacity; variant; counter; loop fuel (model only); start / 2^32; start % 2^32]
//         variant 0: uninitialized_dynamic_buffer, 1: uninitialized_static_buffer<.,4> (cfg[0] must be 4)
//   ops:  1 v enqueue(v) | 2 dequeue(dest) | 3 front()+read | 4 pop_front() | 5 empty() | 6 size()
#include <cds/container/vyukov_mpmc_cycle_queue.h>
#include <cds/algo/backoff_strategy.h>
#include <vcase.h>
#include <memory>
#include <chrono>
#include <unistd.h>

namespace vs = khizmax_libcds_verif;

struct tr_dyn : public cds::container::vyukov_queue::traits {
    typedef cds::backoff::empty back_off;
    static constexpr bool const single_consumer = true;
};
struct tr_dyn_cnt : public tr_dyn {
    typedef cds::atomicity::item_counter item_counter;
};
struct tr_static4 : public tr_dyn {
    typedef cds::opt::v::uninitialized_static_buffer< void *, 4 > buffer;
};
struct tr_static4_cnt : public tr_static4 {
    typedef cds::atomicity::item_counter item_counter;
};

template <typename Q>
struct started_at : public Q {
    started_at( size_t cap, size_t start ) : Q( cap )
    {
        size_t const n = this->m_buffer.capacity();
        for ( size_t j = 0; j != n; ++j ) {
            size_t p = start + j;                       // wraps modulo 2^64, as the queue's own counters do
            this->m_buffer[p & this->m_nBufferMask].sequence.store( p, Q::memory_model::memory_order_relaxed );
        }
        this->m_posEnqueue.store( start, Q::memory_model::memory_order_relaxed );
        this->m_posDequeue.store( start, Q::memory_model::memory_order_relaxed );
    }
    unsigned long long pos_enq() { return this->m_posEnqueue.load( Q::memory_model::memory_order_relaxed ); }
    unsigned long long pos_deq() { return this->m_posDequeue.load( Q::memory_model::memory_order_relaxed ); }
};

static std::atomic<long long> g_deadline_ms( 0 );
static vcase::Case const * volatile g_current = nullptr;
static long long now_ms() { return std::chrono::duration_cast<std::chrono::milliseconds>( std::chrono::steady_clock::now().time_since_epoch()).count(); }
static void watchdog()
{
    for (;;) {
        std::this_thread::sleep_for( std::chrono::milliseconds( 100 ));
        long long d = g_deadline_ms.load();
        if ( d != 0 && now_ms() > d ) {
            vcase::Case const * c = g_current;
            std::printf( "case %s\n", c ? c->id.c_str() : "?" );
            for ( auto const& l : vs::S().log ) { std::fputs( l.c_str(), stdout ); std::fputc( '\n', stdout ); }
            std::printf( "endcase hang\n" );
            std::fflush( stdout );
            _exit( 0 );
        }
    }
}

template <typename Q0>
void run_case( vcase::Case const& c, size_t cap, size_t start )
{
    typedef started_at<Q0> Q;
    std::unique_ptr<Q> q( new Q( cap, start ));
    g_current = &c;
    g_deadline_ms.store( now_ms() + 30000 );
    vcase::run_workers( c, [&]( int t ) {
        for ( auto const& op : c.threads[t] ) {
            switch ( op[0] ) {
            case 1: {
                long v = op.size() > 1 ? op[1] : 0;
                vcase::emitf( "inv_enq %ld", v );
                bool ok = q->enqueue( (int) v );
                vcase::emitf( "ret_enq %ld", ok ? 1 : 0 );
                break; }
            case 2: {
                vcase::emitf( "inv_deq" );
                int d = 0;
                bool ok = q->dequeue( d );
                vcase::emitf( "ret_deq %ld %ld", ok ? 1 : 0, ok ? (long) d : 0 );
                break; }
            case 3: {
                vcase::emitf( "inv_front" );
                int * p = q->front();
                long v = p ? *p : 0;
                vcase::emitf( "ret_front %ld %ld", p ? 1 : 0, v );
                break; }
            case 4: {
                vcase::emitf( "inv_pop" );
                bool ok = q->pop_front();
                vcase::emitf( "ret_pop %ld", ok ? 1 : 0 );
                break; }
            case 5: {
                vcase::emitf( "inv_empty" );
                bool b = q->empty();
                vcase::emitf( "ret_empty %ld", b ? 1 : 0 );
                break; }
            case 6: {
                vcase::emitf( "inv_size" );
                size_t n = q->size();
                vcase::emitf( "ret_size %ld", (long) n );
                break; }
            default: break;
            }
        }
    }, nullptr, nullptr, 20000 );
    vcase::print_log( c );
    {
        // quiescent state (main thread, not scheduled, not logged): the stored positions, then the items left
        vs::passthrough_scope ps;
        std::printf( "monitor pos %llu %llu\n", q->pos_enq(), q->pos_deq());
        std::printf( "monitor drain" );
        int v;
        int n = 0;
        while ( n < 4096 && q->dequeue( v )) { std::printf( " %d", v ); ++n; }
        std::printf( "\n" );
        q.reset();
    }
    g_deadline_ms.store( 0 );
}

int main( int argc, char** argv )
{
    if ( argc < 2 ) { std::fprintf( stderr, "usage: %s casefile\n", argv[0] ); return 2; }
    std::ifstream in( argv[1] );
    std::setvbuf( stdout, nullptr, _IOLBF, 0 );
    std::thread( watchdog ).detach();
    vcase::Case c;
    while ( vcase::read_case( in, c )) {
        size_t cap = c.cfg.size() > 0 ? (size_t) c.cfg[0] : 2;
        long variant = c.cfg.size() > 1 ? c.cfg[1] : 0;
        bool cnt = c.cfg.size() > 2 && c.cfg[2] == 1;
        unsigned long long hi = c.cfg.size() > 4 ? (unsigned long long) c.cfg[4] : 0;
        unsigned long long lo = c.cfg.size() > 5 ? (unsigned long long) c.cfg[5] : 0;
        size_t start = (size_t)(( hi << 32 ) + lo );
        if ( variant == 1 ) {
            if ( cnt ) run_case< cds::container::VyukovMPMCCycleQueue<int, tr_static4_cnt> >( c, 4, start );
            else       run_case< cds::container::VyukovMPMCCycleQueue<int, tr_static4> >( c, 4, start );
        }
        else {
            if ( cnt ) run_case< cds::container::VyukovMPMCCycleQueue<int, tr_dyn_cnt> >( c, cap, start );
            else       run_case< cds::container::VyukovMPMCCycleQueue<int, tr_dyn> >( c, cap, start );
        }
    }
    return 0;
}
