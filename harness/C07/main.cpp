// C07 harness: runs client programs on the real cds::container::VyukovMPMCCycleQueue<int, traits> (dynamic and
// static buffers, with and without item counter) and cds::intrusive::VyukovMPMCCycleQueue<int, traits> under the
// deterministic scheduler and prints the event log (format: ocaml/conc_main.ml).
// usage: main <casefile>
//   cfg = [capacity; variant; counter; loop fuel (model only)]
//         variant 0: container, uninitialized_dynamic_buffer      (capacity from cfg)
//         variant 1: container, uninitialized_static_buffer<.,4>  (capacity 4, cfg[0] must be 4)
//         variant 2: intrusive, uninitialized_dynamic_buffer      (values are indices into a static int array)
//   ops:  1 v enqueue(v) | 2 dequeue(dest) | 3 front()+read | 4 pop_front() | 5 empty() | 6 size()
//   (3, 4 exist only in the container variants; the harness traits set single_consumer = true, which only
//    enables these two member functions, the rest of the class is the same code)
#include <cds/container/vyukov_mpmc_cycle_queue.h>
#include <cds/intrusive/vyukov_mpmc_cycle_queue.h>
#include <cds/algo/backoff_strategy.h>
#include <vcase.h>
#include <memory>

namespace vs = khizmax_libcds_verif;

struct tr_dyn : public cds::container::vyukov_queue::traits {
    typedef cds::backoff::empty back_off;
    static constexpr bool const single_consumer = true;
};
struct tr_dyn_cnt : public tr_dyn {
    typedef cds::atomicity::item_counter item_counter;
};
struct tr_static4 : public tr_dyn {
    typedef cds::opt::v::uninitialized_static_buffer< void *, 4 > buffer;
};
struct tr_static4_cnt : public tr_static4 {
    typedef cds::atomicity::item_counter item_counter;
};
struct tr_intr : public cds::intrusive::vyukov_queue::traits {
    typedef cds::backoff::empty back_off;
};
struct tr_intr_cnt : public tr_intr {
    typedef cds::atomicity::item_counter item_counter;
};

static int g_vals[1024];

// watchdog: a case whose threads spin for ever after the step limit (possible only when the code under test is
// broken) is reported as "endcase hang" with the log so far and the process exits; the check re-runs the
// remaining cases.
#include <chrono>
#include <unistd.h>
static std::atomic<long long> g_deadline_ms( 0 );
static vcase::Case const * volatile g_current = nullptr;
static long long now_ms() { return std::chrono::duration_cast<std::chrono::milliseconds>( std::chrono::steady_clock::now().time_since_epoch()).count(); }
static void watchdog()
{
    for (;;) {
        std::this_thread::sleep_for( std::chrono::milliseconds( 100 ));
        long long d = g_deadline_ms.load();
        if ( d != 0 && now_ms() > d ) {
            vcase::Case const * c = g_current;
            std::printf( "case %s\n", c ? c->id.c_str() : "?" );
            for ( auto const& l : vs::S().log ) { std::fputs( l.c_str(), stdout ); std::fputc( '\n', stdout ); }
            std::printf( "endcase hang\n" );
            std::fflush( stdout );
            _exit( 0 );
        }
    }
}

template <typename Q>
struct container_api {
    static bool enq( Q& q, long v ) { return q.enqueue( (int) v ); }
    static bool deq( Q& q, long& v ) { int d = 0; bool ok = q.dequeue( d ); v = d; return ok; }
    static bool front( Q& q, long& v ) { int * p = q.front(); if ( p ) { v = *p; return true; } return false; }
    static bool pop( Q& q ) { return q.pop_front(); }
};
template <typename Q>
struct intrusive_api {
    static bool enq( Q& q, long v ) { return q.enqueue( g_vals[v & 1023] ); }
    static bool deq( Q& q, long& v ) { int * p = q.dequeue(); if ( p ) { v = (long)( p - g_vals ); return true; } return false; }
    static bool front( Q&, long& ) { return false; }
    static bool pop( Q& ) { return false; }
};

template <typename Q, typename Api>
void run_case( vcase::Case const& c, size_t cap, bool has_front )
{
    std::unique_ptr<Q> q( new Q( cap ));
    g_current = &c;
    g_deadline_ms.store( now_ms() + 30000 );   // generous: only a genuinely spinning run reaches it, even on a loaded machine
    vcase::run_workers( c, [&]( int t ) {
        for ( auto const& op : c.threads[t] ) {
            switch ( op[0] ) {
            case 1: {
                long v = op.size() > 1 ? op[1] : 0;
                vcase::emitf( "inv_enq %ld", v );
                bool ok = Api::enq( *q, v );
                vcase::emitf( "ret_enq %ld", ok ? 1 : 0 );
                break; }
            case 2: {
                vcase::emitf( "inv_deq" );
                long v = 0;
                bool ok = Api::deq( *q, v );
                vcase::emitf( "ret_deq %ld %ld", ok ? 1 : 0, ok ? v : 0 );
                break; }
            case 3: {
                if ( !has_front ) break;
                vcase::emitf( "inv_front" );
                long v = 0;
                bool ok = Api::front( *q, v );
                vcase::emitf( "ret_front %ld %ld", ok ? 1 : 0, ok ? v : 0 );
                break; }
            case 4: {
                if ( !has_front ) break;
                vcase::emitf( "inv_pop" );
                bool ok = Api::pop( *q );
                vcase::emitf( "ret_pop %ld", ok ? 1 : 0 );
                break; }
            case 5: {
                vcase::emitf( "inv_empty" );
                bool b = q->empty();
                vcase::emitf( "ret_empty %ld", b ? 1 : 0 );
                break; }
            case 6: {
                vcase::emitf( "inv_size" );
                size_t n = q->size();
                vcase::emitf( "ret_size %ld", (long) n );
                break; }
            default: break;
            }
        }
    }, nullptr, nullptr, 20000 );
    vcase::print_log( c );
    {
        // quiescent content, drained by the main thread (not scheduled, not logged): items left in FIFO order
        vs::passthrough_scope ps;
        std::printf( "monitor drain" );
        long v;
        int n = 0;
        while ( n < 4096 && Api::deq( *q, v )) { std::printf( " %ld", v ); ++n; }
        std::printf( "\n" );
    }
    q.reset();
    g_deadline_ms.store( 0 );
}

int main( int argc, char** argv )
{
    if ( argc < 2 ) { std::fprintf( stderr, "usage: %s casefile\n", argv[0] ); return 2; }
    for ( int i = 0; i < 1024; ++i ) g_vals[i] = i;
    std::ifstream in( argv[1] );
    std::setvbuf( stdout, nullptr, _IOLBF, 0 );     // completed cases survive a crash of a later one
    std::thread( watchdog ).detach();
    vcase::Case c;
    while ( vcase::read_case( in, c )) {
        size_t cap = c.cfg.size() > 0 ? (size_t) c.cfg[0] : 2;
        long variant = c.cfg.size() > 1 ? c.cfg[1] : 0;
        bool cnt = c.cfg.size() > 2 && c.cfg[2] == 1;
        if ( variant == 1 ) {
            if ( cnt ) { typedef cds::container::VyukovMPMCCycleQueue<int, tr_static4_cnt> Q; run_case<Q, container_api<Q>>( c, 4, true ); }
            else       { typedef cds::container::VyukovMPMCCycleQueue<int, tr_static4> Q;     run_case<Q, container_api<Q>>( c, 4, true ); }
        }
        else if ( variant == 2 ) {
            if ( cnt ) { typedef cds::intrusive::VyukovMPMCCycleQueue<int, tr_intr_cnt> Q; run_case<Q, intrusive_api<Q>>( c, cap, false ); }
            else       { typedef cds::intrusive::VyukovMPMCCycleQueue<int, tr_intr> Q;     run_case<Q, intrusive_api<Q>>( c, cap, false ); }
        }
        else {
            if ( cnt ) { typedef cds::container::VyukovMPMCCycleQueue<int, tr_dyn_cnt> Q; run_case<Q, container_api<Q>>( c, cap, true ); }
            else       { typedef cds::container::VyukovMPMCCycleQueue<int, tr_dyn> Q;     run_case<Q, container_api<Q>>( c, cap, true ); }
        }
    }
    return 0;
}
