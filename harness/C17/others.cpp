// C17 — observable correspondence harness for the growth paths of StripedSet, SplitListSet and FeldmanHashSet
// (sequential, one thread, built from the current working tree, no hook).
// Case format (one hash lookup table over keys 0..n-1):
//   case <id>
//   family striped|split|feldman
//   cfg ...      striped: <log2 initial capacity> <policy kind 0 load factor / 1 single bucket threshold> <n> <container 0 list / 1 set / 2 slist>
//                split:   <estimated item count> <load factor> <dynamic bucket table 0/1> <ordered list 0 michael / 1 lazy>
//                         <contains-sweep over all keys after every operation 0/1>
//                feldman: <head bits> <array bits> <hash width 8/16/32/64>
//   hash v0 v1 ...
//   ops <c> <key> ...     1 insert, 2 erase, 3 find
//   end
// Output per operation:  op <j> res=<0|1> size=<size()> lg=<log2 bucket_count() or 0> dropped= found=<keys found>
// then   final <keys met by iteration / clear_and_dispose, in that order>   and   endcase.
// For feldman the key of the set is the hash value itself: two keys with equal hashes are the same element; found=
// lists the keys q whose hash is contained.
//
// Layout lines (compared verbatim with the output of the extracted SplitSeq / FeldmanSeq models, ocaml/c17_main.ml):
//  split    cap <m_Buckets.capacity()> lf <m_Buckets.load_factor()>                          once, after construction
//           op <j> ... lg=<m_nBucketCountLog2> ... found=<sweep result, empty without sweep>
//           lay <j> max=<m_nMaxItemCount|inf> new=<buckets created by the op> rec=<recursive init_bucket calls of the op>
//                   list=<m_nHash:is_dummy:key;...> buckets=<b:position of the node bucket b points to,...>
//                   (walk of m_List from begin() to end() through a derived class, dummy nodes included; key of a dummy = 0)
//           lay2 <j> list=... buckets=...                   after the sweep (sweep = 1 only)
//           finalfound <k,..> / finallay list=.. buckets=..   closing sweep (always) and the layout after it
//  feldman  met <log2 head_size()> <log2 array_node_size()>
//           tree <j> <walk from head(): _ empty slot, <hash> data slot, [ ... ] array slot>
//           ls <j> <get_level_statistics(): array_node_count:data_cell_count:array_cell_count:empty_cell_count per level>
//           finalh <hashes met by iteration begin()..end()>
#include <cstring>
#include <cstdio>
#include <cstdlib>
#include <cstdint>
#include <limits>
#include <deque>
#include <iostream>
#include <sstream>
#include <string>
#include <vector>
#include <boost/intrusive/list.hpp>
#include <boost/intrusive/slist.hpp>
#include <boost/intrusive/set.hpp>
#include <cds/init.h>
#include <cds/gc/hp.h>
#include <cds/intrusive/striped_set/boost_list.h>
#include <cds/intrusive/striped_set/boost_slist.h>
#include <cds/intrusive/striped_set/boost_set.h>
#include <cds/intrusive/striped_set.h>
#include <cds/intrusive/michael_list_hp.h>
#include <cds/intrusive/lazy_list_hp.h>
#include <cds/intrusive/split_list.h>
#include <cds/intrusive/feldman_hashset_hp.h>

namespace ci = cds::intrusive;
typedef cds::gc::HP gc_type;

static std::vector<size_t> g_hash;   // g_hash[key]

struct CaseIn {
    std::string id, family;
    std::vector<long> cfg, ops;
};

static unsigned log2u( size_t n ) { unsigned l = 0; while ( ( size_t( 1 ) << l ) < n ) ++l; return l; }

struct tab_hash {
    template <typename T> size_t operator()( T const& v ) const { return g_hash[(size_t) v.key]; }
    size_t operator()( int k ) const { return g_hash[(size_t) k]; }
};
struct cmp_key {
    template <typename A, typename B> int operator()( A const& a, B const& b ) const { return k( a ) < k( b ) ? -1 : ( k( a ) > k( b ) ? 1 : 0 ); }
    template <typename T> static int k( T const& v ) { return v.key; }
    static int k( int v ) { return v; }
};
struct less_key {
    template <typename A, typename B> bool operator()( A const& a, B const& b ) const { return cmp_key::k( a ) < cmp_key::k( b ); }
};

template <typename Set>
static void print_found( Set& s, size_t nkeys )
{
    bool first = true;
    for ( size_t q = 0; q < nkeys; ++q )
        if ( s.contains( (int) q )) { std::printf( first ? "%zu" : ",%zu", q ); first = false; }
    std::printf( "\n" );
}

template <typename Set>
static void print_op( size_t j, int res, Set& s, unsigned lg, size_t nkeys, bool sweep = true )
{
    std::printf( "op %zu res=%d size=%zu lg=%u dropped= found=", j, res, s.size(), lg );
    print_found( s, sweep ? nkeys : 0 );
}

// ---------------------------------------------------------------------------------------------- striped
namespace striped {
    namespace bi = boost::intrusive;
    struct item_list : public bi::list_base_hook<> { int key; explicit item_list( int k ) : key( k ) {} };
    struct item_slist : public bi::slist_base_hook<> { int key; explicit item_slist( int k ) : key( k ) {} };
    struct item_set : public bi::set_base_hook<> { int key; explicit item_set( int k ) : key( k ) {}
        friend bool operator<( item_set const& a, item_set const& b ) { return a.key < b.key; } };

    template <typename Set, typename Item, typename Policy>
    static void run( CaseIn const& c, Policy const& pol )
    {
        std::deque<Item> pool;
        std::vector<int> fin;
        {
            Set s( size_t( 1 ) << c.cfg[0], pol );
            for ( size_t j = 0; j + 1 < c.ops.size(); j += 2 ) {
                int k = (int) c.ops[j + 1], res = 0;
                switch ( c.ops[j] ) {
                case 1: pool.emplace_back( k ); res = s.insert( pool.back()) ? 1 : 0; break;
                case 2: res = s.erase( k ) != nullptr ? 1 : 0; break;
                default: res = s.contains( k ) ? 1 : 0; break;
                }
                print_op( j / 2, res, s, log2u( s.bucket_count()), g_hash.size());
            }
            s.clear_and_dispose( [&fin]( Item * p ) { fin.push_back( p->key ); } );
        }
        std::printf( "final" );
        for ( int k : fin ) std::printf( " %d", k );
        std::printf( "\n" );
    }

    template <typename Container, typename Item>
    static void run_container( CaseIn const& c )
    {
        if ( c.cfg[1] == 0 ) {
            typedef ci::striped_set::load_factor_resizing<0> pol_t;
            typedef ci::StripedSet< Container, cds::opt::hash<tab_hash>, cds::opt::compare<cmp_key>,
                cds::opt::resizing_policy<pol_t>, cds::opt::mutex_policy< ci::striped_set::striping<> > > set_t;
            run<set_t, Item>( c, pol_t( (size_t) c.cfg[2] ));
        }
        else {
            typedef ci::striped_set::single_bucket_size_threshold<0> pol_t;
            typedef ci::StripedSet< Container, cds::opt::hash<tab_hash>, cds::opt::compare<cmp_key>,
                cds::opt::resizing_policy<pol_t>, cds::opt::mutex_policy< ci::striped_set::refinable<> > > set_t;
            run<set_t, Item>( c, pol_t( (size_t) c.cfg[2] ));
        }
    }

    static void run_case( CaseIn const& c )
    {
        switch ( c.cfg.size() > 3 ? c.cfg[3] : 0 ) {
        case 1: run_container< bi::set<item_set, bi::compare<less_key> >, item_set >( c ); break;
        case 2: run_container< bi::slist<item_slist>, item_slist >( c ); break;
        default: run_container< bi::list<item_list>, item_list >( c ); break;
        }
    }
}

// ---------------------------------------------------------------------------------------------- split list
namespace split {
    struct nop_disposer { template <typename T> void operator()( T * ) const {} };

    template <typename OrdNode> struct item : public ci::split_list::node<OrdNode> { int key; explicit item( int k ) : key( k ) {} };

    // access to the protected parts of the real container: the ordered list with its dummy nodes, the bucket table,
    // m_nBucketCountLog2 and m_nMaxItemCount
    template <typename Set>
    struct probe : public Set
    {
        typedef typename Set::node_traits nt;
        probe( size_t n, size_t lf ) : Set( n, lf ) {}

        size_t capacity() const { return this->m_Buckets.capacity(); }
        size_t load_factor() const { return this->m_Buckets.load_factor(); }
        unsigned lg() const { return (unsigned) this->m_nBucketCountLog2.load( atomics::memory_order_relaxed ); }
        size_t max_items() const { return this->m_nMaxItemCount.load( atomics::memory_order_relaxed ); }
        size_t new_buckets() const { return (size_t) this->m_Stat.m_nBucketCount.get(); }
        size_t recursive_inits() const { return (size_t) this->m_Stat.m_nInitBucketRecursive.get(); }

        std::string layout()
        {
            std::vector<void const *> addr;
            std::string o = "list=";
            for ( auto it = this->m_List.begin(); it != this->m_List.end(); ++it ) {
                auto const * n = nt::to_node_ptr( *it );
                bool d = n->is_dummy();
                if ( !addr.empty()) o += ";";
                o += std::to_string( (unsigned long long) n->m_nHash ) + ( d ? ":1:" : ":0:" ) + std::to_string( d ? 0 : it->key );
                addr.push_back( static_cast<void const *>( n ));
            }
            o += " buckets=";
            bool first = true;
            for ( size_t b = 0; b < capacity(); ++b ) {
                auto * aux = this->m_Buckets.bucket( b );
                if ( !aux ) continue;
                void const * p = static_cast<void const *>( static_cast<typename Set::node_type const *>( aux ));
                size_t pos = 0;
                while ( pos < addr.size() && addr[pos] != p ) ++pos;
                if ( !first ) o += ",";
                o += std::to_string( b ) + ":" + std::to_string( pos );
                first = false;
            }
            return o;
        }
    };

    template <typename Set, typename Item>
    static void run( CaseIn const& c )
    {
        std::deque<Item> pool;
        std::vector<int> fin;
        bool sweep = c.cfg.size() > 4 ? c.cfg[4] != 0 : true;
        {
            probe<Set> s( (size_t) c.cfg[0], (size_t) c.cfg[1] );
            std::printf( "cap %zu lf %zu\n", s.capacity(), s.load_factor());
            for ( size_t j = 0; j + 1 < c.ops.size(); j += 2 ) {
                int k = (int) c.ops[j + 1], res = 0;
                size_t nb0 = s.new_buckets(), rec0 = s.recursive_inits();
                switch ( c.ops[j] ) {
                case 1: pool.emplace_back( k ); res = s.insert( pool.back()) ? 1 : 0; break;
                case 2: res = s.erase( k ) ? 1 : 0; break;
                default: res = s.contains( k ) ? 1 : 0; break;
                }
                // everything below is read BEFORE the sweep: contains() initialises buckets
                size_t nb1 = s.new_buckets(), rec1 = s.recursive_inits(), sz = s.size(), mx = s.max_items();
                unsigned lg = s.lg();
                std::string lay = s.layout();
                std::printf( "op %zu res=%d size=%zu lg=%u dropped= found=", j / 2, res, sz, lg );
                print_found( s, sweep ? g_hash.size() : 0 );
                if ( mx == std::numeric_limits<size_t>::max()) std::printf( "lay %zu max=inf", j / 2 );
                else std::printf( "lay %zu max=%zu", j / 2, mx );
                std::printf( " new=%zu rec=%zu %s\n", nb1 - nb0, rec1 - rec0, lay.c_str());
                if ( sweep ) std::printf( "lay2 %zu %s\n", j / 2, s.layout().c_str());
            }
            std::printf( "finalfound " );
            print_found( s, g_hash.size());
            std::printf( "finallay %s\n", s.layout().c_str());
            for ( auto it = s.begin(); it != s.end(); ++it ) fin.push_back( it->key );
        }
        gc_type::force_dispose();
        std::printf( "final" );
        for ( int k : fin ) std::printf( " %d", k );
        std::printf( "\n" );
    }

    template <bool Dynamic> struct set_traits : public ci::split_list::traits {
        typedef tab_hash hash;
        typedef cds::atomicity::item_counter item_counter;
        typedef ci::split_list::stat<> stat;
        enum { dynamic_bucket_table = Dynamic };
    };

    template <bool Dynamic>
    static void run_dyn( CaseIn const& c )
    {
        if ( c.cfg.size() > 3 && c.cfg[3] == 1 ) {
            typedef item< ci::lazy_list::node<gc_type> > item_t;
            struct list_traits : public ci::lazy_list::traits {
                typedef ci::lazy_list::base_hook< ci::opt::gc<gc_type> > hook;
                typedef cmp_key compare;
                typedef nop_disposer disposer;
            };
            typedef ci::LazyList< gc_type, item_t, list_traits > list_t;
            run< ci::SplitListSet< gc_type, list_t, set_traits<Dynamic> >, item_t >( c );
        }
        else {
            typedef item< ci::michael_list::node<gc_type> > item_t;
            struct list_traits : public ci::michael_list::traits {
                typedef ci::michael_list::base_hook< ci::opt::gc<gc_type> > hook;
                typedef cmp_key compare;
                typedef nop_disposer disposer;
            };
            typedef ci::MichaelList< gc_type, item_t, list_traits > list_t;
            run< ci::SplitListSet< gc_type, list_t, set_traits<Dynamic> >, item_t >( c );
        }
    }

    static void run_case( CaseIn const& c )
    {
        if ( c.cfg[2] ) run_dyn<true>( c ); else run_dyn<false>( c );
    }
}

// ---------------------------------------------------------------------------------------------- feldman
namespace feldman {
    struct nop_disposer { template <typename T> void operator()( T * ) const {} };

    template <typename H> struct item { int key; H hash; item( int k, H h ) : key( k ), hash( h ) {} };
    template <typename H> struct accessor { H const& operator()( item<H> const& i ) const { return i.hash; } };

    // access to the protected array nodes of the real container
    template <typename Set>
    struct probe : public Set
    {
        typedef typename Set::array_node array_node;
        typedef typename Set::node_ptr   node_ptr;
        probe( size_t h, size_t a ) : Set( h, a ) {}

        void walk( array_node * arr, size_t n, std::string& o )
        {
            for ( size_t i = 0; i < n; ++i ) {
                node_ptr slot = arr->nodes[i].load( atomics::memory_order_relaxed );
                if ( !o.empty()) o += " ";
                if ( slot.bits() == Set::flag_array_node ) {
                    o += "[";
                    walk( Set::to_array( slot.ptr()), this->array_node_size(), o );
                    o += " ]";
                }
                else if ( slot.bits()) o += "converting";
                else if ( slot.ptr()) o += std::to_string( (unsigned long long) slot.ptr()->hash );
                else o += "_";
            }
        }
        std::string tree() { std::string o; walk( this->head(), this->head_size(), o ); return o; }
    };

    template <typename H>
    static void run( CaseIn const& c )
    {
        struct traits : public ci::feldman_hashset::traits {
            typedef accessor<H> hash_accessor;
            typedef nop_disposer disposer;
            typedef cds::atomicity::item_counter item_counter;
        };
        typedef ci::FeldmanHashSet< gc_type, item<H>, traits > set_t;
        std::deque< item<H> > pool;
        std::vector<int> fin;
        std::vector<unsigned long long> finh;
        size_t nkeys = g_hash.size();
        {
            probe<set_t> s( (size_t) c.cfg[0], (size_t) c.cfg[1] );
            std::printf( "met %u %u\n", log2u( s.head_size()), log2u( s.array_node_size()));
            for ( size_t j = 0; j + 1 < c.ops.size(); j += 2 ) {
                int k = (int) c.ops[j + 1], res = 0;
                H hv = (H) g_hash[(size_t) k];
                switch ( c.ops[j] ) {
                case 1: pool.emplace_back( k, hv ); res = s.insert( pool.back()) ? 1 : 0; break;
                case 2: res = s.erase( hv ) ? 1 : 0; break;
                default: res = s.contains( hv ) ? 1 : 0; break;
                }
                std::printf( "op %zu res=%d size=%zu lg=0 dropped= found=", j / 2, res, s.size());
                bool first = true;
                for ( size_t q = 0; q < nkeys; ++q )
                    if ( s.contains( (H) g_hash[q] )) { std::printf( first ? "%zu" : ",%zu", q ); first = false; }
                std::printf( "\n" );
                std::printf( "tree %zu %s\n", j / 2, s.tree().c_str());
                std::vector< ci::feldman_hashset::level_statistics > st;
                s.get_level_statistics( st );
                std::printf( "ls %zu ", j / 2 );
                for ( size_t l = 0; l < st.size(); ++l )
                    std::printf( l ? ",%zu:%zu:%zu:%zu" : "%zu:%zu:%zu:%zu", st[l].array_node_count, st[l].data_cell_count, st[l].array_cell_count, st[l].empty_cell_count );
                std::printf( "\n" );
            }
            for ( auto it = s.begin(); it != s.end(); ++it ) { fin.push_back( it->key ); finh.push_back( (unsigned long long) it->hash ); }
        }
        gc_type::force_dispose();
        std::printf( "finalh" );
        for ( unsigned long long h : finh ) std::printf( " %llu", h );
        std::printf( "\nfinal" );
        for ( int k : fin ) std::printf( " %d", k );
        std::printf( "\n" );
    }

    static void run_case( CaseIn const& c )
    {
        switch ( c.cfg.size() > 2 ? c.cfg[2] : 32 ) {
        case 8:  run<uint8_t>( c ); break;
        case 16: run<uint16_t>( c ); break;
        case 64: run<uint64_t>( c ); break;
        default: run<uint32_t>( c ); break;
        }
    }
}

int main()
{
    cds::Initialize();
    {
        cds::gc::hp::GarbageCollector::Construct( 16, 1, 64 );
        cds::threading::Manager::attachThread();
        CaseIn c;
        std::string line;
        while ( std::getline( std::cin, line )) {
            std::istringstream ss( line );
            std::string kw; ss >> kw;
            long v;
            if ( kw == "case" ) { c = CaseIn(); ss >> c.id; g_hash.clear(); }
            else if ( kw == "family" ) { ss >> c.family; }
            else if ( kw == "cfg" ) { while ( ss >> v ) c.cfg.push_back( v ); }
            else if ( kw == "hash" ) { unsigned long long u; while ( ss >> u ) g_hash.push_back( (size_t) u ); }
            else if ( kw == "ops" ) { while ( ss >> v ) c.ops.push_back( v ); }
            else if ( kw == "end" ) {
                std::printf( "case %s\n", c.id.c_str());
                if ( c.family == "striped" ) striped::run_case( c );
                else if ( c.family == "split" ) split::run_case( c );
                else if ( c.family == "feldman" ) feldman::run_case( c );
                std::printf( "endcase\n" );
                std::fflush( stdout );
            }
        }
        cds::threading::Manager::detachThread();
        cds::gc::hp::GarbageCollector::Destruct( true );
    }
    cds::Terminate();
    return 0;
}
