// C17 — observable correspondence harness for cds::intrusive::CuckooSet (sequential, one thread).
// Reads the case format of ocaml/c17_main.ml (plus one line "impl <vector 0/1> <store_hash 0/1>"), runs the
// operations on the real container built from the current working tree and prints, after every operation,
//    op <j> res=<0|1> size=<size()> lg=<log2 bucket_count()> found=<keys of the universe found by contains()>
// and at the end of the case   final <keys in clear_and_dispose order>   (= table/bucket/probe-set order).
// Hash functors are lookup tables (g_hash[table][key]) drawn by the generator.
#include <cstring>
#include <cstdio>
#include <cstdlib>
#include <iostream>
#include <sstream>
#include <string>
#include <vector>
#include <deque>
#include <tuple>
#include <cds/intrusive/cuckoo_set.h>

namespace ci = cds::intrusive;
namespace cc = cds::intrusive::cuckoo;

static std::vector<std::vector<size_t>> g_hash;   // g_hash[table][key]

template <int I> struct tab_hash {
    template <typename T> size_t operator()( T const& v ) const { return g_hash[I][(size_t) v.key]; }
    size_t operator()( int k ) const { return g_hash[I][(size_t) k]; }
};

template <typename PS, unsigned SH> struct item : public cc::node<PS, SH> {
    int key;
    explicit item( int k ) : key( k ) {}
};

struct cmp_key {
    template <typename A, typename B> int operator()( A const& a, B const& b ) const { return k( a ) < k( b ) ? -1 : ( k( a ) > k( b ) ? 1 : 0 ); }
    template <typename T> static int k( T const& v ) { return v.key; }
    static int k( int v ) { return v; }
};
struct eq_key {
    template <typename A, typename B> bool operator()( A const& a, B const& b ) const { return cmp_key::k( a ) == cmp_key::k( b ); }
};

template <unsigned K> struct hash_of;
template <> struct hash_of<2> { typedef cds::opt::hash_tuple< tab_hash<0>, tab_hash<1> > type; };
template <> struct hash_of<3> { typedef cds::opt::hash_tuple< tab_hash<0>, tab_hash<1>, tab_hash<2> > type; };

template <typename PS, unsigned SH, unsigned K> struct traits_unord : public cc::traits {
    typedef cc::base_hook< cc::probeset_type<PS>, cc::store_hash<SH> > hook;
    typedef typename hash_of<K>::type hash;
    typedef eq_key equal_to;
    typedef cc::striping< std::recursive_mutex, K > mutex_policy;
};
template <typename PS, unsigned SH, unsigned K> struct traits_ord : public cc::traits {
    typedef cc::base_hook< cc::probeset_type<PS>, cc::store_hash<SH> > hook;
    typedef typename hash_of<K>::type hash;
    typedef cmp_key compare;
    typedef cc::refinable< std::recursive_mutex, K > mutex_policy;
};

struct CaseIn {
    std::string id;
    std::vector<long> cfg;      // arity psize thr ord lg0 fuel
    std::vector<long> impl;     // vector(0/1) store_hash(0/1)
    std::vector<long> ops;
};

static unsigned log2u( size_t n ) { unsigned l = 0; while ( ( size_t( 1 ) << l ) < n ) ++l; return l; }

template <typename Set, typename Item>
static void run_set( CaseIn const& c )
{
    size_t nkeys = g_hash[0].size();
    unsigned ps = (unsigned) c.cfg[1], thr = (unsigned) c.cfg[2];
    // constructor argument: 0 means "probe-set size - 1"; the effective threshold is what the model receives
    unsigned thr_arg = ( thr == ps - 1 && ( ps == 1 || ( c.impl.size() > 2 && c.impl[2] ))) ? 0 : thr;
    std::deque<Item> pool;   // nodes live until the end of the case; a fresh node for every insert
    std::vector<int> final_keys;
    {
        Set s( size_t( 1 ) << c.cfg[4], ps, thr_arg );
        for ( size_t j = 0; j + 1 < c.ops.size(); j += 2 ) {
            int k = (int) c.ops[j + 1];
            int res = 0;
            switch ( c.ops[j] ) {
            case 1: pool.emplace_back( k ); res = s.insert( pool.back()) ? 1 : 0; break;
            case 2: res = s.erase( k ) != nullptr ? 1 : 0; break;
            default: res = s.contains( k ) ? 1 : 0; break;
            }
            std::printf( "op %zu res=%d size=%zu lg=%u dropped= found=", j / 2, res, s.size(), log2u( s.bucket_count()));
            bool first = true;
            for ( size_t q = 0; q < nkeys; ++q )
                if ( s.contains( (int) q )) { std::printf( first ? "%zu" : ",%zu", q ); first = false; }
            std::printf( "\n" );
        }
        s.clear_and_dispose( [&final_keys]( Item * p ) { final_keys.push_back( p->key ); } );
    }
    std::printf( "final" );
    for ( int k : final_keys ) std::printf( " %d", k );
    std::printf( "\n" );
}

template <typename PS, unsigned K>
static void run_ps( CaseIn const& c )
{
    bool ord = c.cfg[3] != 0, sh = c.impl.size() > 1 && c.impl[1] != 0;
    if ( ord ) {
        if ( sh ) run_set< ci::CuckooSet< item<PS, K>, traits_ord<PS, K, K> >, item<PS, K> >( c );
        else      run_set< ci::CuckooSet< item<PS, 0>, traits_ord<PS, 0, K> >, item<PS, 0> >( c );
    }
    else {
        if ( sh ) run_set< ci::CuckooSet< item<PS, K>, traits_unord<PS, K, K> >, item<PS, K> >( c );
        else      run_set< ci::CuckooSet< item<PS, 0>, traits_unord<PS, 0, K> >, item<PS, 0> >( c );
    }
}

static void run_case( CaseIn const& c )
{
    std::printf( "case %s\n", c.id.c_str());
    bool vec = !c.impl.empty() && c.impl[0] != 0;
    long k = c.cfg[0], ps = c.cfg[1];
    if ( k == 3 ) {
        if ( !vec ) run_ps< cc::list, 3 >( c );
        else if ( ps == 2 ) run_ps< cc::vector<2>, 3 >( c );
        else std::printf( "unsupported\n" );
    }
    else if ( k == 2 ) {
        if ( !vec ) run_ps< cc::list, 2 >( c );
        else switch ( ps ) {
            case 1: run_ps< cc::vector<1>, 2 >( c ); break;
            case 2: run_ps< cc::vector<2>, 2 >( c ); break;
            case 3: run_ps< cc::vector<3>, 2 >( c ); break;
            case 4: run_ps< cc::vector<4>, 2 >( c ); break;
            default: std::printf( "unsupported\n" );
        }
    }
    else std::printf( "unsupported\n" );
    std::printf( "endcase\n" );
    std::fflush( stdout );
}

int main()
{
    CaseIn c;
    std::string line;
    while ( std::getline( std::cin, line )) {
        std::istringstream ss( line );
        std::string kw; ss >> kw;
        long v;
        if ( kw == "case" ) { c = CaseIn(); ss >> c.id; g_hash.clear(); }
        else if ( kw == "cfg" ) { while ( ss >> v ) c.cfg.push_back( v ); }
        else if ( kw == "impl" ) { while ( ss >> v ) c.impl.push_back( v ); }
        else if ( kw == "hash" ) { std::vector<size_t> t; while ( ss >> v ) t.push_back( (size_t) v ); g_hash.push_back( t ); }
        else if ( kw == "ops" ) { while ( ss >> v ) c.ops.push_back( v ); }
        else if ( kw == "end" ) run_case( c );
    }
    return 0;
}
