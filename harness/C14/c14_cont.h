// C14: adapters for the cds::container hash sets and maps (MichaelHashSet/Map, SplitListSet/Map, FeldmanHashSet/Map).
#ifndef VERIF_C14_CONT_H
#define VERIF_C14_CONT_H
#include "c14.h"

namespace c14 {

    // ================= value type, hash and comparators for the sets =========================================
    struct SetItem {
        long key;
        long val;
        SetItem() : key( 0 ), val( 0 ) {}
        SetItem( long k ) : key( k ), val( 0 ) {}
        SetItem( long k, long v ) : key( k ), val( v ) {}
    };
    struct set_hash {
        size_t operator()( long k ) const { return H( k ); }
        size_t operator()( SetItem const& i ) const { return H( i.key ); }
    };
    struct set_cmp {
        int operator()( SetItem const& a, SetItem const& b ) const { return a.key < b.key ? -1 : a.key > b.key ? 1 : 0; }
        int operator()( SetItem const& a, long b ) const { return a.key < b ? -1 : a.key > b ? 1 : 0; }
        int operator()( long a, SetItem const& b ) const { return a < b.key ? -1 : a > b.key ? 1 : 0; }
    };
    struct set_less {
        bool operator()( SetItem const& a, SetItem const& b ) const { return a.key < b.key; }
        bool operator()( SetItem const& a, long b ) const { return a.key < b; }
        bool operator()( long a, SetItem const& b ) const { return a < b.key; }
    };
    struct map_hash { size_t operator()( long k ) const { return H( k ); } };

    // Feldman set items carry their (table-driven, injective) 32-bit hash
    struct FItem {
        uint32_t hash;
        long key;
        long val;
        FItem() : hash( 0 ), key( 0 ), val( 0 ) {}
        FItem( long k ) : hash( (uint32_t) H( k )), key( k ), val( 0 ) {}
        FItem( long k, long v ) : hash( (uint32_t) H( k )), key( k ), val( v ) {}
    };
    struct fitem_hash { uint32_t const& operator()( FItem const& i ) const { return i.hash; } };
    // 6-byte hash: exercises split_bitstring / byte_splitter instead of number_splitter
    struct hash48 { uint8_t b[6]; };
    struct FItem48 {
        hash48 hash;
        long key;
        long val;
        static hash48 mk( long k ) { hash48 h; size_t x = H( k ); // low 32 bits first, two constant bytes on top
            h.b[0] = (uint8_t)( x ); h.b[1] = (uint8_t)( x >> 8 ); h.b[2] = (uint8_t)( x >> 16 ); h.b[3] = (uint8_t)( x >> 24 ); h.b[4] = 0xA5; h.b[5] = 0x5A; return h; }
        FItem48() : hash( mk( 0 )), key( 0 ), val( 0 ) {}
        FItem48( long k ) : hash( mk( k )), key( k ), val( 0 ) {}
        FItem48( long k, long v ) : hash( mk( k )), key( k ), val( v ) {}
    };
    struct fitem48_hash { hash48 const& operator()( FItem48 const& i ) const { return i.hash; } };
    struct fmap_hash { uint32_t operator()( long k ) const { return (uint32_t) H( k ); } };

    // ================= flavours ==================================================================================


    // builders: how a container of type C is constructed from the case configuration
    template <class C> struct BuildHash {      // MichaelHashSet/Map, SplitListSet/Map: ( item count, load factor )
        static C* make( std::vector<long> const& cfg ) { hash_setup( P( cfg, 1, 0 )); return new C( (size_t) P( cfg, 2, 8 ), (size_t) P( cfg, 3, 1 )); }
        static void info( C&, Hist& ) {}
    };
    template <class C> struct BuildSplit {     // SplitListSet/Map with split_list::stat<>: growth / bucket initialisation events of the case
        static C* make( std::vector<long> const& cfg ) { hash_setup( P( cfg, 1, 0 )); return new C( (size_t) P( cfg, 2, 8 ), (size_t) P( cfg, 3, 1 )); }
        static void info( C& c, Hist& h )
        {
            auto const& st = c.statistics();
            h.info( "new_bucket " + S( (long) st.m_nBucketCount.get()) + " grown4 " + S( (long) st.m_nBucketCount.get() >= 3 ? 1 : 0 )
                + " recursive_init " + S( (long) st.m_nInitBucketRecursive.get())
                + " init_contention " + S( (long) st.m_nInitBucketContention.get()) + " busy_wait_init " + S( (long) st.m_nBusyWaitBucketInit.get())
                + " buckets_exhausted " + S( (long) st.m_nBucketsExhausted.get()));
        }
    };
    template <class C> struct BuildFeldman {   // ( head bits, array bits ) - the constructor raises them to the minimums 4 / 2
        static C* make( std::vector<long> const& cfg ) { fhash_setup( P( cfg, 1, 0 )); return new C( (size_t) P( cfg, 2, 1 ), (size_t) P( cfg, 3, 1 )); }
        static void info( C& c, Hist& h )
        {
            auto const& st = c.statistics();
            h.info( "expand_ok " + S( (long) st.m_nExpandNodeSuccess.get()) + " expand_failed " + S( (long) st.m_nExpandNodeFailed.get())
                + " slot_changed " + S( (long) st.m_nSlotChanged.get()) + " slot_converting " + S( (long) st.m_nSlotConverting.get())
                + " deep3 " + S( (long) st.m_nHeight.get() >= 3 ? 1 : 0 ) + " deep6 " + S( (long) st.m_nHeight.get() >= 6 ? 1 : 0 ));
        }
    };

    // key argument passed to the container: the key itself, or (Feldman set) the hash value
    template <class C, ListKind LK> struct KeyArg { static long of( long k ) { return k; } };
    template <class C> struct KeyArg<C, LK_FELDMAN> { static typename C::hash_type of( long k ) { return typename C::value_type( k ).hash; } };

    // ================= SET adapter ===================================================================================
    template <class C, class Builder, Flavor FL, ListKind LK>
    struct SetAd;

    // ---- HP / DHP ------------------------------------------------------------------------------------------
    template <class C, class Builder, ListKind LK>
    struct SetAd<C, Builder, FL_HP, LK> {
        typedef typename C::value_type T;
        std::unique_ptr<C> s;
        SetAd( std::vector<long> const& cfg ) : s( Builder::make( cfg )) {}
        static unsigned opmask()
        {
            unsigned m = bit( OP_INSERT ) | bit( OP_INSERT_F ) | bit( OP_UPDATE ) | bit( OP_UPDATE_NOINS ) | bit( OP_EMPLACE ) | bit( OP_ERASE )
                | bit( OP_ERASE_F ) | bit( OP_EXTRACT ) | bit( OP_GET ) | bit( OP_FIND_F ) | bit( OP_CONTAINS );
            if ( LK == LK_ITER ) m |= bit( OP_UPSERT ) | bit( OP_UPSERT_NOINS );
            return m;
        }
        template <ListKind L> typename std::enable_if< L == LK_PLAIN, std::pair<bool, bool>>::type
        do_update( long k, long v, bool allow, int& calls, bool& isnew )
        {
            return s->update( T( k, v ), [&]( bool bNew, T& item, T const& ) { ++calls; isnew = bNew; if ( item.key != k ) calls += 100; }, allow );
        }
        template <ListKind L> typename std::enable_if< L != LK_PLAIN, std::pair<bool, bool>>::type
        do_update( long k, long v, bool allow, int& calls, bool& isnew )
        {
            return s->update( T( k, v ), [&]( T& item, T* old ) { ++calls; isnew = ( old == nullptr ); if ( item.key != k || ( old && old->key != k )) calls += 100; }, allow );
        }
        template <ListKind L> typename std::enable_if< L == LK_ITER, std::pair<bool, bool>>::type
        do_upsert( long k, long v, bool allow ) { return s->upsert( T( k, v ), allow ); }
        template <ListKind L> typename std::enable_if< L != LK_ITER, std::pair<bool, bool>>::type
        do_upsert( long, long, bool ) { return std::make_pair( false, false ); }
        template <ListKind L> typename std::enable_if< L != LK_FELDMAN, bool>::type
        do_find( long k, int& calls, long& seen )
        {
            return s->find( k, [&]( T& item, long const& ) { ++calls; seen = item.key; } );
        }
        template <ListKind L> typename std::enable_if< L == LK_FELDMAN, bool>::type
        do_find( long k, int& calls, long& seen )
        {
            return s->find( KeyArg<C, LK>::of( k ), [&]( T& item ) { ++calls; seen = item.key; } );
        }

        Done exec( int, int code, long k, long v, Hist& h )
        {
            Done d;
            auto ka = KeyArg<C, LK>::of( k );
            switch ( code ) {
            case OP_INSERT: d.op = "insert " + S( k ); d.res = rbool( s->insert( T( k, v ))); break;
            case OP_INSERT_F: {
                int calls = 0;
                bool r = s->insert( T( k, v ), [&]( T& item ) { ++calls; if ( item.key != k ) calls += 100; } );
                if ( calls != ( r ? 1 : 0 )) h.monitor( "functor insert key " + S( k ) + " calls " + S( calls ) + " ret " + S( r ));
                d.op = "insert " + S( k ); d.res = rbool( r ); break; }
            case OP_UPDATE: case OP_UPDATE_NOINS: {
                bool allow = code == OP_UPDATE; int calls = 0; bool isnew = false;
                std::pair<bool, bool> r = do_update<LK>( k, v, allow, calls, isnew );
                if ( calls != ( r.first ? 1 : 0 ) || ( r.first && isnew != r.second ))
                    h.monitor( "functor update key " + S( k ) + " calls " + S( calls ) + " new " + S( isnew ) + " ret " + S( r.first ) + S( r.second ));
                d.op = "update " + S( k ) + ( allow ? " 1" : " 0" ); d.res = rpair( r ); break; }
            case OP_UPSERT: case OP_UPSERT_NOINS: {
                bool allow = code == OP_UPSERT;
                d.op = "update " + S( k ) + ( allow ? " 1" : " 0" ); d.res = rpair( do_upsert<LK>( k, v, allow )); break; }
            case OP_EMPLACE: d.op = "insert " + S( k ); d.res = rbool( s->emplace( k, v )); break;
            case OP_ERASE: d.op = "erase " + S( k ); d.res = rbool( s->erase( ka )); break;
            case OP_ERASE_F: {
                int calls = 0; long seen = -1;
                bool r = s->erase( ka, [&]( T const& item ) { ++calls; seen = item.key; } );
                if ( calls != ( r ? 1 : 0 ) || ( r && seen != k )) h.monitor( "functor erase key " + S( k ) + " calls " + S( calls ) + " seen " + S( seen ));
                d.op = "erase " + S( k ); d.res = rbool( r ); break; }
            case OP_EXTRACT: {
                typename C::guarded_ptr gp( s->extract( ka ));
                bool r = !!gp;
                if ( r && gp->key != k ) h.monitor( "extract key " + S( k ) + " returned " + S( gp->key ));
                d.op = "erase " + S( k ); d.res = rbool( r ); break; }
            case OP_GET: {
                typename C::guarded_ptr gp( s->get( ka ));
                bool r = !!gp;
                if ( r && gp->key != k ) h.monitor( "get key " + S( k ) + " returned " + S( gp->key ));
                d.op = "contains " + S( k ); d.res = rbool( r ); break; }
            case OP_FIND_F: {
                int calls = 0; long seen = -1;
                bool r = do_find<LK>( k, calls, seen );
                if ( calls != ( r ? 1 : 0 ) || ( r && seen != k )) h.monitor( "functor find key " + S( k ) + " calls " + S( calls ) + " seen " + S( seen ));
                d.op = "contains " + S( k ); d.res = rbool( r ); break; }
            default:
            case OP_CONTAINS: d.op = "contains " + S( k ); d.res = rbool( s->contains( ka )); break;
            }
            return d;
        }
        void contents( std::vector<std::pair<long, long>>& out )
        {
            for ( auto it = s->begin(); it != s->end(); ++it ) out.push_back( std::make_pair( it->key, it->val ));
        }
        void info( Hist& h ) { Builder::info( *s, h ); }
    };

    // ---- RCU ---------------------------------------------------------------------------------------------------
    template <class C, class Builder, ListKind LK>
    struct SetAd<C, Builder, FL_RCU, LK> {
        typedef typename C::value_type T;
        typedef typename C::rcu_lock rcu_lock;
        std::unique_ptr<C> s;
        SetAd( std::vector<long> const& cfg ) : s( Builder::make( cfg )) {}
        static unsigned opmask()
        {
            return bit( OP_INSERT ) | bit( OP_INSERT_F ) | bit( OP_UPDATE ) | bit( OP_UPDATE_NOINS ) | bit( OP_EMPLACE ) | bit( OP_ERASE )
                | bit( OP_ERASE_F ) | bit( OP_EXTRACT ) | bit( OP_GET ) | bit( OP_FIND_F ) | bit( OP_CONTAINS );
        }
        template <ListKind L> typename std::enable_if< L == LK_PLAIN, std::pair<bool, bool>>::type
        do_update( long k, long v, bool allow, int& calls, bool& isnew )
        {
            return s->update( T( k, v ), [&]( bool bNew, T& item, T const& ) { ++calls; isnew = bNew; if ( item.key != k ) calls += 100; }, allow );
        }
        template <ListKind L> typename std::enable_if< L != LK_PLAIN, std::pair<bool, bool>>::type
        do_update( long k, long v, bool allow, int& calls, bool& isnew )
        {
            return s->update( T( k, v ), [&]( T& item, T* old ) { ++calls; isnew = ( old == nullptr ); if ( item.key != k || ( old && old->key != k )) calls += 100; }, allow );
        }
        template <ListKind L> typename std::enable_if< L != LK_FELDMAN, bool>::type
        do_find( long k, int& calls, long& seen ) { return s->find( k, [&]( T& item, long const& ) { ++calls; seen = item.key; } ); }
        template <ListKind L> typename std::enable_if< L == LK_FELDMAN, bool>::type
        do_find( long k, int& calls, long& seen ) { return s->find( KeyArg<C, LK>::of( k ), [&]( T& item ) { ++calls; seen = item.key; } ); }

        template <class CC> typename std::enable_if< CC::c_bExtractLockExternal, bool>::type
        do_extract( long k, long& got )
        {
            typename CC::exempt_ptr xp;
            { rcu_lock l; xp = s->extract( KeyArg<C, LK>::of( k )); }
            bool r = !!xp; if ( r ) got = xp->key; xp.release(); return r;
        }
        template <class CC> typename std::enable_if< !CC::c_bExtractLockExternal, bool>::type
        do_extract( long k, long& got )
        {
            typename CC::exempt_ptr xp( s->extract( KeyArg<C, LK>::of( k )));
            bool r = !!xp; if ( r ) got = xp->key; xp.release(); return r;
        }

        Done exec( int, int code, long k, long v, Hist& h )
        {
            Done d;
            auto ka = KeyArg<C, LK>::of( k );
            switch ( code ) {
            case OP_INSERT: d.op = "insert " + S( k ); d.res = rbool( s->insert( T( k, v ))); break;
            case OP_INSERT_F: {
                int calls = 0;
                bool r = s->insert( T( k, v ), [&]( T& item ) { ++calls; if ( item.key != k ) calls += 100; } );
                if ( calls != ( r ? 1 : 0 )) h.monitor( "functor insert key " + S( k ) + " calls " + S( calls ) + " ret " + S( r ));
                d.op = "insert " + S( k ); d.res = rbool( r ); break; }
            case OP_UPDATE: case OP_UPDATE_NOINS: {
                bool allow = code == OP_UPDATE; int calls = 0; bool isnew = false;
                std::pair<bool, bool> r = do_update<LK>( k, v, allow, calls, isnew );
                if ( calls != ( r.first ? 1 : 0 ) || ( r.first && isnew != r.second ))
                    h.monitor( "functor update key " + S( k ) + " calls " + S( calls ) + " new " + S( isnew ) + " ret " + S( r.first ) + S( r.second ));
                d.op = "update " + S( k ) + ( allow ? " 1" : " 0" ); d.res = rpair( r ); break; }
            case OP_EMPLACE: d.op = "insert " + S( k ); d.res = rbool( s->emplace( k, v )); break;
            case OP_ERASE: d.op = "erase " + S( k ); d.res = rbool( s->erase( ka )); break;
            case OP_ERASE_F: {
                int calls = 0; long seen = -1;
                bool r = s->erase( ka, [&]( T const& item ) { ++calls; seen = item.key; } );
                if ( calls != ( r ? 1 : 0 ) || ( r && seen != k )) h.monitor( "functor erase key " + S( k ) + " calls " + S( calls ) + " seen " + S( seen ));
                d.op = "erase " + S( k ); d.res = rbool( r ); break; }
            case OP_EXTRACT: {
                long got = k;
                bool r = do_extract<C>( k, got );
                if ( r && got != k ) h.monitor( "extract key " + S( k ) + " returned " + S( got ));
                d.op = "erase " + S( k ); d.res = rbool( r ); break; }
            case OP_GET: {
                bool r; long got = k;
                { rcu_lock l; auto rp = s->get( ka ); r = !!rp; if ( r ) got = rp->key; }
                if ( r && got != k ) h.monitor( "get key " + S( k ) + " returned " + S( got ));
                d.op = "contains " + S( k ); d.res = rbool( r ); break; }
            case OP_FIND_F: {
                int calls = 0; long seen = -1;
                bool r = do_find<LK>( k, calls, seen );
                if ( calls != ( r ? 1 : 0 ) || ( r && seen != k )) h.monitor( "functor find key " + S( k ) + " calls " + S( calls ) + " seen " + S( seen ));
                d.op = "contains " + S( k ); d.res = rbool( r ); break; }
            default:
            case OP_CONTAINS: d.op = "contains " + S( k ); d.res = rbool( s->contains( ka )); break;
            }
            return d;
        }
        void contents( std::vector<std::pair<long, long>>& out )
        {
            rcu_lock l;
            for ( auto it = s->begin(); it != s->end(); ++it ) out.push_back( std::make_pair( it->key, it->val ));
        }
        void info( Hist& h ) { Builder::info( *s, h ); }
    };

    // ---- nogc: persistent sets (no erase) -----------------------------------------------------------------------
    template <class C, class Builder, ListKind LK>
    struct SetAd<C, Builder, FL_NOGC, LK> {
        typedef typename C::value_type T;
        std::unique_ptr<C> s;
        SetAd( std::vector<long> const& cfg ) : s( Builder::make( cfg )) {}
        static unsigned opmask() { return bit( OP_INSERT ) | bit( OP_UPDATE ) | bit( OP_UPDATE_NOINS ) | bit( OP_EMPLACE ) | bit( OP_FIND_F ) | bit( OP_CONTAINS ); }
        Done exec( int, int code, long k, long v, Hist& h )
        {
            Done d;
            switch ( code ) {
            case OP_INSERT: d.op = "insert " + S( k ); d.res = rbool( s->insert( T( k, v )) != s->end()); break;
            case OP_UPDATE: case OP_UPDATE_NOINS: {
                bool allow = code == OP_UPDATE;
                auto r = s->update( T( k, v ), allow );
                bool ok = r.first != s->end();
                if ( ok && r.first->key != k ) h.monitor( "update key " + S( k ) + " returned " + S( r.first->key ));
                d.op = "update " + S( k ) + ( allow ? " 1" : " 0" ); d.res = rpair( std::make_pair( ok, r.second )); break; }
            case OP_EMPLACE: d.op = "insert " + S( k ); d.res = rbool( s->emplace( k, v ) != s->end()); break;
            case OP_FIND_F: {
                auto it = s->contains( k );
                bool r = it != s->end();
                if ( r && it->key != k ) h.monitor( "find key " + S( k ) + " returned " + S( it->key ));
                d.op = "contains " + S( k ); d.res = rbool( r ); break; }
            default:
            case OP_CONTAINS: d.op = "contains " + S( k ); d.res = rbool( s->contains( k ) != s->end()); break;
            }
            return d;
        }
        void contents( std::vector<std::pair<long, long>>& out )
        {
            for ( auto it = s->begin(); it != s->end(); ++it ) out.push_back( std::make_pair( it->key, it->val ));
        }
        void info( Hist& h ) { Builder::info( *s, h ); }
    };

    // ================= MAP adapter =================================================================================
    // value semantics (MapSpec): insert(k,v)/emplace(k,v) build the node before it is linked  -> MInsert k v
    //   insert_with(k,f): f is called after linking (documented), so it only counts calls        -> MInsert k 0
    //   update(k,f,allow), in-place lists (Michael/Lazy): f sets second=v on an existing item; a new item keeps 0
    //                      -> resolved by the outcome: MUpdate k 0 allow (inserted) / MUpdate k v allow (existed)
    //   update on replacing containers (Iterable, Feldman): the new node is linked with the default value -> MUpdate k 0 allow
    //   upsert(k,v,allow) (Iterable): node built with v before linking                            -> MUpdate k v allow
    template <class C, class Builder, Flavor FL, ListKind LK>
    struct MapAd;

    template <class C, class Builder, ListKind LK>
    struct MapAd<C, Builder, FL_HP, LK> {
        typedef typename C::value_type T;     // pair<const long, long>
        std::unique_ptr<C> s;
        MapAd( std::vector<long> const& cfg ) : s( Builder::make( cfg )) {}
        static unsigned opmask()
        {
            unsigned m = bit( OP_INSERT ) | bit( OP_INSERT_F ) | bit( OP_UPDATE ) | bit( OP_UPDATE_NOINS ) | bit( OP_EMPLACE ) | bit( OP_ERASE )
                | bit( OP_ERASE_F ) | bit( OP_EXTRACT ) | bit( OP_GET ) | bit( OP_FIND_F ) | bit( OP_CONTAINS );
            if ( LK == LK_ITER ) m |= bit( OP_UPSERT ) | bit( OP_UPSERT_NOINS );
            return m;
        }
        template <ListKind L> typename std::enable_if< L == LK_PLAIN, std::pair<bool, bool>>::type
        do_update( long k, long v, bool allow, int& calls, bool& isnew )
        {
            return s->update( k, [&]( bool bNew, T& item ) { ++calls; isnew = bNew; if ( item.first != k ) calls += 100; if ( !bNew ) item.second = v; }, allow );
        }
        template <ListKind L> typename std::enable_if< L != LK_PLAIN, std::pair<bool, bool>>::type
        do_update( long k, long, bool allow, int& calls, bool& isnew )
        {
            return s->update( k, [&]( T& item, T* old ) { ++calls; isnew = ( old == nullptr ); if ( item.first != k || ( old && old->first != k )) calls += 100; }, allow );
        }
        template <ListKind L> typename std::enable_if< L == LK_ITER, std::pair<bool, bool>>::type
        do_upsert( long k, long v, bool allow ) { return s->upsert( k, v, allow ); }
        template <ListKind L> typename std::enable_if< L != LK_ITER, std::pair<bool, bool>>::type
        do_upsert( long, long, bool ) { return std::make_pair( false, false ); }

        Done exec( int, int code, long k, long v, Hist& h )
        {
            Done d;
            switch ( code ) {
            case OP_INSERT: d.op = "insert " + S( k ) + " " + S( v ); d.res = rbool( s->insert( k, v )); break;
            case OP_INSERT_F: {
                int calls = 0;
                bool r = s->insert_with( k, [&]( T& item ) { ++calls; if ( item.first != k ) calls += 100; } );
                if ( calls != ( r ? 1 : 0 )) h.monitor( "functor insert_with key " + S( k ) + " calls " + S( calls ) + " ret " + S( r ));
                d.op = "insert " + S( k ) + " 0"; d.res = rbool( r ); break; }
            case OP_UPDATE: case OP_UPDATE_NOINS: {
                bool allow = code == OP_UPDATE; int calls = 0; bool isnew = false;
                std::pair<bool, bool> r = do_update<LK>( k, v, allow, calls, isnew );
                if ( calls != ( r.first ? 1 : 0 ) || ( r.first && isnew != r.second ))
                    h.monitor( "functor update key " + S( k ) + " calls " + S( calls ) + " new " + S( isnew ) + " ret " + S( r.first ) + S( r.second ));
                long written = ( LK == LK_PLAIN && !( r.first && r.second )) ? v : 0;
                d.op = "update " + S( k ) + " " + S( written ) + ( allow ? " 1" : " 0" ); d.res = rpair( r ); break; }
            case OP_UPSERT: case OP_UPSERT_NOINS: {
                bool allow = code == OP_UPSERT;
                d.op = "update " + S( k ) + " " + S( v ) + ( allow ? " 1" : " 0" ); d.res = rpair( do_upsert<LK>( k, v, allow )); break; }
            case OP_EMPLACE: d.op = "insert " + S( k ) + " " + S( v ); d.res = rbool( s->emplace( k, v )); break;
            case OP_ERASE: d.op = "erase " + S( k ); d.res = rbool( s->erase( k )); break;
            case OP_ERASE_F: {
                int calls = 0; long seen = -1;
                bool r = s->erase( k, [&]( T const& item ) { ++calls; seen = item.first; } );
                if ( calls != ( r ? 1 : 0 ) || ( r && seen != k )) h.monitor( "functor erase key " + S( k ) + " calls " + S( calls ) + " seen " + S( seen ));
                d.op = "erase " + S( k ); d.res = rbool( r ); break; }
            case OP_EXTRACT: {
                typename C::guarded_ptr gp( s->extract( k ));
                bool r = !!gp;
                if ( r && gp->first != k ) h.monitor( "extract key " + S( k ) + " returned " + S( gp->first ));
                d.op = "erase " + S( k ); d.res = rbool( r ); break; }
            case OP_GET: {
                typename C::guarded_ptr gp( s->get( k ));
                bool r = !!gp;
                if ( r && gp->first != k ) h.monitor( "get key " + S( k ) + " returned " + S( gp->first ));
                d.op = "find " + S( k ); d.res = ropt( r, r ? gp->second : 0 ); break; }
            case OP_FIND_F: {
                int calls = 0; long seen = -1, val = 0;
                bool r = s->find( k, [&]( T& item ) { ++calls; seen = item.first; val = item.second; } );
                if ( calls != ( r ? 1 : 0 ) || ( r && seen != k )) h.monitor( "functor find key " + S( k ) + " calls " + S( calls ) + " seen " + S( seen ));
                d.op = "find " + S( k ); d.res = ropt( r, val ); break; }
            default:
            case OP_CONTAINS: d.op = "contains " + S( k ); d.res = rbool( s->contains( k )); break;
            }
            return d;
        }
        void contents( std::vector<std::pair<long, long>>& out )
        {
            for ( auto it = s->begin(); it != s->end(); ++it ) out.push_back( std::make_pair( it->first, it->second ));
        }
        void info( Hist& h ) { Builder::info( *s, h ); }
    };

    template <class C, class Builder, ListKind LK>
    struct MapAd<C, Builder, FL_RCU, LK> {
        typedef typename C::value_type T;
        typedef typename C::rcu_lock rcu_lock;
        std::unique_ptr<C> s;
        MapAd( std::vector<long> const& cfg ) : s( Builder::make( cfg )) {}
        static unsigned opmask()
        {
            return bit( OP_INSERT ) | bit( OP_INSERT_F ) | bit( OP_UPDATE ) | bit( OP_UPDATE_NOINS ) | bit( OP_EMPLACE ) | bit( OP_ERASE )
                | bit( OP_ERASE_F ) | bit( OP_EXTRACT ) | bit( OP_GET ) | bit( OP_FIND_F ) | bit( OP_CONTAINS );
        }
        template <ListKind L> typename std::enable_if< L == LK_PLAIN, std::pair<bool, bool>>::type
        do_update( long k, long v, bool allow, int& calls, bool& isnew )
        {
            return s->update( k, [&]( bool bNew, T& item ) { ++calls; isnew = bNew; if ( item.first != k ) calls += 100; if ( !bNew ) item.second = v; }, allow );
        }
        template <ListKind L> typename std::enable_if< L != LK_PLAIN, std::pair<bool, bool>>::type
        do_update( long k, long, bool allow, int& calls, bool& isnew )
        {
            return s->update( k, [&]( T& item, T* old ) { ++calls; isnew = ( old == nullptr ); if ( item.first != k || ( old && old->first != k )) calls += 100; }, allow );
        }
        template <class CC> typename std::enable_if< CC::c_bExtractLockExternal, bool>::type
        do_extract( long k, long& got )
        {
            typename CC::exempt_ptr xp;
            { rcu_lock l; xp = s->extract( k ); }
            bool r = !!xp; if ( r ) got = xp->first; xp.release(); return r;
        }
        template <class CC> typename std::enable_if< !CC::c_bExtractLockExternal, bool>::type
        do_extract( long k, long& got )
        {
            typename CC::exempt_ptr xp( s->extract( k ));
            bool r = !!xp; if ( r ) got = xp->first; xp.release(); return r;
        }
        Done exec( int, int code, long k, long v, Hist& h )
        {
            Done d;
            switch ( code ) {
            case OP_INSERT: d.op = "insert " + S( k ) + " " + S( v ); d.res = rbool( s->insert( k, v )); break;
            case OP_INSERT_F: {
                int calls = 0;
                bool r = s->insert_with( k, [&]( T& item ) { ++calls; if ( item.first != k ) calls += 100; } );
                if ( calls != ( r ? 1 : 0 )) h.monitor( "functor insert_with key " + S( k ) + " calls " + S( calls ) + " ret " + S( r ));
                d.op = "insert " + S( k ) + " 0"; d.res = rbool( r ); break; }
            case OP_UPDATE: case OP_UPDATE_NOINS: {
                bool allow = code == OP_UPDATE; int calls = 0; bool isnew = false;
                std::pair<bool, bool> r = do_update<LK>( k, v, allow, calls, isnew );
                if ( calls != ( r.first ? 1 : 0 ) || ( r.first && isnew != r.second ))
                    h.monitor( "functor update key " + S( k ) + " calls " + S( calls ) + " new " + S( isnew ) + " ret " + S( r.first ) + S( r.second ));
                long written = ( LK == LK_PLAIN && !( r.first && r.second )) ? v : 0;
                d.op = "update " + S( k ) + " " + S( written ) + ( allow ? " 1" : " 0" ); d.res = rpair( r ); break; }
            case OP_EMPLACE: d.op = "insert " + S( k ) + " " + S( v ); d.res = rbool( s->emplace( k, v )); break;
            case OP_ERASE: d.op = "erase " + S( k ); d.res = rbool( s->erase( k )); break;
            case OP_ERASE_F: {
                int calls = 0; long seen = -1;
                bool r = s->erase( k, [&]( T const& item ) { ++calls; seen = item.first; } );
                if ( calls != ( r ? 1 : 0 ) || ( r && seen != k )) h.monitor( "functor erase key " + S( k ) + " calls " + S( calls ) + " seen " + S( seen ));
                d.op = "erase " + S( k ); d.res = rbool( r ); break; }
            case OP_EXTRACT: {
                long got = k;
                bool r = do_extract<C>( k, got );
                if ( r && got != k ) h.monitor( "extract key " + S( k ) + " returned " + S( got ));
                d.op = "erase " + S( k ); d.res = rbool( r ); break; }
            case OP_GET: {
                bool r; long got = k, val = 0;
                { rcu_lock l; auto rp = s->get( k ); r = !!rp; if ( r ) { got = rp->first; val = rp->second; } }
                if ( r && got != k ) h.monitor( "get key " + S( k ) + " returned " + S( got ));
                d.op = "find " + S( k ); d.res = ropt( r, val ); break; }
            case OP_FIND_F: {
                int calls = 0; long seen = -1, val = 0;
                bool r = s->find( k, [&]( T& item ) { ++calls; seen = item.first; val = item.second; } );
                if ( calls != ( r ? 1 : 0 ) || ( r && seen != k )) h.monitor( "functor find key " + S( k ) + " calls " + S( calls ) + " seen " + S( seen ));
                d.op = "find " + S( k ); d.res = ropt( r, val ); break; }
            default:
            case OP_CONTAINS: d.op = "contains " + S( k ); d.res = rbool( s->contains( k )); break;
            }
            return d;
        }
        void contents( std::vector<std::pair<long, long>>& out )
        {
            rcu_lock l;
            for ( auto it = s->begin(); it != s->end(); ++it ) out.push_back( std::make_pair( it->first, it->second ));
        }
        void info( Hist& h ) { Builder::info( *s, h ); }
    };

    template <class C, class Builder, ListKind LK>
    struct MapAd<C, Builder, FL_NOGC, LK> {
        typedef typename C::value_type T;
        std::unique_ptr<C> s;
        MapAd( std::vector<long> const& cfg ) : s( Builder::make( cfg )) {}
        static unsigned opmask() { return bit( OP_INSERT ) | bit( OP_INSERT_F ) | bit( OP_UPDATE ) | bit( OP_UPDATE_NOINS ) | bit( OP_EMPLACE ) | bit( OP_FIND_F ) | bit( OP_CONTAINS ); }
        Done exec( int, int code, long k, long v, Hist& h )
        {
            Done d;
            switch ( code ) {
            case OP_INSERT: d.op = "insert " + S( k ) + " " + S( v ); d.res = rbool( s->insert( k, v ) != s->end()); break;
            case OP_INSERT_F: {
                int calls = 0;
                bool r = s->insert_with( k, [&]( T& item ) { ++calls; if ( item.first != k ) calls += 100; } ) != s->end();
                if ( calls != ( r ? 1 : 0 )) h.monitor( "functor insert_with key " + S( k ) + " calls " + S( calls ) + " ret " + S( r ));
                d.op = "insert " + S( k ) + " 0"; d.res = rbool( r ); break; }
            case OP_UPDATE: case OP_UPDATE_NOINS: {
                // returns the iterator to the item; the value is left alone (new item: default 0), so the spec operation is
                // "update k <current value> allow": resolved with the value the item holds when the call returns
                bool allow = code == OP_UPDATE;
                auto r = s->update( k, allow );
                bool ok = r.first != s->end();
                if ( ok && r.first->first != k ) h.monitor( "update key " + S( k ) + " returned " + S( r.first->first ));
                long cur = ok ? r.first->second : 0;
                d.op = "update " + S( k ) + " " + S( cur ) + ( allow ? " 1" : " 0" ); d.res = rpair( std::make_pair( ok, r.second )); break; }
            case OP_EMPLACE: d.op = "insert " + S( k ) + " " + S( v ); d.res = rbool( s->emplace( k, v ) != s->end()); break;
            case OP_FIND_F: {
                auto it = s->contains( k );
                bool r = it != s->end();
                if ( r && it->first != k ) h.monitor( "find key " + S( k ) + " returned " + S( it->first ));
                d.op = "find " + S( k ); d.res = ropt( r, r ? it->second : 0 ); break; }
            default:
            case OP_CONTAINS: d.op = "contains " + S( k ); d.res = rbool( s->contains( k ) != s->end()); break;
            }
            return d;
        }
        void contents( std::vector<std::pair<long, long>>& out )
        {
            for ( auto it = s->begin(); it != s->end(); ++it ) out.push_back( std::make_pair( it->first, it->second ));
        }
        void info( Hist& h ) { Builder::info( *s, h ); }
    };
} // namespace c14
#endif
